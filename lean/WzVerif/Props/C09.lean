/-
C09 — the request body stream never over-reads, truncates or hangs.
Property theorems only (helper lemmas live in Lemmas/LimitedStream.lean).
-/
import WzVerif.Model.LimitedStream
import WzVerif.Lemmas.LimitedStream
import WzVerif.Gen.InputStream
import WzVerif.Gen.InputStreamFacts
import WzVerif.Model.InputStreamReq
import WzVerif.Lemmas.InputStreamReq
namespace Wz.Props.C09
open Wz Wz.LS Wz.Gen.InputStream

/-- the declared length is usable: CONTENT_LENGTH present and the request is not chunked -/
def hasLength (r : Row) : Bool := r.cl.isSome && !r.chunked

/-- The hand model of `get_input_stream` / `get_content_length` returns exactly what the live
function returned on every row of the regenerated table (complete product of CONTENT_LENGTH
spellings × chunked × wsgi.input_terminated × max_content_length × safe_fallback). -/
theorem table_matches_model :
    ∀ r ∈ table, getInputStream r.cl r.chunked r.terminated r.max r.safe = r.result := by
  decide +kernel

/-- Live table: a request with no usable length on a server that does not terminate its input
gets the empty stream when `safe_fallback` is on. -/
theorem table_no_length_empty :
    ∀ r ∈ table, hasLength r = false → r.terminated = false → r.safe = true → r.result = .empty := by
  decide +kernel

/-- Bool form of "declared length > max ⇒ 413" for one row -/
def overMaxOk (r : Row) : Bool :=
  match getContentLength r.cl r.chunked, r.max with
  | some n, some m => !(decide (n > m)) || r.result == .tooLarge
  | _, _ => true

/-- Live table: a declared length above `max_content_length` raises RequestEntityTooLarge,
whatever the other inputs are. -/
theorem table_over_max_413 :
    ∀ r ∈ table, ∀ n m, getContentLength r.cl r.chunked = some n → r.max = some m → n > m →
      r.result = .tooLarge := by
  intro r hr n m h1 h2 h3
  have key : table.all overMaxOk = true := by decide +kernel
  have := List.all_eq_true.mp key r hr
  simp only [overMaxOk, h1, h2] at this
  simpa [h3] using this

/-- Bool form of "terminated ∧ max ⇒ LimitedStream(max, is_max=True) (or 413)" for one row -/
def termMaxOk (r : Row) : Bool :=
  match r.max with
  | some m => !r.terminated || r.result == .limited m true || r.result == .tooLarge
  | none => true

/-- Live table: terminated input with a maximum is wrapped as `LimitedStream(max, is_max=True)`
(unless the declared length already exceeds the maximum, which is a 413). -/
theorem table_terminated_max :
    ∀ r ∈ table, ∀ m, r.terminated = true → r.max = some m →
      r.result = .limited m true ∨ r.result = .tooLarge := by
  intro r hr m h1 h2
  have key : table.all termMaxOk = true := by decide +kernel
  have := List.all_eq_true.mp key r hr
  simp only [termMaxOk, h2, h1] at this
  simpa using this

/-- Bool form of "a non-maximum limit is the parsed Content-Length, positive only for plain ASCII
digits" for one row -/
def declaredOk (r : Row) : Bool :=
  match r.result with
  | .limited n false =>
    getContentLength r.cl r.chunked == some n &&
      (n == 0 || (match r.cl with | some v => (Py.strip v).all isAsciiDigit | none => false))
  | _ => true

/-- Live table: a limit that is not a maximum is always the parsed Content-Length, and text that
is not plain ASCII digits (negative, garbage, `+5`, `1_0`, non-ASCII digits) limits the body to 0. -/
theorem table_declared_limit :
    ∀ r ∈ table, ∀ n, r.result = .limited n false →
      getContentLength r.cl r.chunked = some n ∧
      (n > 0 → ∃ v, r.cl = some v ∧ (Py.strip v).all isAsciiDigit = true) := by
  intro r hr n h
  have key : table.all declaredOk = true := by decide +kernel
  have := List.all_eq_true.mp key r hr
  simp only [declaredOk, h, Bool.and_eq_true, Bool.or_eq_true, beq_iff_eq] at this
  refine ⟨this.1, fun hn => ?_⟩
  rcases this.2 with h0 | h2
  · omega
  · cases hcl : r.cl with
    | none => simp [hcl] at h2
    | some v => exact ⟨v, rfl, by simpa [hcl] using h2⟩

/-! ### the model of `get_input_stream` for every input (not only the table rows) -/

/-- For every CONTENT_LENGTH text, maximum and flag combination: no usable length ∧ input not
terminated ∧ safe_fallback ⇒ the empty stream; declared length > max ⇒ 413;
terminated ∧ max ⇒ `LimitedStream(max, is_max=True)` unless 413; and a limit that is not a
maximum is always the declared length. -/
theorem get_input_stream_choice (cl : Option (List Char)) (chunked terminated safe : Bool)
    (max : Option Nat) :
    (getContentLength cl chunked = none → terminated = false → safe = true →
      getInputStream cl chunked terminated max safe = .empty) ∧
    (∀ n m, getContentLength cl chunked = some n → max = some m → n > m →
      getInputStream cl chunked terminated max safe = .tooLarge) ∧
    (∀ m, terminated = true → max = some m →
      getInputStream cl chunked terminated max safe = .limited m true ∨
      getInputStream cl chunked terminated max safe = .tooLarge) ∧
    (∀ n, getInputStream cl chunked terminated max safe = .limited n false →
      getContentLength cl chunked = some n ∧ terminated = false) := by
  refine ⟨?_, ?_, ?_, ?_⟩
  · intro h1 h2 h3
    simp [getInputStream, h1, h2, h3]
  · intro n m h1 h2 h3
    simp [getInputStream, h1, h2, h3]
  · intro m h1 h2
    subst h1 h2
    cases hn : getContentLength cl chunked with
    | none => simp [getInputStream, hn]
    | some n => by_cases hgt : n > m <;> simp [getInputStream, hn, hgt]
  · intro n h
    cases hn : getContentLength cl chunked with
    | none =>
      cases max <;> cases terminated <;> cases safe <;> simp [getInputStream, hn] at h
    | some k =>
      cases max with
      | none =>
        cases terminated <;> simp [getInputStream, hn] at h
        exact ⟨by rw [h], rfl⟩
      | some m =>
        by_cases hgt : k > m <;> cases terminated <;> simp [getInputStream, hn, hgt] at h
        exact ⟨by rw [h], rfl⟩

example : getInputStream none false false (some 4) true = .empty := by decide
example : getInputStream (some ['9']) false true (some 4) true = .tooLarge := by decide
example : getInputStream (some ['3']) false true (some 4) true = .limited 4 true := by decide
example : getInputStream (some ['3']) false false (some 4) true = .limited 3 false := by decide

/-- Chunked requests and absent headers have no usable length; anything else that is not plain
ASCII digits after stripping (negative, `+5`, `1_0`, non-ASCII digits, garbage) counts as 0. -/
theorem content_length_usable (cl : Option (List Char)) (chunked : Bool) :
    (getContentLength cl chunked = none ↔ (chunked = true ∨ cl = none)) ∧
    (∀ v n, cl = some v → getContentLength cl chunked = some n → 0 < n →
      (Py.strip v).all isAsciiDigit = true) := by
  constructor
  · unfold getContentLength
    cases chunked <;> cases cl <;> simp
    split <;> simp
  · intro v n hv h hn
    subst hv
    unfold getContentLength at h
    split at h
    · simp at h
    · simp only at h
      split at h
      · rename_i i hi
        simp only [Option.some.injEq] at h
        unfold plainInt at hi
        simp only at hi
        split at hi
        · rename_i ds hds
          split at hi
          · simp only [Option.some.injEq] at hi
            subst hi
            have : (-(digitsVal ds : Int)).toNat = 0 := by omega
            omega
          · simp at hi
        · split at hi
          · rename_i hcond
            simp only [Bool.and_eq_true] at hcond
            exact hcond.2
          · simp at hi
      · simp at h; omega

example : getContentLength (some ['1', '2']) false = some 12 := by decide
example : getContentLength (some ['-', '3']) false = some 0 := by decide
example : getContentLength (some [Char.ofNat 65301]) false = some 0 := by decide

/-! ### the stream object -/

/-- **Position never passes the limit**, after every sequence of `read(n)`, `read()`, `readline`,
`readlines`, `readinto`, `next`, `exhaust` calls and for every behaviour of the underlying stream
(fragmenting, returning nothing, raising), with or without `readinto`, maximum or declared length. -/
theorem pos_le_limit (data : Bytes) (script : List Beh) (limit : Nat) (isMax ri : Bool) (ops : List Op) :
    (finalState (fresh data script limit isMax ri) ops).pos ≤ limit := by
  obtain ⟨d, h⟩ := fresh_run data script limit isMax ri ops
  have := h.inv.pos_le
  rw [h.limit_eq] at this
  exact this

/-- **Bytes consumed from the server's input = position**: the wrapper never takes a byte from the
underlying stream that it does not account for (and therefore never more than `limit`). -/
theorem consumed_eq_pos (data : Bytes) (script : List Beh) (limit : Nat) (isMax ri : Bool) (ops : List Op) :
    (finalState (fresh data script limit isMax ri) ops).u.taken.length =
      (finalState (fresh data script limit isMax ri) ops).pos ∧
    (finalState (fresh data script limit isMax ri) ops).u.taken.length ≤ limit := by
  obtain ⟨d, h⟩ := fresh_run data script limit isMax ri ops
  have h1 := h.inv.pos_le
  rw [h.limit_eq] at h1
  have h2 := h.inv.consumed
  unfold finalState
  exact ⟨h2, by omega⟩

/-- **Output is the prefix of what the client sent**: everything `readinto` handed out so far is
`data[:pos]`, and nothing of the client's data is lost or reordered (taken ++ unread = data). -/
theorem output_is_prefix (data : Bytes) (script : List Beh) (limit : Nat) (isMax ri : Bool) (ops : List Op) :
    (finalState (fresh data script limit isMax ri) ops).out
      = data.take (finalState (fresh data script limit isMax ri) ops).pos ∧
    (finalState (fresh data script limit isMax ri) ops).u.taken
      ++ (finalState (fresh data script limit isMax ri) ops).u.data = data := by
  obtain ⟨d, h⟩ := fresh_run data script limit isMax ri ops
  unfold finalState
  constructor
  · rw [h.out_eq, h.pos_eq]
    conv => rhs; rw [h.data_eq]
    simp
  · rw [h.taken_eq]; exact h.data_eq.symm

/-- **No over-read**: every single request ever made to the underlying stream asked for at most
`limit - (bytes consumed before it)` bytes — on all three paths of `readinto`. -/
theorem no_overread (data : Bytes) (script : List Beh) (limit : Nat) (isMax ri : Bool) (ops : List Op) :
    ∀ p ∈ (finalState (fresh data script limit isMax ri) ops).u.log, p.1 + p.2 ≤ limit := by
  obtain ⟨d, h⟩ := fresh_run data script limit isMax ri ops
  intro p hp
  have := h.inv.no_overread p hp
  rw [h.limit_eq] at this
  exact this

/-- the request log is not trivially empty: a single `read(5)` with limit 3 asks for 3 bytes -/
example : (finalState (fresh [1, 2, 3, 4, 5] [] 3 false true) [.read 5]).u.log = [(0, 3)] := by decide

/-- **What the application receives**: the bytes returned by the operations never exceed the limit
in total; and as long as no operation raised, their concatenation is exactly `data[:pos]` — every
byte taken from the server's input was handed over, in order. -/
theorem yielded_is_prefix (data : Bytes) (script : List Beh) (limit : Nat) (isMax ri : Bool) (ops : List Op) :
    (yielded (runOps (fresh data script limit isMax ri) ops).1).length ≤ limit ∧
    (allOk (runOps (fresh data script limit isMax ri) ops).1 = true →
      yielded (runOps (fresh data script limit isMax ri) ops).1
        = data.take (runOps (fresh data script limit isMax ri) ops).2.pos) := by
  obtain ⟨d, h⟩ := fresh_run data script limit isMax ri ops
  have h1 := h.inv.pos_le
  rw [h.limit_eq] at h1
  have h2 := h.pos_eq
  have h3 := h.ylen
  refine ⟨by omega, fun ha => ?_⟩
  rw [h.yall ha, h.pos_eq]
  conv => rhs; rw [h.data_eq]
  simp

example : yielded (runOps (fresh [1, 2, 3, 4, 5] [.give 1] 4 false true) [.read 2, .readall]).1 = [1, 2, 3, 4] := by
  decide

/-- **Only the documented exceptions**: an operation raises nothing but ClientDisconnected,
RequestEntityTooLarge (only when the limit is a maximum) or `StopIteration` from `__next__`. -/
theorem only_expected_exceptions (s : St) (op : Op) (e : String) (h : (runOp s op).1 = .error e) :
    e = "ClientDisconnected" ∨ (e = "RequestEntityTooLarge" ∧ s.isMax = true) ∨
      (e = "StopIteration" ∧ op matches .next) := by
  obtain ⟨d, _, _, herr⟩ := runOp_spec s op
  rcases herr e h with (⟨h1, h2⟩ | h1) | h1
  · exact Or.inr (Or.inl ⟨h1, h2⟩)
  · exact Or.inl h1
  · subst h1
    cases op with
    | next => exact Or.inr (Or.inr ⟨rfl, rfl⟩)
    | read n =>
      rcases readinto_error (single_err h) with ⟨h1, _⟩ | h1 <;> simp at h1
    | readinto n =>
      rcases readinto_error (single_err h) with ⟨h1, _⟩ | h1 <;> simp at h1
    | readall =>
      obtain ⟨_, _, _, he⟩ := readall_spec s
      rcases he _ (single_err h) with ⟨h1, _⟩ | h1 <;> simp at h1
    | exhaust =>
      obtain ⟨_, _, _, he⟩ := exhaust_spec s
      rcases he _ (single_err h) with ⟨h1, _⟩ | h1 <;> simp at h1
    | readline l =>
      obtain ⟨_, _, _, he⟩ := readline_spec s l
      rcases he _ (single_err h) with ⟨h1, _⟩ | h1 <;> simp at h1
    | readlines hint =>
      obtain ⟨_, _, _, he⟩ := readlines_spec s hint
      rcases he _ h with ⟨h1, _⟩ | h1 <;> simp at h1

/-- **Short body ⇒ ClientDisconnected (one call)**: with a declared length (`is_max = False`) not yet
reached, a call whose underlying request is starved (zero bytes) or fails raises ClientDisconnected;
a failing underlying call does so under a maximum too. -/
theorem short_body_disconnect_step (s : St) (size : Nat) (hlim : s.pos < s.limit) :
    (s.isMax = false → ((s.u.call (request s size)).1 = .raised ∨ (s.u.call (request s size)).1 = .got []) →
      (readinto s size).1 = .error "ClientDisconnected") ∧
    ((s.u.call (request s size)).1 = .raised → (readinto s size).1 = .error "ClientDisconnected") :=
  ⟨fun hm h => readinto_starved hm (by omega) h, fun h => readinto_raised (by omega) h⟩

example : (readinto (fresh [] [] 5 false true) 3).1 = .error "ClientDisconnected" := by rfl
example : (readinto (fresh [1, 2] [.raise] 5 true false) 3).1 = .error "ClientDisconnected" := by rfl

/-- **Short body ⇒ ClientDisconnected (whole body)**: if the client sent fewer bytes than the
declared Content-Length, `read()` raises ClientDisconnected — whatever was read before and however
the underlying stream behaves; it can never return a silently truncated body. -/
theorem short_body_disconnect (data : Bytes) (script : List Beh) (limit : Nat) (ri : Bool) (ops : List Op)
    (hshort : data.length < limit) :
    (readall (finalState (fresh data script limit false ri) ops)).1 = .error "ClientDisconnected" := by
  obtain ⟨d, h⟩ := fresh_run data script limit false ri ops
  unfold finalState
  generalize (runOps (fresh data script limit false ri) ops).2 = s at h
  have hi := h.inv
  have hm : s.isMax = false := h.isMax_eq
  have hl : s.limit = limit := h.limit_eq
  have hlen : data.length = d.length + s.u.data.length := by
    conv => lhs; rw [h.data_eq]
    rw [List.length_append]
  have hp := h.pos_eq
  have hpos : s.pos < s.limit := by omega
  obtain ⟨d2, h2, hok, herr⟩ := readall_spec s
  cases hr : (readall s).1 with
  | error e =>
    rcases herr e hr with ⟨_, h3⟩ | h3
    · rw [hm] at h3; cases h3
    · rw [h3]
  | ok r =>
    exfalso
    unfold readall at hr h2
    have hnl : ¬ s.limit ≤ s.pos := by omega
    simp only [hnl, if_false] at hr h2
    have hend := readallLoop_declared (s.limit - s.pos + 1) s [] hm hi (by omega) r hr
    have hp2 := h2.pos_eq
    have hd2 := h2.data_eq
    have : s.u.data.length = d2.length + (readallLoop (s.limit - s.pos + 1) s []).2.u.data.length := by
      rw [hd2, List.length_append]
    omega

example : (readall (finalState (fresh [1, 2, 3] [.give 1] 5 false true) [.read 2])).1
    = .error "ClientDisconnected" := by rfl

/-- **Past the maximum ⇒ RequestEntityTooLarge**: once `max_content_length` bytes have been consumed,
every read operation (`read(n)`, `read()`, `readinto`, `readline`, `next`, `readlines`) raises
RequestEntityTooLarge and takes nothing more from the underlying stream. -/
theorem over_max_413 (s : St) (hm : s.isMax = true) (hlim : s.limit ≤ s.pos) (n : Nat) (hint : Option Nat) :
    runOp s (.read n) = (.error "RequestEntityTooLarge", s) ∧
    runOp s (.readinto n) = (.error "RequestEntityTooLarge", s) ∧
    runOp s .readall = (.error "RequestEntityTooLarge", s) ∧
    runOp s (.readline none) = (.error "RequestEntityTooLarge", s) ∧
    runOp s .next = (.error "RequestEntityTooLarge", s) ∧
    runOp s (.readlines hint) = (.error "RequestEntityTooLarge", s) := by
  have h1 : ∀ k, readinto s k = (.error "RequestEntityTooLarge", s) := fun k => readinto_at_max k hm hlim
  have hrl : readline s none = (.error "RequestEntityTooLarge", s) := by
    simp [readline, readlineLoop, reachedLimit, LS.read, h1]
  have hnx : next s = (.error "RequestEntityTooLarge", s) := by simp [next, hrl]
  refine ⟨by simp [runOp, LS.read, h1, single], by simp [runOp, h1, single], ?_, by simp [runOp, hrl, single],
    by simp [runOp, hnx, single], ?_⟩
  · simp [runOp, readall, hlim, onExhausted, hm, hook, single]
  · simp [runOp, readlines, readlinesLoop, hnx]

example : (runOp (finalState (fresh [1, 2, 3, 4] [] 3 true true) [.read 3]) (.read 1)).1
    = .error "RequestEntityTooLarge" := by rfl

/-- ... and a 413 is never raised before the maximum is reached. -/
theorem no_413_before_max (s : St) (size : Nat) (hlim : s.pos < s.limit) :
    (readinto s size).1 ≠ .error "RequestEntityTooLarge" := by
  intro h
  rcases readinto_error h with ⟨_, _, h3⟩ | h3
  · omega
  · simp at h3

/-- **`read()` is exact for a declared length**: when `read()` returns normally on a
`Content-Length`-limited stream it returns exactly the `limit - pos` bytes that were still due,
and they are the next bytes of the client's data — for every behaviour of the underlying stream. -/
theorem readall_exact_declared (s : St) (hi : Inv s) (hm : s.isMax = false) (r : Bytes)
    (h : (readall s).1 = .ok r) :
    r = s.u.data.take (s.limit - s.pos) ∧ r.length = s.limit - s.pos ∧ (readall s).2.pos = s.limit := by
  obtain ⟨d, h2, hok, _⟩ := readall_spec s
  have hr := hok r h
  subst hr
  have hposeq := h2.pos_eq
  have hdata := h2.data_eq
  have hend : (readall s).2.pos = s.limit := by
    unfold readall at h ⊢
    by_cases hl : s.limit ≤ s.pos
    · simp only [hl, if_true]; have := hi.pos_le; omega
    · simp only [hl, if_false] at h ⊢
      exact readallLoop_declared _ s [] hm hi (by omega) r h
  have hlen : r.length = s.limit - s.pos := by omega
  refine ⟨?_, hlen, hend⟩
  rw [hdata, ← hlen]; simp

/-- **`read()` is exact when the stream delivers**: if the underlying stream never fails and never
returns zero bytes while data remain (it may fragment arbitrarily), `read()` returns exactly the
unread data up to the limit — all of it under a maximum, `limit - pos` bytes of it for a declared
length that the client honoured. Termination is definitional (structural recursion on a fuel of
`limit - pos + 1`, which `readallLoop_fuel` shows is never the reason the loop stops). -/
theorem readall_exact (s : St) (hi : Inv s) (hf : Faithful s.u.script) (hlim : s.pos < s.limit)
    (hcase : s.isMax = true ∨ s.limit - s.pos ≤ s.u.data.length) :
    (readall s).1 = .ok (s.u.data.take (s.limit - s.pos)) := by
  unfold readall
  have : ¬ s.limit ≤ s.pos := by omega
  simp only [this, if_false]
  have := readallLoop_faithful (s.limit - s.pos + 1) s [] hf hi (by omega) hcase
  simpa using this

example : Faithful [.give 2, .give 1] := by
  intro b hb
  simp only [List.mem_cons, List.not_mem_nil, or_false] at hb
  rcases hb with rfl | rfl
  · exact ⟨2, rfl, by omega⟩
  · exact ⟨1, rfl, by omega⟩

example : (readall (fresh [1, 2, 3, 4, 5] [.give 2, .give 1] 4 false true)).1 = .ok [1, 2, 3, 4] := by rfl

/-- The property text asks that a body longer than the configured maximum *surfaces as*
RequestEntityTooLarge and is never silently truncated. At full strength — "an unbounded `read()` of a
body longer than the maximum never returns normally" — this is false: `readall`'s loop stops exactly
at the limit and returns the first `max` bytes; only a *further* read raises (known finding F09b,
`LimitedStream(BytesIO(b"x" * 11), 10, is_max=True).read()`). -/
theorem max_truncation_full_false :
    ¬ (∀ s : St, Inv s → s.isMax = true → s.pos < s.limit → s.limit - s.pos < s.u.data.length →
        ∀ r, (readall s).1 ≠ .ok r) := by
  intro h
  exact h (fresh [1, 2, 3] [] 2 true true) (fresh_inv ..) rfl (by decide) (by decide) [1, 2] rfl

/-- What does hold for a body longer than the maximum on a delivering stream: `read()` returns exactly
the first `limit - pos` bytes, leaves the object exactly at the limit, and from there every read
raises RequestEntityTooLarge — the excess is never delivered and never goes unnoticed by a caller
that reads until end-of-file; the single unbounded `read()` is the only call that does not report it. -/
theorem max_truncation_partial (s : St) (hi : Inv s) (hm : s.isMax = true) (hf : Faithful s.u.script)
    (hlim : s.pos < s.limit) (hlong : s.limit - s.pos < s.u.data.length) :
    (readall s).1 = .ok (s.u.data.take (s.limit - s.pos)) ∧ (readall s).2.pos = s.limit ∧
    ∀ n, readinto (readall s).2 n = (.error "RequestEntityTooLarge", (readall s).2) := by
  have h1 := readall_exact s hi hf hlim (Or.inl hm)
  obtain ⟨d, hadv, hok, _⟩ := readall_spec s
  have hd := hok _ h1
  have hpos : (readall s).2.pos = s.limit := by
    rw [hadv.pos_eq, ← hd, List.length_take]
    omega
  refine ⟨h1, hpos, fun n => ?_⟩
  exact readinto_at_max n (by rw [hadv.isMax_eq]; exact hm) (by rw [hadv.limit_eq, hpos]; exact Nat.le_refl _)

example : (readall (fresh [1, 2, 3] [] 2 true true)).1 = .ok [1, 2] := by rfl

/-- the loop bound of `readall` is not a truncation: any larger fuel gives the same result -/
theorem readall_fuel_irrelevant (s : St) (hi : Inv s) (g : Nat) (hg : s.limit - s.pos < g) :
    readallLoop g s [] = readallLoop (s.limit - s.pos + 1) s [] :=
  readallLoop_fuel g _ s [] hi hg (by omega)

/-! ### line-oriented reads (CPython's `IOBase.readline / __next__ / readlines` over `readinto`) -/

/-- **Lines are lines**: whatever the underlying stream does, a line returned by `readline(limit)`
contains a newline at most as its last byte and respects the size argument; `next()` never returns
an empty line; every line of `readlines(hint)` is non-empty and newline-terminated at most at its end.
Together with `yielded_is_prefix` (the concatenation of everything returned is `data[:pos]`, never
more than `limit` bytes) the lines are consecutive slices of the client's data cut after newlines. -/
theorem lines_are_lines (s : St) :
    (∀ lim l, (readline s lim).1 = .ok l → LineShaped l ∧ ∀ n, lim = some n → l.length ≤ n) ∧
    (∀ l, (next s).1 = .ok l → l ≠ [] ∧ LineShaped l) ∧
    (∀ hint ls, (readlines s hint).1 = .ok ls → ∀ l ∈ ls, l ≠ [] ∧ LineShaped l) := by
  refine ⟨fun lim l h => readline_shape s lim l h, fun l h => next_shape s l h, ?_⟩
  intro hint ls h
  unfold readlines at h
  exact readlinesLoop_shape _ s _ 0 [] ls (by simp) h

example : (runOps (fresh [97, 10, 98, 99, 10, 100] [.give 2] 5 false true) [.readline none, .readlines none]).1
    = [.ok [[97, 10]], .ok [[98, 99, 10]]] := by rfl

/-! ### observers, iteration, buffering wrappers -/

/-- **`tell()` is the number of bytes taken from the server's input, `is_exhausted` means exactly
"the limit has been reached"** — after every operation sequence and for every behaviour of the
underlying stream. (`readable()` is the constant `True`.) -/
theorem tell_is_consumed (data : Bytes) (script : List Beh) (limit : Nat) (isMax ri : Bool) (ops : List Op) :
    tell (finalState (fresh data script limit isMax ri) ops)
      = (finalState (fresh data script limit isMax ri) ops).u.taken.length ∧
    tell (finalState (fresh data script limit isMax ri) ops) ≤ limit ∧
    (isExhausted (finalState (fresh data script limit isMax ri) ops) = true ↔
      tell (finalState (fresh data script limit isMax ri) ops) = limit) ∧
    readable (finalState (fresh data script limit isMax ri) ops) = true := by
  obtain ⟨h1, h2⟩ := consumed_eq_pos data script limit isMax ri ops
  obtain ⟨d, h⟩ := fresh_run data script limit isMax ri ops
  have hl := h.limit_eq
  unfold finalState at h1 h2 ⊢
  refine ⟨h1.symm, by unfold tell; omega, ?_, rfl⟩
  unfold isExhausted tell
  rw [hl]
  simp only [decide_eq_true_eq]
  omega

example : tell (finalState (fresh [1, 2, 3, 4, 5] [.give 1] 4 false true) [.read 2, .read 2]) = 3 := by decide

/-- **`for line in stream` is a run of `__next__` calls** (so every theorem above about operation
sequences covers it), **and it always ends**: after finitely many non-empty, line-shaped lines
`__next__` raises — `StopIteration` (the normal end), ClientDisconnected, or RequestEntityTooLarge
under a maximum; the model's loop bound is never what stops it. -/
theorem iteration_is_next_run (s : St) (hi : Inv s) :
    iterAll s = runOps s (List.replicate (iterAll s).1.length Op.next) ∧
    ∃ (ls : List Bytes) (e : String),
      (iterAll s).1 = ls.map (fun l => (Except.ok [l] : LRes)) ++ [.error e] ∧
      (∀ l ∈ ls, l ≠ [] ∧ LineShaped l) ∧
      (e = "StopIteration" ∨ e = "ClientDisconnected" ∨ (e = "RequestEntityTooLarge" ∧ s.isMax = true)) := by
  refine ⟨iterLoop_eq_runOps _ s, ?_⟩
  obtain ⟨ls, e, h1, h2, h3⟩ := iterLoop_ends (s.limit - s.pos + 1) s hi (by omega)
  refine ⟨ls, e, h1, h2, ?_⟩
  rcases h3 with (⟨h3, h4⟩ | h3) | h3
  · exact Or.inr (Or.inr ⟨h3, h4⟩)
  · exact Or.inr (Or.inl h3)
  · exact Or.inl h3

example : (iterAll (fresh [97, 10, 98, 99, 10, 100] [.give 2] 5 false true)).1
    = [.ok [[97, 10]], .ok [[98, 99, 10]], .error "StopIteration"] := by rfl
example : (iterAll (fresh [97, 10, 98] [] 5 false true)).1 = [.ok [[97, 10]], .error "ClientDisconnected"] := by rfl

/-- **Any buffering wrapper** (`io.BufferedReader`, `io.TextIOWrapper`, a form parser, …) that
(recorded assumption, checked per case by stream `wrapped`) touches the `LimitedStream` only through
its read operations and hands its own caller nothing but bytes those operations returned, in order
(`outs` is a prefix of their concatenation): whatever call sequence it issues, its caller never
receives more than `limit` bytes, and what it receives is a prefix of what the client sent. -/
theorem wrapper_yields_prefix (data : Bytes) (script : List Beh) (limit : Nat) (isMax ri : Bool)
    (ops : List Op) (outs : Bytes)
    (hw : outs <+: yielded (runOps (fresh data script limit isMax ri) ops).1)
    (hok : allOk (runOps (fresh data script limit isMax ri) ops).1 = true) :
    outs.length ≤ limit ∧ outs <+: data := by
  obtain ⟨h1, h2⟩ := yielded_is_prefix data script limit isMax ri ops
  have h3 := h2 hok
  constructor
  · exact Nat.le_trans hw.length_le h1
  · rw [h3] at hw
    exact hw.trans (List.take_prefix _ _)

example : ([1, 2, 3] : Bytes) <+: yielded (runOps (fresh [1, 2, 3, 4, 5] [.give 1] 4 false true) [.read 2, .readall]).1 := by
  decide

/-! ### `Request.stream` / `get_data` / `form` / `close` — access histories on one Request object -/

open Wz.RB in
/-- **The Request glue never over-reads**, for every access history — `request.stream.<any read>`,
`get_data(cache, parse_form_data)`, `form` / `files` / `values` with a form parser issuing *any*
sequence of reads, `close()`, in any order and number — and every behaviour of `wsgi.input`: the
bytes taken from `wsgi.input` never exceed the limit `get_input_stream` chose (the declared
Content-Length, or `max_content_length` on a terminated input; **nothing at all** when there is no
usable length on a non-terminating server, or when the declared length exceeds the maximum), no
single request to `wsgi.input` could pass it, and no byte the client sent is lost or reordered. -/
theorem request_never_overreads (cl : Option (List Char)) (chunked terminated : Bool) (max : Option Nat)
    (ri wantForm : Bool) (data : Bytes) (script : List Beh) (hist : List ROp) :
    consumed (runROps (freshReq cl chunked terminated max ri wantForm data script) hist).2
      ≤ limitFor (getInputStream cl chunked terminated max true) data ∧
    (∀ p ∈ (runROps (freshReq cl chunked terminated max ri wantForm data script) hist).2.input.log,
      p.1 + p.2 ≤ limitFor (getInputStream cl chunked terminated max true) data) ∧
    (runROps (freshReq cl chunked terminated max ri wantForm data script) hist).2.input.taken
      ++ (runROps (freshReq cl chunked terminated max ri wantForm data script) hist).2.input.data = data := by
  have h := runROps_keeps hist _ (freshReq_inv cl chunked terminated max ri wantForm data script)
  have hc : choiceOf (runROps (freshReq cl chunked terminated max ri wantForm data script) hist).2
      = getInputStream cl chunked terminated max true := h.choice
  have hb := h.inv.bound
  have hl := h.inv.log
  rw [hc] at hb hl
  exact ⟨hb, hl, h.inv.orig⟩

open Wz.RB in
/-- the limit of `request_never_overreads` in the property's terms: 0 without a usable length on a
non-terminating server and when the declared length exceeds the maximum (413); the declared length
otherwise; the maximum on a terminated input -/
theorem request_limit_cases (cl : Option (List Char)) (chunked terminated : Bool) (max : Option Nat)
    (data : Bytes) :
    (getContentLength cl chunked = none → terminated = false →
      limitFor (getInputStream cl chunked terminated max true) data = 0) ∧
    (∀ n m, getContentLength cl chunked = some n → max = some m → n > m →
      limitFor (getInputStream cl chunked terminated max true) data = 0) ∧
    (∀ n, getContentLength cl chunked = some n → terminated = false →
      limitFor (getInputStream cl chunked terminated max true) data ≤ n) ∧
    (∀ m, terminated = true → max = some m →
      limitFor (getInputStream cl chunked terminated max true) data ≤ m) := by
  obtain ⟨h1, h2, h3, h4⟩ := get_input_stream_choice cl chunked terminated true max
  refine ⟨fun a b => by rw [h1 a b rfl]; rfl, fun n m a b c => by rw [h2 n m a b c]; rfl, ?_, ?_⟩
  · intro n hn ht
    subst ht
    cases max with
    | none => simp [getInputStream, hn, limitFor]
    | some m => by_cases hgt : n > m <;> simp [getInputStream, hn, hgt, limitFor]
  · intro m ht hm
    rcases h3 m ht hm with h | h <;> rw [h] <;> simp [limitFor]

open Wz.RB in
/-- **A history that neither caches nor parses is a stream history**: `request.stream.<op>` and
`request.get_data(cache=False)` calls on a Request whose body was given a `LimitedStream` return
exactly what the same operations (`get_data` = `read()`) return on that one `LimitedStream` over
`wsgi.input` — the glue adds no reads, drops no results and creates the wrapper once. Every theorem
above (`yielded_is_prefix`, `short_body_disconnect`, `over_max_413`, `readall_exact`, …) therefore
holds verbatim for "stream, then data", "data, then stream", etc. -/
theorem request_plain_history_is_stream_history (cl : Option (List Char)) (chunked terminated : Bool)
    (max : Option Nat) (ri wantForm : Bool) (data : Bytes) (script : List Beh) (n : Nat) (m : Bool)
    (hch : getInputStream cl chunked terminated max true = .limited n m) (ps : List Plain) :
    (runROps (freshReq cl chunked terminated max ri wantForm data script) (ps.map Plain.toR)).1
      = (runOps (fresh data script n m ri) (ps.map Plain.toOp)).1 := by
  cases ps with
  | nil => rfl
  | cons p ps =>
    have hm : makeStream (freshReq cl chunked terminated max ri wantForm data script)
        = .ok (true, fresh data script n m ri) := by
      simp [makeStream, freshReq, hch, fresh]
    have h0 := runROp_plain_unborn (r := freshReq cl chunked terminated max ri wantForm data script)
      rfl rfl hm p
    obtain ⟨h1, h2, h3⟩ := runROp_plain
      (r := { freshReq cl chunked terminated max ri wantForm data script with
              stream := some (true, fresh data script n m ri) }) rfl rfl p
    simp only [List.map_cons, runROps, runOps, h0]
    rw [h1, runROps_plain ps _ true _ h2 h3]

open Wz.RB in
/-- **A short body surfaces as ClientDisconnected at the Request level too**: when the client sent
fewer bytes than the declared Content-Length, then after *any* history of stream reads and uncached
`get_data` calls, `request.get_data(cache=False)` raises ClientDisconnected — the glue cannot turn the
short body into a silently truncated one. (With caching, `request_cached_data_stable` applies: data
can only have been cached by a `get_data` that returned normally, which for a short body none does.) -/
theorem request_short_body_disconnect (cl : Option (List Char)) (chunked terminated : Bool)
    (max : Option Nat) (ri wantForm : Bool) (data : Bytes) (script : List Beh) (n : Nat)
    (hch : getInputStream cl chunked terminated max true = .limited n false) (hshort : data.length < n)
    (ps : List Plain) :
    (runROps (freshReq cl chunked terminated max ri wantForm data script)
      ((ps ++ [Plain.d]).map Plain.toR)).1.getLast? = some (.error "ClientDisconnected") := by
  rw [request_plain_history_is_stream_history cl chunked terminated max ri wantForm data script n false hch]
  rw [List.map_append, runOps_append]
  have h := short_body_disconnect data script n ri (ps.map Plain.toOp) hshort
  simp only [List.map_cons, List.map_nil, Plain.toOp, runOps, runOp]
  rcases hr : readall (finalState (fresh data script n false ri) (List.map Plain.toOp ps)) with ⟨r, s'⟩
  rw [hr] at h
  simp only at h
  subst h
  simp [single]

open Wz.RB in
example : (runROps (freshReq (some ['9']) false false none true false [1, 2, 3] [])
    [.stream (.read 2), .getData false false []]).1 = [.ok [[1, 2]], .error "ClientDisconnected"] := by rfl

open Wz.RB in
example : (runROps (freshReq (some ['4']) false false none true false [1, 2, 3, 4, 5] [.give 1])
    [.stream (.read 2), .getData false false [], .getData false false []]).1
    = [.ok [[1]], .ok [[2, 3, 4]], .ok [[]]] := by rfl

open Wz.RB in
/-- **Cached data is stable**: once `get_data()` (with `cache=True`, the default; also `request.data`
/ `get_json()`) has returned, every later `get_data(...)` — whatever its flags, whatever happened in
between (stream reads, form parsing, `close()`) — returns the same bytes and takes nothing from
`wsgi.input`; and form parsing after cached data reads a private copy, never the input. -/
theorem request_cached_data_stable (r : RSt) (c : Bytes) (hc : r.cached = some c) (hist : List ROp)
    (cache parse : Bool) (pops : List Op) :
    (runROps r hist).2.cached = some c ∧
    runROp (runROps r hist).2 (.getData cache parse pops) = (.ok [c], (runROps r hist).2) ∧
    (loadForm r pops).2.input = r.input := by
  have key : ∀ (hist : List ROp) (r : RSt), r.cached = some c → (runROps r hist).2.cached = some c := by
    intro hist
    induction hist with
    | nil => intro r h; exact h
    | cons op ops ih =>
      intro r h
      simp only [runROps]
      apply ih
      cases op with
      | close => exact h
      | stream op =>
        simp only [runROp, accessStream]
        cases hs : r.stream with
        | some st => simpa [putStream] using h
        | none =>
          simp only
          cases makeStream r with
          | error e => exact h
          | ok p => simpa [putStream] using h
      | getData cache parse pops => simp [runROp, getData, h, runROp.single']
      | form pops =>
        simp only [runROp, loadForm]
        by_cases hf : r.formLoaded = true
        · simpa [hf] using h
        · by_cases hw : r.wantForm = true
          · simp only [hf, hw, h, Bool.false_eq_true, if_false, if_true]
            rcases runParser (memStream c) pops with ⟨e, st'⟩
            cases e <;> simpa using h
          · simp only [hf, hw, Bool.false_eq_true, if_false, accessStream]
            cases hs : r.stream with
            | some st => simpa using h
            | none =>
              simp only
              cases makeStream r with
              | error e => simpa using h
              | ok p => simpa using h
  have h1 := key hist r hc
  refine ⟨h1, by simp [runROp, getData, h1, runROp.single'], ?_⟩
  unfold loadForm
  by_cases hf : r.formLoaded = true
  · simp [hf]
  · by_cases hw : r.wantForm = true
    · simp only [hf, hw, hc, Bool.false_eq_true, if_false, if_true]
      rcases runParser (memStream c) pops with ⟨e, st'⟩
      cases e <;> rfl
    · simp only [hf, hw, Bool.false_eq_true, if_false, accessStream]
      cases hs : r.stream with
      | some st => rfl
      | none =>
        simp only
        cases makeStream r <;> rfl

open Wz.RB in
/-- `get_data(cache=True)` stores exactly what it returns -/
theorem request_get_data_caches (r : RSt) (parse : Bool) (pops : List Op) (b : Bytes) (r' : RSt)
    (h : getData r true parse pops = (.ok b, r')) : r'.cached = some b := by
  unfold getData at h
  cases hc : r.cached with
  | some c =>
    simp only [hc, Prod.mk.injEq, Except.ok.injEq] at h
    rw [← h.2, hc, h.1]
  | none =>
    simp only [hc] at h
    rcases hl : (if parse = true then loadForm r pops else (none, r)) with ⟨e, r1⟩
    rw [hl] at h
    cases e with
    | some e => simp at h
    | none =>
      simp only at h
      rcases ha : accessStream r1 with ⟨res, r2⟩
      rw [ha] at h
      cases res with
      | error e => simp at h
      | ok p =>
        obtain ⟨live, st⟩ := p
        simp only at h
        rcases hr : readall st with ⟨res2, st'⟩
        rw [hr] at h
        cases res2 with
        | error e => simp at h
        | ok b' =>
          simp only [if_true, Prod.mk.injEq, Except.ok.injEq] at h
          rw [← h.2, h.1]

open Wz.RB in
/-- **Declared length above `max_content_length`**: every access to the body — `stream`, `get_data`,
`form` — raises RequestEntityTooLarge, again on every further access (the failed `stream` property is
not cached), and the object and `wsgi.input` stay untouched; `close()` is always a no-op for the body. -/
theorem request_too_large_every_access (r : RSt) (hs : r.stream = none) (hc : r.cached = none)
    (hf : r.formLoaded = false) (hch : choiceOf r = .tooLarge) (op : ROp) :
    runROp r op = (.error "RequestEntityTooLarge", r) ∨ (op matches .close ∧ runROp r op = (.ok [], r)) := by
  have hm : makeStream r = .error "RequestEntityTooLarge" := by
    unfold choiceOf at hch
    simp [makeStream, hch]
  cases op with
  | close => exact Or.inr ⟨rfl, rfl⟩
  | stream op => left; simp [runROp, accessStream, hs, hm]
  | form pops =>
    left
    by_cases hw : r.wantForm = true <;> simp [runROp, loadForm, hf, hw, hc, accessStream, hs, hm]
  | getData cache parse pops =>
    left
    cases parse with
    | false => simp [runROp, getData, hc, accessStream, hs, hm, runROp.single']
    | true =>
      by_cases hw : r.wantForm = true <;>
        simp [runROp, getData, hc, loadForm, hf, hw, accessStream, hs, hm, runROp.single']

open Wz.RB in
example : (runROps (freshReq (some ['9']) false false (some 4) true true [1, 2, 3, 4, 5, 6, 7, 8, 9] [])
    [.stream (.read 2), .getData true true [.readall], .form [.readall], .close]).1
    = [.error "RequestEntityTooLarge", .error "RequestEntityTooLarge", .error "RequestEntityTooLarge", .ok []] := by
  rfl

open Wz.RB in
/-- form first, then data: the parser (here: one `read()`) drains the declared length, `get_data()`
afterwards returns `b""` without an error and without touching the input again; data first, then
form: the parser reads the cached copy -/
example : (runROps (freshReq (some ['3']) false false none true true [1, 2, 3, 4] [])
    [.form [.readall], .getData true false [], .stream (.read 5)]).1 = [.ok [], .ok [[]], .ok [[]]] ∧
    consumed (runROps (freshReq (some ['3']) false false none true true [1, 2, 3, 4] [])
    [.form [.readall], .getData true false [], .stream (.read 5)]).2 = 3 := by
  constructor <;> rfl

open Wz.RB in
example : (runROps (freshReq (some ['3']) false false none true true [1, 2, 3, 4] [])
    [.getData true false [], .form [.readall], .getData false true [], .stream (.read 5)]).1
    = [.ok [[1, 2, 3]], .ok [], .ok [[1, 2, 3]], .ok [[]]] := by rfl

/-! ### structure of the source the hand model transcribes (AST facts, regenerated on every run) -/

open Wz.Gen.InputStreamFacts in
/-- **The model's transcription of `LimitedStream` and of the Request glue matches the shape of the
live source**: `readall` loops over `self.read(65536)`; each of the three paths of `readinto` that
touch the underlying stream catches exactly `(OSError, ValueError)`; `_pos` is assigned in
`__init__` and once in `readinto` only; `is_exhausted` is `_pos >= limit`; `on_exhausted` raises
RequestEntityTooLarge iff the limit is a maximum; `on_disconnect` raises ClientDisconnected unless
the limit is a maximum and no error occurred; `exhaust` reads iff not exhausted; `tell` is `_pos`.
`Request.stream` is `get_input_stream(environ, max_content_length=self.max_content_length)` with the
safe fallback left on; `get_data` starts from `_cached_data`, reads `self.stream.read()` once and only
when nothing is cached, parses the form only under `parse_form_data` and before the read, caches only
under `cache`; `_get_stream_for_parsing` hands the parser a `BytesIO` copy of cached data;
`_load_form_data` runs once and stores the parser's stream; `close()` touches neither stream nor cache. -/
theorem stream_source_structure :
    readallChunk = 65536 ∧ readintoHandlers = 3 ∧ readintoCatches = ["OSError", "ValueError"] ∧ posWrites = 2 ∧
    exhaustedIsGe = true ∧ exhaustedRaisesIffMax = true ∧ disconnectRaisesUnlessCleanMax = true ∧
    exhaustReadsUnlessExhausted = true ∧ tellIsPos = true ∧ streamIsGuardedInput = true ∧
    getDataReadsStreamOnce = true ∧ getDataCachesUnderFlag = true ∧ getDataParsesUnderFlag = true ∧
    parsingUsesCachedCopy = true ∧ closeTouchesOnlyFiles = true ∧ loadFormStoresParserStream = true := by
  decide

end Wz.Props.C09
