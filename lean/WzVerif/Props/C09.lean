/- C09 property theorems (not written yet) -/
namespace Wz.Props.C09
end Wz.Props.C09
