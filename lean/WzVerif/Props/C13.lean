/-
C13 — cookie values round-trip and cannot inject attributes.
Property theorems only (helper lemmas live in Lemmas/Cookie.lean).

Model: `Model/Cookie.lean` (`dumpValue`, `dumpCookie`, `parseCookie`), `Model/CookieAttrs.lean`
(`dump_cookie`'s argument normalisation, `Response.set_cookie` / `delete_cookie`),
`Model/CookieJar.lean` (the test client's jar); tables `Gen/Cookie.lean` (the live
`_cookie_no_quote_re`, `_cookie_slash_re`, `_cookie_slash_map`, `_cookie_unslash_re`) and
`Gen/CookieGlue.lean` (AST facts and small decision tables of the glue) are regenerated on every run.

Clause -> theorem map (property text in /verif/properties.jsonl):
  "any text value ... comes back unchanged ... for all of Unicode"      cookie_roundtrip, environ_roundtrip, jar_roundtrip
  "emitted value is pure ASCII, every non-cookie-octet escaped in quotes" escape_table_safe, dump_value_safe, dump_value_inert
                                                                          (SP: escape_table_full_false / _only_sp = F13b)
  "never end the pair or smuggle attributes"                              dump_value_inert, attributes_exact(_full), quote_path_safe
  "exactly the requested attributes, canonically spelled, fixed order"   attributes_exact_full, attr_order_table, samesite_*,
                                                                          max_age_forms, expires_forms, domain_pipeline,
                                                                          partitioned_implies_secure, max_size_warning_only
  quantifier "sans-io and environ-level parser"                           cookie_roundtrip / environ_roundtrip, duplicates_*
  quantifier "through the test client's jar"                              jar_reads_*, jar_history_roundtrip, jar_set_then_request,
                                                                          domain_match_iff, path_match_iff, default_path_matches
  anchors sansio/response.py                                              set_cookie_appends, set_cookie_parses_back,
                                                                          delete_cookie_header, jar_delete_addresses_slot
-/
import WzVerif.Lemmas.CookieHistory
namespace Wz.Props.C13
open Wz Wz.Cookie

/-! ## the escape tables (complete 256-row tables, `decide +kernel`) -/

/-- Every byte outside cookie-octet ∪ {SP} is matched by the live `_cookie_slash_re` and mapped by
the live `_cookie_slash_map` to its documented escape (`\"`, `\\`, or `\ooo`); every other byte is
left alone. -/
theorem escape_table_safe :
    ∀ n, n < 256 →
      (if cookieOctet n || n == 0x20 then inSlashSet (UInt8.ofNat n) = false
       else inSlashSet (UInt8.ofNat n) = true ∧ slashEntry (UInt8.ofNat n) = some (expectedEscape n)) :=
  table_escape

/-- The property text asks for *every* non-cookie-octet to be escaped. That full-strength form is
false for exactly SP (0x20), which `dump_cookie` emits raw inside the quotes (known finding F13b,
pinned by tests/test_http.py::test_dump_cookie). -/
theorem escape_table_full_false :
    ¬ (∀ n, n < 256 → cookieOctet n = false → inSlashSet (UInt8.ofNat n) = true) := by
  intro h
  exact absurd (h 0x20 (by decide) (by decide)) (by decide)

/-- ... and SP is the only such byte. -/
theorem escape_table_only_sp :
    ∀ n, n < 256 → cookieOctet n = false → inSlashSet (UInt8.ofNat n) = false → n = 0x20 := by
  decide +kernel

/-- The characters that may stay unquoted are cookie-octets (so an unquoted value cannot contain
`;`, `,`, `"`, `\`, white space, controls or non-ASCII), and nothing above U+00FF is exempt. -/
theorem no_quote_table_safe :
    Gen.Cookie.noQuoteHigh = false ∧
    ∀ n, n < 256 → tbl Gen.Cookie.noQuote n = true → cookieOctet n = true := by
  refine ⟨by decide, ?_⟩
  decide +kernel

/-- The per-character tables describe the live regexes completely: the no-quote pattern is a single
character class under `*` applied with `fullmatch`, the slash pattern a single class applied per byte
with `sub` (checked by the translator on the parsed patterns and on `dump_cookie`'s AST). -/
theorem regex_shapes :
    Gen.Cookie.noQuoteIsClassStar = true ∧ Gen.Cookie.slashIsClass = true ∧
    Gen.Cookie.dumpUsesFullmatchAndSub = true := by decide

/-- The `safe=` set that `dump_cookie` passes to `urllib.parse.quote` for the Path attribute contains
none of the characters that could end the attribute or the header line (`;`, `,`, SP, `"`, `\`,
controls, non-ASCII): with `quote` percent-encoding everything outside `safe` ∪ unreserved
(assumption about urllib, validated by stream `attrs`), a Path value cannot inject attributes. -/
theorem path_safe_excludes_separators :
    Gen.Cookie.pathSafe.toList.all
      (fun c => 0x21 ≤ c.toNat && c.toNat ≤ 0x7E && c != ';' && c != '"' && c != '\\') = true := by
  decide +kernel

/-! ## every value -/

/-- one token of a quoted cookie value: a raw cookie-octet or SP, or one of the three escapes -/
def safeToken (t : List Char) : Bool :=
  match t with
  | [c] => plainByte c.toNat
  | ['\\', '"'] => true
  | ['\\', '\\'] => true
  | ['\\', a, b, c] => ('0' ≤ a && a ≤ '3') && ('0' ≤ b && b ≤ '7') && ('0' ≤ c && c ≤ '7')
  | _ => false

/-- the text between the quotes is a sequence of safe tokens: no raw `"`, `;`, `,`, `\`, control
or non-ASCII character can occur outside an escape -/
def SafeBody (body : List Char) : Prop :=
  ∃ toks : List (List Char), body = toks.flatten ∧ ∀ t ∈ toks, safeToken t = true

theorem token_table : ∀ n, n < 256 → safeToken (escChars n) = true := by decide +kernel

/-- `dump_cookie` never fails on the value, for any Unicode text: the escape map has an entry for
every byte the regex selects and the escaped text is ASCII. -/
theorem dump_value_total (v : List Char) : ∃ out, dumpValue v = .ok out := by
  by_cases h : v.all noQuoteChar = true
  · exact ⟨v, by simp [dumpValue, h]⟩
  · exact ⟨_, dumpValue_quoted v (by simpa using h)⟩

/-- For every Unicode value the emitted cookie value is either the value itself, consisting of
cookie-octets only, or a quoted string whose inside is a sequence of safe tokens — so it can
never end the cookie pair or start an attribute. -/
theorem dump_value_safe (v out : List Char) (h : dumpValue v = .ok out) :
    (out = v ∧ ∀ c ∈ v, cookieOctet c.toNat = true) ∨
    (∃ body, out = '"' :: body ++ ['"'] ∧ SafeBody body) := by
  by_cases hq : v.all noQuoteChar = true
  · left
    have : dumpValue v = .ok v := by simp [dumpValue, hq]
    rw [this] at h
    refine ⟨(Except.ok.inj h).symm, fun c hc => ?_⟩
    exact (noQuoteChar_facts c (List.all_eq_true.mp hq c hc)).1
  · right
    rw [dumpValue_quoted v (by simpa using hq)] at h
    refine ⟨_, (Except.ok.inj h).symm, ((utf8Enc v).map UInt8.toNat).map escChars, ?_, ?_⟩
    · simp [List.flatMap, List.flatten]
    · intro t ht
      simp only [List.mem_map] at ht
      obtain ⟨n, ⟨b, _, rfl⟩, rfl⟩ := ht
      exact token_table _ b.toNat_lt

theorem inert_table : ∀ n, n < 256 → (escChars n).all inertChar = true := inert_table'

theorem octet_inert : ∀ n, n < 256 → cookieOctet n = true → inertChar (Char.ofNat n) = true := octet_inert'

/-- Whatever the value, the emitted text is printable ASCII and contains neither `;` nor `,`
(`inertChar`): splitting the `Set-Cookie` header at `;` therefore always yields the pair first and then
exactly the attributes `dump_cookie` appended (`dumpCookie` joins them in the fixed order Domain, Expires,
Max-Age, Secure, HttpOnly, Path, SameSite, Partitioned). -/
theorem dump_value_inert (v out : List Char) (h : dumpValue v = .ok out) :
    out.all inertChar = true := dumpValue_inert v out h

example : (match dumpValue "a;b\"c é".toList with
    | .ok r => r == "\"a\\073b\\\"c \\303\\251\"".toList | .error _ => false) = true := by decide +kernel

/-- **Round trip.** For every valid name (non-empty, no `=`, `;`, white space — a superset of RFC 6265
tokens) and every Unicode value, parsing the emitted pair as a request `Cookie` header (sans-io
parser) returns exactly that name and value. -/
theorem cookie_roundtrip (k v hv : List Char) (hk : ValidKey k) (h : dumpValue v = .ok hv) :
    parseCookie (k ++ '=' :: hv) = [(k, v)] := pair_roundtrip k v hv hk h

/-- the hypotheses of `cookie_roundtrip` are satisfiable, for a value that needs every kind of escape -/
example : ValidKey "sid".toList ∧ ∃ hv, dumpValue "a;b\"c\\ é\x00".toList = .ok hv :=
  ⟨⟨by decide, by decide⟩, dump_value_total _⟩

/-- **Round trip through a jar.** For every non-empty list of cookies (valid names, arbitrary
Unicode values), the `Cookie:` header a client builds by joining the emitted pairs with `; `
parses back to exactly those names and values, in order: no value can end its pair, swallow a
neighbour or inject one. -/
theorem jar_roundtrip (items : List (List Char × List Char × List Char)) (hne : items ≠ [])
    (h : ∀ it ∈ items, ValidKey it.1 ∧ dumpValue it.2.1 = .ok it.2.2) :
    parseCookie (jarText (items.map fun it => (it.1, it.2.2))) = items.map fun it => (it.1, it.2.1) :=
  jarText_roundtrip items hne h

example : ∃ items : List (List Char × List Char × List Char), items ≠ [] ∧
    ∀ it ∈ items, ValidKey it.1 ∧ dumpValue it.2.1 = .ok it.2.2 :=
  ⟨[("a".toList, "1".toList, "1".toList)], by simp, by
    intro it hit
    simp only [List.mem_singleton] at hit
    subst hit
    exact ⟨⟨by decide, by decide⟩, rfl⟩⟩

/-- **Round trip through the environ-level parser** (`werkzeug.http.parse_cookie`, which first undoes
the WSGI latin-1 tunnelling): for an ASCII name and every Unicode value the result is the same. -/
theorem environ_roundtrip (k v hv : List Char) (hk : ValidKey k) (hka : asciiText k = true)
    (h : dumpValue v = .ok hv) :
    parseCookieEnviron (k ++ '=' :: hv) = some [(k, v)] := pair_roundtrip_env k v hv hk hka h

example : ValidKey "sid".toList ∧ asciiText "sid".toList = true := ⟨⟨by decide, by decide⟩, by decide⟩

/-! ## the attributes -/

/-- **Exactly the requested attributes, canonically spelled, in fixed order.** Whenever
`dump_cookie` succeeds, splitting its output at `; ` (what a user agent does) yields the
`name=value` pair followed by exactly the attribute parts of `attrParts` — Domain, Expires,
Max-Age, Secure, HttpOnly, Path, SameSite, Partitioned, each present iff requested, SameSite one
of `Strict`/`Lax`/`None`, Partitioned forcing Secure — for EVERY value: the value contributes no
separator. Hypotheses: the application-supplied name and the three opaque texts (IDNA-encoded
domain, formatted expires, quoted path — see `path_safe_excludes_separators`) contain no `;`. -/
theorem attributes_exact (key value h : List Char) (a : Attrs)
    (hd : dumpCookie key value a = .ok h)
    (hkey : ∀ c ∈ Py.latin1Dec (utf8Enc key), c ≠ ';')
    (hdom : ∀ x, a.domain = some x → ∀ c ∈ x, c ≠ ';')
    (hexp : ∀ x, a.expires = some x → ∀ c ∈ x, c ≠ ';')
    (hpath : ∀ x, a.path = some x → ∀ c ∈ x, c ≠ ';') :
    ∃ hv ss, dumpValue value = .ok hv ∧ canonSameSite a.samesite = .ok ss ∧
      (ss = none ∨ ss = some "Strict".toList ∨ ss = some "Lax".toList ∨ ss = some "None".toList) ∧
      splitSemi h = (Py.latin1Dec (utf8Enc key) ++ '=' :: hv) :: attrParts a ss := by
  obtain ⟨hv, ss, hdv, hss, rfl⟩ := dumpCookie_ok key value h a hd
  have hcanon := canonSameSite_cases _ _ hss
  refine ⟨hv, ss, hdv, hss, hcanon, ?_⟩
  apply splitSemi_intercalate _ (by simp)
  intro p hp c hc
  simp only [List.mem_cons] at hp
  rcases hp with rfl | hp
  · simp only [List.mem_append, List.mem_cons] at hc
    rcases hc with hc | rfl | hc
    · exact hkey c hc
    · decide
    · exact dumpValue_no_semi value hv hdv c hc
  · exact attrParts_no_semi a ss hcanon hdom hexp hpath p hp c hc

/-- non-vacuity: a cookie with every attribute, and a value that tries to inject one -/
example : (match dumpCookie "sid".toList "x; Secure".toList
      { domain := some "example.com".toList, expires := some "Thu, 01 Jan 2026 00:00:00 GMT".toList,
        maxAge := some 3600, httponly := true, samesite := some "lAx".toList, partitioned := true } with
    | .ok h => splitSemi h == ["sid=\"x\\073 Secure\"".toList, "Domain=example.com".toList,
        "Expires=Thu, 01 Jan 2026 00:00:00 GMT".toList, "Max-Age=3600".toList, "Secure".toList,
        "HttpOnly".toList, "Path=/".toList, "SameSite=Lax".toList, "Partitioned".toList]
    | .error _ => false) = true := by decide +kernel

example : jarText [("a".toList, "1".toList), ("sid".toList, "\"x\\073y\"".toList)] = "a=1; sid=\"x\\073y\"".toList := by
  decide

/-- a concrete jar header, end to end through the executable model -/
theorem cookie_roundtrip_concrete :
    parseCookie "a=1; sid=\"x\\073 Secure\"; z=2".toList =
      [("a".toList, "1".toList), ("sid".toList, "x; Secure".toList), ("z".toList, "2".toList)] := by
  decide +kernel

/-! ## regenerated facts about the glue (AST literals and live evaluations), pinned -/

/-- `dump_cookie` emits its attributes from ONE loop over the literal tuple
Domain, Expires, Max-Age, Secure, HttpOnly, Path, SameSite, Partitioned (skip `None`/`False`, bare name
for `True`, `name=value` otherwise), joined with `"; "` — and the model's `attrParts` emits the same
names in the same order. A reordered tuple, a renamed attribute or a changed loop body changes the
regenerated term and this no longer checks. -/
theorem attr_order_table :
    Gen.CookieGlue.attrOrder = [("Domain", "domain"), ("Expires", "expires"), ("Max-Age", "max_age"),
      ("Secure", "secure"), ("HttpOnly", "httponly"), ("Path", "path"), ("SameSite", "samesite"),
      ("Partitioned", "partitioned")] ∧
    Gen.CookieGlue.attrLoopBody = ["if v is None or v is False: continue",
      "if v is True: buf.append(k) continue", "buf.append(f'{k}={v}')"] ∧
    Gen.CookieGlue.joinSep = "; " ∧
    (attrParts
        { domain := some ['d'], expires := some ['e'], maxAge := some 1, secure := true,
          httponly := true, path := some ['p'], samesite := none, partitioned := true }
        (some ['s'])).map
      (fun p => String.ofList (p.takeWhile (· != '='))) = Gen.CookieGlue.attrOrder.map (·.1) := by
  decide +kernel

/-- `dump_cookie` title-cases `samesite` and accepts exactly the set literal {Strict, Lax, None};
the model accepts exactly those spellings. -/
theorem samesite_table :
    Gen.CookieGlue.sameSiteAccepted = ["Lax", "None", "Strict"] ∧ Gen.CookieGlue.sameSiteUsesTitle = true ∧
    Gen.CookieGlue.sameSiteAccepted.all (fun w =>
      match canonSameSite (some w.toList) with | .ok (some t) => t == w.toList | _ => false) = true := by
  decide +kernel

/-- The control flow of `dump_cookie` as modelled: the order of its top-level statements (path
quoting, domain, timedelta, expires / sync_expires, samesite, partitioned, value quoting, assembly,
join, size warning, return), the domain pipeline `partition(":")[0].lstrip(".").encode("idna")`,
`int(max_age.total_seconds())`, `partitioned ⇒ secure`, nothing reassigns the joined header before
it is returned (so the `max_size` branch can only warn), and the defaults of every parameter. -/
theorem dump_cookie_shape :
    Gen.CookieGlue.dumpStmts = ["if path is not None:", "if domain:", "if isinstance(max_age, timedelta):",
      "if expires is not None:", "if samesite is not None:", "if partitioned:",
      "if not _cookie_no_quote_re.fullmatch(value):", "buf = [f'{key.encode().decode('latin1')}={value}']",
      "for k, v in (('Domain', domain), ('Expires', expires), ('Max-Age', max_age), ('Secure', secure), ('HttpOnly', httponly), ('Path', path), ('SameSite', samesite), ('Partitioned', partitioned)):",
      "rv = '; '.join(buf)", "cookie_size = len(rv)", "if max_size and cookie_size > max_size:", "return rv"] ∧
    Gen.CookieGlue.domainAssigns = ["domain.partition(':')[0].lstrip('.').encode('idna').decode('ascii')"] ∧
    Gen.CookieGlue.maxAgeAssigns = ["int(max_age.total_seconds())"] ∧
    Gen.CookieGlue.rvAssigns = ["rv = '; '.join(buf)"] ∧ Gen.CookieGlue.returns = ["return rv"] ∧
    Gen.CookieGlue.partitionedSetsSecure = true ∧
    Gen.CookieGlue.dumpDefaults = [("key", "<required>"), ("value", "''"), ("max_age", "None"),
      ("expires", "None"), ("path", "'/'"), ("domain", "None"), ("secure", "False"), ("httponly", "False"),
      ("sync_expires", "True"), ("max_size", "4093"), ("samesite", "None"), ("partitioned", "False")] := by
  decide +kernel

/-- `Response.set_cookie` is one statement `self.headers.add("Set-Cookie", dump_cookie(key, <every
argument under its own name>, max_size=self.max_cookie_size))`; `Response.delete_cookie` is one
statement `self.set_cookie(key, expires=0, max_age=0, path=, domain=, secure=, httponly=, samesite=,
partitioned=)` — every attribute needed to address the cookie is forwarded (what `SetArgs.toDump` /
`DeleteArgs.toSet` model). Dropping one keyword (say `samesite`) breaks this. -/
theorem response_glue_table :
    Gen.CookieGlue.setCookiePos = ["key"] ∧
    Gen.CookieGlue.setCookieKw = [("value", "value"), ("max_age", "max_age"), ("expires", "expires"),
      ("path", "path"), ("domain", "domain"), ("secure", "secure"), ("httponly", "httponly"),
      ("max_size", "self.max_cookie_size"), ("samesite", "samesite"), ("partitioned", "partitioned")] ∧
    Gen.CookieGlue.setCookieHeaderName = "'Set-Cookie'" ∧ Gen.CookieGlue.setCookieAddArity = 2 ∧
    Gen.CookieGlue.setCookieAddKw = [] ∧ Gen.CookieGlue.setCookieSingleStatement = true ∧
    Gen.CookieGlue.deleteCookiePos = ["key"] ∧
    Gen.CookieGlue.deleteCookieKw = [("expires", "0"), ("max_age", "0"), ("path", "path"),
      ("domain", "domain"), ("secure", "secure"), ("httponly", "httponly"), ("samesite", "samesite"),
      ("partitioned", "partitioned")] ∧
    Gen.CookieGlue.deleteCookieSingleStatement = true ∧
    Gen.CookieGlue.setCookieDefaults = [("key", "<required>"), ("value", "''"), ("max_age", "None"),
      ("expires", "None"), ("path", "'/'"), ("domain", "None"), ("secure", "False"), ("httponly", "False"),
      ("samesite", "None"), ("partitioned", "False")] ∧
    Gen.CookieGlue.deleteCookieDefaults = [("key", "<required>"), ("path", "'/'"), ("domain", "None"),
      ("secure", "False"), ("httponly", "False"), ("samesite", "None"), ("partitioned", "False")] ∧
    Gen.CookieGlue.maxCookieSize = 4093 := by
  decide +kernel

/-- The test client's jar as modelled: which attribute names `_from_response_header` looks up, how
each `Cookie` field is computed from them, the statement order (partition at `;`, partition at `=`,
first parsed pair, the `split(";")` loop, `uri_to_iri` of the path), the storage key
`(domain, path, decoded_key)`, the request pair `key=value` joined with `"; "`, the
delete-or-store branch, and the defaults of the client API (`domain="localhost"`, `path="/"`,
`origin_only=True`). -/
theorem jar_glue_table :
    Gen.CookieGlue.jarParamNames = ["domain", "expires", "httponly", "max-age", "path", "samesite", "secure"] ∧
    Gen.CookieGlue.jarFields = [("key", "key.strip()"), ("value", "value.strip()"),
      ("decoded_key", "decoded_key"), ("decoded_value", "decoded_value"),
      ("expires", "parse_date(params.get('expires'))"),
      ("max_age", "int(params['max-age'] or 0) if 'max-age' in params else None"),
      ("domain", "params.get('domain') or server_name"), ("origin_only", "'domain' not in params"),
      ("path", "params.get('path') or path.rpartition('/')[0] or '/'"), ("secure", "'secure' in params"),
      ("http_only", "'httponly' in params"), ("same_site", "params.get('samesite')")] ∧
    Gen.CookieGlue.jarFromHeaderStmts.take 6 = ["header, _, parameters_str = header.partition(';')",
      "key, _, value = header.partition('=')",
      "decoded_key, decoded_value = next(parse_cookie(header).items())", "params = {}",
      "for item in parameters_str.split(';'):", "if params.get('path'):"] ∧
    Gen.CookieGlue.storageKeyReturn = ["return (self.domain, self.path, self.decoded_key)"] ∧
    Gen.CookieGlue.toRequestHeaderReturn = ["return f'{self.key}={self.value}'"] ∧
    Gen.CookieGlue.jarJoinSep = ["; "] ∧
    Gen.CookieGlue.updateBranches = [["self._cookies.pop(cookie._storage_key, None)", "else",
      "self._cookies[cookie._storage_key] = cookie"]] ∧
    Gen.CookieGlue.clientSetDefaults = [("key", "<required>"), ("value", "''"), ("domain", "'localhost'"),
      ("origin_only", "True"), ("path", "'/'"), ("**kwargs", "<kwargs>")] ∧
    Gen.CookieGlue.clientDeleteDefaults = [("key", "<required>"), ("domain", "'localhost'"), ("path", "'/'")] ∧
    Gen.CookieGlue.clientGetDefaults = [("key", "<required>"), ("domain", "'localhost'"), ("path", "'/'")] ∧
    Gen.CookieGlue.clientSetCall = ["domain", "'/'", "dump_cookie(key, value, domain=domain, path=path, **kwargs)"] := by
  decide +kernel

/-- `http_date(0)` is the epoch in IMF-fixdate, `parse_date` reads it back as timestamp 0 (so the
jar treats `delete_cookie`'s Expires as "delete"), and `uri_to_iri("/")` is `/`. -/
theorem epoch_table :
    Gen.CookieGlue.epochDate = "Thu, 01 Jan 1970 00:00:00 GMT" ∧
    Gen.CookieGlue.epochDateParsesToEpoch = true ∧ Gen.CookieGlue.iriRootFixed = true := by decide

/-- the model's `shouldDelete` is the live `Cookie._should_delete` on max_age ∈ {None,-1,0,1} ×
expires ∈ {None, epoch, epoch+1}: only `max_age == 0` or an Expires at the epoch delete — a negative
max_age or any other past date does not (this is what the code does; the property does not speak
about expiry) -/
theorem should_delete_table :
    Gen.CookieGlue.shouldDeleteTable.all (fun r => shouldDelete r.1 r.2.1 == r.2.2) = true := by
  decide +kernel

/-- the model's `domainMatch` agrees with the live `Cookie._matches_request` on 7 × 2 × 7 cookie
domain / origin_only / host combinations (exact, subdomain, look-alike suffix, leading and
trailing dots) -/
theorem domain_match_table :
    Gen.CookieGlue.domainMatchTable.all
      (fun r => domainMatch r.1.toList r.2.1 r.2.2.1.toList == r.2.2.2) = true := by
  decide +kernel

/-- the model's `pathMatch` agrees with the live `Cookie._matches_request` on 6 × 9 cookie path /
request path combinations (prefix inside a segment, trailing slash, empty request path) -/
theorem path_match_table :
    Gen.CookieGlue.pathMatchTable.all (fun r => pathMatch r.1.toList r.2.1.toList == r.2.2) = true := by
  decide +kernel

/-- **`int()` of the jar's Max-Age** (`int(params["max-age"] or 0)`): the characters Python's `int`
reads as digits are exactly the runs of ten starting at the regenerated DIGIT ZERO table (no decimal
digit of the live interpreter lies outside a run; the runs are disjoint and ascending, the ASCII run
first, so the model's `asciiDigit` finds the one run a digit belongs to); the live `int` agrees with
that reading on every digit of every run and refuses every other single character (probe evaluated
over all 0x110000 code points at generation time); and the model maps every digit of every run to
the ASCII digit of its value and leaves every ASCII character alone. -/
theorem jar_int_digit_table :
    Gen.Cookie.decimalStray = [] ∧ Gen.Cookie.decimalIntProbe = true ∧
    Gen.Cookie.decimalZeros.head? = some 48 ∧
    Gen.Cookie.decimalZeros.Pairwise (fun a b => a + 9 < b) ∧
    Gen.Cookie.decimalZeros.all (fun z => (List.range 10).all fun d =>
      asciiDigit (Char.ofNat (z + d)) == Char.ofNat (48 + d)) = true ∧
    (List.range 128).all (fun n => asciiDigit (Char.ofNat n) == Char.ofNat n) = true := by
  decide +kernel

/-- Arabic-Indic, fullwidth and mixed-script digits with a sign and an underscore are read as
`int()` reads them; a superscript digit (`str.isdigit` but not decimal) is refused -/
example : pyInt "٣".toList = some 3 ∧ pyInt "-１０".toList = some (-10) ∧ pyInt "+1۲_٣".toList = some 123 ∧
    pyInt "²".toList = none ∧ pyInt "٣_".toList = none ∧ pyInt "００".toList = some 0 := by decide +kernel

/-! ## every attribute argument of `dump_cookie` -/

/-- a `Lib` for the non-vacuity examples: no idna, `http_date` knows the epoch label only -/
def exampleLib : Lib :=
  ⟨fun _ => .error "UnicodeError",
   fun l => if l == zeroLabel then .ok Gen.CookieGlue.epochDate.toList else .error "ValueError",
   fun m => .ok ("@now+".toList ++ (toString m).toList), id,
   fun s => if s == Gen.CookieGlue.epochDate.toList then some 0 else none⟩

/-- **Path.** Whatever the `path` argument (spaces, `;`, quotes, controls, non-ASCII), the quoted
Path consists of printable ASCII other than SP, `;`, `"` and `\` — over the live table
`urllib.parse.quote(bytes([b]), safe=<dump_cookie's literal>)` for all 256 bytes, lifted to every
string. No hypothesis about the path is needed in `attributes_exact_full`. -/
theorem quote_path_safe (p : Str) : (quotePath p).all pathChar = true ∧ Gen.CookieGlue.quoteUpperHex = true :=
  ⟨quotePath_chars p, by decide⟩

/-- **Domain.** For an ASCII domain argument the emitted Domain is the argument with the port
(everything from the first `:`) and leading dots removed — or `UnicodeError` when the idna codec's
label rule (1–63 characters per label) refuses it; the result has no `:` and no leading dot and
only characters of the argument. -/
theorem domain_pipeline (lib : Lib) (d : Str) (hne : d ≠ []) (ha : isAsciiStr d = true) :
    (resolveDomain lib (some d) = .ok (some (domainHost d)) ∨
      resolveDomain lib (some d) = .error "UnicodeError") ∧
    (∀ c ∈ domainHost d, c ≠ ':' ∧ c ∈ d) ∧ (domainHost d).head? ≠ some '.' := by
  refine ⟨?_, fun c hc => ⟨domainHost_no_colon d c hc, domainHost_subset d c hc⟩, domainHost_head d⟩
  have hha : isAsciiStr (domainHost d) = true := by
    apply List.all_eq_true.mpr
    intro c hc
    exact List.all_eq_true.mp ha c (domainHost_subset d c hc)
  cases d with
  | nil => exact absurd rfl hne
  | cons c t =>
    simp only [resolveDomain]
    rcases idnaEnc_ascii lib (domainHost (c :: t)) hha with h | h
    · left; rw [h]; rfl
    · right; rw [h]; rfl

example : (match resolveDomain ⟨fun _ => .error "x", fun _ => .error "x", fun _ => .error "x", id, fun _ => none⟩
    (some ".example.com:8080".toList) with
    | .ok (some r) => r == "example.com".toList | _ => false) = true := by decide +kernel

example : ".example.com:8080".toList ≠ [] ∧ isAsciiStr ".example.com:8080".toList = true := by decide

/-- **Max-Age.** An `int` is emitted as it is (0 and negative included); a `timedelta` as its length
in whole seconds, truncated towards zero — the day component counts. -/
theorem max_age_forms (i us : Int) :
    resolveMaxAge none = none ∧ resolveMaxAge (some (.int i)) = some i ∧
    resolveMaxAge (some (.td us)) = some (us.tdiv 1000000) ∧
    resolveMaxAge (some (.td 86400000000)) = some 86400 ∧ resolveMaxAge (some (.td (-1))) = some 0 ∧
    resolveMaxAge (some (.td (-1500000))) = some (-1) ∧ resolveMaxAge (some (.td 2592000000000)) = some 2592000 :=
  ⟨rfl, rfl, rfl, by decide, by decide, by decide, by decide⟩

/-- **Expires.** A string is used verbatim; a datetime / timestamp goes through `http_date`; without
`expires`, an Expires attribute is derived from `max_age` exactly when `sync_expires` is on; otherwise
there is none. -/
theorem expires_forms (lib : Lib) (s l : Str) (m : Int) (ma : Option Int) (sync : Bool) :
    resolveExpires lib (some (.str s)) ma sync = .ok (some s) ∧
    resolveExpires lib (some (.obj l)) ma sync = (lib.httpDate l).map some ∧
    resolveExpires lib none (some m) true = (lib.syncDate m).map some ∧
    resolveExpires lib none (some m) false = .ok none ∧
    resolveExpires lib none none sync = .ok none :=
  ⟨rfl, rfl, rfl, rfl, rfl⟩

/-- **SameSite, any case → canonical spelling.** Every one of the 64 + 8 + 16 upper/lower-case
spellings of `strict`, `lax`, `none` is accepted and emitted as `Strict` / `Lax` / `None`. -/
theorem samesite_any_case :
    (caseVariants "strict".toList).all (fun s => match canonSameSite (some s) with
      | .ok (some t) => t == "Strict".toList | _ => false) = true ∧
    (caseVariants "lax".toList).all (fun s => match canonSameSite (some s) with
      | .ok (some t) => t == "Lax".toList | _ => false) = true ∧
    (caseVariants "none".toList).all (fun s => match canonSameSite (some s) with
      | .ok (some t) => t == "None".toList | _ => false) = true ∧
    (caseVariants "strict".toList).length = 64 := by
  decide +kernel

/-- ... and nothing else is: whenever a `samesite` argument is accepted, it differs from the emitted
word only in the case of its letters; everything else raises `ValueError`. -/
theorem samesite_case_only (s t : Str) (h : canonSameSite (some s) = .ok (some t)) :
    s.map Char.toLower = t.map Char.toLower ∧
    (t = "Strict".toList ∨ t = "Lax".toList ∨ t = "None".toList) := by
  have hc := canonSameSite_cases _ _ h
  unfold canonSameSite at h
  simp only at h
  split at h
  · simp only [Except.ok.injEq, Option.some.injEq] at h
    subst h
    refine ⟨(titleAscii_lower s).symm, ?_⟩
    rcases hc with h0 | h1 | h2 | h3
    · simp at h0
    · exact Or.inl (Option.some.inj h1)
    · exact Or.inr (Or.inl (Option.some.inj h2))
    · exact Or.inr (Or.inr (Option.some.inj h3))
  · simp at h

example : canonSameSite (some "lAx".toList) = .ok (some "Lax".toList) ∧
    canonSameSite (some "bogus".toList) = .error "ValueError" ∧
    canonSameSite (some "lax ".toList) = .error "ValueError" := ⟨rfl, rfl, rfl⟩

/-- **Partitioned implies Secure.** -/
theorem partitioned_implies_secure (a : Attrs) (ss : Option Str) (h : a.partitioned = true) :
    "Secure".toList ∈ attrParts a ss ∧ "Partitioned".toList ∈ attrParts a ss := by
  have hm : ∀ k : String, k.toList ∈ flagPart k true := fun k => by simp [flagPart]
  have hs : (a.secure || a.partitioned) = true := by simp [h]
  unfold attrParts
  rw [hs, h]
  constructor
  · exact List.mem_append_left _ (List.mem_append_left _ (List.mem_append_left _
      (List.mem_append_left _ (List.mem_append_right _ (hm "Secure")))))
  · exact List.mem_append_right _ (hm "Partitioned")

example : ({ partitioned := true } : Attrs).partitioned = true := rfl

/-- **max_size only warns.** The header `dump_cookie` returns does not depend on `max_size`; the
warning fires iff `max_size` is non-zero and the header is longer. -/
theorem max_size_warning_only (lib : Lib) (a : DumpArgs) (m : Int) :
    dumpCookieFull lib { a with maxSize := m } =
      (dumpCookieFull lib a).map (fun r => (r.1, sizeWarning m r.1)) ∧
    (∀ h, sizeWarning 0 h = false) := ⟨dumpCookieFull_maxSize lib a m, fun _ => rfl⟩

/-- **Exactly the requested attributes — on the real signature.** Whenever `dump_cookie(key, value,
max_age, expires, path, domain, secure, httponly, sync_expires, max_size, samesite, partitioned)`
returns, splitting the header at `; ` yields the pair followed by exactly `attrParts` of the
normalised arguments: Domain = idna(host part), Expires as by `expires_forms`, Max-Age as by
`max_age_forms`, Secure iff `secure or partitioned`, HttpOnly, Path = the quoted path, SameSite
canonical, Partitioned — for EVERY value and EVERY path. Hypotheses only about text the application
hands over verbatim (name, ASCII domain, expires string) and about the three opaque library results:
none contains `;`. -/
theorem attributes_exact_full (lib : Lib) (a : DumpArgs) (h : Str) (w : Bool)
    (hd : dumpCookieFull lib a = .ok (h, w))
    (hkey : ∀ c ∈ Py.latin1Dec (utf8Enc a.key), c ≠ ';')
    (hdom : ∀ x, a.domain = some x → ∀ c ∈ x, c ≠ ';')
    (hexp : ∀ s, a.expires = some (.str s) → ∀ c ∈ s, c ≠ ';')
    (hidna : ∀ s y, lib.idna s = .ok y → ∀ c ∈ y, c ≠ ';')
    (hdate : ∀ l y, lib.httpDate l = .ok y → ∀ c ∈ y, c ≠ ';')
    (hsync : ∀ m y, lib.syncDate m = .ok y → ∀ c ∈ y, c ≠ ';') :
    ∃ at' hv ss, resolveAttrs lib a = .ok at' ∧ dumpValue a.value = .ok hv ∧
      canonSameSite a.samesite = .ok ss ∧
      at'.path = a.path.map quotePath ∧ at'.maxAge = resolveMaxAge a.maxAge ∧
      at'.secure = a.secure ∧ at'.httponly = a.httponly ∧ at'.partitioned = a.partitioned ∧
      splitSemi h = (Py.latin1Dec (utf8Enc a.key) ++ '=' :: hv) :: attrParts at' ss := by
  obtain ⟨at', hr, hdc, _⟩ := dumpCookieFull_ok lib a h w hd
  obtain ⟨h1, h2, h3, h4, h5, h6, h7, h8⟩ := resolveAttrs_ok lib a at' hr
  obtain ⟨hv, ss, hdv, hss, _, hsplit⟩ := attributes_exact a.key a.value h at' hdc hkey
    (fun x hx => resolveDomain_no_semi lib a.domain x hdom hidna (by rw [h1, hx]))
    (fun x hx => resolveExpires_no_semi lib a.expires _ _ x hexp hdate hsync (by rw [h2, hx]))
    (fun x hx => by
      rw [h4] at hx
      cases hp : a.path with
      | none => simp [hp] at hx
      | some p => simp only [hp, Option.map_some, Option.some.injEq] at hx; subst hx; exact quotePath_no_semi p)
  exact ⟨at', hv, ss, hr, hdv, by rw [← h7]; exact hss, h4, h3, h5, h6, h8, hsplit⟩

/-- non-vacuity: the real signature with a timedelta, a port and leading dot in the domain, a path that
tries to inject an attribute, sync_expires -/
example : (match dumpCookieFull ⟨fun _ => .error "x", fun _ => .error "x", fun m => .ok ("@now+".toList ++ (toString m).toList), id, fun _ => none⟩
      { key := "sid".toList, value := "x; Secure".toList, maxAge := some (.td 86400000001),
        path := some "/a;Domain=evil".toList, domain := some ".example.com:80".toList, samesite := some "nONE".toList,
        partitioned := true, maxSize := 10 } with
    | .ok (h, w) => w && splitSemi h == ["sid=\"x\\073 Secure\"".toList, "Domain=example.com".toList,
        "Expires=@now+86400".toList, "Max-Age=86400".toList, "Secure".toList, "Path=/a%3BDomain=evil".toList,
        "SameSite=None".toList, "Partitioned".toList]
    | .error _ => false) = true := by decide +kernel

/-! ## `Response.set_cookie` / `Response.delete_cookie` -/

/-- `Response.set_cookie` appends exactly one `Set-Cookie` header — the text `dump_cookie` returns
for the same arguments with `max_size = max_cookie_size` — and leaves every other header alone. -/
theorem set_cookie_appends (lib : Lib) (mcs : Int) (hs hs' : HeaderList) (a : SetArgs) (w : Bool)
    (h : responseSetCookie lib mcs hs a = .ok (hs', w)) :
    ∃ text, dumpCookieFull lib (a.toDump mcs) = .ok (text, w) ∧
      hs' = hs ++ [("Set-Cookie".toList, text)] ∧ hasNewline text = false := by
  unfold responseSetCookie at h
  cases hd : dumpCookieFull lib (a.toDump mcs) with
  | error e => simp [hd] at h
  | ok r =>
    obtain ⟨text, w'⟩ := r
    simp only [hd, headersAdd] at h
    by_cases hn : hasNewline text = true
    · simp [hn, Except.map] at h
    · simp only [hn, Bool.false_eq_true, if_false, Except.map, Except.ok.injEq, Prod.mk.injEq] at h
      obtain ⟨h1, h2⟩ := h
      subst h1 h2
      exact ⟨text, rfl, rfl, by simpa using hn⟩

/-- **The header `set_cookie` adds parses back to the value.** For a valid ASCII name and every
Unicode value and every attribute combination: cutting the added header at its first `;` (what any
user agent and the test client do) leaves `name=<emitted value>`, which both request-side parsers
read back as exactly `(name, value)`. -/
theorem set_cookie_parses_back (lib : Lib) (mcs : Int) (hs hs' : HeaderList) (a : SetArgs) (w : Bool)
    (hk : ValidKey a.key) (hka : asciiText a.key = true)
    (h : responseSetCookie lib mcs hs a = .ok (hs', w)) :
    ∃ text, hs' = hs ++ [("Set-Cookie".toList, text)] ∧
      parseCookie (partitionAt ';' text).1 = [(a.key, a.value)] ∧
      parseCookieEnviron (partitionAt ';' text).1 = some [(a.key, a.value)] := by
  obtain ⟨text, hd, rfl, _⟩ := set_cookie_appends lib mcs hs hs' a w h
  refine ⟨text, rfl, ?_⟩
  have hg := dumpCookieFull_goodHeader lib (a.toDump mcs) text w hk hka hd
  obtain ⟨at', _, hdc, _⟩ := dumpCookieFull_ok lib (a.toDump mcs) text w hd
  obtain ⟨hv, ss, hdv, _, rfl⟩ := dumpCookie_ok _ _ text at' hdc
  have hdv : dumpValue a.value = .ok hv := hdv
  show parseCookie (partitionAt ';' (List.intercalate "; ".toList
      ((Py.latin1Dec (utf8Enc a.key) ++ '=' :: hv) :: attrParts at' ss))).1 = [(a.key, a.value)] ∧
    parseCookieEnviron (partitionAt ';' (List.intercalate "; ".toList
      ((Py.latin1Dec (utf8Enc a.key) ++ '=' :: hv) :: attrParts at' ss))).1 = some [(a.key, a.value)]
  rw [key_dance_ascii a.key hka]
  have hpair : ∀ c ∈ a.key ++ '=' :: hv, c ≠ ';' := by
    intro c hcm
    simp only [List.mem_append, List.mem_cons] at hcm
    rcases hcm with hcm | rfl | hcm
    · exact (valid_key_seps a.key hk).1 c hcm
    · decide
    · exact dumpValue_no_semi a.value hv hdv c hcm
  rw [partition_header _ _ hpair]
  exact ⟨pair_roundtrip a.key a.value hv hk hdv, pair_roundtrip_env a.key a.value hv hk hka hdv⟩

example : ∃ hs', responseSetCookie ⟨fun _ => .error "x", fun _ => .error "x", fun _ => .error "x", id, fun _ => none⟩
    4093 [] { key := "k".toList, value := "a;b".toList } = .ok (hs', false) := ⟨_, rfl⟩

/-- **`delete_cookie` emits what addresses the cookie.** Its header is the empty value followed by
exactly: Domain (if given), `Expires=<http_date(0)>`, `Max-Age=0`, Secure (if `secure` or
`partitioned`), HttpOnly, Path, SameSite (canonical), Partitioned — the same attribute parts
`set_cookie` writes for those arguments, plus the two that expire it. -/
theorem delete_cookie_header (lib : Lib) (mcs : Int) (hs hs' : HeaderList) (a : DeleteArgs) (w : Bool)
    (epoch : Str) (hepoch : lib.httpDate zeroLabel = .ok epoch)
    (h : responseDeleteCookie lib mcs hs a = .ok (hs', w)) :
    ∃ dom ss, resolveDomain lib a.domain = .ok dom ∧ canonSameSite a.samesite = .ok ss ∧
      hs' = hs ++ [("Set-Cookie".toList, List.intercalate "; ".toList
        ((Py.latin1Dec (utf8Enc a.key) ++ ['=']) ::
          attrParts
            { domain := dom, expires := some epoch, maxAge := some 0, secure := a.secure,
              httponly := a.httponly, path := a.path.map quotePath, samesite := a.samesite,
              partitioned := a.partitioned } ss))] := by
  obtain ⟨text, hd, rfl, _⟩ := set_cookie_appends lib mcs hs hs' a.toSet w h
  obtain ⟨at', hr, hdc, _⟩ := dumpCookieFull_ok lib _ text w hd
  obtain ⟨h1, h2, h3, h4, h5, h6, h7, h8⟩ := resolveAttrs_ok lib _ at' hr
  obtain ⟨hv, ss, hdv, hss, rfl⟩ := dumpCookie_ok _ _ text at' hdc
  have e1 : (a.toSet.toDump mcs).domain = a.domain := rfl
  have e2 : (a.toSet.toDump mcs).expires = some (.obj zeroLabel) := rfl
  have e3 : (a.toSet.toDump mcs).maxAge = some (.int 0) := rfl
  have e4 : (a.toSet.toDump mcs).path = a.path := rfl
  have e5 : (a.toSet.toDump mcs).value = [] := rfl
  have e6 : (a.toSet.toDump mcs).key = a.key := rfl
  rw [e1] at h1
  rw [e2, e3] at h2
  simp only [resolveExpires, hepoch, Except.map, Except.ok.injEq] at h2
  rw [e3] at h3
  rw [e4] at h4
  rw [e5] at hdv
  have hv0 : hv = [] := by
    have : dumpValue [] = .ok [] := rfl
    rw [this] at hdv
    exact (Except.ok.inj hdv).symm
  subst hv0
  have h7' : at'.samesite = a.samesite := h7
  refine ⟨at'.domain, ss, h1, by rw [← h7']; exact hss, ?_⟩
  have hat : at' =
      { domain := at'.domain, expires := some epoch, maxAge := some 0, secure := a.secure,
        httponly := a.httponly, path := a.path.map quotePath, samesite := a.samesite,
        partitioned := a.partitioned } := by
    cases at'
    simp only [Attrs.mk.injEq] at *
    exact ⟨trivial, h2.symm, h3, h5, h6, h4, h7, h8⟩
  show hs ++ [("Set-Cookie".toList, List.intercalate "; ".toList
      ((Py.latin1Dec (utf8Enc a.key) ++ ['=']) :: attrParts at' ss))] = _
  rw [← hat]

/-- non-vacuity: `delete_cookie("k", path="/a b", domain=".a.com:80", samesite="lax", partitioned=True)`
through the executable model -/
example : (∃ e, exampleLib.httpDate zeroLabel = .ok e) ∧
    (match responseDeleteCookie exampleLib 4093 []
        { key := "k".toList, path := some "/a b".toList, domain := some ".a.com:80".toList,
          samesite := some "lax".toList, partitioned := true } with
      | .ok (hs, _) => hs == [("Set-Cookie".toList,
          "k=; Domain=a.com; Expires=Thu, 01 Jan 1970 00:00:00 GMT; Max-Age=0; Secure; Path=/a%20b; SameSite=Lax; Partitioned".toList)]
      | .error _ => false) = true := by
  constructor
  · exact ⟨_, rfl⟩
  · decide +kernel

/-! ## the test client's jar -/

/-- **The jar reads the pair back, whatever follows it.** For every `Set-Cookie` header that starts
with a pair `dump_cookie` emitted for a valid ASCII name — followed by ANY attribute text — a cookie
the jar builds from it has exactly the emitted raw pair and the original (name, value) as its
decoded pair: the value can neither end the pair early nor leak into the attributes the jar sees. -/
theorem jar_reads_pair (lib : Lib) (s p h : Str) (c : JarCookie) (hg : GoodHeader h)
    (hc : fromResponseHeader lib s p h = .ok c) :
    ∃ k v hv rest, h = k ++ '=' :: hv ++ rest ∧ dumpValue v = .ok hv ∧
      c.key = k ∧ c.value = hv ∧ c.decodedKey = k ∧ c.decodedValue = v :=
  (fromHeader_good lib s p h c hg hc).2

example : GoodHeader "sid=\"a\\073b\"; Max-Age=x; Domain=evil".toList :=
  ⟨"sid".toList, "a;b".toList, "\"a\\073b\"".toList, "; Max-Age=x; Domain=evil".toList,
    ⟨by decide, by decide⟩, by decide, rfl, rfl, Or.inr ⟨_, rfl⟩⟩

/-- ... and the jar accepts such a header (here with a Domain the value tried to fake: the jar sees
only the real attribute) -/
example : (match fromResponseHeader exampleLib "a.com".toList "/x/y".toList
      "sid=\"a\\073 Domain=evil\"; Max-Age=5".toList with
    | .ok c => c.decodedValue == "a; Domain=evil".toList && c.domain == "a.com".toList && c.originOnly
        && c.path == "/x".toList && c.maxAge == some 5
    | .error _ => false) = true := by decide +kernel

/-- **The jar files a dumped cookie where the attributes say.** For a header `dump_cookie` produced
(attribute texts free of `;` and surrounding blanks — guaranteed for Path by `quote_path_safe`):
the cookie has the raw pair, the decoded pair, Max-Age as requested, the Domain attribute (else the
request host, origin-only), the IRI form of the Path attribute (else the directory of the request
path), Secure iff `secure or partitioned`, HttpOnly, the canonical SameSite. -/
theorem jar_reads_dumped_header (lib : Lib) (server reqPath k v h : Str) (a : Attrs)
    (hk : ValidKey k) (hka : asciiText k = true) (hc : CleanAttrs a)
    (hd : dumpCookie k v a = .ok h) :
    ∃ hv ss, dumpValue v = .ok hv ∧ canonSameSite a.samesite = .ok ss ∧
      fromResponseHeader lib server reqPath h = .ok {
        key := k, value := hv, decodedKey := k, decodedValue := v,
        expires := a.expires.bind lib.parseDate, maxAge := a.maxAge,
        domain := (truthy a.domain).getD server, originOnly := a.domain.isNone,
        path := jarPath lib reqPath a.path,
        secure := a.secure || a.partitioned, httpOnly := a.httponly, sameSite := ss } :=
  fromHeader_dump lib server reqPath k v h a hk hka hc hd

example : CleanAttrs { domain := some "a.com".toList, path := some (quotePath "/x y".toList) } :=
  ⟨fun x hx => by simp only [Option.some.injEq] at hx; subst hx; exact ⟨by decide, by decide⟩,
   fun x hx => by simp at hx,
   fun x hx => by simp only [Option.some.injEq] at hx; subst hx; exact ⟨by decide +kernel, by decide +kernel⟩⟩

/-- **Domain matching**: the request host equals the cookie's domain, or — only for a cookie that
came with a `Domain` attribute — is a true subdomain `<anything>.<domain>` (so `xa.com` never matches
`a.com`). -/
theorem domain_match_iff (cd : Str) (oo : Bool) (sn : Str) :
    domainMatch cd oo sn = true ↔ sn = cd ∨ (oo = false ∧ cd ≠ [] ∧ ∃ pre, sn = pre ++ '.' :: cd) :=
  domainMatch_iff cd oo sn

/-- **Path matching**: equal, or the cookie path is a prefix that ends on a segment boundary (`/a`
covers `/a/b` but not `/ab`). -/
theorem path_match_iff (cp rp : Str) :
    pathMatch cp rp = true ↔
      rp = cp ∨ ∃ rest, rp = cp ++ rest ∧ (cp.getLast? = some '/' ∨ rest.head? = some '/') :=
  pathMatch_iff cp rp

/-- the default path (directory of the request path) always covers the URL whose response set the cookie -/
theorem default_path_matches (rp : Str) (h : rp.head? = some '/') : pathMatch (defaultPath rp) rp = true :=
  defaultPath_matches rp h

example : defaultPath "/a/b".toList = "/a".toList ∧ defaultPath "/a".toList = "/".toList ∧
    defaultPath "".toList = "/".toList := by decide

/-- **Round trip through the jar, over whole histories.** Start with an empty jar and let ANYTHING
happen to it, in any order and number: responses from any hosts and paths whose `Set-Cookie` headers
start with a dumped pair for a valid ASCII name (any attributes, including ones that delete or
fail), `Client.set_cookie` calls, `Client.delete_cookie` calls. Then for every request the client
sends, `Request.cookies` is exactly the list of decoded (name, value) pairs of the jar entries that
match the request's host and path, in jar order — each value is the text some `set` dumped, none is
cut, merged with a neighbour or invented. -/
theorem jar_history_roundtrip (lib : Lib) (steps : List JarStep) (hs : ∀ st ∈ steps, GoodStep st) (s p : Str) :
    (Jar.run lib steps).requestCookies s p =
      ((Jar.run lib steps).matching s p).map (fun c => (c.decodedKey, c.decodedValue)) ∧
    ∀ c ∈ (Jar.run lib steps).matching s p, dumpValue c.decodedValue = .ok c.value ∧ c.decodedKey = c.key :=
  have hg := goodJar_run lib steps hs
  ⟨requestCookies_good _ hg s p, fun c hc => by
    unfold Jar.matching at hc
    have := (List.mem_filter.mp hc).1
    simp only [List.mem_map] at this
    obtain ⟨e, he, rfl⟩ := this
    exact ⟨(hg e he).2.2.2, (hg e he).2.2.1⟩⟩

example : GoodStep (.response "a.com".toList "/".toList ["sid=\"a\\073b\"; Path=/".toList]) := by
  intro h hh
  simp only [List.mem_singleton] at hh
  subst hh
  exact ⟨"sid".toList, "a;b".toList, "\"a\\073b\"".toList, "; Path=/".toList,
    ⟨by decide, by decide⟩, by decide, rfl, rfl, Or.inr ⟨_, rfl⟩⟩

/-- a two-step history run through the executable model: set on `/a`, read on `/a/b`, not on `/ab` -/
example :
    let lib : Lib := ⟨fun _ => .error "x", fun _ => .error "x", fun _ => .error "x", id, fun _ => none⟩
    let j := Jar.run lib [.response "a.com".toList "/".toList ["k=\"x\\073y\"; Path=/a".toList]]
    j.requestCookies "a.com".toList "/a/b".toList = [("k".toList, "x;y".toList)] ∧
    j.requestCookies "a.com".toList "/ab".toList = [] ∧
    j.requestCookies "b.a.com".toList "/a".toList = [] := by decide +kernel

/-- **A cookie a response sets comes back on the next request to the same URL.** The jar holds any
good history; a response to `reqPath` on `server` sets `k = v` with `dump_cookie` (no Domain
attribute, Path `/` or none, not expiring it): the next request to the same URL carries `(k, v)`. -/
theorem jar_set_then_request (lib : Lib) (j : Jar) (hj : GoodJar j) (server reqPath k v h : Str) (a : Attrs)
    (hk : ValidKey k) (hka : asciiText k = true) (hc : CleanAttrs a)
    (hd : dumpCookie k v a = .ok h)
    (hdom : a.domain = none) (hpath : a.path = none ∨ (a.path = some ['/'] ∧ lib.iri ['/'] = ['/']))
    (hreq : reqPath.head? = some '/')
    (hkeep : shouldDelete a.maxAge (a.expires.bind lib.parseDate) = false) :
    (k, v) ∈ ((j.update lib server reqPath [h]).1).requestCookies server reqPath := by
  obtain ⟨hv, ss, hdv, _, hf⟩ := fromHeader_dump lib server reqPath k v h a hk hka hc hd
  simp only [Jar.update, hf]
  refine put_then_request j _ hj ⟨hk, hka, rfl, hdv⟩ ?_ server reqPath ?_
  · exact hkeep
  simp only [JarCookie.matchesRequest, Bool.and_eq_true]
  constructor
  · rw [domainMatch_iff]; left; simp [hdom, truthy]
  · rcases hpath with hp | ⟨hp, hi⟩
    · simp only [hp, jarPath, truthy, Option.map_none]
      exact defaultPath_matches reqPath hreq
    · simp only [hp, jarPath, truthy, List.isEmpty_cons, Bool.false_eq_true, if_false, Option.map_some, hi]
      rw [pathMatch_iff]
      right
      cases reqPath with
      | nil => simp at hreq
      | cons c r => simp at hreq; subst hreq; exact ⟨r, rfl, Or.inl rfl⟩

/-- non-vacuity of `jar_set_then_request`: the default attributes (Path `/`), an empty jar -/
example : GoodJar [] ∧ CleanAttrs {} ∧ exampleLib.iri ['/'] = ['/'] ∧
    shouldDelete ({} : Attrs).maxAge (({} : Attrs).expires.bind exampleLib.parseDate) = false ∧
    (∃ h, dumpCookie "k".toList "a b;c".toList {} = .ok h) :=
  ⟨goodJar_nil,
   ⟨fun x hx => by simp at hx, fun x hx => by simp at hx,
    fun x hx => by simp only [Option.some.injEq] at hx; subst hx; exact ⟨by decide, by decide⟩⟩,
   rfl, rfl, ⟨_, rfl⟩⟩

/-- **`delete_cookie` addresses the slot `set_cookie` created.** Two headers for the same name whose
resolved Domain and Path attributes agree — one storing, one with `Max-Age=0` (what
`delete_cookie_header` shows `delete_cookie` emits) — received for the same request URL: after the
second, `Client.get_cookie` finds nothing in that slot, whatever else the jar holds. And a cookie
that was stored is found under `(domain, path, key)`. -/
theorem jar_delete_addresses_slot (lib : Lib) (j : Jar) (server reqPath k v h h' : Str) (a a' : Attrs)
    (hk : ValidKey k) (hka : asciiText k = true) (hc : CleanAttrs a) (hc' : CleanAttrs a')
    (hd : dumpCookie k v a = .ok h) (hd' : dumpCookie k [] a' = .ok h')
    (hdom : a'.domain = a.domain) (hpath : a'.path = a.path) (hma : a'.maxAge = some 0)
    (hkeep : shouldDelete a.maxAge (a.expires.bind lib.parseDate) = false) :
    (∃ c, clientGetCookie (j.update lib server reqPath [h]).1 k ((truthy a.domain).getD server)
        (jarPath lib reqPath a.path) = some c ∧ c.decodedValue = v) ∧
    clientGetCookie (j.update lib server reqPath [h, h']).1 k ((truthy a.domain).getD server)
        (jarPath lib reqPath a.path) = none := by
  obtain ⟨hv, ss, hdv, _, hf⟩ := fromHeader_dump lib server reqPath k v h a hk hka hc hd
  obtain ⟨hv', ss', hdv', _, hf'⟩ := fromHeader_dump lib server reqPath k [] h' a' hk hka hc' hd'
  constructor
  · simp only [Jar.update, hf]
    exact ⟨_, get_put_store j _ hkeep, rfl⟩
  · simp only [Jar.update, hf, hf']
    rw [hdom, hpath]
    exact get_put_delete _ _ (by simp [JarCookie.shouldDelete, shouldDelete, hma])

/-- set on `/a`, then `delete_cookie(path="/a")` from the same URL, through the executable model: the
slot is empty again; a delete addressed to another path leaves it -/
example :
    let setH := "k=v; Path=/a".toList
    let delH := "k=; Expires=Thu, 01 Jan 1970 00:00:00 GMT; Max-Age=0; Path=/a".toList
    let delOther := "k=; Expires=Thu, 01 Jan 1970 00:00:00 GMT; Max-Age=0; Path=/".toList
    (clientGetCookie (Jar.run exampleLib [.response "a.com".toList "/a/b".toList [setH]])
        "k".toList "a.com".toList "/a".toList).isSome = true ∧
    (clientGetCookie (Jar.run exampleLib [.response "a.com".toList "/a/b".toList [setH, delH]])
        "k".toList "a.com".toList "/a".toList).isSome = false ∧
    (clientGetCookie (Jar.run exampleLib [.response "a.com".toList "/a/b".toList [setH, delOther]])
        "k".toList "a.com".toList "/a".toList).isSome = true := by decide +kernel

/-! ## duplicate names on the request side -/

/-- **Duplicates are all kept, in header order** — `jar_roundtrip` has no distinctness hypothesis:
a `Cookie` header carrying the same name several times parses to every pair in order
(`parse_cookie(..., cls=list)`); the property text does not say which one an application should
see, the code gives all of them to a `MultiDict`: `cookies[name]` / `.get(name)` is the FIRST value
in the header, `.getlist(name)` all of them in order. -/
theorem duplicates_lookup (items : List (List Char × List Char × List Char)) (hne : items ≠ [])
    (h : ∀ it ∈ items, ValidKey it.1 ∧ dumpValue it.2.1 = .ok it.2.2) (k : Str) :
    cookiesGet (parseCookie (jarText (items.map fun it => (it.1, it.2.2)))) k =
      (items.find? (·.1 == k)).map (·.2.1) ∧
    cookiesGetList (parseCookie (jarText (items.map fun it => (it.1, it.2.2)))) k =
      (items.filter (·.1 == k)).map (·.2.1) := by
  rw [jarText_roundtrip items hne h]
  unfold cookiesGet cookiesGetList
  constructor
  · induction items with
    | nil => rfl
    | cons it t ih =>
      simp only [List.map_cons, List.find?_cons]
      by_cases hk : (it.1 == k) = true
      · simp [hk]
      · have hk' : (it.1 == k) = false := by simpa using hk
        simp only [hk']
        cases t with
        | nil => rfl
        | cons it2 t2 => exact ih (by simp) (fun x hx => h x (by simp [hx]))
  · induction items with
    | nil => rfl
    | cons it t ih =>
      simp only [List.map_cons, List.filter_cons]
      by_cases hk : (it.1 == k) = true
      · simp only [hk, if_true, List.map_cons, List.cons.injEq, true_and]
        cases t with
        | nil => rfl
        | cons it2 t2 => exact ih (by simp) (fun x hx => h x (by simp [hx]))
      · have hk' : (it.1 == k) = false := by simpa using hk
        simp only [hk', Bool.false_eq_true, if_false]
        cases t with
        | nil => rfl
        | cons it2 t2 => exact ih (by simp) (fun x hx => h x (by simp [hx]))

/-- duplicates through the executable model: all pairs in order, first wins for `get` -/
theorem duplicates_concrete :
    parseCookie "a=1; b=2; a=\"x\\073y\"".toList =
      [("a".toList, "1".toList), ("b".toList, "2".toList), ("a".toList, "x;y".toList)] ∧
    cookiesGet (parseCookie "a=1; b=2; a=3".toList) "a".toList = some "1".toList ∧
    cookiesGetList (parseCookie "a=1; b=2; a=3".toList) "a".toList = ["1".toList, "3".toList] := by
  decide +kernel

end Wz.Props.C13
