/-
C13 — cookie values round-trip and cannot inject attributes.
Property theorems only (helper lemmas live in Lemmas/Cookie.lean).
-/
import WzVerif.Model.Cookie
namespace Wz.Props.C13
open Wz Wz.Cookie

/-- RFC 6265 cookie-octet: %x21 / %x23-2B / %x2D-3A / %x3C-5B / %x5D-7E -/
def cookieOctet (n : Nat) : Bool :=
  n == 0x21 || (0x23 ≤ n && n ≤ 0x2B) || (0x2D ≤ n && n ≤ 0x3A) || (0x3C ≤ n && n ≤ 0x5B) ||
  (0x5D ≤ n && n ≤ 0x7E)

def octDigit (n : Nat) : UInt8 := UInt8.ofNat (48 + n)

/-- the escape werkzeug documents for byte `n`: `\"`, `\\`, or backslash + three octal digits -/
def expectedEscape (n : Nat) : Bytes :=
  if n == 0x22 then [0x5C, 0x22] else if n == 0x5C then [0x5C, 0x5C]
  else [0x5C, octDigit (n / 64), octDigit (n / 8 % 8), octDigit (n % 8)]

/-- Every byte outside cookie-octet ∪ {SP} is matched by the live `_cookie_slash_re` and mapped by
the live `_cookie_slash_map` to its documented escape; every other byte is left alone.
(`decide` over the complete regenerated 256-row tables.) -/
theorem escape_table_safe :
    ∀ n, n < 256 →
      (if cookieOctet n || n == 0x20 then inSlashSet (UInt8.ofNat n) = false
       else inSlashSet (UInt8.ofNat n) = true ∧ slashEntry (UInt8.ofNat n) = some (expectedEscape n)) := by
  decide +kernel

/-- The property text asks for *every* non-cookie-octet to be escaped. That full-strength form is
false for exactly SP (0x20), which `dump_cookie` emits raw inside the quotes (known finding F13b,
pinned by tests/test_http.py::test_dump_cookie). -/
theorem escape_table_full_false :
    ¬ (∀ n, n < 256 → cookieOctet n = false → inSlashSet (UInt8.ofNat n) = true) := by
  intro h
  exact absurd (h 0x20 (by decide) (by decide)) (by decide)

/-- ... and SP is the only such byte. -/
theorem escape_table_only_sp :
    ∀ n, n < 256 → cookieOctet n = false → inSlashSet (UInt8.ofNat n) = false → n = 0x20 := by
  decide +kernel

/-- The characters that may stay unquoted are cookie-octets (so an unquoted value cannot contain
`;`, `,`, `"`, `\`, whitespace, controls or non-ASCII), and nothing above U+00FF is exempt. -/
theorem no_quote_table_safe :
    Gen.Cookie.noQuoteHigh = false ∧
    ∀ n, n < 256 → tbl Gen.Cookie.noQuote n = true → cookieOctet n = true := by
  refine ⟨by decide, ?_⟩
  decide +kernel

end Wz.Props.C13
