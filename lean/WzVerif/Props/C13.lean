/-
C13 — cookie values round-trip and cannot inject attributes.
Property theorems only (helper lemmas live in Lemmas/Cookie.lean).

Model: `Model/Cookie.lean` (`dumpValue`, `dumpCookie`, `parseCookie`); tables `Gen/Cookie.lean`
are regenerated from the live `_cookie_no_quote_re`, `_cookie_slash_re`, `_cookie_slash_map`,
`_cookie_unslash_re` on every run.
-/
import WzVerif.Lemmas.Cookie
namespace Wz.Props.C13
open Wz Wz.Cookie

/-! ## the escape tables (complete 256-row tables, `decide +kernel`) -/

/-- Every byte outside cookie-octet ∪ {SP} is matched by the live `_cookie_slash_re` and mapped by
the live `_cookie_slash_map` to its documented escape (`\"`, `\\`, or `\ooo`); every other byte is
left alone. -/
theorem escape_table_safe :
    ∀ n, n < 256 →
      (if cookieOctet n || n == 0x20 then inSlashSet (UInt8.ofNat n) = false
       else inSlashSet (UInt8.ofNat n) = true ∧ slashEntry (UInt8.ofNat n) = some (expectedEscape n)) :=
  table_escape

/-- The property text asks for *every* non-cookie-octet to be escaped. That full-strength form is
false for exactly SP (0x20), which `dump_cookie` emits raw inside the quotes (known finding F13b,
pinned by tests/test_http.py::test_dump_cookie). -/
theorem escape_table_full_false :
    ¬ (∀ n, n < 256 → cookieOctet n = false → inSlashSet (UInt8.ofNat n) = true) := by
  intro h
  exact absurd (h 0x20 (by decide) (by decide)) (by decide)

/-- ... and SP is the only such byte. -/
theorem escape_table_only_sp :
    ∀ n, n < 256 → cookieOctet n = false → inSlashSet (UInt8.ofNat n) = false → n = 0x20 := by
  decide +kernel

/-- The characters that may stay unquoted are cookie-octets (so an unquoted value cannot contain
`;`, `,`, `"`, `\`, white space, controls or non-ASCII), and nothing above U+00FF is exempt. -/
theorem no_quote_table_safe :
    Gen.Cookie.noQuoteHigh = false ∧
    ∀ n, n < 256 → tbl Gen.Cookie.noQuote n = true → cookieOctet n = true := by
  refine ⟨by decide, ?_⟩
  decide +kernel

/-- The per-character tables describe the live regexes completely: the no-quote pattern is a single
character class under `*` applied with `fullmatch`, the slash pattern a single class applied per byte
with `sub` (checked by the translator on the parsed patterns and on `dump_cookie`'s AST). -/
theorem regex_shapes :
    Gen.Cookie.noQuoteIsClassStar = true ∧ Gen.Cookie.slashIsClass = true ∧
    Gen.Cookie.dumpUsesFullmatchAndSub = true := by decide

/-- The `safe=` set that `dump_cookie` passes to `urllib.parse.quote` for the Path attribute contains
none of the characters that could end the attribute or the header line (`;`, `,`, SP, `"`, `\`,
controls, non-ASCII): with `quote` percent-encoding everything outside `safe` ∪ unreserved
(assumption about urllib, validated by stream `attrs`), a Path value cannot inject attributes. -/
theorem path_safe_excludes_separators :
    Gen.Cookie.pathSafe.toList.all
      (fun c => 0x21 ≤ c.toNat && c.toNat ≤ 0x7E && c != ';' && c != '"' && c != '\\') = true := by
  decide +kernel

/-! ## every value -/

/-- one token of a quoted cookie value: a raw cookie-octet or SP, or one of the three escapes -/
def safeToken (t : List Char) : Bool :=
  match t with
  | [c] => plainByte c.toNat
  | ['\\', '"'] => true
  | ['\\', '\\'] => true
  | ['\\', a, b, c] => ('0' ≤ a && a ≤ '3') && ('0' ≤ b && b ≤ '7') && ('0' ≤ c && c ≤ '7')
  | _ => false

/-- the text between the quotes is a sequence of safe tokens: no raw `"`, `;`, `,`, `\`, control
or non-ASCII character can occur outside an escape -/
def SafeBody (body : List Char) : Prop :=
  ∃ toks : List (List Char), body = toks.flatten ∧ ∀ t ∈ toks, safeToken t = true

theorem token_table : ∀ n, n < 256 → safeToken (escChars n) = true := by decide +kernel

/-- `dump_cookie` never fails on the value, for any Unicode text: the escape map has an entry for
every byte the regex selects and the escaped text is ASCII. -/
theorem dump_value_total (v : List Char) : ∃ out, dumpValue v = .ok out := by
  by_cases h : v.all noQuoteChar = true
  · exact ⟨v, by simp [dumpValue, h]⟩
  · exact ⟨_, dumpValue_quoted v (by simpa using h)⟩

/-- For every Unicode value the emitted cookie value is either the value itself, consisting of
cookie-octets only, or a quoted string whose inside is a sequence of safe tokens — so it can
never end the cookie pair or start an attribute. -/
theorem dump_value_safe (v out : List Char) (h : dumpValue v = .ok out) :
    (out = v ∧ ∀ c ∈ v, cookieOctet c.toNat = true) ∨
    (∃ body, out = '"' :: body ++ ['"'] ∧ SafeBody body) := by
  by_cases hq : v.all noQuoteChar = true
  · left
    have : dumpValue v = .ok v := by simp [dumpValue, hq]
    rw [this] at h
    refine ⟨(Except.ok.inj h).symm, fun c hc => ?_⟩
    exact (noQuoteChar_facts c (List.all_eq_true.mp hq c hc)).1
  · right
    rw [dumpValue_quoted v (by simpa using hq)] at h
    refine ⟨_, (Except.ok.inj h).symm, ((utf8Enc v).map UInt8.toNat).map escChars, ?_, ?_⟩
    · simp [List.flatMap, List.flatten]
    · intro t ht
      simp only [List.mem_map] at ht
      obtain ⟨n, ⟨b, _, rfl⟩, rfl⟩ := ht
      exact token_table _ b.toNat_lt

/-- a character that cannot end the pair or separate attributes: printable ASCII other than `;` `,` -/
def inertChar (c : Char) : Bool := 0x20 ≤ c.toNat && c.toNat ≤ 0x7E && c != ';' && c != ','

theorem inert_table : ∀ n, n < 256 → (escChars n).all inertChar = true := by decide +kernel

theorem octet_inert : ∀ n, n < 256 → cookieOctet n = true → inertChar (Char.ofNat n) = true := by
  decide +kernel

/-- Whatever the value, the emitted text is printable ASCII and contains neither `;` nor `,`:
splitting the `Set-Cookie` header at `;` therefore always yields the pair first and then exactly the
attributes `dump_cookie` appended (`dumpCookie` joins them in the fixed order Domain, Expires,
Max-Age, Secure, HttpOnly, Path, SameSite, Partitioned). -/
theorem dump_value_inert (v out : List Char) (h : dumpValue v = .ok out) :
    out.all inertChar = true := by
  by_cases hq : v.all noQuoteChar = true
  · have : dumpValue v = .ok v := by simp [dumpValue, hq]
    rw [this] at h
    obtain rfl := Except.ok.inj h
    apply List.all_eq_true.mpr
    intro c hc
    have hf := noQuoteChar_facts c (List.all_eq_true.mp hq c hc)
    have hlt : c.toNat < 256 := by
      have := hf.1
      simp only [cookieOctet, Bool.or_eq_true, beq_iff_eq, Bool.and_eq_true, decide_eq_true_eq] at this
      omega
    have := octet_inert c.toNat hlt hf.1
    simpa using this
  · rw [dumpValue_quoted v (by simpa using hq)] at h
    obtain rfl := Except.ok.inj h
    simp only [List.cons_append, List.all_cons, List.all_append, List.all_nil, Bool.and_true,
      List.all_flatMap, Bool.and_eq_true]
    refine ⟨by decide, ?_, by decide⟩
    apply List.all_eq_true.mpr
    intro n hn
    simp only [List.mem_map] at hn
    obtain ⟨b, _, rfl⟩ := hn
    exact inert_table _ b.toNat_lt

example : (match dumpValue "a;b\"c é".toList with
    | .ok r => r == "\"a\\073b\\\"c \\303\\251\"".toList | .error _ => false) = true := by decide +kernel

/-- **Round trip.** For every valid name (non-empty, no `=`, `;`, white space — a superset of RFC 6265
tokens) and every Unicode value, parsing the emitted pair as a request `Cookie` header (sans-io
parser) returns exactly that name and value. -/
theorem cookie_roundtrip (k v hv : List Char) (hk : ValidKey k) (h : dumpValue v = .ok hv) :
    parseCookie (k ++ '=' :: hv) = [(k, v)] := by
  obtain ⟨hm, hu⟩ := pair_facts k v hv hk h
  have hcookie : (k ++ '=' :: hv).isEmpty = false := by cases k <;> simp
  unfold parseCookie
  rw [if_neg (by simp [hcookie])]
  have hs : (k ++ '=' :: hv) ++ [';'] = k ++ '=' :: hv ++ ';' :: [] := by simp
  have hm' := hm []
  simp only [List.dropWhile] at hm'
  rw [hs, findAll_single _ k hv hm' (by cases k <;> simp)]
  simp only [postProcess, List.filterMap_cons, List.filterMap_nil, strip_key k hk.2, hu]
  rw [if_neg (by cases k <;> simp_all [ValidKey])]

/-- the hypotheses of `cookie_roundtrip` are satisfiable, for a value that needs every kind of escape -/
example : ValidKey "sid".toList ∧ ∃ hv, dumpValue "a;b\"c\\ é\x00".toList = .ok hv :=
  ⟨⟨by decide, by decide⟩, dump_value_total _⟩

/-- **Round trip through a jar.** For every non-empty list of cookies (valid names, arbitrary
Unicode values), the `Cookie:` header a client builds by joining the emitted pairs with `; `
parses back to exactly those names and values, in order: no value can end its pair, swallow a
neighbour or inject one. -/
theorem jar_roundtrip (items : List (List Char × List Char × List Char)) (hne : items ≠ [])
    (h : ∀ it ∈ items, ValidKey it.1 ∧ dumpValue it.2.1 = .ok it.2.2) :
    parseCookie (jarText (items.map fun it => (it.1, it.2.2))) = items.map fun it => (it.1, it.2.1) := by
  have hl : (items.map fun it => (it.1, it.2.2)) ≠ [] := by cases items <;> simp_all
  have hg : ∀ p ∈ (items.map fun it => (it.1, it.2.2)), ScanGood p := by
    intro p hp
    simp only [List.mem_map] at hp
    obtain ⟨it, hit, rfl⟩ := hp
    obtain ⟨hk, hd⟩ := h it hit
    exact ⟨hk, (pair_facts it.1 it.2.1 it.2.2 hk hd).1⟩
  have hnonempty : (jarText (items.map fun it => (it.1, it.2.2))).isEmpty = false := by
    cases items with
    | nil => exact absurd rfl hne
    | cons it t =>
      obtain ⟨hk, _⟩ := h it (by simp)
      cases t <;> (simp only [List.map_cons, List.map_nil, jarText]; cases hkk : it.1 <;> simp_all [ValidKey])
  unfold parseCookie
  rw [if_neg (by simp [hnonempty])]
  rw [findAll_jar _ hl hg _ (by
    have := jarText_length (items.map fun it => (it.1, it.2.2))
    simp only [List.length_append, List.length_cons, List.length_nil] at this ⊢
    omega)]
  clear hl hg hnonempty hne
  induction items with
  | nil => rfl
  | cons it t ih =>
    obtain ⟨hk, hd⟩ := h it (by simp)
    have hu := (pair_facts it.1 it.2.1 it.2.2 hk hd).2
    simp only [postProcess, List.map_cons, List.filterMap_cons, strip_key it.1 hk.2, hu]
    rw [if_neg (by obtain ⟨hne', _⟩ := hk; cases hkk : it.1 <;> simp_all)]
    simp only [List.cons.injEq, true_and]
    exact ih (fun it' hit' => h it' (by simp [hit']))

/-- **Round trip through the environ-level parser** (`werkzeug.http.parse_cookie`, which first undoes
the WSGI latin-1 tunnelling): for an ASCII name and every Unicode value the result is the same. -/
theorem environ_roundtrip (k v hv : List Char) (hk : ValidKey k) (hka : asciiText k = true)
    (h : dumpValue v = .ok hv) :
    parseCookieEnviron (k ++ '=' :: hv) = some [(k, v)] := by
  have hascii : asciiText (k ++ '=' :: hv) = true := by
    have hin := dump_value_inert v hv h
    simp only [asciiText, List.all_append, List.all_cons, Bool.and_eq_true] at hka ⊢
    refine ⟨hka, by decide, ?_⟩
    apply List.all_eq_true.mpr
    intro c hc
    have := List.all_eq_true.mp hin c hc
    simp only [inertChar, Bool.and_eq_true, decide_eq_true_eq] at this
    simp only [decide_eq_true_eq]
    omega
  unfold parseCookieEnviron
  rw [if_neg (by cases k <;> simp)]
  have hd := dance_asciiText _ hascii
  cases hl : Py.latin1Enc (k ++ '=' :: hv) with
  | none => simp [hl] at hd
  | some bs =>
    simp only [hl, Option.map_some, Option.some.injEq] at hd ⊢
    rw [hd, cookie_roundtrip k v hv hk h]

/-! ## the attributes -/

/-- **Exactly the requested attributes, canonically spelled, in fixed order.** Whenever
`dump_cookie` succeeds, splitting its output at `; ` (what a user agent does) yields the
`name=value` pair followed by exactly the attribute parts of `attrParts` — Domain, Expires,
Max-Age, Secure, HttpOnly, Path, SameSite, Partitioned, each present iff requested, SameSite one
of `Strict`/`Lax`/`None`, Partitioned forcing Secure — for EVERY value: the value contributes no
separator. Hypotheses: the application-supplied name and the three opaque texts (IDNA-encoded
domain, formatted expires, quoted path — see `path_safe_excludes_separators`) contain no `;`. -/
theorem attributes_exact (key value h : List Char) (a : Attrs)
    (hd : dumpCookie key value a = .ok h)
    (hkey : ∀ c ∈ Py.latin1Dec (utf8Enc key), c ≠ ';')
    (hdom : ∀ x, a.domain = some x → ∀ c ∈ x, c ≠ ';')
    (hexp : ∀ x, a.expires = some x → ∀ c ∈ x, c ≠ ';')
    (hpath : ∀ x, a.path = some x → ∀ c ∈ x, c ≠ ';') :
    ∃ hv ss, dumpValue value = .ok hv ∧ canonSameSite a.samesite = .ok ss ∧
      (ss = none ∨ ss = some "Strict".toList ∨ ss = some "Lax".toList ∨ ss = some "None".toList) ∧
      splitSemi h = (Py.latin1Dec (utf8Enc key) ++ '=' :: hv) :: attrParts a ss := by
  unfold dumpCookie at hd
  cases hss : canonSameSite a.samesite with
  | error e => simp [hss] at hd
  | ok ss =>
    cases hdv : dumpValue value with
    | error e => simp [hss, hdv] at hd
    | ok hv =>
      simp only [hss, hdv, Except.ok.injEq] at hd
      have hcanon : ss = none ∨ ss = some "Strict".toList ∨ ss = some "Lax".toList ∨ ss = some "None".toList := by
        unfold canonSameSite at hss
        cases hs : a.samesite with
        | none => simp [hs] at hss; exact Or.inl hss.symm
        | some s =>
          simp only [hs] at hss
          split at hss
          · rename_i hcond
            simp only [Except.ok.injEq] at hss
            simp only [Bool.or_eq_true, beq_iff_eq] at hcond
            rcases hcond with (h1 | h2) | h3
            · right; left; rw [← hss, h1]
            · right; right; left; rw [← hss, h2]
            · right; right; right; rw [← hss, h3]
          · simp at hss
      refine ⟨hv, ss, rfl, rfl, hcanon, ?_⟩
      rw [← hd]
      apply splitSemi_intercalate _ (by simp)
      intro p hp c hc
      simp only [List.mem_cons] at hp
      rcases hp with rfl | hp
      · -- the pair
        simp only [List.mem_append, List.mem_cons] at hc
        rcases hc with hc | rfl | hc
        · exact hkey c hc
        · decide
        · have := List.all_eq_true.mp (dump_value_inert value hv hdv) c hc
          simp only [inertChar, Bool.and_eq_true, bne_iff_ne, ne_eq] at this
          exact this.1.2
      · -- an attribute part
        simp only [attrParts, List.mem_append] at hp
        have kvcase : ∀ (k : String) (v : Option (List Char)), (∀ c ∈ k.toList, c ≠ ';') →
            (∀ x, v = some x → ∀ c ∈ x, c ≠ ';') → p ∈ kvPart k v → c ≠ ';' := by
          intro k v hk hv' hpk
          unfold kvPart at hpk
          cases v with
          | none => simp at hpk
          | some x =>
            simp only [List.mem_singleton] at hpk
            subst hpk
            simp only [List.mem_append, List.mem_cons] at hc
            rcases hc with hc | rfl | hc
            · exact hk c hc
            · decide
            · exact hv' x rfl c hc
        have flcase : ∀ (k : String) (b : Bool), (∀ c ∈ k.toList, c ≠ ';') → p ∈ flagPart k b → c ≠ ';' := by
          intro k b hk hpk
          unfold flagPart at hpk
          split at hpk
          · simp only [List.mem_singleton] at hpk; subst hpk; exact hk c hc
          · simp at hpk
        rcases hp with ((((((hp | hp) | hp) | hp) | hp) | hp) | hp) | hp
        · exact kvcase "Domain" _ (by decide) hdom hp
        · exact kvcase "Expires" _ (by decide) hexp hp
        · refine kvcase "Max-Age" _ (by decide) ?_ hp
          intro x hx
          cases hm : a.maxAge with
          | none => simp [hm] at hx
          | some i => simp only [hm, Option.map_some, Option.some.injEq] at hx; subst hx; exact intText_no_semi i
        · exact flcase "Secure" _ (by decide) hp
        · exact flcase "HttpOnly" _ (by decide) hp
        · exact kvcase "Path" _ (by decide) hpath hp
        · refine kvcase "SameSite" _ (by decide) ?_ hp
          intro x hx
          rcases hcanon with h0 | h1 | h2 | h3
          · simp [h0] at hx
          · rw [h1] at hx; obtain rfl := Option.some.inj hx; decide
          · rw [h2] at hx; obtain rfl := Option.some.inj hx; decide
          · rw [h3] at hx; obtain rfl := Option.some.inj hx; decide
        · exact flcase "Partitioned" _ (by decide) hp

/-- non-vacuity: a cookie with every attribute, and a value that tries to inject one -/
example : (match dumpCookie "sid".toList "x; Secure".toList
      { domain := some "example.com".toList, expires := some "Thu, 01 Jan 2026 00:00:00 GMT".toList,
        maxAge := some 3600, httponly := true, samesite := some "lAx".toList, partitioned := true } with
    | .ok h => splitSemi h == ["sid=\"x\\073 Secure\"".toList, "Domain=example.com".toList,
        "Expires=Thu, 01 Jan 2026 00:00:00 GMT".toList, "Max-Age=3600".toList, "Secure".toList,
        "HttpOnly".toList, "Path=/".toList, "SameSite=Lax".toList, "Partitioned".toList]
    | .error _ => false) = true := by decide +kernel

example : jarText [("a".toList, "1".toList), ("sid".toList, "\"x\\073y\"".toList)] = "a=1; sid=\"x\\073y\"".toList := by
  decide

/-- a concrete jar header, end to end through the executable model -/
theorem cookie_roundtrip_concrete :
    parseCookie "a=1; sid=\"x\\073 Secure\"; z=2".toList =
      [("a".toList, "1".toList), ("sid".toList, "x; Secure".toList), ("z".toList, "2".toList)] := by
  decide +kernel

end Wz.Props.C13
