/-
C06 — every HTTP header serialiser is inverted by its parser.
Property theorems only (helper lemmas live in Lemmas/Http.lean, Lemmas/Date.lean).

Conventions: text is `List Char`; `parse (dump v) = .ok v` where the dumper / parser can raise.
Where the property's quantifier excludes CR/LF but the codec does not need that, the theorem is
stated for *all* text (stronger). Every remaining hypothesis is a decidable predicate, shown
satisfiable by an `example` and necessary by a `_needed` witness.
-/
import WzVerif.Lemmas.Http
import WzVerif.Lemmas.HttpOpt3
import WzVerif.Lemmas.HttpEtag
import WzVerif.Lemmas.HttpEtagNF
import WzVerif.Lemmas.HttpAuth
import WzVerif.Lemmas.HttpDigest
import WzVerif.Lemmas.HttpCsp
import WzVerif.Lemmas.DateText
import WzVerif.Lemmas.IfRange
import WzVerif.Lemmas.HttpSet
import WzVerif.Lemmas.HttpSetHist
import WzVerif.Lemmas.HttpHist
import WzVerif.Lemmas.HttpNF
import WzVerif.Lemmas.DateNF
import WzVerif.Lemmas.HttpAuthNF
namespace Wz.Props.C06
open Wz Wz.Http

/-! ### the hand-modelled regex shapes are those of the live patterns -/

/-- The regexes whose *shape* (not only character classes) is modelled by hand still have the source
text the model was written for. A change of any of them breaks this obligation. -/
theorem regex_sources_pinned :
    Gen.Http.parameterKeyRe = "([\\w!#$%&'*+\\-.^`|~]+)=" ∧
    Gen.Http.parameterTokenValueRe = "[\\w!#$%&'*+\\-.^`|~]+" ∧
    Gen.Http.charsetValueRe = "([\\w!#$%&*+\\-.^`|~]*)'[\\w!#$%&*+\\-.^`|~]*'([\\w!#$%&'*+\\-.^`|~]+)" ∧
    Gen.Http.continuationRe = "\\*(\\d+)$" ∧
    Gen.Http.plainIntRe = "-?\\d+" ∧
    Gen.Http.qValueRe = "-?\\d+(\\.\\d+)?" ∧
    Gen.Http.etagRe = "([Ww]/)?(?:\"(.*?)\"|(.*?))(?:\\s*,\\s*|$)" ∧
    Gen.Http.etagReFlags = 32 := by
  decide

/-- The literal sets the parsers consult are the ones the model assumes: the RFC 2231 charset
allow-list (identical in `parse_options_header` and `parse_dict_header`), the two escapes skipped
inside a quoted parameter value, and the digest keys that are always quoted. -/
theorem literal_sets_pinned :
    Gen.Http.safeEncodingsOptions = [["ascii", "iso-8859-1", "us-ascii", "utf-8"]] ∧
    Gen.Http.safeEncodingsDict = Gen.Http.safeEncodingsOptions ∧
    Gen.Http.optionEscapes = [["\\\"", "\\\\"]] ∧
    Gen.Http.digestQuoted = [["domain", "nonce", "opaque", "qop", "realm"]] := by
  decide

/-- `_token_chars` is exactly the RFC 9110 `tchar` set, the parameter-key / token-value regex
classes coincide with it, and nothing above U+00FF is in any of them (so a token never contains
`"`, `\`, `,`, `;`, `=`, or white space). `decide` over the complete regenerated tables. -/
theorem token_classes :
    Gen.Http.tokenHigh = false ∧ Gen.Http.tokenMulti = false ∧
    Gen.Http.paramKeyHigh = false ∧ Gen.Http.paramTokHigh = false ∧
    Gen.Http.paramKeyCls = Gen.Http.tokenTbl ∧ Gen.Http.paramTokCls = Gen.Http.tokenTbl ∧
    (∀ n, n < 256 → (tbl Gen.Http.tokenTbl n = true ↔
      ((48 ≤ n ∧ n ≤ 57) ∨ (65 ≤ n ∧ n ≤ 90) ∨ (97 ≤ n ∧ n ≤ 122) ∨
        n ∈ [33, 35, 36, 37, 38, 39, 42, 43, 45, 46, 94, 95, 96, 124, 126]))) := by
  refine ⟨by decide, by decide, by decide, by decide, by decide +kernel, by decide +kernel, ?_⟩
  decide +kernel

/-! ### quoted strings -/

/-- `unquote_header_value(quote_header_value(v, allow_token)) == v` for every string `v`
(all of Unicode, CR/LF included) and both settings of `allow_token`. -/
theorem unquote_quote (v : Str) (allowToken : Bool) :
    unquoteHeaderValue (quoteHeaderValue v allowToken) = v :=
  unquote_quote_any v allowToken

example : unquoteHeaderValue (quoteHeaderValue ['\\', '"', ' ', 'a'] true) = ['\\', '"', ' ', 'a'] := by decide

/-- The backslash must be escaped *before* the quote: a dumper that only escaped `"` would break
the pairing on `\"` (what the detection self-test mutates). -/
theorem unquote_quote_needs_backslash_escape :
    unquoteHeaderValue ('"' :: replace1 '"' ['\\', '"'] ['a', '\\', '\\', 'b'] ++ ['"']) ≠ ['a', '\\', '\\', 'b'] := by
  decide

/-! ### comma lists and sets -/

/-- `parse_list_header(dump_header(items)) == items` for every list of strings (any Unicode,
empty strings, empty list). -/
theorem parseList_dump (items : List Str) : parseListHeader (dumpHeaderList items) = items :=
  parseList_dump_any items

example : parseListHeader (dumpHeaderList [[], ['a'], ['b', ',', '"', '\\', ' ']]) = [[], ['a'], ['b', ',', '"', '\\', ' ']] := by
  decide

/-- the members of `HeaderSet(items)`: since repair 1a2e0e6 (former finding F08c) the constructor runs
the loop of `update()`, so a header given in two spellings is kept once, in its first spelling -/
abbrev headerSetMembers := Wz.Http.headerSetMembers
/-- `list(parse_set_header(text))` -/
abbrev parseSetMembers := Wz.Http.parseSetMembers

/-- `parse_set_header(HeaderSet(items).to_header())` has the members of `HeaderSet(items)`, in order,
for **every** list of strings — case-duplicates included. -/
theorem parseSet_dump (items : List Str) :
    parseSetMembers (headerSetToHeader (headerSetMembers items)) = headerSetMembers items :=
  parseSet_dump_any items

example : headerSetMembers [['f', 'o', 'o'], ['B', 'a', 'r', ' ', 'x'], ['F', 'O', 'o']] = [['f', 'o', 'o'], ['B', 'a', 'r', ' ', 'x']]
    ∧ parseSetMembers (headerSetToHeader [['f', 'o', 'o'], ['B', 'a', 'r', ' ', 'x']]) = [['f', 'o', 'o'], ['B', 'a', 'r', ' ', 'x']] := by
  decide +kernel

/-- list level (what C16's views use): the text `to_header` writes for a member list parses back to
exactly that list -/
theorem parseSet_list_dump (items : List Str) : parseSetHeader (headerSetToHeader items) = items :=
  parseSet_list_dump_any items

/-- a list without case-duplicates is kept as is by the constructor, and the members of every
constructed set are distinct ignoring case -/
theorem headerSetMembers_spec (items : List Str) :
    ((headerSetMembers items).map pyLower).Nodup ∧
    ((items.map pyLower).Nodup → headerSetMembers items = items) :=
  ⟨headerSetMembers_nodup items, headerSetMembers_of_nodup items⟩

/-- regression F08c: `parse_set_header('Cookie, cookie')` keeps the first spelling only -/
theorem parseSet_keeps_first_spelling :
    parseSetMembers "Cookie, cookie, X, COOKIE".toList = ["Cookie".toList, "X".toList] := by decide +kernel

/-- normal form for list headers: re-serialising what the parser returned and parsing again is the
identity on parser images — here for *arbitrary* header text `h`. -/
theorem parseList_normal_form (h : Str) :
    parseListHeader (dumpHeaderList (parseListHeader h)) = parseListHeader h :=
  parseList_dump_any _

/-- ... and for set headers, on arbitrary (duplicate-bearing) text -/
theorem parseSet_normal_form (h : Str) :
    parseSetMembers (headerSetToHeader (parseSetMembers h)) = parseSetMembers h :=
  parseSet_normal_form_any h

/-! ### header sets reached through a mutation history -/

/-- two `HeaderSet` values are equal: same members in the same order (iteration, indexing,
`to_header`, `as_set(True)`) and the same case-folded index (`len`, `in`, `bool`, `as_set()`) -/
abbrev HsEquiv := Wz.Http.HsEquiv
/-- the object `parse_set_header(text)` builds -/
abbrev parseSetObj := Wz.Http.parseSetObj
/-- `HeaderSet(headers)` as repaired: the loop of `update()` from the empty set (C08's model of the loop) -/
abbrev hsCtor := Wz.Http.hsCtor
/-- a history run through the mutators **as regenerated from `structures.py`**
(`Gen/PyFns_HeaderSet.lean`: `update`, `add`, `remove`, `discard`, `__setitem__`; `clear` and
`__delitem__` from C08's hand model) -/
abbrev hsRun := Wz.Http.runT

/-- `parse_set_header(hs.to_header())` has exactly the members of `hs`, in order, whenever the members
of `hs` are distinct ignoring case (`to_header` reads `_headers` only; the constructor drops a second
spelling) — whatever the state of the index `_set` -/
theorem headerSet_members_roundtrip (c : HS.St) (ops : List HS.Op)
    (h : ((hsRun c ops).headers.map Hdr.lower).Nodup) :
    (parseSetObj (HS.toHeader (hsRun c ops))).headers = (hsRun c ops).headers := by
  unfold parseSetObj Wz.Http.parseSetObj
  rw [Wz.Http.parseSet_hsToHeader]
  exact Wz.Http.hsCtor_headers_of_nodup _ h

/-- the repaired constructor establishes C08's invariant for every input list -/
theorem headerSet_ctor_consistent (l : List Str) : HS.Inv (hsCtor l) := Wz.Http.hsCtor_inv l

/-- **`parse_set_header(hs.to_header()) == hs` for every reachable header set**: start from
`HeaderSet(l)` for **any** list `l` (since repair 1a2e0e6 the constructor itself removes
case-duplicates: the former hypothesis "members distinct ignoring case" is discharged), apply any
history of `add`, `update`, `remove`, `discard`, `clear`, `del hs[i]`, `hs[i] = v` (an item assignment
may re-spell the entry it replaces in another case, but not duplicate *another* member — known
finding F08b), serialise, parse: same members in the same order **and** the same `len` / `in` /
`as_set()`. The mutators are the definitions regenerated from the source on every run; the invariant
is C08's, for every history. -/
theorem headerSet_history_roundtrip (l : List Str) (ops : List HS.Op)
    (hok : C08L.hsOkHist (hsCtor l) ops = true) :
    HsEquiv (parseSetObj (HS.toHeader (hsRun (hsCtor l) ops))) (hsRun (hsCtor l) ops) :=
  Wz.Http.headerSet_history_roundtrip_any _ (Wz.Http.hsCtor_inv l) ops hok

example : C08L.hsOkHist (hsCtor [['G', 'E', 'T'], ['p', 'o', 's', 't'], ['g', 'e', 't']])
      [.setitem 0 ['g', 'e', 't'], .add ['P', 'O', 'S', 'T'], .remove ['G', 'e', 't'], .update [['x'], ['X']],
        .setitem (-1) ['y'], .discard ['q'], .delitem 0] = true := by decide

/-- the case the seeded re-ordering of `__setitem__` breaks: re-spelling an entry in another case
keeps it a member (`HeaderSet(["GET"]); hs[0] = "get"` has length 1 before and after the round trip) -/
theorem headerSet_setitem_case_variant :
    hsRun (hsCtor [['G', 'E', 'T']]) [.setitem 0 ['g', 'e', 't']] = ⟨[['g', 'e', 't']], [['g', 'e', 't']]⟩ ∧
    HsEquiv (parseSetObj (HS.toHeader (hsRun (hsCtor [['G', 'E', 'T']]) [.setitem 0 ['g', 'e', 't']])))
      (hsRun (hsCtor [['G', 'E', 'T']]) [.setitem 0 ['g', 'e', 't']]) := by
  decide

/-- regression F08c (repaired by 1a2e0e6): `HeaderSet(['a','A'])` keeps `a` only, so
`HeaderSet(['a','A']).remove('a')` is the empty set and round-trips — with the old constructor the
member `A` stayed behind, unknown to the index, and the parsed set had length 1, not 0 -/
theorem headerSet_history_needs_distinct_init :
    hsCtor [['a'], ['A']] = ⟨[['a']], [['a']]⟩ ∧
    HsEquiv (parseSetObj (HS.toHeader (hsRun (hsCtor [['a'], ['A']]) [.remove ['a']])))
      (hsRun (hsCtor [['a'], ['A']]) [.remove ['a']]) := by
  decide

/-- what the repair removed: an object whose member list has case-duplicates (as the old constructor
built from `['a','A']`) does not survive `remove` + round trip -/
theorem headerSet_inconsistent_state_fails :
    ¬ HsEquiv (parseSetObj (HS.toHeader (hsRun ⟨[['a'], ['A']], [['a']]⟩ [.remove ['a']])))
      (hsRun ⟨[['a'], ['A']], [['a']]⟩ [.remove ['a']]) := by
  decide

/-- an item assignment must not duplicate another member (F08b): `HeaderSet(['a','b']); hs[0] = 'B';
hs.remove('b')` -/
theorem headerSet_history_needs_setitem_ok :
    ¬ HsEquiv (parseSetObj (HS.toHeader (hsRun (hsCtor [['a'], ['b']]) [.setitem 0 ['B'], .remove ['b']])))
      (hsRun (hsCtor [['a'], ['b']]) [.setitem 0 ['B'], .remove ['b']]) := by
  decide

/-! ### key=value dicts -/

/-- domain of dict keys: non-empty token without `*` -/
abbrev KeyOk := Wz.Http.KeyOk

/-- `parse_dict_header(dump_header(d)) == d` (same keys, same order, same values) for every dict
with distinct non-empty token keys free of `*`; values are `None` or arbitrary strings. -/
theorem parseDict_dump (d : Dict (Option Str))
    (hk : ∀ x ∈ d, KeyOk x.1 = true) (hnd : (d.map (·.1)).Nodup) :
    (dumpHeaderDict d >>= parseDictHeader) = .ok d :=
  parseDict_dump_any d hk hnd

example : (∀ x ∈ [(['a'], some ['b', ' ', '"']), (['c', '-', 'd'], none), (['e'], some [])], KeyOk x.1 = true)
    ∧ ([(['a'], some ['b', ' ', '"']), (['c', '-', 'd'], (none : Option Str)), (['e'], some [])].map (·.1)).Nodup := by
  decide

/-- the key must be non-empty: `dump_header` indexes `key[-1]` -/
theorem parseDict_dump_needs_nonempty_key :
    dumpHeaderDict [([], some ['x'])] = .error "IndexError" := by decide

/-- the key must be a token: a comma in the key splits the item -/
theorem parseDict_dump_needs_token_key :
    (dumpHeaderDict [(['a', ',', 'b'], some ['x'])] >>= parseDictHeader) ≠ .ok [(['a', ',', 'b'], some ['x'])] := by
  decide

/-- the key must not end in `*`: the value is then written unquoted and read as an RFC 2231 value -/
theorem parseDict_dump_needs_no_star :
    (dumpHeaderDict [(['a', '*'], some ['x', ' ', 'y'])] >>= parseDictHeader) ≠ .ok [(['a', '*'], some ['x', ' ', 'y'])] := by
  decide

/-- keys must be distinct (a Python dict guarantees it; the association-list model must ask) -/
theorem parseDict_dump_needs_distinct :
    (dumpHeaderDict [(['a'], some ['1']), (['a'], some ['2'])] >>= parseDictHeader)
      ≠ .ok [(['a'], some ['1']), (['a'], some ['2'])] := by
  decide

/-! ### option headers -/

/-- primary value: non-empty, no `;`, no surrounding white space -/
abbrev HdrOk := Wz.Http.HdrOk
/-- parameter name: non-empty lower-case token without `*` -/
abbrev OptKeyOk := Wz.Http.OptKeyOk
/-- the text contains the literal `%22` -/
abbrev hasPct22 := Wz.Http.hasPct22

/-- `parse_options_header(dump_options_header(h, opts)) == (h, opts)` for every primary value `h`
(non-empty, no `;`, stripped) and every dict of parameters with distinct lower-case token names free
of `*` and arbitrary Unicode values that do not contain the literal `%22`. -/
theorem parseOptions_dump (h : Str) (opts : List (Str × Str)) (hh : HdrOk h = true)
    (hk : ∀ x ∈ opts, OptKeyOk x.1 = true) (hv : ∀ x ∈ opts, hasPct22 x.2 = false)
    (hnd : (opts.map (·.1)).Nodup) :
    (dumpOptionsHeader (some h) (opts.map fun kv => (kv.1, some kv.2)) >>= parseOptionsHeader) = .ok (h, opts) :=
  parseOptions_dump_any h opts hh hk hv hnd

example : HdrOk "form-data".toList = true ∧
    (∀ x ∈ [("name".toList, ['a', '"', 'b', '\\', ';', ' ']), ("filename".toList, ([] : Str)), ("x".toList, "%2".toList)],
      OptKeyOk x.1 = true ∧ hasPct22 x.2 = false) ∧
    ([("name".toList, ['a', '"', 'b', '\\', ';', ' ']), ("filename".toList, ([] : Str)), ("x".toList, "%2".toList)].map (·.1)).Nodup := by
  decide

/-- the primary value must be non-empty: `parse_options_header` returns no options otherwise -/
theorem parseOptions_dump_needs_header :
    (dumpOptionsHeader (some []) [(['k'], some ['v'])] >>= parseOptionsHeader) ≠ .ok ([], [(['k'], ['v'])]) := by
  decide

/-- ... free of `;` -/
theorem parseOptions_dump_needs_no_semicolon :
    (dumpOptionsHeader (some ['a', ';', 'b']) [(['k'], some ['v'])] >>= parseOptionsHeader)
      ≠ .ok (['a', ';', 'b'], [(['k'], ['v'])]) := by
  decide

/-- ... and stripped -/
theorem parseOptions_dump_needs_stripped :
    (dumpOptionsHeader (some [' ', 'a']) [] >>= parseOptionsHeader) ≠ .ok ([' ', 'a'], []) := by
  decide

/-- parameter names are lower-cased by the parser -/
theorem parseOptions_dump_needs_lowercase :
    (dumpOptionsHeader (some ['a']) [(['K'], some ['v'])] >>= parseOptionsHeader) ≠ .ok (['a'], [(['K'], ['v'])]) := by
  decide

/-- a `*` in the name is RFC 2231 syntax (`k*0` is a continuation of `k`) -/
theorem parseOptions_dump_needs_no_star :
    (dumpOptionsHeader (some ['a']) [(['k', '*', '0'], some ['v'])] >>= parseOptionsHeader)
      ≠ .ok (['a'], [(['k', '*', '0'], ['v'])]) := by
  decide

/-- the literal `%22` inside a quoted value decodes to `"` (documented) -/
theorem parseOptions_dump_needs_no_pct22 :
    (dumpOptionsHeader (some ['a']) [(['k'], some ['x', ' ', '%', '2', '2'])] >>= parseOptionsHeader)
      ≠ .ok (['a'], [(['k'], ['x', ' ', '%', '2', '2'])]) := by
  decide

/-- names must be distinct -/
theorem parseOptions_dump_needs_distinct :
    (dumpOptionsHeader (some ['a']) [(['k'], some ['1']), (['k'], some ['2'])] >>= parseOptionsHeader)
      ≠ .ok (['a'], [(['k'], ['1']), (['k'], ['2'])]) := by
  decide

/-! ### entity tags -/

/-- an entity tag of the domain: no `"`, no LF (`.` of `_etag_re` does not match LF) -/
abbrev TagOk := Wz.Http.TagOk

/-- `unquote_etag(quote_etag(e, weak)) == (e, weak)` for every tag without `"` (the empty tag
included). -/
theorem etag_roundtrip (e : Str) (weak : Bool) (hq : e.contains '"' = false) :
    (quoteEtag e weak).map unquoteEtag = .ok (some (e, weak)) :=
  unquote_quoteEtag e weak hq

example : (quoteEtag ['W', '/', ' ', 'x'] true).map unquoteEtag = .ok (some (['W', '/', ' ', 'x'], true)) := by decide

/-- `quote_etag` refuses a tag containing `"` (documented ValueError) -/
theorem etag_roundtrip_needs_no_quote : quoteEtag ['a', '"'] = .error "ValueError" := by decide

/-- `parse_etags(ETags(strong, weak).to_header())` has the same strong and weak members, for every
collection of tags without `"` and LF (empty tags included) and for every iteration order of the two frozensets
(the lists are arbitrary orderings; equal lists give equal sets). -/
theorem etags_roundtrip (strong weak : List Str)
    (hs : ∀ x ∈ strong, TagOk x = true) (hw : ∀ x ∈ weak, TagOk x = true) :
    parseEtags (etagsToHeader ⟨strong.map some, weak.map some, false⟩)
      = ⟨strong.map some, weak.map some, false⟩ :=
  etags_roundtrip_any strong weak hs hw

example : (∀ x ∈ [['a', ',', ' ', 'b'], ['*'], ['W', '/']], TagOk x = true) ∧ (∀ x ∈ [[' ', 'é']], TagOk x = true) := by
  decide

/-- the star tag round-trips too -/
theorem etags_star_roundtrip : parseEtags (etagsToHeader ⟨[], [], true⟩) = ⟨[], [], true⟩ := by decide

/-- since the repair that keeps the empty entity tag, `""` round-trips as well (the theorem above
does not ask for non-empty tags, a superset of the property's domain) -/
theorem etags_empty_tag_roundtrip :
    parseEtags (etagsToHeader ⟨[some []], [some []], false⟩) = ⟨[some []], [some []], false⟩ := by decide

/-- a `"` inside a tag ends it early -/
theorem etags_roundtrip_needs_no_quote :
    parseEtags (etagsToHeader ⟨[some ['a', '"', ',', 'b']], [], false⟩) ≠ ⟨[some ['a', '"', ',', 'b']], [], false⟩ := by
  decide

/-- `.` does not match LF: a tag containing one is not recognised -/
theorem etags_roundtrip_needs_no_lf :
    parseEtags (etagsToHeader ⟨[some ['a', '\n', 'b']], [], false⟩) ≠ ⟨[some ['a', '\n', 'b']], [], false⟩ := by
  decide

/-! ### Range -/

/-- range units: no `=`, already stripped and lower-case (the parser strips and lower-cases them) -/
abbrev UnitsOk := Wz.Http.UnitsOk
/-- ranges as `parse_range_header` demands: ascending, non-overlapping `0 ≤ start < stop`;
an open-ended (`start-`) or suffix (`-n`, n ≥ 1) range only in last position -/
abbrev rangesOk := Wz.Http.rangesOk

/-- `parse_range_header(Range(units, ranges).to_header())` returns the same units and ranges, for
single and multiple ranges with `0 ≤ start < stop`, suffix ranges and open-ended ranges, over
unbounded integers. -/
theorem range_roundtrip (u : Str) (rs : List (Int × Option Int)) (hu : UnitsOk u = true)
    (hne : rs ≠ []) (hr : rangesOk 0 rs = true) :
    parseRangeHeader (rangeToHeader ⟨u, rs⟩) = .ok (some ⟨u, rs⟩) :=
  range_roundtrip_any u rs hu hne hr

example : UnitsOk "bytes".toList = true ∧ rangesOk 0 [(0, some 500), (500, some 501), (700, none)] = true
    ∧ rangesOk 0 [(-500, none)] = true ∧ rangesOk 0 [(0, some 1), (-1, none)] = true := by decide

/-- the parser refuses `start ≥ stop` (the constructor of `Range` refuses it too) -/
theorem range_roundtrip_needs_start_lt_stop : rangeCtor "bytes".toList [(5, some 5)] = .error "ValueError" := by
  decide

/-- ... overlapping or descending ranges -/
theorem range_roundtrip_needs_ascending :
    parseRangeHeader (rangeToHeader ⟨"bytes".toList, [(0, some 10), (5, some 20)]⟩)
      ≠ .ok (some ⟨"bytes".toList, [(0, some 10), (5, some 20)]⟩) := by decide

/-- ... anything after an open-ended or suffix range -/
theorem range_roundtrip_needs_open_last :
    parseRangeHeader (rangeToHeader ⟨"bytes".toList, [(3, none), (5, some 6)]⟩)
      ≠ .ok (some ⟨"bytes".toList, [(3, none), (5, some 6)]⟩) := by decide

/-- ... an empty range list -/
theorem range_roundtrip_needs_nonempty :
    parseRangeHeader (rangeToHeader ⟨"bytes".toList, []⟩) ≠ .ok (some ⟨"bytes".toList, []⟩) := by decide

/-- regression (repair 84dd3fe): a zero suffix length `-0` is refused; the value `(0, None)` is
written `0-` and is unaffected -/
theorem range_zero_suffix : parseRangeHeader "bytes=-0".toList = .ok none
    ∧ parseRangeHeader (rangeToHeader ⟨"bytes".toList, [(0, none)]⟩) = .ok (some ⟨"bytes".toList, [(0, none)]⟩) := by
  decide

/-- units are lower-cased by the parser -/
theorem range_roundtrip_needs_lower_units :
    parseRangeHeader (rangeToHeader ⟨"Bytes".toList, [(0, some 1)]⟩) ≠ .ok (some ⟨"Bytes".toList, [(0, some 1)]⟩) := by
  decide

/-! ### Content-Range -/

/-- a content range valid for its length (`is_byte_range_valid`) with units free of white space -/
abbrev CRangeOk := Wz.Http.CRangeOk

/-- `parse_content_range_header(ContentRange(units, start, stop, length).to_header())` returns the
same four fields, for every range `is_byte_range_valid` accepts (unknown length `*`, unsatisfied
range `*/length` included). -/
theorem contentRange_roundtrip (c : ContentRangeV) (h : CRangeOk c = true) :
    parseContentRangeHeader (contentRangeToHeader c) = .ok (some c) :=
  contentRange_roundtrip_any c h

example : CRangeOk ⟨some "bytes".toList, some 0, some 500, some 1000⟩ = true
    ∧ CRangeOk ⟨some "bytes".toList, none, none, some 0⟩ = true
    ∧ CRangeOk ⟨some "items".toList, some 7, some 8, none⟩ = true := by decide

/-- units containing white space are split at it -/
theorem contentRange_roundtrip_needs_units :
    parseContentRangeHeader (contentRangeToHeader ⟨some "by tes".toList, some 0, some 1, some 2⟩)
      ≠ .ok (some ⟨some "by tes".toList, some 0, some 1, some 2⟩) := by decide

/-- a range outside its length is refused by the parser (`ContentRange` asserts the same) -/
theorem contentRange_roundtrip_needs_valid :
    parseContentRangeHeader (contentRangeToHeader ⟨some "bytes".toList, some 5, some 10, some 3⟩) = .ok none := by
  decide

/-! ### Age -/

/-- `parse_age(dump_age(n)) == timedelta(seconds=n)` for every non-negative number of seconds a
`timedelta` can hold. -/
theorem age_roundtrip (n : Nat) (h : n ≤ Gen.Http.timedeltaMaxSeconds) : parseAge (dumpAge n) = .ok (some n) :=
  age_roundtrip_any n h

example : (86399999999999 : Nat) ≤ Gen.Http.timedeltaMaxSeconds := by decide

/-- beyond `timedelta.max` the parser answers `None` (the OverflowError is caught) -/
theorem age_roundtrip_needs_timedelta_range : parseAge (dumpAge 86400000000000) = .ok none := by decide

/-! ### Cache-Control -/

/-- a directive dict: distinct non-empty token keys without `*` -/
abbrev DictOk := Wz.Http.DictOk
abbrev CCValFor := Wz.Http.CCValFor
abbrev ccExpected := Wz.Http.ccExpected

/-- decoding of a generated table row `(attribute, key, empty, type)` -/
def ccRow (r : String × String × String × String) : Option (Str × CCVal × CCType) :=
  let ty := if r.2.2.2 == "bool" then some CCType.bool else if r.2.2.2 == "int" then some CCType.int
    else if r.2.2.2 == "none" then some CCType.str else none
  let em := if r.2.2.1 == "none" then some CCVal.none else if r.2.2.1 == "true" then some CCVal.true_ else none
  match ty, em with
  | some ty, some em => some (r.2.1.toList, em, ty)
  | _, _ => none

/-- every typed property of `RequestCacheControl` / `ResponseCacheControl` (read from the live
classes) has a directive key in the domain of `parseDict_dump`, one of the three modelled types and
one of the two modelled "present without value" results. -/
theorem cacheControl_table_wellformed :
    (Gen.Http.requestCacheControl ++ Gen.Http.responseCacheControl).all
      (fun r => match ccRow r with | some (k, _, _) => KeyOk k | none => false) = true := by
  decide +kernel

/-- For every typed cache-control property (key, empty, type) and every directive dict `d`:
setting the property to `v`, serialising with `to_header`, and parsing with
`parse_cache_control_header` gives back the same directive dict, and the typed getter returns the
value that was set (`True`/`False` for bool; the int / string; `empty` when set to `True`;
`None` when unset). -/
theorem cacheControl_roundtrip (d : Dict (Option Str)) (key : Str) (empty v : CCVal) (ty : CCType)
    (hd : DictOk d) (hk : KeyOk key = true) (hv : CCValFor ty v = true) :
    (dumpHeaderDict (setCacheValue d key v ty) >>= parseCacheControl) = .ok (setCacheValue d key v ty)
    ∧ getCacheValue (setCacheValue d key v ty) key empty ty = .ok (ccExpected ty empty v) :=
  cacheControl_roundtrip_any d key empty v ty hd hk hv

example : DictOk [("no-store".toList, none), ("max-age".toList, some "5".toList)] ∧ KeyOk "max-stale".toList = true
    ∧ CCValFor .int (.int (-3)) = true := by
  refine ⟨⟨by decide, by decide⟩, by decide, by decide⟩

/-- the same, instantiated on every row of the generated property tables -/
theorem cacheControl_roundtrip_typed (r : String × String × String × String)
    (hr : r ∈ Gen.Http.requestCacheControl ++ Gen.Http.responseCacheControl)
    (key : Str) (empty : CCVal) (ty : CCType) (hrow : ccRow r = some (key, empty, ty))
    (d : Dict (Option Str)) (v : CCVal) (hd : DictOk d) (hv : CCValFor ty v = true) :
    (dumpHeaderDict (setCacheValue d key v ty) >>= parseCacheControl >>= fun p => getCacheValue p key empty ty)
      = .ok (ccExpected ty empty v) := by
  have hall := cacheControl_table_wellformed
  rw [List.all_eq_true] at hall
  have hk := hall r hr
  rw [hrow] at hk
  obtain ⟨h1, h2⟩ := cacheControl_roundtrip_any d key empty v ty hd hk hv
  rw [h1]
  exact h2

/-- an int property holding text that is not an integer reads as `None` (not the text) -/
theorem cacheControl_int_needs_int_text :
    getCacheValue [("max-age".toList, some "soon".toList)] "max-age".toList .none .int = .ok .none := by decide

/-- one step of building a cache-control object: a typed property assignment / deletion, a dict
item assignment / `pop`, `clear` -/
abbrev CCOp := Wz.Http.CCOp
abbrev ccRun := Wz.Http.ccRun
abbrev CCOpOk := Wz.Http.CCOpOk

/-- the round trip for every cache-control object **reachable by an assignment history** (typed
property sets with values of the property's type, `del`, `cc[k] = v`, `pop`, `clear`) from a valid
directive dict: `parse_cache_control_header(cc.to_header())` is the same directive dict ... -/
theorem cacheControl_history_roundtrip (d : Dict (Option Str)) (ops : List CCOp) (hd : DictOk d)
    (hops : ∀ op ∈ ops, CCOpOk op = true) :
    (dumpHeaderDict (ccRun d ops) >>= parseCacheControl) = .ok (ccRun d ops) :=
  cacheControl_history_roundtrip_any d ops hd hops

/-- ... and a typed getter reads back the value last assigned through its property. -/
theorem cacheControl_history_get (d : Dict (Option Str)) (ops : List CCOp) (key : Str) (empty v : CCVal)
    (ty : CCType) (hd : DictOk d) (hops : ∀ op ∈ ops, CCOpOk op = true) (hk : KeyOk key = true)
    (hv : CCValFor ty v = true) :
    (dumpHeaderDict (ccRun d (ops ++ [.setTyped key ty v])) >>= parseCacheControl
        >>= fun p => getCacheValue p key empty ty) = .ok (ccExpected ty empty v) :=
  cacheControl_history_get_any d ops key empty v ty hd hops hk hv

example : ∀ op ∈ [CCOp.setTyped "max-age".toList .int (.int 5), .setTyped "no-store".toList .bool .true_,
    .delTyped "max-age".toList, .setItem "x-ext".toList (some "a b".toList), .popItem "q".toList, .clear,
    .setTyped "private".toList .str (.str "a, b".toList)], CCOpOk op = true := by decide

/-- the key of a dict-style assignment must be a token: `cc["a,b"] = "x"` does not survive -/
theorem cacheControl_history_needs_token_key :
    (dumpHeaderDict (ccRun [] [.setItem "a,b".toList (some "x".toList)]) >>= parseCacheControl)
      ≠ .ok (ccRun [] [.setItem "a,b".toList (some "x".toList)]) := by decide

/-! ### Content-Security-Policy -/

/-- directive: stripped, non-empty, no space, no `;` — value: stripped, non-empty, no `;` -/
abbrev CspItemOk := Wz.Http.CspItemOk

/-- `parse_csp_header(ContentSecurityPolicy(d).to_header()) == d` (same directives, same order). -/
theorem csp_roundtrip (d : Dict Str) (hok : ∀ x ∈ d, CspItemOk x = true) (hnd : (d.map (·.1)).Nodup) :
    parseCsp (dumpCsp d) = d :=
  csp_roundtrip_any d hok hnd

example : (∀ x ∈ [("default-src".toList, "'self'".toList), ("img-src".toList, "data: https://x.example".toList)],
    CspItemOk x = true) := by decide

theorem csp_roundtrip_needs_no_semicolon :
    parseCsp (dumpCsp [("a".toList, "b;c".toList)]) ≠ [("a".toList, "b;c".toList)] := by decide
theorem csp_roundtrip_needs_no_space_in_directive :
    parseCsp (dumpCsp [("a b".toList, "c".toList)]) ≠ [("a b".toList, "c".toList)] := by decide
theorem csp_roundtrip_needs_stripped_value :
    parseCsp (dumpCsp [("a".toList, " b".toList)]) ≠ [("a".toList, " b".toList)] := by decide
theorem csp_roundtrip_needs_nonempty_value :
    parseCsp (dumpCsp [("a".toList, [])]) ≠ [("a".toList, [])] := by decide

/-- one step of building a CSP object: `csp.<property> = value / None`, `csp[k] = v`, `del`, `clear` -/
abbrev CspOp := Wz.Http.CspOp
abbrev cspRun := Wz.Http.cspRun
abbrev CspOpOk := Wz.Http.CspOpOk
abbrev CspDictOk := Wz.Http.CspDictOk

/-- the round trip for every `ContentSecurityPolicy` **reachable by an assignment history** -/
theorem csp_history_roundtrip (d : Dict Str) (ops : List CspOp) (hd : CspDictOk d)
    (hops : ∀ op ∈ ops, CspOpOk op = true) : parseCsp (dumpCsp (cspRun d ops)) = cspRun d ops :=
  csp_history_roundtrip_any d ops hd hops

example : CspDictOk [] ∧ ∀ op ∈ [CspOp.set "default-src".toList (some "'self'".toList), .set "img-src".toList (some "data: *".toList),
    .set "default-src".toList none, .del "x".toList, .clear, .set "report-uri".toList (some "/r".toList)], CspOpOk op = true := by
  refine ⟨⟨by simp, by simp⟩, by decide⟩

/-- every typed CSP property of the live class has a directive key the domain accepts (stripped,
non-empty, no space, no `;`) — `decide` over the regenerated key list -/
theorem csp_property_keys_wellformed :
    Gen.Http.cspKeys.all (fun k => CspItemOk (k.toList, ['x'])) = true := by decide +kernel

/-! ### Authorization / WWW-Authenticate -/

abbrev SchemeOk := Wz.Http.SchemeOk
abbrev AuthTokenOk := Wz.Http.AuthTokenOk

/-- base64: `b64decode(b64encode(bs)) == bs` for every byte string (hand-modelled CPython
`binascii` state machine, alphabet table by `decide`, bit arithmetic by `omega`). -/
theorem base64_roundtrip (bs : Bytes) : b64Decode (b64Encode bs) = .ok bs := b64_roundtrip bs

/-- `Authorization.from_header(Authorization("basic", {"username": u, "password": p}).to_header())`
returns the same credentials for every Unicode user name without `:` and every Unicode password. -/
theorem basic_roundtrip (u p : Str) (hu : ':' ∉ u) :
    (authorizationToHeader ⟨"basic".toList, basicParams u p, none⟩ >>= authorizationFromHeader)
      = .ok (some ⟨"basic".toList, basicParams u p, none⟩) :=
  basic_roundtrip_any u p hu

example : ':' ∉ "üser name".toList := by decide

/-- a `:` in the user name moves the rest of it into the password -/
theorem basic_roundtrip_needs_no_colon :
    (authorizationToHeader ⟨"basic".toList, basicParams "a:b".toList "c".toList, none⟩ >>= authorizationFromHeader)
      ≠ .ok (some ⟨"basic".toList, basicParams "a:b".toList "c".toList, none⟩) := by decide +kernel

/-- token schemes (`Bearer <token>`): scheme survives `.title()`/`.lower()`, token is stripped and
has `=` only as trailing padding -/
theorem token_auth_roundtrip (t tok : Str) (ht : SchemeOk t = true) (htok : AuthTokenOk tok = true) :
    (authorizationToHeader ⟨t, [], some tok⟩ >>= authorizationFromHeader) = .ok (some ⟨t, [], some tok⟩)
    ∧ (wwwToHeader ⟨t, [], some tok⟩ >>= wwwFromHeader) = .ok (some ⟨t, [], some tok⟩) :=
  ⟨token_auth_roundtrip_any t tok ht htok, www_token_roundtrip_any t tok ht htok⟩

example : SchemeOk "bearer".toList = true ∧ AuthTokenOk "abc.def-_~+/==".toList = true := by decide

/-- a `=` that is not trailing makes the parser read parameters instead of a token -/
theorem token_auth_roundtrip_needs_token :
    (authorizationToHeader ⟨"bearer".toList, [], some "a=b".toList⟩ >>= authorizationFromHeader)
      ≠ .ok (some ⟨"bearer".toList, [], some "a=b".toList⟩) := by decide

/-- a scheme name in upper case is lower-cased by the parser -/
theorem token_auth_roundtrip_needs_lower_scheme :
    (authorizationToHeader ⟨"Bearer".toList, [], some "t".toList⟩ >>= authorizationFromHeader)
      ≠ .ok (some ⟨"Bearer".toList, [], some "t".toList⟩) := by decide

/-- parameter schemes (`Digest k=v, ...`) for `Authorization`: non-empty dict of distinct token keys
without `*`, the first value present -/
theorem param_auth_roundtrip (t : Str) (x : Str × Option Str) (d : Dict (Option Str))
    (ht : SchemeOk t = true) (hk : ∀ y ∈ x :: d, KeyOk y.1 = true)
    (hnd : ((x :: d).map (·.1)).Nodup) (hv : x.2.isSome = true) :
    (authorizationToHeader ⟨t, x :: d, none⟩ >>= authorizationFromHeader) = .ok (some ⟨t, x :: d, none⟩) :=
  param_auth_roundtrip_any t x d ht hk hnd hv

example : SchemeOk "digest".toList = true
    ∧ (∀ y ∈ [("realm".toList, some "a b".toList), ("qop".toList, some "auth".toList)], KeyOk y.1 = true) := by decide

/-- the same for `WWW-Authenticate` with a scheme other than `digest` (whose quoting differs) -/
theorem www_param_roundtrip (t : Str) (x : Str × Option Str) (d : Dict (Option Str))
    (ht : SchemeOk t = true) (hnd' : (t == "digest".toList) = false)
    (hk : ∀ y ∈ x :: d, KeyOk y.1 = true)
    (hnd : ((x :: d).map (·.1)).Nodup) (hv : x.2.isSome = true) :
    (wwwToHeader ⟨t, x :: d, none⟩ >>= wwwFromHeader) = .ok (some ⟨t, x :: d, none⟩) :=
  www_param_roundtrip_any t x d ht hnd' hk hnd hv

example : SchemeOk "basic1".toList = true ∧ ("basic1".toList == "digest".toList) = false := by decide

/-- `WWW-Authenticate: Digest ...`: `to_header` always quotes `realm`, `domain`, `nonce`, `opaque`,
`qop` (generated literal set) and quotes the other values on demand; `from_header` returns the same
parameters for every non-empty dict of distinct token keys without `*` and string values -/
theorem www_digest_roundtrip (x : Str × Str) (d : List (Str × Str))
    (hk : ∀ y ∈ x :: d, KeyOk y.1 = true) (hnd : ((x :: d).map (·.1)).Nodup) :
    (wwwToHeader ⟨"digest".toList, (x :: d).map (fun kv => (kv.1, some kv.2)), none⟩ >>= wwwFromHeader)
      = .ok (some ⟨"digest".toList, (x :: d).map (fun kv => (kv.1, some kv.2)), none⟩) :=
  www_digest_roundtrip_any x d hk hnd

example : (wwwToHeader ⟨"digest".toList, [("realm".toList, some "a".toList), ("algorithm".toList, some "MD5".toList),
      ("nonce".toList, some "x y\"".toList)], none⟩)
    = .ok "Digest realm=\"a\", algorithm=MD5, nonce=\"x y\\\"\"".toList := by decide

/-- the digest dumper writes a `None` value as the text `None` -/
theorem www_digest_roundtrip_needs_values :
    (wwwToHeader ⟨"digest".toList, [("realm".toList, none)], none⟩ >>= wwwFromHeader)
      ≠ .ok (some ⟨"digest".toList, [("realm".toList, none)], none⟩) := by decide

/-- an empty parameter dict serialises to a bare scheme, which reads back as an empty token -/
theorem param_auth_roundtrip_needs_nonempty :
    (authorizationToHeader ⟨"digest".toList, [], none⟩ >>= authorizationFromHeader)
      ≠ .ok (some ⟨"digest".toList, [], none⟩) := by decide

/-! ### HTTP dates -/

open Wz.Date in
/-- The English day and month names the live `http_date` writes (observed through the public
function on every run) are three letters each, the month names are pairwise distinct (each is found
at its own index), and the model formats the probe instant exactly as the live function did. -/
theorem date_tables :
    (∀ w, w < 7 → dayOk w = true) ∧ (∀ m, m < 12 → monthOk m = true) ∧
    httpDate (secondsOfCivil ⟨2024, 2, 3, 4, 5, 6⟩) = Gen.Http.dateSample.toList := by
  refine ⟨day_table, month_table, ?_⟩
  decide +kernel

open Wz.Date in
/-- `parse_date(http_date(t)) == t` for **every second** from 0100-01-01T00:00:00 to
9999-12-31T23:59:59 UTC (a superset of the property's years 1000..9999): proleptic-Gregorian
day-number arithmetic (400/100/4/1-year cycles) proved with `omega`, IMF-fixdate text by digit
arithmetic, names by `decide` over the generated tables. -/
theorem date_roundtrip (t : Nat) (h1 : tMin ≤ t) (h2 : t ≤ tMax) : parseDate (httpDate t) = some t :=
  date_roundtrip_any t h1 h2

open Wz.Date in
example : tMin ≤ 63839700306 ∧ 63839700306 ≤ tMax := by decide

open Wz.Date in
/-- an aware datetime (civil fields `c`, UTC offset `off` seconds) is normalised to UTC by
`http_date`; parsing returns the same instant -/
theorem date_roundtrip_aware (c : Civil) (off : Int) (w : List Char)
    (h1 : (tMin : Int) ≤ (secondsOfCivil c : Int) - off) (h2 : (secondsOfCivil c : Int) - off ≤ (tMax : Int))
    (hw : httpDateAware c off = some w) :
    parseDate w = some ((secondsOfCivil c : Int) - off).toNat := by
  unfold httpDateAware at hw
  simp only at hw
  split at hw
  · simp at hw
  · simp only [Option.some.injEq] at hw
    rw [← hw]
    exact date_roundtrip_any _ (by omega) (by omega)

open Wz.Date in
example : httpDateAware ⟨2024, 3, 1, 0, 30, 0⟩ 3600 = some "Thu, 29 Feb 2024 23:30:00 GMT".toList := by decide +kernel

open Wz.Date in
/-- below year 100 `email.utils` reads the four-digit year as a two-digit one (0099 → 1999) -/
theorem date_roundtrip_needs_year_100 : parseDate (httpDate (tMin - 1)) ≠ some (tMin - 1) := by decide +kernel

/-! ### If-Range -/

open Wz.Date in
/-- a date in an `If-Range` header round-trips (with the model's own date parser) -/
theorem ifRange_date_roundtrip (t : Nat) (h1 : tMin ≤ t) (h2 : t ≤ tMax) :
    (ifRangeToHeader (.date t)).map (parseIfRange parseDate) = .ok (.date t) := by
  have hne : (httpDate t).isEmpty = false := by
    have := date_roundtrip_any t h1 h2
    cases hq : httpDate t with
    | nil => rw [hq] at this; simp [parseDate, parseImfFixdate] at this
    | cons _ _ => rfl
  have hl := looksLikeEtag_httpDate t
  simp [ifRangeToHeader, Except.map, parseIfRange, hne, hl, date_roundtrip_any t h1 h2]

/-- an entity tag in an `If-Range` header round-trips for **every** tag without `"` and for whatever
date parser `pd` is in use (`email.utils` in the real code): since repair 31f8ea0 a value that
starts with `"` is never offered to the date parser (former finding F06a). -/
theorem ifRange_etag_roundtrip (pd : Str → Option Nat) (e : Str) (hq : e.contains '"' = false) :
    (ifRangeToHeader (.etag e)).map (parseIfRange pd) = .ok (.etag e) := by
  have h := unquote_quoteEtag e false hq
  simp only [quoteEtag, hq, Bool.false_eq_true, if_false, Except.map, List.nil_append, List.cons_append] at h
  simp only [Except.ok.injEq] at h
  have hq' : ¬ ('"' ∈ e) := by simpa using hq
  have hl : looksLikeEtag ('"' :: (e ++ ['"'])) = true := by
    simp [looksLikeEtag, lstrip, List.dropWhile_cons, show Py.isSpace '"' = false from by decide]
  simp [ifRangeToHeader, quoteEtag, hq', Except.map, parseIfRange, hl, h]

example : ("Thu, 01 Jan 2026 00:00:00 GMT".toList).contains '"' = false := by decide

/-- regression F06a: even a date parser that would accept the quoted text cannot turn the tag into a
date any more -/
theorem ifRange_etag_date_lookalike (t : Nat) :
    (ifRangeToHeader (.etag "Thu, 01 Jan 2026 00:00:00 GMT".toList)).map (parseIfRange fun _ => some t)
      = .ok (.etag "Thu, 01 Jan 2026 00:00:00 GMT".toList) :=
  ifRange_etag_roundtrip _ _ (by decide)

/-- `quote_etag` refuses a tag containing `"` -/
theorem ifRange_etag_roundtrip_needs_no_quote : ifRangeToHeader (.etag ['a', '"']) = .error "ValueError" := by decide

/-! ### parsing is a normal form (on the image of the dumpers; for list and set headers see above
for arbitrary text) -/

theorem parseDict_normal_form (d : Dict (Option Str))
    (hk : ∀ x ∈ d, KeyOk x.1 = true) (hnd : (d.map (·.1)).Nodup) :
    (dumpHeaderDict d >>= parseDictHeader >>= dumpHeaderDict >>= parseDictHeader)
      = (dumpHeaderDict d >>= parseDictHeader) := by
  rw [parseDict_dump_any d hk hnd]
  simp only [ok_bind]
  exact parseDict_dump_any d hk hnd

theorem parseOptions_normal_form (h : Str) (opts : List (Str × Str)) (hh : HdrOk h = true)
    (hk : ∀ x ∈ opts, OptKeyOk x.1 = true) (hv : ∀ x ∈ opts, hasPct22 x.2 = false)
    (hnd : (opts.map (·.1)).Nodup) :
    (dumpOptionsHeader (some h) (opts.map fun kv => (kv.1, some kv.2)) >>= parseOptionsHeader
        >>= fun r => dumpOptionsHeader (some r.1) (r.2.map fun kv => (kv.1, some kv.2)) >>= parseOptionsHeader)
      = (dumpOptionsHeader (some h) (opts.map fun kv => (kv.1, some kv.2)) >>= parseOptionsHeader) := by
  rw [parseOptions_dump_any h opts hh hk hv hnd]
  simp only [ok_bind]
  exact parseOptions_dump_any h opts hh hk hv hnd

/-- for *arbitrary* header text `parse_options_header` is **not** a normal form: a parameter name
that still ends in `*` after the RFC 2231 marker was removed (`a**`) is re-read as a marker ... -/
theorem parseOptions_normal_form_arbitrary_false_star :
    (parseOptionsHeader "x; a**=b".toList >>= fun r =>
        dumpOptionsHeader (some r.1) (r.2.map fun kv => (kv.1, some kv.2)) >>= parseOptionsHeader)
      ≠ parseOptionsHeader "x; a**=b".toList := by decide

/-- ... and a percent-decoded value may contain the literal `%22`, which the quoted form turns
into `"` (both outside the domain of `parseOptions_dump`, by its `_needs_` witnesses) -/
theorem parseOptions_normal_form_arbitrary_false_pct22 :
    (parseOptionsHeader "x; k*=utf-8''a%20%2522".toList >>= fun r =>
        dumpOptionsHeader (some r.1) (r.2.map fun kv => (kv.1, some kv.2)) >>= parseOptionsHeader)
      ≠ parseOptionsHeader "x; k*=utf-8''a%20%2522".toList := by decide +kernel

theorem etags_normal_form (strong weak : List Str)
    (hs : ∀ x ∈ strong, TagOk x = true) (hw : ∀ x ∈ weak, TagOk x = true) :
    parseEtags (etagsToHeader (parseEtags (etagsToHeader ⟨strong.map some, weak.map some, false⟩)))
      = parseEtags (etagsToHeader ⟨strong.map some, weak.map some, false⟩) := by
  rw [etags_roundtrip_any strong weak hs hw]
  exact etags_roundtrip_any strong weak hs hw

/-- **normal form on arbitrary text**: for *every* header text `h` (not only the dumper's image),
`parse_etags(parse_etags(h).to_header()) == parse_etags(h)`. Content: whatever the regex captures
as one tag — a quoted tag may contain `"`, a raw tag may contain anything but a comma after white
space — is *closed*: inside `"tag"` no inner quote is followed by (white space and) a comma, so the
lazy `"(.*?)"` stops at the final quote again. -/
theorem etags_normal_form_arbitrary (h : Str) :
    parseEtags (etagsToHeader (parseEtags h)) = parseEtags h :=
  etags_normal_form_any h

example : parseEtags "a\"b , W/\"x\" y\", \"q\" ,, *x".toList
    = ⟨[some "a\"b".toList, some "q".toList, some [], some "*x".toList], [some "x\" y".toList], false⟩ := by decide

/-- the former `None` quirk is gone: the empty quoted tag is a fixed point of parse ∘ dump -/
theorem etags_normal_form_empty_tag :
    parseEtags (etagsToHeader (parseEtags ['"', '"'])) = parseEtags ['"', '"'] := by decide

theorem range_normal_form (u : Str) (rs : List (Int × Option Int)) (hu : UnitsOk u = true)
    (hne : rs ≠ []) (hr : rangesOk 0 rs = true) :
    (parseRangeHeader (rangeToHeader ⟨u, rs⟩) >>= fun r =>
        match r with | some r => parseRangeHeader (rangeToHeader r) | none => pure none)
      = parseRangeHeader (rangeToHeader ⟨u, rs⟩) := by
  rw [range_roundtrip_any u rs hu hne hr]
  simp only [ok_bind]
  exact range_roundtrip_any u rs hu hne hr

theorem contentRange_normal_form (c : ContentRangeV) (h : CRangeOk c = true) :
    (parseContentRangeHeader (contentRangeToHeader c) >>= fun r =>
        match r with | some r => parseContentRangeHeader (contentRangeToHeader r) | none => pure none)
      = parseContentRangeHeader (contentRangeToHeader c) := by
  rw [contentRange_roundtrip_any c h]
  simp only [ok_bind]
  exact contentRange_roundtrip_any c h

theorem csp_normal_form (d : Dict Str) (hok : ∀ x ∈ d, CspItemOk x = true) (hnd : (d.map (·.1)).Nodup) :
    parseCsp (dumpCsp (parseCsp (dumpCsp d))) = parseCsp (dumpCsp d) := by
  rw [csp_roundtrip_any d hok hnd]
  exact csp_roundtrip_any d hok hnd

/-! ### normal form on *arbitrary header text* (not only on the dumpers' images) -/

/-- quoted strings: `unquote(quote(unquote(h))) == unquote(h)` for every text `h` -/
theorem unquote_normal_form_arbitrary (h : Str) (allowToken : Bool) :
    unquoteHeaderValue (quoteHeaderValue (unquoteHeaderValue h) allowToken) = unquoteHeaderValue h :=
  unquote_quote_any _ allowToken

/-- **Range**: for *every* header text `h`, if `parse_range_header(h)` returns a `Range` then
`parse_range_header(range.to_header())` returns the same `Range`. Content: whatever the item loop
accepts is ascending and non-overlapping with an open / suffix range only last (the loop invariant),
a `-n` item is negative, at least one range is present, and the units (`strip().lower()` of text
without `=`) are a fixed point of `strip().lower()` — `str.lower()` facts by `decide` over the
regenerated table. -/
theorem range_normal_form_arbitrary (h : Str) (r : RangeV) (hp : parseRangeHeader h = .ok (some r)) :
    parseRangeHeader (rangeToHeader r) = .ok (some r) :=
  range_normal_form_any h r hp

example : parseRangeHeader " Bytes = 0 - 4 , 7-, ".toList = .ok none
    ∧ parseRangeHeader " BYTES= 0 - 4 ,7- ".toList = .ok (some ⟨"bytes".toList, [(0, some 5), (7, none)]⟩) := by decide

/-- every `Range` the parser returns lies in the domain of `range_roundtrip` -/
theorem range_parser_image (h : Str) (r : RangeV) (hp : parseRangeHeader h = .ok (some r)) :
    UnitsOk r.units = true ∧ r.ranges ≠ [] ∧ rangesOk 0 r.ranges = true :=
  parseRange_image_ok h r hp

/-- **Content-Range**: for every header text `h`, a parsed `ContentRange` re-serialises to text that
parses to the same object (units without white space, range valid for its length — what the parser
checked) -/
theorem contentRange_normal_form_arbitrary (h : Str) (c : ContentRangeV) (hp : parseContentRangeHeader h = .ok (some c)) :
    parseContentRangeHeader (contentRangeToHeader c) = .ok (some c) :=
  contentRange_normal_form_any h c hp

example : parseContentRangeHeader "  items\t 3-7/* ".toList = .ok (some ⟨some "items".toList, some 3, some 8, none⟩) := by decide

/-- **Content-Security-Policy**: `parse_csp_header(parse_csp_header(h).to_header()) == parse_csp_header(h)`
for every text `h`: every stored directive is non-empty, stripped and free of spaces and `;`, every
value non-empty, stripped and free of `;`, and directives are distinct -/
theorem csp_normal_form_arbitrary (h : Str) : parseCsp (dumpCsp (parseCsp h)) = parseCsp h :=
  csp_normal_form_any h

example : parseCsp " a  b ;; c\td e;x; a z ".toList = [("a".toList, "z".toList), ("c\td".toList, "e".toList)] := by decide

/-- **Age**: a parsed age re-serialises to text that parses to the same age, for every text `h` -/
theorem age_normal_form_arbitrary (h : Str) (n : Nat) (hp : parseAge h = .ok (some n)) :
    parseAge (dumpAge n) = .ok (some n) :=
  age_normal_form_any h n hp

example : parseAge " +1_0 ".toList = .ok (some 10) := by decide

open Wz.Date in
/-- **HTTP dates**: for every text `w` in the IMF-fixdate layout that the parser accepts — any
three-letter day name, two-digit years written `00YY` re-centuried as `email.utils` does, every valid
civil date of years 100..9999 — re-serialising the parsed instant and parsing again returns the same
instant: every accepted civil date lies in the range of `date_roundtrip` (day-number bounds by `omega`).
The other layouts `email.utils` reads (RFC 850, asctime, numeric zones) are tied by the stream only. -/
theorem date_normal_form_arbitrary (w : Wz.Date.Str) (t : Nat) (hp : parseDate w = some t) :
    parseDate (httpDate t) = some t :=
  date_normal_form_any w t hp

open Wz.Date in
example : parseDate "Xyz, 29 Feb 0004 23:59:59 GMT".toList = some 63213695999
    ∧ httpDate 63213695999 = "Sun, 29 Feb 2004 23:59:59 GMT".toList := by decide +kernel

/-- **If-Range** is *not* a normal form on arbitrary text: `parse_if_range_header('a"b')` returns the
entity tag `a"b`, which `IfRange.to_header()` refuses to serialise (`quote_etag` raises ValueError) —
outside the domain of `ifRange_etag_roundtrip` by its `_needs_no_quote` witness; on the dumper's
image the normal form is the round trip itself -/
theorem ifRange_normal_form_arbitrary_false (pd : Str → Option Nat) (h : pd "a\"b".toList = none) :
    parseIfRange pd "a\"b".toList = .etag "a\"b".toList ∧
    ifRangeToHeader (parseIfRange pd "a\"b".toList) = .error "ValueError" := by
  have : parseIfRange pd "a\"b".toList = .etag "a\"b".toList := by
    simp only [parseIfRange, h]
    decide
  exact ⟨this, by rw [this]; decide⟩

/-- **Authorization** on header text: everything `from_header` returns is one of three shapes — Basic
credentials whose user name has no `:`, a stripped token with `=` only as trailing padding, or a
parameter dict with distinct names — ... -/
theorem authorization_parser_image (h : Str) (a : Auth) (hp : authorizationFromHeader h = .ok (some a)) :
    (∃ u p, ':' ∉ u ∧ a = ⟨"basic".toList, basicParams u p, none⟩) ∨
    (a.type ≠ "basic".toList ∧ ∃ tok, a = ⟨a.type, [], some tok⟩ ∧ AuthTokenOk tok = true) ∨
    (a.type ≠ "basic".toList ∧ a = ⟨a.type, a.params, none⟩ ∧ (a.params.map (·.1)).Nodup) :=
  authorization_image h a hp

/-- ... and `from_header(to_header(from_header(h))) == from_header(h)`: always for Basic credentials
(whatever bytes the client base64-encoded, as long as they were UTF-8), and for the other two shapes
when the scheme survives `title()` / `lower()` and the parameter names are tokens without `*` with a
first value present -/
theorem authorization_normal_form_text (h : Str) (a : Auth) (hp : authorizationFromHeader h = .ok (some a))
    (hs : a.type = "basic".toList ∨ SchemeOk a.type = true)
    (hps : a.token = none → a.type ≠ "basic".toList →
      ∃ x d, a.params = x :: d ∧ (∀ y ∈ x :: d, KeyOk y.1 = true) ∧ x.2.isSome = true) :
    (authorizationToHeader a >>= authorizationFromHeader) = .ok (some a) :=
  authorization_normal_form_any h a hp hs hps

example : authorizationFromHeader "BASIC  dTpwOnE=  ".toList
    = .ok (some ⟨"basic".toList, basicParams "u".toList "p:q".toList, none⟩) := by decide +kernel

/-- the scheme hypothesis is needed: `ß`.title() is `Ss`, so the scheme `ß` comes back as `ss` -/
theorem authorization_normal_form_arbitrary_false_scheme :
    (authorizationFromHeader "ß x".toList >>= fun a => match a with
      | some a => authorizationToHeader a >>= authorizationFromHeader | none => pure none)
      ≠ authorizationFromHeader "ß x".toList := by decide +kernel

/-- scheme of a `WWW-Authenticate` value: survives `title()` / `lower()`, title without space (`basic`
is an ordinary parameter scheme here) -/
abbrev SchemeOkW := Wz.Http.SchemeOkW

/-- **WWW-Authenticate** on header text, schemes other than `digest`: the same normal form; in
particular `Basic realm="x"` — outside `www_param_roundtrip`, whose `SchemeOk` excludes `basic` — ... -/
theorem www_normal_form_text (h : Str) (a : Auth) (hp : wwwFromHeader h = .ok (some a))
    (hs : SchemeOkW a.type = true) (hnd' : (a.type == "digest".toList) = false)
    (hps : a.token = none → ∃ x d, a.params = x :: d ∧ (∀ y ∈ x :: d, KeyOk y.1 = true) ∧ x.2.isSome = true) :
    (wwwToHeader a >>= wwwFromHeader) = .ok (some a) :=
  www_normal_form_any h a hp hs hnd' hps

/-- ... which also round-trips as a value: `WWWAuthenticate("basic", {"realm": r, ...})` -/
theorem www_basic_roundtrip (x : Str × Option Str) (d : Dict (Option Str))
    (hk : ∀ y ∈ x :: d, KeyOk y.1 = true) (hnd : ((x :: d).map (·.1)).Nodup) (hv : x.2.isSome = true) :
    (wwwToHeader ⟨"basic".toList, x :: d, none⟩ >>= wwwFromHeader) = .ok (some ⟨"basic".toList, x :: d, none⟩) :=
  www_param_roundtrip_w "basic".toList x d (by decide +kernel) (by decide) hk hnd hv

example : wwwToHeader ⟨"basic".toList, [("realm".toList, some "a b".toList), ("charset".toList, some "UTF-8".toList)], none⟩
    = .ok "Basic realm=\"a b\", charset=UTF-8".toList := by decide +kernel

/-- **key=value dicts and Cache-Control** on header text: whenever the keys the parser returned are
tokens without `*`, `parse_dict_header(dump_header(parse_dict_header(h))) == parse_dict_header(h)`
(values are arbitrary; keys are distinct because the result is a dict) ... -/
theorem parseDict_normal_form_text (h : Str) (d : Dict (Option Str)) (hp : parseDictHeader h = .ok d)
    (hk : ∀ x ∈ d, KeyOk x.1 = true) : (dumpHeaderDict d >>= parseDictHeader) = .ok d :=
  parseDict_normal_form_text_any h d hp hk

theorem cacheControl_normal_form_text (h : Str) (d : Dict (Option Str)) (hp : parseCacheControl h = .ok d)
    (hk : ∀ x ∈ d, KeyOk x.1 = true) : (dumpHeaderDict d >>= parseCacheControl) = .ok d := by
  rw [parseCacheControl_eq] at hp
  have := parseDict_normal_form_text_any h d hp hk
  simpa [funext parseCacheControl_eq] using this

example : parseDictHeader "max-age=5, private=\"a, b\", no-store, x = \" y\"".toList
    = .ok [("max-age".toList, some "5".toList), ("private".toList, some "a, b".toList), ("no-store".toList, none),
        ("x".toList, some " y".toList)] := by decide

/-- ... and the hypothesis on the keys is needed: on arbitrary text parsing is **not** a normal form
for dict headers — a key that keeps a `*` after the RFC 2231 marker was removed is re-read as a
marker, and a key containing `"` changes where the list scanner splits -/
theorem parseDict_normal_form_arbitrary_false_star :
    (parseDictHeader "a**=b".toList >>= dumpHeaderDict >>= parseDictHeader) ≠ parseDictHeader "a**=b".toList := by
  decide

theorem parseDict_normal_form_arbitrary_false_quote :
    (parseDictHeader "a\"b=c, d\"".toList >>= dumpHeaderDict >>= parseDictHeader)
      ≠ parseDictHeader "a\"b=c, d\"".toList := by
  decide

end Wz.Props.C06
