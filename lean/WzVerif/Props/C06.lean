/- C06 property theorems (not written yet) -/
namespace Wz.Props.C06
end Wz.Props.C06
