/-
C06 — every HTTP header serialiser is inverted by its parser.
Property theorems only (helper lemmas live in Lemmas/Http.lean, Lemmas/Date.lean).

Conventions: text is `List Char`; `parse (dump v) = .ok v` where the dumper / parser can raise.
Where the property's quantifier excludes CR/LF but the codec does not need that, the theorem is
stated for *all* text (stronger). Every remaining hypothesis is a decidable predicate, shown
satisfiable by an `example` and necessary by a `_needed` witness.
-/
import WzVerif.Lemmas.Http
import WzVerif.Lemmas.HttpOpt3
import WzVerif.Lemmas.HttpEtag
namespace Wz.Props.C06
open Wz Wz.Http

/-! ### the hand-modelled regex shapes are those of the live patterns -/

/-- The regexes whose *shape* (not only character classes) is modelled by hand still have the source
text the model was written for. A change of any of them breaks this obligation. -/
theorem regex_sources_pinned :
    Gen.Http.parameterKeyRe = "([\\w!#$%&'*+\\-.^`|~]+)=" ∧
    Gen.Http.parameterTokenValueRe = "[\\w!#$%&'*+\\-.^`|~]+" ∧
    Gen.Http.charsetValueRe = "([\\w!#$%&*+\\-.^`|~]*)'[\\w!#$%&*+\\-.^`|~]*'([\\w!#$%&'*+\\-.^`|~]+)" ∧
    Gen.Http.continuationRe = "\\*(\\d+)$" ∧
    Gen.Http.plainIntRe = "-?\\d+" ∧
    Gen.Http.qValueRe = "-?\\d+(\\.\\d+)?" ∧
    Gen.Http.etagRe = "([Ww]/)?(?:\"(.*?)\"|(.*?))(?:\\s*,\\s*|$)" ∧
    Gen.Http.etagReFlags = 32 := by
  decide

/-- The literal sets the parsers consult are the ones the model assumes: the RFC 2231 charset
allow-list (identical in `parse_options_header` and `parse_dict_header`), the two escapes skipped
inside a quoted parameter value, and the digest keys that are always quoted. -/
theorem literal_sets_pinned :
    Gen.Http.safeEncodingsOptions = [["ascii", "iso-8859-1", "us-ascii", "utf-8"]] ∧
    Gen.Http.safeEncodingsDict = Gen.Http.safeEncodingsOptions ∧
    Gen.Http.optionEscapes = [["\\\"", "\\\\"]] ∧
    Gen.Http.digestQuoted = [["domain", "nonce", "opaque", "qop", "realm"]] := by
  decide

/-- `_token_chars` is exactly the RFC 9110 `tchar` set, the parameter-key / token-value regex
classes coincide with it, and nothing above U+00FF is in any of them (so a token never contains
`"`, `\`, `,`, `;`, `=`, or white space). `decide` over the complete regenerated tables. -/
theorem token_classes :
    Gen.Http.tokenHigh = false ∧ Gen.Http.tokenMulti = false ∧
    Gen.Http.paramKeyHigh = false ∧ Gen.Http.paramTokHigh = false ∧
    Gen.Http.paramKeyCls = Gen.Http.tokenTbl ∧ Gen.Http.paramTokCls = Gen.Http.tokenTbl ∧
    (∀ n, n < 256 → (tbl Gen.Http.tokenTbl n = true ↔
      ((48 ≤ n ∧ n ≤ 57) ∨ (65 ≤ n ∧ n ≤ 90) ∨ (97 ≤ n ∧ n ≤ 122) ∨
        n ∈ [33, 35, 36, 37, 38, 39, 42, 43, 45, 46, 94, 95, 96, 124, 126]))) := by
  refine ⟨by decide, by decide, by decide, by decide, by decide +kernel, by decide +kernel, ?_⟩
  decide +kernel

/-! ### quoted strings -/

/-- `unquote_header_value(quote_header_value(v, allow_token)) == v` for every string `v`
(all of Unicode, CR/LF included) and both settings of `allow_token`. -/
theorem unquote_quote (v : Str) (allowToken : Bool) :
    unquoteHeaderValue (quoteHeaderValue v allowToken) = v :=
  unquote_quote_any v allowToken

example : unquoteHeaderValue (quoteHeaderValue ['\\', '"', ' ', 'a'] true) = ['\\', '"', ' ', 'a'] := by decide

/-- The backslash must be escaped *before* the quote: a dumper that only escaped `"` would break
the pairing on `\"` (what the detection self-test mutates). -/
theorem unquote_quote_needs_backslash_escape :
    unquoteHeaderValue ('"' :: replace1 '"' ['\\', '"'] ['a', '\\', '\\', 'b'] ++ ['"']) ≠ ['a', '\\', '\\', 'b'] := by
  decide

/-! ### comma lists and sets -/

/-- `parse_list_header(dump_header(items)) == items` for every list of strings (any Unicode,
empty strings, empty list). -/
theorem parseList_dump (items : List Str) : parseListHeader (dumpHeaderList items) = items :=
  parseList_dump_any items

example : parseListHeader (dumpHeaderList [[], ['a'], ['b', ',', '"', '\\', ' ']]) = [[], ['a'], ['b', ',', '"', '\\', ' ']] := by
  decide

/-- `parse_set_header(HeaderSet(items).to_header())` has the same `_headers` list (hence the same
case-folded set) for every list of strings. -/
theorem parseSet_dump (items : List Str) : parseSetHeader (headerSetToHeader items) = items := by
  unfold parseSetHeader headerSetToHeader
  have h := parseList_dump_any items
  unfold dumpHeaderList at h
  split
  · next he =>
    cases items with
    | nil => rfl
    | cons v vs =>
      -- a non-empty list never dumps to the empty string
      exfalso
      rw [List.isEmpty_iff] at he
      rw [he] at h
      simp [parseListHeader, parseHttpList, httpListGo] at h
  · exact h

example : parseSetHeader (headerSetToHeader [['f', 'o', 'o'], ['B', 'a', 'r', ' ', 'x']]) = [['f', 'o', 'o'], ['B', 'a', 'r', ' ', 'x']] := by
  decide

/-- normal form for list headers: re-serialising what the parser returned and parsing again is the
identity on parser images — here for *arbitrary* header text `h`. -/
theorem parseList_normal_form (h : Str) :
    parseListHeader (dumpHeaderList (parseListHeader h)) = parseListHeader h :=
  parseList_dump_any _

theorem parseSet_normal_form (h : Str) :
    parseSetHeader (headerSetToHeader (parseSetHeader h)) = parseSetHeader h :=
  parseSet_dump _

/-! ### key=value dicts -/

/-- domain of dict keys: non-empty token without `*` -/
abbrev KeyOk := Wz.Http.KeyOk

/-- `parse_dict_header(dump_header(d)) == d` (same keys, same order, same values) for every dict
with distinct non-empty token keys free of `*`; values are `None` or arbitrary strings. -/
theorem parseDict_dump (d : Dict (Option Str))
    (hk : ∀ x ∈ d, KeyOk x.1 = true) (hnd : (d.map (·.1)).Nodup) :
    (dumpHeaderDict d >>= parseDictHeader) = .ok d :=
  parseDict_dump_any d hk hnd

example : (∀ x ∈ [(['a'], some ['b', ' ', '"']), (['c', '-', 'd'], none), (['e'], some [])], KeyOk x.1 = true)
    ∧ ([(['a'], some ['b', ' ', '"']), (['c', '-', 'd'], (none : Option Str)), (['e'], some [])].map (·.1)).Nodup := by
  decide

/-- the key must be non-empty: `dump_header` indexes `key[-1]` -/
theorem parseDict_dump_needs_nonempty_key :
    dumpHeaderDict [([], some ['x'])] = .error "IndexError" := by decide

/-- the key must be a token: a comma in the key splits the item -/
theorem parseDict_dump_needs_token_key :
    (dumpHeaderDict [(['a', ',', 'b'], some ['x'])] >>= parseDictHeader) ≠ .ok [(['a', ',', 'b'], some ['x'])] := by
  decide

/-- the key must not end in `*`: the value is then written unquoted and read as an RFC 2231 value -/
theorem parseDict_dump_needs_no_star :
    (dumpHeaderDict [(['a', '*'], some ['x', ' ', 'y'])] >>= parseDictHeader) ≠ .ok [(['a', '*'], some ['x', ' ', 'y'])] := by
  decide

/-- keys must be distinct (a Python dict guarantees it; the association-list model must ask) -/
theorem parseDict_dump_needs_distinct :
    (dumpHeaderDict [(['a'], some ['1']), (['a'], some ['2'])] >>= parseDictHeader)
      ≠ .ok [(['a'], some ['1']), (['a'], some ['2'])] := by
  decide

/-! ### option headers -/

/-- primary value: non-empty, no `;`, no surrounding white space -/
abbrev HdrOk := Wz.Http.HdrOk
/-- parameter name: non-empty lower-case token without `*` -/
abbrev OptKeyOk := Wz.Http.OptKeyOk
/-- the text contains the literal `%22` -/
abbrev hasPct22 := Wz.Http.hasPct22

/-- `parse_options_header(dump_options_header(h, opts)) == (h, opts)` for every primary value `h`
(non-empty, no `;`, stripped) and every dict of parameters with distinct lower-case token names free
of `*` and arbitrary Unicode values that do not contain the literal `%22`. -/
theorem parseOptions_dump (h : Str) (opts : List (Str × Str)) (hh : HdrOk h = true)
    (hk : ∀ x ∈ opts, OptKeyOk x.1 = true) (hv : ∀ x ∈ opts, hasPct22 x.2 = false)
    (hnd : (opts.map (·.1)).Nodup) :
    (dumpOptionsHeader (some h) (opts.map fun kv => (kv.1, some kv.2)) >>= parseOptionsHeader) = .ok (h, opts) :=
  parseOptions_dump_any h opts hh hk hv hnd

example : HdrOk "form-data".toList = true ∧
    (∀ x ∈ [("name".toList, ['a', '"', 'b', '\\', ';', ' ']), ("filename".toList, ([] : Str)), ("x".toList, "%2".toList)],
      OptKeyOk x.1 = true ∧ hasPct22 x.2 = false) ∧
    ([("name".toList, ['a', '"', 'b', '\\', ';', ' ']), ("filename".toList, ([] : Str)), ("x".toList, "%2".toList)].map (·.1)).Nodup := by
  decide

/-- the primary value must be non-empty: `parse_options_header` returns no options otherwise -/
theorem parseOptions_dump_needs_header :
    (dumpOptionsHeader (some []) [(['k'], some ['v'])] >>= parseOptionsHeader) ≠ .ok ([], [(['k'], ['v'])]) := by
  decide

/-- ... free of `;` -/
theorem parseOptions_dump_needs_no_semicolon :
    (dumpOptionsHeader (some ['a', ';', 'b']) [(['k'], some ['v'])] >>= parseOptionsHeader)
      ≠ .ok (['a', ';', 'b'], [(['k'], ['v'])]) := by
  decide

/-- ... and stripped -/
theorem parseOptions_dump_needs_stripped :
    (dumpOptionsHeader (some [' ', 'a']) [] >>= parseOptionsHeader) ≠ .ok ([' ', 'a'], []) := by
  decide

/-- parameter names are lower-cased by the parser -/
theorem parseOptions_dump_needs_lowercase :
    (dumpOptionsHeader (some ['a']) [(['K'], some ['v'])] >>= parseOptionsHeader) ≠ .ok (['a'], [(['K'], ['v'])]) := by
  decide

/-- a `*` in the name is RFC 2231 syntax (`k*0` is a continuation of `k`) -/
theorem parseOptions_dump_needs_no_star :
    (dumpOptionsHeader (some ['a']) [(['k', '*', '0'], some ['v'])] >>= parseOptionsHeader)
      ≠ .ok (['a'], [(['k', '*', '0'], ['v'])]) := by
  decide

/-- the literal `%22` inside a quoted value decodes to `"` (documented) -/
theorem parseOptions_dump_needs_no_pct22 :
    (dumpOptionsHeader (some ['a']) [(['k'], some ['x', ' ', '%', '2', '2'])] >>= parseOptionsHeader)
      ≠ .ok (['a'], [(['k'], ['x', ' ', '%', '2', '2'])]) := by
  decide

/-- names must be distinct -/
theorem parseOptions_dump_needs_distinct :
    (dumpOptionsHeader (some ['a']) [(['k'], some ['1']), (['k'], some ['2'])] >>= parseOptionsHeader)
      ≠ .ok (['a'], [(['k'], ['1']), (['k'], ['2'])]) := by
  decide

/-! ### entity tags -/

/-- an entity tag of the domain: non-empty, no `"`, no LF (`.` of `_etag_re` does not match LF) -/
abbrev TagOk := Wz.Http.TagOk

/-- `unquote_etag(quote_etag(e, weak)) == (e, weak)` for every tag without `"` (the empty tag
included). -/
theorem etag_roundtrip (e : Str) (weak : Bool) (hq : e.contains '"' = false) :
    (quoteEtag e weak).map unquoteEtag = .ok (some (e, weak)) :=
  unquote_quoteEtag e weak hq

example : (quoteEtag ['W', '/', ' ', 'x'] true).map unquoteEtag = .ok (some (['W', '/', ' ', 'x'], true)) := by decide

/-- `quote_etag` refuses a tag containing `"` (documented ValueError) -/
theorem etag_roundtrip_needs_no_quote : quoteEtag ['a', '"'] = .error "ValueError" := by decide

/-- `parse_etags(ETags(strong, weak).to_header())` has the same strong and weak members, for every
collection of non-empty tags without `"` and LF and for every iteration order of the two frozensets
(the lists are arbitrary orderings; equal lists give equal sets). -/
theorem etags_roundtrip (strong weak : List Str)
    (hs : ∀ x ∈ strong, TagOk x = true) (hw : ∀ x ∈ weak, TagOk x = true) :
    parseEtags (etagsToHeader ⟨strong.map some, weak.map some, false⟩)
      = ⟨strong.map some, weak.map some, false⟩ :=
  etags_roundtrip_any strong weak hs hw

example : (∀ x ∈ [['a', ',', ' ', 'b'], ['*'], ['W', '/']], TagOk x = true) ∧ (∀ x ∈ [[' ', 'é']], TagOk x = true) := by
  decide

/-- the star tag round-trips too -/
theorem etags_star_roundtrip : parseEtags (etagsToHeader ⟨[], [], true⟩) = ⟨[], [], true⟩ := by decide

/-- an empty tag is read back as Python's `None` (the `elif quoted:` test is falsy) -/
theorem etags_roundtrip_needs_nonempty :
    parseEtags (etagsToHeader ⟨[some []], [], false⟩) ≠ ⟨[some []], [], false⟩ := by decide

/-- a `"` inside a tag ends it early -/
theorem etags_roundtrip_needs_no_quote :
    parseEtags (etagsToHeader ⟨[some ['a', '"', ',', 'b']], [], false⟩) ≠ ⟨[some ['a', '"', ',', 'b']], [], false⟩ := by
  decide

/-- `.` does not match LF: a tag containing one is not recognised -/
theorem etags_roundtrip_needs_no_lf :
    parseEtags (etagsToHeader ⟨[some ['a', '\n', 'b']], [], false⟩) ≠ ⟨[some ['a', '\n', 'b']], [], false⟩ := by
  decide

end Wz.Props.C06
