/-
C08T2 — C08T continued: twenty methods of `werkzeug.datastructures.structures.MultiDict` *as regenerated
from the source* by `tools/py2lean.py` (`Gen/PyFns_MultiDict.lean`, rewritten on every check run:
`__getitem__`, `__setitem__`, `add`, `getlist` (with and without `type`), `setlist`, `setdefault`,
`setlistdefault`, `items` (both `multi`), `lists`, `values`, `listvalues`, `to_dict` (both `flat`),
`update`, `pop` (with and without default), `popitem`, `poplist`, `popitemlist`) equal the hand-written
model the C08 theorems are about (`Model/Containers.lean`: the reads `MD.getitem` … `MD.toDictFlat`, the
mutators through `MD.step`). The object is its dict of lists, handed over as the insertion-ordered
association list the prelude's dict primitives maintain; where the model replaces / erases the *first*
entry of a key and the prelude every entry, the equality needs the key to occur at most once
(`AtMostOnce`, implied by key uniqueness `NodupKeys`, which every model step and every translated
mutator preserves: `nodupKeys_step`, `md_mutators_nodupKeys`). C08's refinement of the abstract
`MDSpec` is restated on the translated methods (`*_spec`, `md_reads_total`).
Property theorems only: the proofs live in Lemmas/PyFnsEq_MultiDict.lean.
-/
import WzVerif.Lemmas.PyFnsEq_MultiDict
namespace Wz.Props.C08T2
open Wz Wz.PyDict Wz.Gen.PyFns_MultiDict Wz.PyFnsEq.MultiDict MDSpec
variable {κ ν : Type} [DecidableEq κ]

/-- **`MultiDict.__getitem__`** as translated equals the model's `getitem` on every state: first
value, `BadRequestKeyError` for a missing key or an empty list; the `IndexError` arm of `lst[0]` is
unreachable after the `len(lst) > 0` test -/
theorem md_getitem_eq (d : MD.St Pre.Str ν) (k : Pre.Str) : md_getitem d k = MD.getitem d k := by
  apply PyFnsEq.MultiDict.md_getitem_eq <;> assumption

/-- **`MultiDict.getlist(key)`** (no `type`) as translated equals the model's `getlist`: the key's
list, `[]` when missing -/
theorem md_getlist_eq (d : MD.St Pre.Str ν) (k : Pre.Str) : md_getlist d k () = MD.getlist d k := by
  apply PyFnsEq.MultiDict.md_getlist_eq <;> assumption

/-- **`MultiDict.getlist(key, type)`** as translated equals the model's `getlistTyped conv` when the
model's conversion `conv` is `type` with its errors mapped to `None` (the translator is told that
`type` raises only ValueError / TypeError, so its `except (ValueError, TypeError)` arm takes every
error of `call_type`) -/
theorem md_getlist_typed_eq {τ Conv : Type} (ct : Conv → ν → Except String τ) (t : Conv) (conv : ν → Option τ)
    (hconv : ∀ v, conv v = (ct t v).toOption) (d : MD.St Pre.Str ν) (k : Pre.Str) :
    md_getlist_typed ct d k t = MD.getlistTyped conv d k := by
  apply PyFnsEq.MultiDict.md_getlist_typed_eq <;> assumption

/-- **`MultiDict.lists()`** as translated is the model's `lists` (the state itself) -/
theorem md_lists_eq (d : MD.St Pre.Str ν) : md_lists d = MD.lists d := by
  apply PyFnsEq.MultiDict.md_lists_eq <;> assumption

/-- **`MultiDict.values()`** as translated equals the model's `values`, including `IndexError` for a
key with zero values -/
theorem md_values_eq (d : MD.St Pre.Str ν) : md_values d = MD.values d := by
  apply PyFnsEq.MultiDict.md_values_eq <;> assumption

/-- **`MultiDict.listvalues()`** as translated is the model's `listvalues` -/
theorem md_listvalues_eq (d : MD.St Pre.Str ν) : md_listvalues d = MD.listvalues d := by
  apply PyFnsEq.MultiDict.md_listvalues_eq <;> assumption

/-- **`MultiDict.items(multi=True)`** as translated never raises and yields the model's `itemsMulti`
-/
theorem md_items_multi_eq (d : MD.St Pre.Str ν) : md_items d true = .ok (MD.itemsMulti d) := by
  apply PyFnsEq.MultiDict.md_items_multi_eq <;> assumption

/-- **`MultiDict.items()`** as translated equals the model's `itemsFirst`, including `IndexError`
for a key with zero values -/
theorem md_items_first_eq (d : MD.St Pre.Str ν) : md_items d false = MD.itemsFirst d := by
  apply PyFnsEq.MultiDict.md_items_first_eq <;> assumption

/-- `to_dict()` as translated is `dict(...)` of the model's `items()`, on every association list -/
theorem md_to_dict_flat_eq_raw (d : MD.St Pre.Str ν) :
    md_to_dict_flat d true = (MD.toDictFlat d).map Pre.dictOfPairs := by
  apply PyFnsEq.MultiDict.md_to_dict_flat_eq' <;> assumption

/-- **`MultiDict.__setitem__`** as translated equals the model step `.setitem`, for a dict that
holds the key at most once -/
theorem md_setitem_eq (d : MD.St Pre.Str ν) (k : Pre.Str) (v : ν) (h : AtMostOnce d k) :
    md_setitem d k v = viewNone (MD.step d (.setitem k v)) := by
  apply PyFnsEq.MultiDict.md_setitem_eq <;> assumption

/-- `md.add(key, value)` as translated (`setdefault(key, []).append(value)` as a `dict_set` of the
extended list) is the model's `add` (key at most once) -/
theorem md_add_add (d : MD.St Pre.Str ν) (k : Pre.Str) (v : ν) (h : AtMostOnce d k) :
    md_add d k v = MD.add d k v := by
  apply PyFnsEq.MultiDict.md_add_add <;> assumption

/-- **`MultiDict.add`** as translated equals the model step `.add` -/
theorem md_add_eq (d : MD.St Pre.Str ν) (k : Pre.Str) (v : ν) (h : AtMostOnce d k) :
    md_add d k v = viewNone (MD.step d (.add k v)) := by
  apply PyFnsEq.MultiDict.md_add_eq <;> assumption

/-- **`MultiDict.setlist`** as translated equals the model step `.setlist` (also for an empty list,
which leaves the key with zero values) -/
theorem md_setlist_eq (d : MD.St Pre.Str ν) (k : Pre.Str) (vs : List ν) (h : AtMostOnce d k) :
    md_setlist d k vs = viewNone (MD.step d (.setlist k vs)) := by
  apply PyFnsEq.MultiDict.md_setlist_eq <;> assumption

/-- **`MultiDict.setdefault`** as translated equals the model step `.setdefault` -/
theorem md_setdefault_eq (d : MD.St Pre.Str ν) (k : Pre.Str) (v : ν) :
    md_setdefault d k v = viewVal (MD.step d (.setdefault k v)) := by
  apply PyFnsEq.MultiDict.md_setdefault_eq <;> assumption

/-- **`MultiDict.setlistdefault`** as translated equals the model step `.setlistdefault` -/
theorem md_setlistdefault_eq (d : MD.St Pre.Str ν) (k : Pre.Str) (o : Option (List ν)) :
    md_setlistdefault d k o = viewVals (MD.step d (.setlistdefault k (o.getD []))) := by
  apply PyFnsEq.MultiDict.md_setlistdefault_eq <;> assumption

/-- `md.update(pairs)` as translated is the model's `addAll` -/
theorem md_update_addAll (d : MD.St Pre.Str ν) (l : List (Pre.Str × ν)) (h : ∀ p ∈ l, AtMostOnce d p.1) :
    md_update d l = MD.addAll d l := by
  apply PyFnsEq.MultiDict.md_update_addAll <;> assumption

/-- **`MultiDict.update`** as translated equals the model step `.update (.pairs l)` -/
theorem md_update_eq (d : MD.St Pre.Str ν) (l : List (Pre.Str × ν)) (h : ∀ p ∈ l, AtMostOnce d p.1) :
    md_update d l = viewNone (MD.step d (.update (.pairs l))) := by
  apply PyFnsEq.MultiDict.md_update_eq <;> assumption

/-- **`MultiDict.pop(key)`** as translated equals the model step `.pop key none` -/
theorem md_pop_eq (d : MD.St Pre.Str ν) (k : Pre.Str) (h : AtMostOnce d k) :
    md_pop d k () = viewVal (MD.step d (.pop k none)) := by
  apply PyFnsEq.MultiDict.md_pop_eq <;> assumption

/-- **`MultiDict.pop(key, default)`** as translated equals the model step `.pop key (some default)`
-/
theorem md_pop_default_eq (d : MD.St Pre.Str ν) (k : Pre.Str) (dflt : ν) (h : AtMostOnce d k) :
    md_pop_default d k dflt = viewVal (MD.step d (.pop k (some dflt))) := by
  apply PyFnsEq.MultiDict.md_pop_default_eq <;> assumption

/-- **`MultiDict.popitem`** as translated equals the model step `.popitem` -/
theorem md_popitem_eq (d : MD.St Pre.Str ν) : md_popitem d = viewItem (MD.step d .popitem) := by
  apply PyFnsEq.MultiDict.md_popitem_eq <;> assumption

/-- **`MultiDict.poplist`** as translated equals the model step `.poplist`: the key's list (or `[]`)
and the dict without the key -/
theorem md_poplist_eq (d : MD.St Pre.Str ν) (k : Pre.Str) (h : AtMostOnce d k) :
    md_poplist d k = viewValsT (MD.step d (.poplist k)) := by
  apply PyFnsEq.MultiDict.md_poplist_eq <;> assumption

/-- **`MultiDict.popitemlist`** as translated equals the model step `.popitemlist` -/
theorem md_popitemlist_eq (d : MD.St Pre.Str ν) : md_popitemlist d = viewItemlist (MD.step d .popitemlist) := by
  apply PyFnsEq.MultiDict.md_popitemlist_eq <;> assumption

/-- **`MultiDict.to_dict()`** (`flat=True`) as translated (`dict(self.items())`) equals the model's
`toDictFlat` for a dict with distinct keys (the rebuilt dict is then the item list itself);
`IndexError` for a key with zero values on both sides. Necessity of the hypothesis: the `example`
below. -/
theorem md_to_dict_flat_eq (d : MD.St Pre.Str ν) (hn : NodupKeys d) :
    md_to_dict_flat d true = MD.toDictFlat d := by
  apply PyFnsEq.MultiDict.md_to_dict_flat_eq <;> assumption

/-- `to_dict(flat=False)` as translated is `dict(...)` of the state, on every association list -/
theorem md_to_dict_lists_eq_raw (d : MD.St Pre.Str ν) : md_to_dict_lists d false = Pre.dictOfPairs d := by
  apply PyFnsEq.MultiDict.md_to_dict_lists_eq' <;> assumption

/-- **`MultiDict.to_dict(flat=False)`** as translated (`dict(self.lists())`) is the model's answer
(`lists`) exactly when the keys are distinct -/
theorem md_to_dict_lists_eq_iff (d : MD.St Pre.Str ν) : md_to_dict_lists d false = MD.lists d ↔ NodupKeys d := by
  apply PyFnsEq.MultiDict.md_to_dict_lists_eq_iff <;> assumption

/-- `md[key]` as translated raises nothing but `BadRequestKeyError` (in particular not the
`IndexError` of `lst[0]`, nor the `KeyError` of `dict.__getitem__`) -/
theorem md_getitem_error (d : MD.St Pre.Str ν) (k : Pre.Str) (e : String) (h : md_getitem d k = .error e) :
    e = "BadRequestKeyError" := by
  apply PyFnsEq.MultiDict.md_getitem_error <;> assumption

/-- `md.pop(key)` as translated raises nothing but `BadRequestKeyError` -/
theorem md_pop_error (d : MD.St Pre.Str ν) (k : Pre.Str) (hk : AtMostOnce d k) (e : String)
    (h : (md_pop d k ()).2 = .error e) : e = "BadRequestKeyError" := by
  apply PyFnsEq.MultiDict.md_pop_error <;> assumption

/-- `md.popitem()` as translated raises nothing but `BadRequestKeyError` -/
theorem md_popitem_error (d : MD.St Pre.Str ν) (e : String)
    (h : (md_popitem d).2 = .error e) : e = "BadRequestKeyError" := by
  apply PyFnsEq.MultiDict.md_popitem_error <;> assumption

/-- C08 `md_step_refines` on the translated `__setitem__`: on a well-formed state (distinct keys, no
empty list) it does what the abstract insertion-ordered multimap does -/
theorem md_setitem_spec (d : MD.St Pre.Str ν) (h : WF d) (k : Pre.Str) (v : ν) :
    md_setitem d k v = viewNone (MDSpec.step d (.setitem k v)) := by
  apply PyFnsEq.MultiDict.md_setitem_spec <;> assumption

/-- C08 `md_step_refines` on the translated `add` -/
theorem md_add_spec (d : MD.St Pre.Str ν) (h : WF d) (k : Pre.Str) (v : ν) :
    md_add d k v = viewNone (MDSpec.step d (.add k v)) := by
  apply PyFnsEq.MultiDict.md_add_spec <;> assumption

/-- C08 `md_step_refines` on the translated `setdefault` -/
theorem md_setdefault_spec (d : MD.St Pre.Str ν) (h : WF d) (k : Pre.Str) (v : ν) :
    md_setdefault d k v = viewVal (MDSpec.step d (.setdefault k v)) := by
  apply PyFnsEq.MultiDict.md_setdefault_spec <;> assumption

/-- C08 `md_step_refines` on the translated `pop(key)` -/
theorem md_pop_spec (d : MD.St Pre.Str ν) (h : WF d) (k : Pre.Str) :
    md_pop d k () = viewVal (MDSpec.step d (.pop k none)) := by
  apply PyFnsEq.MultiDict.md_pop_spec <;> assumption

/-- C08 `md_step_refines` on the translated `popitem` -/
theorem md_popitem_spec (d : MD.St Pre.Str ν) (h : WF d) :
    md_popitem d = viewItem (MDSpec.step d .popitem) := by
  apply PyFnsEq.MultiDict.md_popitem_spec <;> assumption

/-- C08 `md_read_refines` on the translated reads: on a well-formed state `items()`, `values()` and
`to_dict()` as translated never raise `IndexError` and give the first value of every key -/
theorem md_reads_total (d : MD.St Pre.Str ν) (h : WF d) :
    md_items d false = .ok (d.filterMap fun e => e.2.head?.map fun v => (e.1, v)) ∧
    md_values d = .ok (d.filterMap (·.2.head?)) ∧
    md_to_dict_flat d true = .ok (d.filterMap fun e => e.2.head?.map fun v => (e.1, v)) := by
  apply PyFnsEq.MultiDict.md_reads_total <;> assumption

/-- C08 `md_update_getlist` on the translated methods: after `update(pairs)` every key has its old
values followed by the values the argument gives it, in order -/
theorem md_update_getlist (d : MD.St Pre.Str ν) (l : List (Pre.Str × ν)) (h : ∀ p ∈ l, AtMostOnce d p.1)
    (k : Pre.Str) :
    md_getlist (md_update d l) k () = md_getlist d k () ++ (l.filter (fun p => p.1 = k)).map (·.2) := by
  apply PyFnsEq.MultiDict.md_update_getlist <;> assumption

/-- C08 `md_mutator_laws` on the translated methods: after `md[k] = v`, `getlist(k)` is `[v]` and
every other key keeps its list -/
theorem md_setitem_getlist (d : MD.St Pre.Str ν) (h : WF d) (k k' : Pre.Str) (v : ν) :
    md_getlist (md_setitem d k v) k' () = if k' = k then [v] else md_getlist d k' () := by
  apply PyFnsEq.MultiDict.md_setitem_getlist <;> assumption

/-- every mutator of the model keeps the keys distinct -/
theorem nodupKeys_step (d : MD.St κ ν) (hn : NodupKeys d) (op : MD.Op κ ν) : NodupKeys (MD.step d op).1 := by
  apply PyFnsEq.MultiDict.nodupKeys_step <;> assumption

/-- **every translated mutator keeps the keys of the dict distinct**, so the hypothesis `AtMostOnce`
/ `NodupKeys` of the equalities above holds along every history that starts from a dict -/
theorem md_mutators_nodupKeys {ν : Type} (d : MD.St Pre.Str ν) (hn : NodupKeys d) (k : Pre.Str) (v : ν) (vs : List ν)
    (o : Option (List ν)) (l : List (Pre.Str × ν)) :
    NodupKeys (md_setitem d k v) ∧ NodupKeys (md_add d k v) ∧ NodupKeys (md_setlist d k vs) ∧
    NodupKeys (md_setdefault d k v).1 ∧ NodupKeys (md_setlistdefault d k o).1 ∧ NodupKeys (md_update d l) ∧
    NodupKeys (md_pop d k ()).1 ∧ NodupKeys (md_pop_default d k v).1 ∧ NodupKeys (md_popitem d).1 ∧
    NodupKeys (md_poplist d k).1 ∧ NodupKeys (md_popitemlist d).1 := by
  apply PyFnsEq.MultiDict.md_mutators_nodupKeys <;> assumption


end Wz.Props.C08T2
