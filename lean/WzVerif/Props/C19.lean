/-
C19 — the development server transports requests and responses faithfully (partial).
Property theorems only (helper lemmas live in Lemmas/Chunked.lean).
-/
import WzVerif.Model.Chunked
import WzVerif.Lemmas.Chunked
import WzVerif.Model.DevServer
import WzVerif.Lemmas.DevServer
import WzVerif.Gen.Framing
import WzVerif.Gen.RunWsgiFacts
import WzVerif.Gen.EnvKeys
import WzVerif.Model.DevServerRun
import WzVerif.Lemmas.DevServerRun
import WzVerif.Lemmas.ChunkedOpen
import WzVerif.Model.LimitedStream
namespace Wz.Props.C19
open Wz Wz.Chunked Wz.DevServer Wz.Gen.Framing

/-- bit `k` of `n` -/
def bit (n k : Nat) : Bool := (n / 2 ^ k) % 2 == 1

/-- the decision the model makes for combination `k` (see `Gen.Framing`) of status `code`:
method index `k / 8` (1 = HEAD), Content-Length present `(k / 4) % 2`, handler protocol `(k / 2) % 2`
(1 = HTTP/1.1); the request-line version `k % 2` is not consulted -/
def modelBit (code k : Nat) : Bool :=
  chunkedDecision ((k / 2) % 2 == 1) ((k / 4) % 2 == 1) (k / 8 == 1) code

def checkCombos (hdr frm code : Nat) : Nat → Bool
  | 0 => true
  | k + 1 => (bit hdr k == modelBit code k) && (bit frm k == modelBit code k) && checkCombos hdr frm code k

def checkStatuses : List Nat → List Nat → Nat → Bool
  | h :: hs, f :: fs, k + 1 =>
    checkCombos h f (statusLo + (nStatus - (k + 1))) nCombos && checkStatuses hs fs k
  | [], [], 0 => true
  | _, _, _ => false

/-- **framing_decision** (live table): for every status 100–599 × {GET, HEAD, POST} × Content-Length
present/absent × handler protocol {1.0, 1.1} × request version {1.0, 1.1}, the real handler sent
`Transfer-Encoding: chunked` — and chunk-framed the body — exactly when the model's decision says so. -/
theorem framing_table_matches_model :
    checkStatuses chunkedHeader bodyFramed nStatus = true := by
  decide +kernel

/-- **framing_decision** (the rule): chunked ⇔ HTTP/1.1 ∧ no Content-Length ∧ ¬HEAD ∧ ¬1xx ∧
status ∉ {204, 304}. -/
theorem framing_decision (protocol11 hasCl isHead : Bool) (code : Nat) :
    chunkedDecision protocol11 hasCl isHead code = true ↔
      protocol11 = true ∧ hasCl = false ∧ isHead = false ∧ ¬ (100 ≤ code ∧ code < 200) ∧
      code ≠ 204 ∧ code ≠ 304 := by
  cases protocol11 <;> cases hasCl <;> cases isHead <;> simp [chunkedDecision] <;> omega

example : chunkedDecision true false false 200 = true := by decide
example : chunkedDecision true false true 200 = false := by decide
example : chunkedDecision true false false 304 = false := by decide

/-! ### structure of the I/O calls (what the byte-list model of `rfile` presupposes) -/

/-- **The de-chunker reads with the blocking `read(n)`, and header values are only unfolded** — read
off the AST of the live `serving.py` on every run. `DechunkedInput` calls nothing on `self._rfile`
but `readline()` (size lines, terminators) and one `read(n)` for chunk payload: the model's
`rfile.read n` ("n bytes unless the stream ends") is `BufferedReader.read`, not `read1` / `recv`,
which would hand over only what has already arrived and make a chunk that is larger than the
handler's 8 KiB buffer, or that arrives in two TCP segments, look like a body that ended inside a
chunk. And in `make_environ`'s header loop the value is rewritten by `value.replace("\r\n", "")`
(and the comma-join) only — what `foldHeaders` / `header_folding` transcribe — so no other byte of
a latin-1 header value (`\x0b`, `\x0c`, `\x1c`–`\x1e`, `\x85`, …) is dropped. -/
theorem serving_io_structure :
    rfileMethodsAreReadAndReadline = true ∧ payloadReadIsBlocking = true ∧ sizeLineIsReadline = true ∧
    unfoldIsReplaceCrlf = true := by
  decide

/-! ### request side: DechunkedInput -/

/-- **Size lines round-trip**: the size line a client writes for a chunk of `n` bytes — lower or upper
case hex, terminated by CRLF or a bare LF — is read back as `n` by `read_chunk_len`
(Python's `int(line.strip(), 16)`), for every `n`. -/
theorem chunk_size_line_roundtrip (upper : Bool) (n : Nat) (t : Term) :
    chunkLenOf (hexOf upper n ++ t.bytes) = .ok n :=
  chunkLenOf_hexLine upper n t

example : chunkLenOf (hexOf true 255 ++ Term.lf.bytes) = .ok 255 := by rfl

/-- **dechunk_roundtrip**: for every list of non-empty chunks, each with its own terminator style
(CRLF / LF) and hex case, every terminator of the zero chunk, whatever follows the body on the
connection (`tail`), and **every** sequence of read sizes, the reads on the de-chunking stream return
exactly what the same reads on `BytesIO(payload)` return: consecutive slices of the joined chunk data,
then empty reads (EOF). No size line, terminator or trailing byte is ever delivered, none of the
payload is lost, and no read raises. -/
theorem dechunk_roundtrip (chunks : List (Bytes × Term × Bool)) (hne : ∀ c ∈ chunks, c.1 ≠ [])
    (tf : Term) (tail : Bytes) (sizes : List Nat) :
    (readMany { wire := encode chunks tf ++ tail } sizes).1 = (slices (payload chunks) sizes).map .ok :=
  readMany_rep tf tail sizes _ _ (Rep.start chunks hne)

/-- ... hence the concatenation of everything read is the payload (all of it once at least
`|payload|` bytes were asked for), whatever the read sizes were. -/
theorem dechunk_roundtrip_concat (chunks : List (Bytes × Term × Bool)) (hne : ∀ c ∈ chunks, c.1 ≠ [])
    (tf : Term) (tail : Bytes) (sizes : List Nat) :
    ∃ outs : List Bytes, (readMany { wire := encode chunks tf ++ tail } sizes).1 = outs.map .ok ∧
      outs.flatten = (payload chunks).take sizes.sum ∧
      ((payload chunks).length ≤ sizes.sum → outs.flatten = payload chunks) := by
  refine ⟨slices (payload chunks) sizes, dechunk_roundtrip chunks hne tf tail sizes, slices_flatten _ _, ?_⟩
  intro h
  rw [slices_flatten, List.take_of_length_le h]

example : (readMany { wire := encode [([1, 2, 3], .crlf, false), ([4, 5], .lf, true)] .crlf ++ [71, 69, 84] }
    [2, 2, 5, 1]).1 = [.ok [1, 2], .ok [3, 4], .ok [5], .ok []] := by rfl

/-- **Only OSError escapes, only received bytes are delivered, EOF only after a final chunk** — for
*every* wire content (well-formed or not), every state of the stream and every read size:
`readinto` raises nothing but OSError; the bytes it returns were copied, in order, from the part of
the wire it consumed (never stale or invented bytes — the defect repaired by 68c4de0); it never
returns more than asked; and it returns fewer bytes than asked only once the final chunk was seen,
which in turn requires a size line that reads as 0 somewhere in the consumed wire. A body that is
truncated, or whose framing is damaged, therefore never ends in a clean end-of-body: reading on
raises OSError. -/
theorem dechunk_safety (st : DState) (size : Nat) :
    (∀ e, (readinto st size).1 = .error e → e = "OSError") ∧
    (∃ pre, st.wire = pre ++ (readinto st size).2.wire ∧
      ∀ out, (readinto st size).1 = .ok out → out.Sublist pre ∧ out.length ≤ size) ∧
    (∀ out, (readinto st size).1 = .ok out → out.length < size → (readinto st size).2.done = true) ∧
    ((readinto st size).2.done = true → st.done = true ∨
      ∃ a line b, st.wire = a ++ line ++ b ∧ chunkLenOf line = .ok 0) := by
  have h := readinto_facts st size
  refine ⟨h.err, ?_, h.eof, h.fin⟩
  obtain ⟨pre, h1, h2⟩ := h.prov
  refine ⟨pre, h1, fun out ho => ?_⟩
  obtain ⟨d, hd1, hd2⟩ := h2 out ho
  simp only [List.nil_append] at hd1
  subst hd1
  exact ⟨hd2, h.le _ ho (by simp)⟩

/-- **dechunk_malformed_error** — the three ways chunk framing can be broken, each for every state
and wire that exhibits it and every positive read size:
(a) a size line that is not a hexadecimal number (or is negative) at a chunk boundary,
(b) the connection ending inside a chunk before the bytes this read needs have arrived,
(c) chunk data that is not followed by a line terminator
— each makes the read raise OSError (and, by `dechunk_safety`, nothing but received chunk bytes was
or will be delivered). -/
theorem dechunk_malformed_error (st : DState) (size : Nat) (hsize : 0 < size) (hnd : st.done = false) :
    (st.len = 0 → (∃ e, chunkLenOf (readline st.wire).1 = .error e) →
      (readinto st size).1 = .error "OSError") ∧
    (0 < st.len → st.wire.length < min size st.len → (readinto st size).1 = .error "OSError") ∧
    (0 < st.len → st.len ≤ size → st.len ≤ st.wire.length →
      isTerminator (readline (st.wire.drop st.len)).1 = false → (readinto st size).1 = .error "OSError") := by
  have hs0 : size ≠ 0 := by omega
  refine ⟨?_, ?_, ?_⟩
  · intro hl ⟨e, he⟩
    have : e = "OSError" := chunkLenOf_error he
    subst this
    simp [readinto, readLoop, hnd, hs0, readHeader, hl, he]
  · intro hl hshort
    have hl0 : st.len ≠ 0 := by omega
    have hneq : ¬ (min size (min st.len st.wire.length) = min size st.len) := by omega
    simp [readinto, readLoop, hnd, hs0, readHeader, hl0, markDone, afterHeader, hneq]
  · intro hl hle hwl hterm
    have hl0 : st.len ≠ 0 := by omega
    have hmin : min size st.len = st.len := by omega
    have hmin2 : min st.len st.wire.length = st.len := by omega
    simp [readinto, readLoop, hnd, hs0, readHeader, hl0, markDone, afterHeader, hmin, hmin2, hterm]

-- (a) `zz`, (b) `64\r\n0123456789` read(20) — the replay of F19 —, (c) `2\r\nabXX`
example : (readinto { wire := [122, 122, 13, 10] } 5).1 = .error "OSError" := by rfl
example : (readinto { wire := [54, 52, 13, 10, 48, 49, 50, 51, 52, 53, 54, 55, 56, 57] } 20).1
    = .error "OSError" := by rfl
example : (readinto { wire := [50, 13, 10, 97, 98, 88, 88] } 2).1 = .error "OSError" := by rfl

/-! ### response side -/

/-- the pieces an application produced, as the chunk list the writer puts on the wire: empty pieces
are skipped, sizes in lower-case hex, CRLF everywhere -/
def asChunks (pieces : List Bytes) : List (Bytes × Term × Bool) :=
  (pieces.filter (fun d => !d.isEmpty)).map (fun d => (d, Term.crlf, false))

theorem bodyWire_chunked (pieces : List Bytes) : bodyWire true pieces = encode (asChunks pieces) .crlf := by
  have key : ∀ (ps : List Bytes),
      (ps.flatMap fun d => if d.isEmpty then [] else hexOf false d.length ++ [13, 10] ++ d ++ [13, 10])
        ++ [48, 13, 10, 13, 10] = encode (asChunks ps) .crlf := by
    intro ps
    induction ps with
    | nil => rfl
    | cons d ps ih =>
      by_cases hd : d.isEmpty = true
      · simp only [List.flatMap_cons, hd, if_true, List.nil_append]
        rw [ih]
        simp [asChunks, hd]
      · simp only [List.flatMap_cons, hd, Bool.false_eq_true, if_false, List.append_assoc]
        simp only [List.append_assoc] at ih
        rw [ih]
        simp [asChunks, hd, encode, encodeChunk, Term.bytes, List.append_assoc]
  simpa [bodyWire] using key pieces

/-- **response_wire_roundtrip**: the body the response writer puts on the wire when it chose chunked
framing, read back through the de-chunking state machine with any read sizes, is exactly the
concatenation of the pieces the application produced (empty pieces included, they contribute
nothing); without chunked framing the wire body *is* that concatenation. -/
theorem response_wire_roundtrip (pieces : List Bytes) (tail : Bytes) (sizes : List Nat) :
    (readMany { wire := bodyWire true pieces ++ tail } sizes).1 = (slices pieces.flatten sizes).map .ok ∧
    bodyWire false pieces = pieces.flatten := by
  have hp : ∀ ps : List Bytes, payload (asChunks ps) = ps.flatten := by
    intro ps
    induction ps with
    | nil => rfl
    | cons d ps ih =>
      by_cases hd : d.isEmpty = true
      · have : d = [] := List.isEmpty_iff.mp hd
        simp only [asChunks, payload] at ih ⊢
        simp [this, ih]
      · simp only [asChunks, payload] at ih ⊢
        simp [hd, ih]
  constructor
  · rw [bodyWire_chunked]
    have hne : ∀ c ∈ asChunks pieces, c.1 ≠ [] := by
      intro c hc
      simp only [asChunks, List.mem_map, List.mem_filter] at hc
      obtain ⟨d, ⟨_, hd⟩, rfl⟩ := hc
      intro he
      simp only at he
      simp [he] at hd
    rw [dechunk_roundtrip _ hne, hp]
  · induction pieces with
    | nil => rfl
    | cons d ps ih =>
      simp only [bodyWire, Bool.false_eq_true, if_false, List.flatMap_cons, List.flatten_cons] at ih ⊢
      rw [ih]
      by_cases hd : d.isEmpty = true
      · simp [List.isEmpty_iff.mp hd]
      · simp [hd]

example : bodyWire true [[97, 98], [], [99]] = [50, 13, 10, 97, 98, 13, 10, 49, 13, 10, 99, 13, 10, 48, 13, 10, 13, 10] := by
  rfl

/-! ### request headers -> environ (`make_environ`; input = the headers as http.server parsed them) -/

/-- **Underscore names never reach the environ**: the folded environ is the same as if the headers
whose name contains `_` had not been sent — `User_Agent` cannot shadow or extend `User-Agent`. -/
theorem underscore_headers_ignored (hs : List (Str × Str)) :
    foldHeaders hs = foldHeaders (hs.filter fun h => !h.1.contains '_') :=
  foldl_foldHeader_filter hs []

/-- **Repeated headers are comma-joined in order**: for every header list and every environ name `k`
other than CONTENT_TYPE / CONTENT_LENGTH, `environ["HTTP_" + k]` is absent when no dash-named header
maps to `k`, and otherwise is the first such value followed by `"," + value` for each later one
(values with embedded line folds `\r\n` removed) — nothing else contributes to it. -/
theorem header_folding (hs : List (Str × Str)) (k : Str) (hk : isContentKey k = false) :
    (foldHeaders hs).get ("HTTP_".toList ++ k) =
      match valuesFor k hs with
      | [] => none
      | v :: vs => some (v ++ vs.flatMap (fun x => ',' :: x)) := by
  have h := foldl_foldHeader_get k hk hs []
  simp only [foldHeaders, h]
  cases valuesFor k hs with
  | nil => rfl
  | cons v vs =>
    show joinFrom (joinStep none v) vs = _
    exact joinFrom_some v vs

example : foldHeaders [("X-A".toList, "1".toList), ("X_A".toList, "2".toList), ("x-a".toList, "3".toList)]
    = [("HTTP_X_A".toList, "1,3".toList)] := by decide

/-! ### make_environ: request line -> PATH_INFO / QUERY_STRING / HTTP_HOST / wsgi.input_terminated -/

/-- **environ_path_roundtrip** (origin-form). For every text `cs`, every percent-encoding `l` of the
UTF-8 bytes of `cs` (each byte literal — printable ASCII other than `%`, `?`, `#` — or `%XY` in either
hex case), an optional query `q` of printable ASCII without `#`, every method, version and header list:
if the path does not start with a second slash, the environ's PATH_INFO is `"/" + cs` tunnelled through
latin-1 — the application's `PATH_INFO.encode("latin-1")` is exactly the UTF-8 of the percent-decoded
path the client sent, `.decode("utf-8")` gives `"/" ++ cs` — QUERY_STRING is the query verbatim, and
REQUEST_METHOD / SERVER_PROTOCOL are passed through. (`http.server` hands such a target to the handler
unchanged: `httpServerPath`.) -/
theorem environ_path_roundtrip (cs : List Char) (l : List (UInt8 × PEnc)) (hv : ValidEnc l)
    (hl : l.map (·.1) = utf8Enc cs) (hslash : (pctEncode l).head? ≠ some '/')
    (q : Str) (hasQ : Bool) (hq : ∀ c ∈ q, c ≠ '#' ∧ domChar c = true)
    (cmd ver : Str) (hs : List (Str × Str)) :
    httpServerPath ('/' :: pctEncode l ++ (if hasQ then '?' :: q else []))
      = '/' :: pctEncode l ++ (if hasQ then '?' :: q else []) ∧
    ∃ e, makeEnviron cmd ('/' :: pctEncode l ++ (if hasQ then '?' :: q else [])) ver hs = some e ∧
      Py.latin1Enc e.pathInfo = some (utf8Enc ('/' :: cs)) ∧
      (Py.latin1Enc e.pathInfo).bind utf8Dec? = some ('/' :: cs) ∧
      e.query = (if hasQ then q else []) ∧ e.method = cmd ∧ e.protocol = ver := by
  constructor
  · cases hp : pctEncode l with
    | nil => cases hasQ <;> rfl
    | cons c t =>
      have : c ≠ '/' := by rw [hp] at hslash; simpa using hslash
      simp only [List.cons_append, httpServerPath]
      split
      · rename_i heq; simp only [List.cons.injEq, true_and] at heq; exact absurd heq.1 this
      · rfl
  · have hchars := pctEncode_chars hv
    have hsplit := urlsplit_origin (pctEncode l) q hasQ
      (fun c hc => ⟨(hchars c hc).1, (hchars c hc).2.1, (hchars c hc).2.2⟩) hslash hq
    have hdec : pctDecode ('/' :: pctEncode l) = utf8Enc ('/' :: cs) := by
      rw [pctDecode_lit _ _ (by decide)]
      have := pctDecode_pctEncode l [] hv
      simp only [List.append_nil, pctDecode] at this
      rw [this, hl]
      rfl
    have hpi : unquoteDance ('/' :: pctEncode l) = Py.latin1Dec (utf8Enc ('/' :: cs)) := by
      unfold unquoteDance
      rw [hdec, Py.decodeReplace_utf8Enc]
    refine ⟨_, by simp only [makeEnviron, hsplit]; rfl, ?_, ?_, ?_, rfl, rfl⟩
    · simp only [List.isEmpty_nil, Bool.not_true, Bool.and_false, Bool.false_eq_true, if_false, hpi,
        latin1Enc_latin1Dec]
    · simp only [List.isEmpty_nil, Bool.not_true, Bool.and_false, Bool.false_eq_true, if_false, hpi,
        latin1Enc_latin1Dec, Option.bind_some, utf8Dec_utf8Enc]
    · simp only
      cases hasQ with
      | false => rfl
      | true =>
        simp only [if_true]
        apply dance_ascii
        intro c hc
        have := (hq c hc).2
        simp only [domChar, Bool.and_eq_true, decide_eq_true_eq] at this
        omega

/-- a path with a space, `é` and `日`: `/a%20b/%C3%A9` … -/
example : (makeEnviron "GET".toList "/a%20b/%C3%A9?q=%20".toList "HTTP/1.1".toList []).map
    (fun e => (e.pathInfo, e.query)) = some ("/a b/\u00c3\u00a9".toList, "q=%20".toList) := by
  decide +kernel

/-- **environ_path_roundtrip** (absolute-form). For `scheme://netloc/path?query` the same holds for
the path — which here may start with `//` — and `environ["HTTP_HOST"]` is the target's authority,
overriding any Host header. -/
theorem environ_absolute_form (sch n : Str) (cs : List Char) (l : List (UInt8 × PEnc)) (hv : ValidEnc l)
    (hl : l.map (·.1) = utf8Enc cs) (hs0 : headIsAlpha sch = true) (hsc : sch.all isSchemeChar = true)
    (hn : ∀ c ∈ n, netlocChar c = true) (hn0 : n ≠ [])
    (q : Str) (hasQ : Bool) (hq : ∀ c ∈ q, c ≠ '#' ∧ domChar c = true)
    (cmd ver : Str) (hs : List (Str × Str)) :
    ∃ e, makeEnviron cmd (sch ++ ':' :: ('/' :: '/' :: (n ++ ('/' :: pctEncode l ++ (if hasQ then '?' :: q else [])))))
        ver hs = some e ∧
      Py.latin1Enc e.pathInfo = some (utf8Enc ('/' :: cs)) ∧
      e.query = (if hasQ then q else []) ∧ e.headers.get "HTTP_HOST".toList = some n := by
  have hchars := pctEncode_chars hv
  have hsplit := urlsplit_absolute sch n (pctEncode l) q hasQ hs0 hsc hn
    (fun c hc => ⟨(hchars c hc).1, (hchars c hc).2.1, (hchars c hc).2.2⟩) hq
  have hdec : pctDecode ('/' :: pctEncode l) = utf8Enc ('/' :: cs) := by
    rw [pctDecode_lit _ _ (by decide)]
    have := pctDecode_pctEncode l [] hv
    simp only [List.append_nil, pctDecode] at this
    rw [this, hl]
    rfl
  have hpi : unquoteDance ('/' :: pctEncode l) = Py.latin1Dec (utf8Enc ('/' :: cs)) := by
    unfold unquoteDance
    rw [hdec, Py.decodeReplace_utf8Enc]
  have hsne : sch ≠ [] := by intro e; subst e; simp [headIsAlpha] at hs0
  have h1 : (sch.map lowerAscii).isEmpty = false := by
    cases sch with
    | nil => exact absurd rfl hsne
    | cons => rfl
  have h2 : n.isEmpty = false := by
    cases n with
    | nil => exact absurd rfl hn0
    | cons => rfl
  refine ⟨_, by simp only [makeEnviron, hsplit]; rfl, ?_, ?_, ?_⟩
  · simp only [h1, Bool.false_and, Bool.false_eq_true, if_false, hpi, latin1Enc_latin1Dec]
  · simp only
    cases hasQ with
    | false => rfl
    | true =>
      simp only [if_true]
      apply dance_ascii
      intro c hc
      have := (hq c hc).2
      simp only [domChar, Bool.and_eq_true, decide_eq_true_eq] at this
      omega
  · simp only [h1, h2, Bool.not_false, Bool.and_self, if_true, Env.get_set_same]

example : (makeEnviron "GET".toList "http://abs.example:8080//p/%2F?x=1".toList "HTTP/1.1".toList
    [("Host".toList, "other".toList)]).map (fun e => (e.pathInfo, e.query, e.headers))
    = some ("//p//".toList, "x=1".toList, [("HTTP_HOST".toList, "abs.example:8080".toList)]) := by
  decide +kernel

/-- **Known finding F19b, in the model**: the property asks that the application sees exactly the
percent-decoded path the client sent, also for `//` prefixes. At full strength this is false: an
origin-form target that starts with `//` reaches the application with a single leading slash.
CPython ≥ 3.12's `http.server` collapses the slashes before the handler runs (`httpServerPath`), and
`make_environ`'s own `//` repair (`"/" + netloc + path`) produces the same single slash when it is
given the target unchanged — `environ_path_roundtrip` excludes exactly these targets. -/
theorem environ_path_double_slash_false :
    ¬ (∀ (target : Str) (e : Environ), target.head? = some '/' → inDomain target = true →
        makeEnviron "GET".toList (httpServerPath target) "HTTP/1.1".toList [] = some e →
        Py.latin1Enc e.pathInfo = some (pctDecode (target.takeWhile (· != '?')))) := by
  intro h
  have hmk : makeEnviron "GET".toList (httpServerPath "//a".toList) "HTTP/1.1".toList []
      = some { method := "GET".toList, pathInfo := "/a".toList, query := [], protocol := "HTTP/1.1".toList,
               rawUri := "/a".toList, headers := [], terminated := false } := by rfl
  have := h "//a".toList _ (by decide) (by decide) hmk
  revert this
  decide +kernel

/-- the same single slash without http.server's help: werkzeug's repair on the unmodified target -/
example : (makeEnviron "GET".toList "//double/slash?x=1".toList "HTTP/1.1".toList []).map (·.pathInfo)
    = some "/double/slash".toList := by decide +kernel

/-- **chunked_sets_terminated**: `wsgi.input_terminated` is set, and `wsgi.input` replaced by the
de-chunking stream, exactly when the folded `Transfer-Encoding` value, stripped and lower-cased, is
`chunked`; in particular a single dash-named `Transfer-Encoding: chunked` header (any letter case of
name and value, underscore look-alikes ignored) sets it, and no such header leaves the input alone. -/
theorem chunked_sets_terminated (cmd path ver : Str) (hs : List (Str × Str)) (e : Environ)
    (h : makeEnviron cmd path ver hs = some e) :
    (e.terminated = isChunkedRequest (foldHeaders hs)) ∧
    (∀ v, valuesFor "TRANSFER_ENCODING".toList hs = [v] → lowerStr (Py.strip v) = "chunked".toList →
      e.terminated = true) ∧
    (valuesFor "TRANSFER_ENCODING".toList hs = [] → e.terminated = false) := by
  have ht : e.terminated = isChunkedRequest (foldHeaders hs) := by
    unfold makeEnviron at h
    split at h
    · cases h
    · simp only [Option.some.injEq] at h; rw [← h]
  have hf := header_folding hs "TRANSFER_ENCODING".toList (by decide)
  refine ⟨ht, ?_, ?_⟩
  · intro v hv hc
    rw [ht]
    rw [hv] at hf
    simp only [List.flatMap_nil, List.append_nil] at hf
    have hf' : (foldHeaders hs).get "HTTP_TRANSFER_ENCODING".toList = some v := hf
    unfold isChunkedRequest
    rw [hf']
    simp only [hc, beq_self_eq_true]
  · intro hv
    rw [ht]
    rw [hv] at hf
    have hf' : (foldHeaders hs).get "HTTP_TRANSFER_ENCODING".toList = none := hf
    unfold isChunkedRequest
    rw [hf']

example : (makeEnviron "POST".toList "/".toList "HTTP/1.1".toList
    [("transfer-encoding".toList, " Chunked ".toList), ("Transfer_Encoding".toList, "x".toList)]).map (·.terminated)
    = some true := by decide +kernel

/-! ### the response writer -/

/-- **Headers exactly once, before the first body byte; zero chunk exactly when chunked**: for every
sequence of `write()` calls and yielded pieces — empty pieces, no pieces at all, an empty header
list — the wire is the head (status line, `Server`/`Date`, the application's headers in order,
`Transfer-Encoding: chunked` iff the framing decision says so, `Connection: close`, blank line)
followed by the framed body. -/
theorem response_head_once (r : Resp) (written yielded : List Bytes) :
    runWsgi r written yielded = r.head ++ bodyWire r.chunked (written ++ yielded) :=
  runWsgi_closed r written yielded

/-- **response_wire_exact**: when the status line and header lines contain no CR (and header names no
`:`), parsing the bytes on the wire — lines up to the first empty line, then the body — returns
exactly the status line and, in order, the headers the application produced (between the server's
`Server`/`Date` and the writer's framing / `Connection: close` lines); and the body, de-chunked with
any read sizes when the response is chunked, is exactly the concatenation of the pieces the
application wrote and yielded. -/
theorem response_wire_exact (r : Resp) (written yielded : List Bytes)
    (hclean : ∀ l ∈ r.headLines, 13 ∉ l ∧ l ≠ []) :
    parseHead (r.headLines.length + 1) (runWsgi r written yielded)
      = some (r.headLines, bodyWire r.chunked (written ++ yielded)) ∧
    (∀ k v : Str, 58 ∉ strBytes k → splitHeaderLine (strBytes k ++ [58, 32] ++ strBytes v) = (strBytes k, strBytes v)) ∧
    (r.chunked = true → ∀ tail sizes,
      (readMany { wire := bodyWire true (written ++ yielded) ++ tail } sizes).1
        = (slices (written ++ yielded).flatten sizes).map .ok) ∧
    (r.chunked = false → bodyWire r.chunked (written ++ yielded) = (written ++ yielded).flatten) := by
  refine ⟨?_, fun k v hk => splitHeaderLine_render _ _ hk, ?_, ?_⟩
  · rw [runWsgi_closed]
    unfold Resp.head
    exact parseHead_lines r.headLines _ hclean
  · intro _ tail sizes
    exact (response_wire_roundtrip (written ++ yielded) tail sizes).1
  · intro hc
    rw [hc]
    exact (response_wire_roundtrip (written ++ yielded) [] []).2

example : runWsgi ⟨"HTTP/1.1".toList, "200 OK".toList, [], [], false⟩ [] []
    = strBytes "HTTP/1.1 200 OK\r\nTransfer-Encoding: chunked\r\nConnection: close\r\n\r\n0\r\n\r\n".toList := by
  decide +kernel

/-- **Every response ends the connection**: whatever the application's status and headers, the last
header line of the head is `Connection: close` (the development server does not do keep-alive: a
pipelined second request on the connection is never answered, and bytes the application left unread
can never be mistaken for a next request line). -/
theorem response_always_closes (r : Resp) :
    r.headLines.getLast? = some (strBytes "Connection: close".toList) := by
  have key : ∀ (A : List Bytes) (B : List (Str × Str)) (x : Str × Str) (f : Str × Str → Bytes),
      (A ++ (B ++ [x]).map f).getLast? = some (f x) := by
    intro A B x f
    simp
  unfold Resp.headLines
  rw [key]
  decide

/-! ### `run_wsgi` as a state machine: every application behaviour -/

open Wz.RunWsgi

/-- **Headers exactly once, before the first body byte; every body byte inside exactly one frame, in
order; the terminating chunk last and only when chunked** — for *every* application behaviour
(`start_response` called any number of times with or without `exc_info`, `write()` before or after it,
any mix of `write()` calls and yielded pieces, empty pieces, exceptions raised anywhere, a `close`
method or none) and every fallback application: the bytes on the wire are the interim response(s),
then — if anything was sent at all — one head built from the status and headers that were set when
the first `write` happened (`Transfer-Encoding: chunked` iff the framing decision says so), then the
frames of the successful `write` calls in order (`frame`: nothing for an empty piece; `size CRLF data
CRLF` when chunked; the data itself otherwise), then possibly the zero chunk, which implies chunked
framing. Nothing else is ever written. -/
theorem run_wsgi_wire_structure (c : Conf) (pre : Bytes) (expect : Bool) (a fb : AppRun) :
    (runHandler c pre expect a fb).wire = (runHandler c pre expect a fb).final.wire ∧
    ((runHandler c pre expect a fb).final.statusSent = none →
      (runHandler c pre expect a fb).wire = startWire pre expect) ∧
    (∀ s, (runHandler c pre expect a fb).final.statusSent = some s →
      ∃ h, (runHandler c pre expect a fb).final.headersSent = some h ∧
        (runHandler c pre expect a fb).final.chunk = (respOf c s h).chunked ∧
        (runHandler c pre expect a fb).wire = startWire pre expect ++ (respOf c s h).head
          ++ framesOf (runHandler c pre expect a fb).final.chunk (runHandler c pre expect a fb).final.pieces
          ++ (if (runHandler c pre expect a fb).final.done then zeroChunk else [])) ∧
    ((runHandler c pre expect a fb).final.done = true → (runHandler c pre expect a fb).final.chunk = true) := by
  have key : (runHandler c pre expect a fb).wire = (runHandler c pre expect a fb).final.wire ∧
      Final c (startWire pre expect) (runHandler c pre expect a fb).final := by
    unfold runHandler finish
    have h0 : WInv c (startWire pre expect) { wire := startWire pre expect } := WInv.fresh c _
    obtain ⟨_, hr, hc⟩ := execute_spec _ a h0
    generalize execute c { wire := startWire pre expect } a = r at hr hc
    obtain ⟨st1, cl, raised⟩ := r
    simp only at hr hc ⊢
    cases raised with
    | false => exact ⟨rfl, (hc rfl).1⟩
    | true =>
      simp only [Bool.not_true, Bool.false_eq_true, if_false]
      obtain ⟨_, hr2, hc2⟩ := execute_spec _ fb (rollback_inv (hr rfl))
      generalize execute c (rollback st1) fb = r3 at hr2 hc2
      obtain ⟨st3, cl3, raised3⟩ := r3
      simp only at hr2 hc2 ⊢
      cases raised3 with
      | false => exact ⟨trivial, (hc2 rfl).1⟩
      | true => exact ⟨trivial, (hr2 rfl).final⟩
  obtain ⟨hw, hf⟩ := key
  refine ⟨hw, fun hn => ?_, fun s hs => ?_, hf.done_chunk⟩
  · rw [hw]; exact (hf.unsent hn).1
  · obtain ⟨h, e1, e2, e3⟩ := hf.sent s hs
    exact ⟨h, e1, e2, by rw [hw]; exact e3⟩

/-- an application that replaces the status through `exc_info` before writing, writes an empty and a
non-empty piece and yields another one, on HTTP/1.1 without Content-Length -/
example : (runHandler ⟨"HTTP/1.1".toList, [], false⟩ [] false
    { call := [.start "200 OK".toList [] false, .start "201 Created".toList [("A".toList, "1".toList)] true,
               .emit [], .emit [97]], iter := [.emit [98, 99]] } { call := [] }).wire
    = strBytes "HTTP/1.1 201 Created\r\nA: 1\r\nTransfer-Encoding: chunked\r\nConnection: close\r\n\r\n1\r\na\r\n2\r\nbc\r\n0\r\n\r\n".toList := by
  decide +kernel

/-- **A run that completes is a complete response**: when no exception escapes, a head *was* sent
(also when the application wrote and yielded nothing), the terminating chunk is there exactly when
the response is chunked, the wire is `head ++ bodyWire` — so `response_wire_exact` /
`response_wire_roundtrip` apply: parsing the head gives back status and headers, de-chunking the body
with any read sizes gives the pieces — and the pieces are exactly the data of the application's
`write()` calls and yielded pieces, in order (`execute`'s closing `write(b"")` adds nothing). -/
theorem run_wsgi_complete_response (c : Conf) (pre : Bytes) (expect : Bool) (a fb : AppRun)
    (hok : (runHandler c pre expect a fb).failed = false) :
    ∃ s h, (runHandler c pre expect a fb).final.statusSent = some s ∧
      (runHandler c pre expect a fb).final.headersSent = some h ∧
      (runHandler c pre expect a fb).final.done = (respOf c s h).chunked ∧
      (runHandler c pre expect a fb).wire = startWire pre expect ++ (respOf c s h).head
        ++ bodyWire (respOf c s h).chunked (runHandler c pre expect a fb).final.pieces ∧
      (runHandler c pre expect a fb).final.pieces.flatten = (emitsOf (a.call ++ a.iter)).flatten := by
  obtain ⟨_, _, hsent, _⟩ := run_wsgi_wire_structure c pre expect a fb
  have key : (runHandler c pre expect a fb).final.statusSent.isSome = true ∧
      (runHandler c pre expect a fb).final.done = (runHandler c pre expect a fb).final.chunk ∧
      (runHandler c pre expect a fb).final.pieces.flatten = (emitsOf (a.call ++ a.iter)).flatten := by
    unfold runHandler finish at hok ⊢
    have h0 : WInv c (startWire pre expect) { wire := startWire pre expect } := WInv.fresh c _
    obtain ⟨_, _, hc⟩ := execute_spec _ a h0
    have hp := execute_pieces (c := c) { wire := startWire pre expect } a
    generalize execute c { wire := startWire pre expect } a = r at hc hp hok
    obtain ⟨st1, cl, raised⟩ := r
    simp only at hc hp hok ⊢
    cases raised with
    | true => simp at hok
    | false =>
      simp only [Bool.not_false, if_true]
      exact ⟨(hc rfl).2.1, (hc rfl).2.2, by simpa using hp rfl⟩
  obtain ⟨hsome, hdone, hpieces⟩ := key
  obtain ⟨s, hs⟩ := Option.isSome_iff_exists.mp hsome
  obtain ⟨h, e1, e2, e3⟩ := hsent s hs
  refine ⟨s, h, hs, e1, by rw [hdone, e2], ?_, hpieces⟩
  rw [e3, bodyWire_frames, hdone, e2]
  simp [List.append_assoc]

example : (runHandler ⟨"HTTP/1.1".toList, [], false⟩ [] false
    { call := [.start "204 No Content".toList [("A".toList, "1".toList)] false] } { call := [] }).wire
    = strBytes "HTTP/1.1 204 No Content\r\nA: 1\r\nConnection: close\r\n\r\n".toList := by decide +kernel

/-- **An error after the head is never papered over** (full strength since fix bc55b83). If the
application's run ends with an exception after a head was sent — with any header list, the empty one
included — `execute(InternalServerError())` adds nothing (its `start_response` hits "Headers already
set") and no terminating chunk is written: the client of a chunked response sees a body that does not
end (`truncated_response_is_detected`: reading on raises OSError), the client of a Content-Length
response a short body. -/
theorem run_wsgi_error_after_head (c : Conf) (pre : Bytes) (expect : Bool) (a fb : AppRun)
    (st1 : HState) (cl : Nat)
    (hex : execute c { wire := startWire pre expect } a = (st1, cl, true))
    (hsent : st1.statusSent.isSome = true)
    (s' : Str) (h' : List (Str × Str)) (rest : List Ev) (hfb : fb.call = .start s' h' false :: rest) :
    (runHandler c pre expect a fb).wire = st1.wire ∧ (runHandler c pre expect a fb).final.done = false ∧
    (runHandler c pre expect a fb).failed = true := by
  have h0 : WInv c (startWire pre expect) { wire := startWire pre expect } := WInv.fresh c _
  obtain ⟨_, hr, _⟩ := execute_spec _ a h0
  rw [hex] at hr
  have h1 := hr rfl
  obtain ⟨s, hs⟩ := Option.isSome_iff_exists.mp hsent
  obtain ⟨h, hh, _, _⟩ := h1.sent s hs
  have hne : st1.headersSent.isSome = true := by rw [hh]; rfl
  have hset : st1.headersSet.isSome = true := by rw [h1.frozen hne]; exact hne
  have hrb : rollback st1 = st1 := by
    unfold rollback
    simp [hs]
  have hfbx : execute c st1 fb = (st1, 0, true) := by
    simp [execute, hfb, runEvs, step, hset]
  unfold runHandler finish
  rw [hex]
  simp only [Bool.not_true, Bool.false_eq_true, if_false, hrb, hfbx]
  exact ⟨trivial, h1.notDone, trivial⟩

example : (runHandler ⟨"HTTP/1.1".toList, [], false⟩ [] false
    { call := [.start "200 OK".toList [("A".toList, "1".toList)] false], iter := [.emit [97]], iterRaises := true }
    { call := [.start "500 X".toList [("B".toList, "2".toList)] false], iter := [.emit [98]] }).wire
    = strBytes "HTTP/1.1 200 OK\r\nA: 1\r\nTransfer-Encoding: chunked\r\nConnection: close\r\n\r\n1\r\na\r\n".toList := by
  decide +kernel

/-- **What the client of a failed chunked response sees**: the wire after an error behind the head is
`head ++ framesOf true pieces` with no terminating chunk (`run_wsgi_error_after_head`). Read back
through the de-chunking state machine — any sequence of reads that stays inside the data the
application managed to write returns exactly that data, in order; the first read that asks for a byte
beyond it raises OSError. The response can not be mistaken for a complete one: there is no short read
and no clean end of body, whatever bytes the pieces contain (`0\r\n\r\n` inside a piece included). -/
theorem truncated_response_is_detected (pieces : List Bytes) (sizes : List Nat) (n : Nat)
    (hin : sizes.sum ≤ pieces.flatten.length) (hout : pieces.flatten.length < sizes.sum + n) :
    (readMany { wire := framesOf true pieces } (sizes ++ [n])).1
      = (slices pieces.flatten sizes).map .ok ++ [.error "OSError"] := by
  have hp : ∀ ps : List Bytes, payload (asChunks ps) = ps.flatten := by
    intro ps
    induction ps with
    | nil => rfl
    | cons d ps ih =>
      by_cases hd : d.isEmpty = true
      · have : d = [] := List.isEmpty_iff.mp hd
        simp only [asChunks, payload] at ih ⊢
        simp [this, ih]
      · simp only [asChunks, payload] at ih ⊢
        simp [hd, ih]
  have hw : ∀ ps : List Bytes, framesOf true ps = openEnc (asChunks ps) := by
    intro ps
    induction ps with
    | nil => rfl
    | cons d ps ih =>
      by_cases hd : d.isEmpty = true
      · simp only [framesOf, List.flatMap_cons, frame, hd, if_true, List.nil_append] at ih ⊢
        rw [ih]; simp [asChunks, hd]
      · simp only [framesOf, List.flatMap_cons, frame, hd, Bool.false_eq_true, if_false, if_true] at ih ⊢
        rw [ih]
        simp [asChunks, hd, openEnc, encodeChunk, Term.bytes, crlf, List.append_assoc]
  have hne : ∀ c ∈ asChunks pieces, c.1 ≠ [] := by
    intro c hc
    simp only [asChunks, List.mem_map, List.mem_filter] at hc
    obtain ⟨d, ⟨_, hd⟩, rfl⟩ := hc
    intro he
    simp only at he
    simp [he] at hd
  rw [hw, ← hp pieces]
  exact readMany_cut sizes _ _ n (RepT.start _ hne) (by rw [hp]; exact hin) (by rw [hp]; exact hout)

example : (readMany { wire := framesOf true [[97, 98], [48, 13, 10, 13, 10]] } [3, 4, 1]).1
    = [.ok [97, 98, 48], .ok [13, 10, 13, 10], .error "OSError"] := by rfl

/-- **Regression for F19c (repaired by bc55b83)**: a response started with an **empty** header list
whose application then raises is left unterminated like any other — before the repair the truthiness
tests on `headers_set` / `headers_sent` let `execute(InternalServerError())` through, the error page
was appended as one more chunk and the zero chunk written (`…1\r\na\r\n1\r\nb\r\n0\r\n\r\n`). -/
theorem run_wsgi_empty_header_list_regression :
    (runHandler ⟨"HTTP/1.1".toList, [], false⟩ [] false
      { call := [.start "200 OK".toList [] false], iter := [.emit [97]], iterRaises := true }
      { call := [.start "500 X".toList [("B".toList, "2".toList)] false], iter := [.emit [98]] }).wire
      = strBytes "HTTP/1.1 200 OK\r\nTransfer-Encoding: chunked\r\nConnection: close\r\n\r\n1\r\na\r\n".toList ∧
    (runHandler ⟨"HTTP/1.1".toList, [], false⟩ [] false
      { call := [.start "200 OK".toList [] false], iter := [.emit [97]], iterRaises := true }
      { call := [.start "500 X".toList [("B".toList, "2".toList)] false], iter := [.emit [98]] }).final.done = false := by
  decide +kernel

/-- **An error before anything was sent gives the fallback response, whole**: the closure variables
are rolled back and `InternalServerError()` runs as if it had been the application — the wire is
exactly what `execute` writes for it on a clean slate (after the interim responses). -/
theorem run_wsgi_error_before_head (c : Conf) (pre : Bytes) (expect : Bool) (a fb : AppRun)
    (st1 : HState) (cl : Nat)
    (hex : execute c { wire := startWire pre expect } a = (st1, cl, true))
    (hsent : st1.statusSent = none) :
    (runHandler c pre expect a fb).wire = (execute c { wire := startWire pre expect } fb).1.wire ∧
    (runHandler c pre expect a fb).closeCalls = cl := by
  have h0 : WInv c (startWire pre expect) { wire := startWire pre expect } := WInv.fresh c _
  obtain ⟨_, hr, _⟩ := execute_spec _ a h0
  rw [hex] at hr
  have h1 := hr rfl
  obtain ⟨u1, u2, u3, u4⟩ := h1.unsent hsent
  have hd := h1.notDone
  have hst : rollback st1 = { wire := startWire pre expect } := by
    unfold rollback
    cases st1
    simp only at hsent u1 u2 u3 u4 hd
    subst hsent u1 u2 u3 u4 hd
    rfl
  unfold runHandler finish
  rw [hex]
  simp only [Bool.not_true, Bool.false_eq_true, if_false, hst]
  exact ⟨trivial, trivial⟩

example : (runHandler ⟨"HTTP/1.1".toList, [], false⟩ [] true
    { call := [.emit [97]] }   -- write() before start_response: AssertionError
    { call := [.start "500 X".toList [("Content-Length".toList, "1".toList)] false], iter := [.emit [98]] }).wire
    = strBytes "HTTP/1.1 100 Continue\r\n\r\nHTTP/1.1 500 X\r\nContent-Length: 1\r\nConnection: close\r\n\r\nb".toList := by
  decide +kernel

/-- **`close()` of the application's iterable is called exactly once** when the application call
returned (whether or not the iteration or the writer failed afterwards) and the iterable has the
method; never when the call itself raised; the fallback's iterable is not counted. -/
theorem run_wsgi_close_once (c : Conf) (pre : Bytes) (expect : Bool) (a fb : AppRun) :
    (runHandler c pre expect a fb).closeCalls =
      if a.closable && !((runEvs c { wire := startWire pre expect } a.call).2 || a.callRaises) then 1 else 0 := by
  have hcl : (runHandler c pre expect a fb).closeCalls = (execute c { wire := startWire pre expect } a).2.1 := by
    unfold runHandler finish
    split <;> rfl
  rw [hcl]
  unfold execute
  generalize runEvs c { wire := startWire pre expect } a.call = r1
  obtain ⟨st1, r1⟩ := r1
  simp only
  by_cases hc : (r1 || a.callRaises) = true
  · simp [hc]
  · simp only [hc, Bool.false_eq_true, if_false]
    generalize runEvs c st1 a.iter = r2
    obtain ⟨st2, r2⟩ := r2
    simp only
    by_cases hi : (r2 || a.iterRaises) = true
    · cases hcl : a.closable <;> simp [hi]
    · simp only [hi, Bool.false_eq_true, if_false]
      cases (if st2.headersSent.isSome = true then some st2 else step c st2 (.emit [])) <;>
        cases hcl : a.closable <;> simp

/-! ### structure of `run_wsgi`'s source that the state machine transcribes (AST facts, every run) -/

open Wz.Gen.RunWsgiFacts in
/-- **The state machine is the code**: `run_wsgi` starts with
`if self.headers.get("Expect", "").lower().strip() == "100-continue": write(b"HTTP/1.1 100 Continue\r\n\r\n")`
(`continueLine`); `write` asserts that status and headers are set, sends status line and headers only
inside `if status_sent is None:` and always ends the head with `Connection: close`; its only socket
writes are the size line, `\r\n`, the data, `\r\n`; `start_response` tests `exc_info`, then
`headers_sent is not None` resp. `headers_set is not None` (identity tests since bc55b83, F19c); `execute`
calls the application outside its `try`, closes with `if headers_sent is None: write(b"")` and
`if chunk_response: write(b"0\r\n\r\n")` (`zeroChunk`), and calls `application_iter.close()` exactly
in its `finally`; the error path rolls `status_set` / `headers_set` back only when nothing was sent and
runs `execute(InternalServerError())` with every exception swallowed. -/
theorem run_wsgi_source_structure :
    expectTest = "self.headers.get('Expect', '').lower().strip() == '100-continue'" ∧
    continueLiteral = continueLine ∧ zeroChunkLiteral = zeroChunk ∧
    writeAsserts = ["status_set is not None", "headers_set is not None", "isinstance(data, bytes)"] ∧
    sentOnlyWhenNone = true ∧ connectionCloseAlways = true ∧
    wfileWritesInWrite = ["b'\\r\\n'", "b'\\r\\n'", "data", "hex(len(data))[2:].encode()"] ∧
    startResponseTests = ["exc_info", "headers_set is not None", "headers_sent is not None"] ∧
    appCallOutsideTry = true ∧ closingWriteTest = "headers_sent is None" ∧ terminatorTest = "chunk_response" ∧
    closeInFinally = true ∧ rollbackOnlyWhenUnsent = true ∧ fallbackIsInternalServerError = true ∧
    fallbackErrorsSwallowed = true := by
  decide +kernel

/-! ### the chunked request body on its way to the application (`make_environ` ∘ `get_input_stream`) -/

/-- **A chunked body is never cut by a Content-Length and never replaced by the empty stream**: when
`make_environ` marked the input as terminated (it did so exactly for `Transfer-Encoding: chunked`,
`chunked_sets_terminated`), `wsgi.get_input_stream` — whatever CONTENT_LENGTH text the client sent
next to it, whatever the letter case of the coding, with or without `safe_fallback` — hands the
application the de-chunking stream itself (no maximum), or that stream under
`LimitedStream(max, is_max=True)`, or refuses with 413 because the *declared* length exceeds the
maximum; never a `LimitedStream` of the declared length and never `BytesIO()`. -/
theorem chunked_body_not_cut_by_content_length (cl : Option (List Char)) (teIsLowerChunked safe : Bool)
    (max : Option Nat) :
    (max = none → LS.getInputStream cl teIsLowerChunked true max safe = .raw) ∧
    (∀ m, max = some m → LS.getInputStream cl teIsLowerChunked true max safe = .limited m true ∨
      LS.getInputStream cl teIsLowerChunked true max safe = .tooLarge) ∧
    (teIsLowerChunked = true → ∀ m, max = some m →
      LS.getInputStream cl teIsLowerChunked true max safe = .limited m true) := by
  refine ⟨?_, ?_, ?_⟩
  · intro h; subst h
    cases hn : LS.getContentLength cl teIsLowerChunked <;> simp [LS.getInputStream, hn]
  · intro m h; subst h
    cases hn : LS.getContentLength cl teIsLowerChunked with
    | none => simp [LS.getInputStream, hn]
    | some n => by_cases hgt : n > m <;> simp [LS.getInputStream, hn, hgt]
  · intro ht m h; subst h ht
    simp [LS.getInputStream, LS.getContentLength]

example : LS.getInputStream (some ['3']) false true none true = .raw := by decide

/-! ### request header names → environ keys (live table) -/

/-- **Every branch of `make_environ`'s key mapping, on the live code**: for each of the header names
of `Gen.EnvKeys` — `Content-Type` / `Content-Length` in any letter case (un-prefixed, last value
wins), every *other* `Content-*` name (`Content-Encoding`, `-Disposition`, `-Range`, `-MD5`,
`-Language`, `-Location`) and every near miss of the two (`Content-Typex`, `Content-Type-`,
`Content-Lengths`, `X-Content-Type`, `Content`, `Content-`, `Http-Content-Type`: all `HTTP_`-prefixed
and comma-joined), underscore names (`Content_Type`, `Content-Type_`, `X_A`, `User_Agent`: dropped),
names that resemble fixed environ keys (`Server-Name`, `Remote-Addr`, `Path-Info`, `Wsgi.Input`,
`Host`) — the environ entries the real handler derived from `name: v1`, `X-Other: o`, `name: v2` are
exactly what the model's `foldHeaders` computes. -/
theorem env_key_table_matches_model :
    ∀ r ∈ Gen.EnvKeys.table,
      foldHeaders [(r.1, "v1".toList), ("X-Other".toList, "o".toList), (r.1, "v2".toList)] = r.2 := by
  decide +kernel

end Wz.Props.C19
