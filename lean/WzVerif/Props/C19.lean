/-
C19 — the development server transports requests and responses faithfully (partial).
Property theorems only (helper lemmas live in Lemmas/Chunked.lean).
-/
import WzVerif.Model.Chunked
import WzVerif.Lemmas.Chunked
import WzVerif.Gen.Framing
namespace Wz.Props.C19
open Wz Wz.Chunked Wz.Gen.Framing

/-- bit `k` of `n` -/
def bit (n k : Nat) : Bool := (n / 2 ^ k) % 2 == 1

/-- the decision the model makes for combination `k` (see `Gen.Framing`) of status `code`:
method index `k / 8` (1 = HEAD), Content-Length present `(k / 4) % 2`, handler protocol `(k / 2) % 2`
(1 = HTTP/1.1); the request-line version `k % 2` is not consulted -/
def modelBit (code k : Nat) : Bool :=
  chunkedDecision ((k / 2) % 2 == 1) ((k / 4) % 2 == 1) (k / 8 == 1) code

def checkCombos (hdr frm code : Nat) : Nat → Bool
  | 0 => true
  | k + 1 => (bit hdr k == modelBit code k) && (bit frm k == modelBit code k) && checkCombos hdr frm code k

def checkStatuses : List Nat → List Nat → Nat → Bool
  | h :: hs, f :: fs, k + 1 =>
    checkCombos h f (statusLo + (nStatus - (k + 1))) nCombos && checkStatuses hs fs k
  | [], [], 0 => true
  | _, _, _ => false

/-- **framing_decision** (live table): for every status 100–599 × {GET, HEAD, POST} × Content-Length
present/absent × handler protocol {1.0, 1.1} × request version {1.0, 1.1}, the real handler sent
`Transfer-Encoding: chunked` — and chunk-framed the body — exactly when the model's decision says so. -/
theorem framing_table_matches_model :
    checkStatuses chunkedHeader bodyFramed nStatus = true := by
  decide +kernel

/-- **framing_decision** (the rule): chunked ⇔ HTTP/1.1 ∧ no Content-Length ∧ ¬HEAD ∧ ¬1xx ∧
status ∉ {204, 304}. -/
theorem framing_decision (protocol11 hasCl isHead : Bool) (code : Nat) :
    chunkedDecision protocol11 hasCl isHead code = true ↔
      protocol11 = true ∧ hasCl = false ∧ isHead = false ∧ ¬ (100 ≤ code ∧ code < 200) ∧
      code ≠ 204 ∧ code ≠ 304 := by
  cases protocol11 <;> cases hasCl <;> cases isHead <;> simp [chunkedDecision] <;> omega

example : chunkedDecision true false false 200 = true := by decide
example : chunkedDecision true false true 200 = false := by decide
example : chunkedDecision true false false 304 = false := by decide

/-! ### request side: DechunkedInput -/

/-- **Size lines round-trip**: the size line a client writes for a chunk of `n` bytes — lower or upper
case hex, terminated by CRLF or a bare LF — is read back as `n` by `read_chunk_len`
(Python's `int(line.strip(), 16)`), for every `n`. -/
theorem chunk_size_line_roundtrip (upper : Bool) (n : Nat) (t : Term) :
    chunkLenOf (hexOf upper n ++ t.bytes) = .ok n :=
  chunkLenOf_hexLine upper n t

example : chunkLenOf (hexOf true 255 ++ Term.lf.bytes) = .ok 255 := by rfl

/-- **dechunk_roundtrip**: for every list of non-empty chunks, each with its own terminator style
(CRLF / LF) and hex case, every terminator of the zero chunk, whatever follows the body on the
connection (`tail`), and **every** sequence of read sizes, the reads on the de-chunking stream return
exactly what the same reads on `BytesIO(payload)` return: consecutive slices of the joined chunk data,
then empty reads (EOF). No size line, terminator or trailing byte is ever delivered, none of the
payload is lost, and no read raises. -/
theorem dechunk_roundtrip (chunks : List (Bytes × Term × Bool)) (hne : ∀ c ∈ chunks, c.1 ≠ [])
    (tf : Term) (tail : Bytes) (sizes : List Nat) :
    (readMany { wire := encode chunks tf ++ tail } sizes).1 = (slices (payload chunks) sizes).map .ok :=
  readMany_rep tf tail sizes _ _ (Rep.start chunks hne)

/-- ... hence the concatenation of everything read is the payload (all of it once at least
`|payload|` bytes were asked for), whatever the read sizes were. -/
theorem dechunk_roundtrip_concat (chunks : List (Bytes × Term × Bool)) (hne : ∀ c ∈ chunks, c.1 ≠ [])
    (tf : Term) (tail : Bytes) (sizes : List Nat) :
    ∃ outs : List Bytes, (readMany { wire := encode chunks tf ++ tail } sizes).1 = outs.map .ok ∧
      outs.flatten = (payload chunks).take sizes.sum ∧
      ((payload chunks).length ≤ sizes.sum → outs.flatten = payload chunks) := by
  refine ⟨slices (payload chunks) sizes, dechunk_roundtrip chunks hne tf tail sizes, slices_flatten _ _, ?_⟩
  intro h
  rw [slices_flatten, List.take_of_length_le h]

example : (readMany { wire := encode [([1, 2, 3], .crlf, false), ([4, 5], .lf, true)] .crlf ++ [71, 69, 84] }
    [2, 2, 5, 1]).1 = [.ok [1, 2], .ok [3, 4], .ok [5], .ok []] := by rfl

/-- **Only OSError escapes, only received bytes are delivered, EOF only after a final chunk** — for
*every* wire content (well-formed or not), every state of the stream and every read size:
`readinto` raises nothing but OSError; the bytes it returns were copied, in order, from the part of
the wire it consumed (never stale or invented bytes — the defect repaired by 68c4de0); it never
returns more than asked; and it returns fewer bytes than asked only once the final chunk was seen,
which in turn requires a size line that reads as 0 somewhere in the consumed wire. A body that is
truncated, or whose framing is damaged, therefore never ends in a clean end-of-body: reading on
raises OSError. -/
theorem dechunk_safety (st : DState) (size : Nat) :
    (∀ e, (readinto st size).1 = .error e → e = "OSError") ∧
    (∃ pre, st.wire = pre ++ (readinto st size).2.wire ∧
      ∀ out, (readinto st size).1 = .ok out → out.Sublist pre ∧ out.length ≤ size) ∧
    (∀ out, (readinto st size).1 = .ok out → out.length < size → (readinto st size).2.done = true) ∧
    ((readinto st size).2.done = true → st.done = true ∨
      ∃ a line b, st.wire = a ++ line ++ b ∧ chunkLenOf line = .ok 0) := by
  have h := readinto_facts st size
  refine ⟨h.err, ?_, h.eof, h.fin⟩
  obtain ⟨pre, h1, h2⟩ := h.prov
  refine ⟨pre, h1, fun out ho => ?_⟩
  obtain ⟨d, hd1, hd2⟩ := h2 out ho
  simp only [List.nil_append] at hd1
  subst hd1
  exact ⟨hd2, h.le _ ho (by simp)⟩

/-- **dechunk_malformed_error** — the three ways chunk framing can be broken, each for every state
and wire that exhibits it and every positive read size:
(a) a size line that is not a hexadecimal number (or is negative) at a chunk boundary,
(b) the connection ending inside a chunk before the bytes this read needs have arrived,
(c) chunk data that is not followed by a line terminator
— each makes the read raise OSError (and, by `dechunk_safety`, nothing but received chunk bytes was
or will be delivered). -/
theorem dechunk_malformed_error (st : DState) (size : Nat) (hsize : 0 < size) (hnd : st.done = false) :
    (st.len = 0 → (∃ e, chunkLenOf (readline st.wire).1 = .error e) →
      (readinto st size).1 = .error "OSError") ∧
    (0 < st.len → st.wire.length < min size st.len → (readinto st size).1 = .error "OSError") ∧
    (0 < st.len → st.len ≤ size → st.len ≤ st.wire.length →
      isTerminator (readline (st.wire.drop st.len)).1 = false → (readinto st size).1 = .error "OSError") := by
  have hs0 : size ≠ 0 := by omega
  refine ⟨?_, ?_, ?_⟩
  · intro hl ⟨e, he⟩
    have : e = "OSError" := chunkLenOf_error he
    subst this
    simp [readinto, readLoop, hnd, hs0, readHeader, hl, he]
  · intro hl hshort
    have hl0 : st.len ≠ 0 := by omega
    have hneq : ¬ (min size (min st.len st.wire.length) = min size st.len) := by omega
    simp [readinto, readLoop, hnd, hs0, readHeader, hl0, markDone, afterHeader, hneq]
  · intro hl hle hwl hterm
    have hl0 : st.len ≠ 0 := by omega
    have hmin : min size st.len = st.len := by omega
    have hmin2 : min st.len st.wire.length = st.len := by omega
    simp [readinto, readLoop, hnd, hs0, readHeader, hl0, markDone, afterHeader, hmin, hmin2, hterm]

-- (a) `zz`, (b) `64\r\n0123456789` read(20) — the replay of F19 —, (c) `2\r\nabXX`
example : (readinto { wire := [122, 122, 13, 10] } 5).1 = .error "OSError" := by rfl
example : (readinto { wire := [54, 52, 13, 10, 48, 49, 50, 51, 52, 53, 54, 55, 56, 57] } 20).1
    = .error "OSError" := by rfl
example : (readinto { wire := [50, 13, 10, 97, 98, 88, 88] } 2).1 = .error "OSError" := by rfl

/-! ### response side -/

/-- the pieces an application produced, as the chunk list the writer puts on the wire: empty pieces
are skipped, sizes in lower-case hex, CRLF everywhere -/
def asChunks (pieces : List Bytes) : List (Bytes × Term × Bool) :=
  (pieces.filter (fun d => !d.isEmpty)).map (fun d => (d, Term.crlf, false))

theorem bodyWire_chunked (pieces : List Bytes) : bodyWire true pieces = encode (asChunks pieces) .crlf := by
  have key : ∀ (ps : List Bytes),
      (ps.flatMap fun d => if d.isEmpty then [] else hexOf false d.length ++ [13, 10] ++ d ++ [13, 10])
        ++ [48, 13, 10, 13, 10] = encode (asChunks ps) .crlf := by
    intro ps
    induction ps with
    | nil => rfl
    | cons d ps ih =>
      by_cases hd : d.isEmpty = true
      · simp only [List.flatMap_cons, hd, if_true, List.nil_append]
        rw [ih]
        simp [asChunks, hd]
      · simp only [List.flatMap_cons, hd, Bool.false_eq_true, if_false, List.append_assoc]
        simp only [List.append_assoc] at ih
        rw [ih]
        simp [asChunks, hd, encode, encodeChunk, Term.bytes, List.append_assoc]
  simpa [bodyWire] using key pieces

/-- **response_wire_roundtrip**: the body the response writer puts on the wire when it chose chunked
framing, read back through the de-chunking state machine with any read sizes, is exactly the
concatenation of the pieces the application produced (empty pieces included, they contribute
nothing); without chunked framing the wire body *is* that concatenation. -/
theorem response_wire_roundtrip (pieces : List Bytes) (tail : Bytes) (sizes : List Nat) :
    (readMany { wire := bodyWire true pieces ++ tail } sizes).1 = (slices pieces.flatten sizes).map .ok ∧
    bodyWire false pieces = pieces.flatten := by
  have hp : ∀ ps : List Bytes, payload (asChunks ps) = ps.flatten := by
    intro ps
    induction ps with
    | nil => rfl
    | cons d ps ih =>
      by_cases hd : d.isEmpty = true
      · have : d = [] := List.isEmpty_iff.mp hd
        simp only [asChunks, payload] at ih ⊢
        simp [this, ih]
      · simp only [asChunks, payload] at ih ⊢
        simp [hd, ih]
  constructor
  · rw [bodyWire_chunked]
    have hne : ∀ c ∈ asChunks pieces, c.1 ≠ [] := by
      intro c hc
      simp only [asChunks, List.mem_map, List.mem_filter] at hc
      obtain ⟨d, ⟨_, hd⟩, rfl⟩ := hc
      intro he
      simp only at he
      simp [he] at hd
    rw [dechunk_roundtrip _ hne, hp]
  · induction pieces with
    | nil => rfl
    | cons d ps ih =>
      simp only [bodyWire, Bool.false_eq_true, if_false, List.flatMap_cons, List.flatten_cons] at ih ⊢
      rw [ih]
      by_cases hd : d.isEmpty = true
      · simp [List.isEmpty_iff.mp hd]
      · simp [hd]

example : bodyWire true [[97, 98], [], [99]] = [50, 13, 10, 97, 98, 13, 10, 49, 13, 10, 99, 13, 10, 48, 13, 10, 13, 10] := by
  rfl

/-! ### request headers -> environ (`make_environ`; input = the headers as http.server parsed them) -/

/-- **Underscore names never reach the environ**: the folded environ is the same as if the headers
whose name contains `_` had not been sent — `User_Agent` cannot shadow or extend `User-Agent`. -/
theorem underscore_headers_ignored (hs : List (Str × Str)) :
    foldHeaders hs = foldHeaders (hs.filter fun h => !h.1.contains '_') :=
  foldl_foldHeader_filter hs []

/-- **Repeated headers are comma-joined in order**: for every header list and every environ name `k`
other than CONTENT_TYPE / CONTENT_LENGTH, `environ["HTTP_" + k]` is absent when no dash-named header
maps to `k`, and otherwise is the first such value followed by `"," + value` for each later one
(values with embedded line folds `\r\n` removed) — nothing else contributes to it. -/
theorem header_folding (hs : List (Str × Str)) (k : Str) (hk : isContentKey k = false) :
    (foldHeaders hs).get ("HTTP_".toList ++ k) =
      match valuesFor k hs with
      | [] => none
      | v :: vs => some (v ++ vs.flatMap (fun x => ',' :: x)) := by
  have h := foldl_foldHeader_get k hk hs []
  simp only [foldHeaders, h]
  cases valuesFor k hs with
  | nil => rfl
  | cons v vs =>
    show joinFrom (joinStep none v) vs = _
    exact joinFrom_some v vs

example : foldHeaders [("X-A".toList, "1".toList), ("X_A".toList, "2".toList), ("x-a".toList, "3".toList)]
    = [("HTTP_X_A".toList, "1,3".toList)] := by decide

end Wz.Props.C19
