/- C19 property theorems (not written yet) -/
namespace Wz.Props.C19
end Wz.Props.C19
