/-
C16T — the `ContentRange` view object of `werkzeug/datastructures/range.py` *as regenerated from the
source* by `tools/py2lean.py` (`Gen/PyFns_HttpDict.lean`, rewritten on every check run): `set`,
`unset`, `to_header`, `__bool__` are equal, for all inputs, to the steps of the hand-written view
model `Views.CR` (`Model/Views.lean`) that the C16 theorems `view_coherent_cr` / `view_text_cr` are
about. The object's attributes and the flag "`on_update` was called" are threaded explicitly.
Property theorems only (helper lemmas: Lemmas/PyFns_HttpDict.lean, Lemmas/PyFns_Http.lean).
-/
import WzVerif.Gen.PyFns_HttpDict
import WzVerif.Model.Views
import WzVerif.Lemmas.PyFns_HttpDict
import WzVerif.Props.C06T
namespace Wz.Props.C16T
open Wz Wz.Pre Wz.PyFnsHttp

/-- state of a ContentRange as the tuple the translation threads: the four attributes and the flag
"`on_update` has been called" -/
def crState (c : Views.CR.St) (n : Bool) : Option (List Char) × Option Int × Option Int × Option Int × Bool :=
  (c.units, c.start, c.stop, c.length, n)

/-- `ContentRange.set(start, stop, length, units)`, as translated from the current source (the
`assert http.is_byte_range_valid(...)` - `is_byte_range_valid` itself translated -, the four
attribute stores, the `on_update` call), is the model's view step `.set`: on a valid range the four
attributes are replaced and the callback runs, otherwise AssertionError with the object untouched
and no callback - for every object state and all arguments. -/
theorem content_range_set_eq (c : Views.CR.St) (n : Bool) (start stop length : Option Int) (units : Option (List Char)) :
    Gen.PyFns_HttpDict.content_range_set c.units c.start c.stop c.length n start stop length units =
      let o := Views.CR.step c (.set start stop length units)
      (crState o.st (n || o.notified), o.res) := by
  unfold Gen.PyFns_HttpDict.content_range_set Views.CR.step Views.CR.valid
  simp only [C06T.is_byte_range_valid_eq]
  by_cases h : Http.isByteRangeValid start stop length = true
  · simp [h, crState]
  · simp [h, crState]

/-- `ContentRange.unset()`, as translated from the current source (`self.set(None, None, units=None)`
with `length` taken from the default in the source), is the model's view step `.unset`: all four
attributes become `None`, the callback runs, nothing is raised. -/
theorem content_range_unset_eq (c : Views.CR.St) (n : Bool) :
    Gen.PyFns_HttpDict.content_range_unset c.units c.start c.stop c.length n =
      let o := Views.CR.step c .unset
      (crState o.st (n || o.notified), o.res) := by
  unfold Gen.PyFns_HttpDict.content_range_unset
  have := content_range_set_eq c n none none none none
  simp only [this]
  simp [Views.CR.step, Views.CR.valid, Http.isByteRangeValid, crState, Views.CR.empty]

/-- `ContentRange.to_header()`, as translated from the current source (no units: empty text; `*` or
the decimal length; `*/len` without a start; `start-(stop-1)/len` otherwise, where `self._stop - 1`
is a TypeError for a start without a stop), is the model's `CR.toHeader` - text or TypeError - for
every combination of the four attributes. -/
theorem content_range_to_header_eq (c : Views.CR.St) :
    Gen.PyFns_HttpDict.content_range_to_header c.units c.start c.stop c.length = Views.CR.toHeader c := by
  obtain ⟨u, s, e, l⟩ := c
  unfold Gen.PyFns_HttpDict.content_range_to_header Views.CR.toHeader Http.contentRangeToHeader Http.lenText
  cases u <;> cases s <;> cases e <;> cases l <;> simp [strOfInt_eq] <;> rfl

/-- `ContentRange.__bool__`, as translated from the current source: true exactly when units are set
(the test `Views.CR.write` uses to decide between deleting and writing the header). -/
theorem content_range_bool_eq (c : Views.CR.St) :
    Gen.PyFns_HttpDict.content_range_bool c.units = c.units.isSome := by
  unfold Gen.PyFns_HttpDict.content_range_bool
  cases c.units <;> rfl

/-- the assertion of `set` keeps every object built by the translated constructor / `set` printable:
after a successful `set`, `to_header` never raises. -/
theorem content_range_set_then_to_header_ok (c : Views.CR.St) (n : Bool) (start stop length : Option Int)
    (units : Option (List Char))
    (h : (Gen.PyFns_HttpDict.content_range_set c.units c.start c.stop c.length n start stop length units).2 = .ok ()) :
    ∃ t, Gen.PyFns_HttpDict.content_range_to_header units start stop length = .ok t := by
  rw [content_range_set_eq] at h
  simp only [Views.CR.step, Views.CR.valid] at h
  by_cases hv : Http.isByteRangeValid start stop length = true
  · have := content_range_to_header_eq ⟨units, start, stop, length⟩
    simp only at this
    rw [this]
    unfold Views.CR.toHeader
    cases units <;> cases start <;> cases stop <;> simp_all [Http.isByteRangeValid]
  · simp [hv] at h

example : (Gen.PyFns_HttpDict.content_range_set none none none none false (some 0) (some 5) (some 10) (some "bytes".toList)).2 = .ok () := by
  decide

end Wz.Props.C16T
