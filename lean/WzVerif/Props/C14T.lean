/-
C14T — `werkzeug.security.safe_join` *as regenerated from the source* by `tools/py2lean.py`
(`Gen/PyFns_Paths.lean`, rewritten on every check run) is equal, for all inputs, to the hand-written
model `safeJoinWith` / `safeJoin` of `Model/Paths.lean` that the C14 containment theorems are about;
the containment theorem is restated on the translated definition.
`posixpath.normpath / join / isabs` stay the hand models of Model/Paths.lean (validated by stream
normpath-kernel). Property theorems only (helper lemmas: Lemmas/PyFns_Paths.lean, Lemmas/PyFns_Prelude.lean).
-/
import WzVerif.Gen.PyFns_Paths
import WzVerif.Lemmas.PyFns_Paths
import WzVerif.Lemmas.Paths
import WzVerif.Lemmas.PyFnsEq_SharedData
namespace Wz.Props.C14T
open Wz Wz.Pre Wz.PyFnsPaths Wz.Gen.PyFns_Paths Wz.PyFnsEq.Middleware

/-- The translation maps `os.path.isabs` to the model of `posixpath.isabs`; that is what `os.path` is
on the platform the generated file was produced on. -/
theorem os_path_is_posixpath : Gen.PyFns_Paths.osPathIsPosixpath = true := by decide

/-- The `for filename in pathnames` loop of `safe_join`, as translated from the current source
(conditional `normpath`, the five-way refusal test, `parts.append`): it returns `None` from inside
the loop exactly when the model's `checkAll` refuses a component, and otherwise ends with the
accepted (normalised) components appended to `parts`, for every list of components, every
`parts` and every list of single-character alternative separators. -/
theorem safe_join_loop_eq (alts : List Char) (ps : List (List Char)) : ∀ parts : List (List Char),
    Gen.PyFns_Paths.safe_join.loop1 (alts.map fun c => [c]) ps parts =
      match Paths.checkAll alts ps with
      | none => .ret (.ok none)
      | some cs => .fall (parts ++ cs) := by
  induction ps with
  | nil => intro parts; simp [Gen.PyFns_Paths.safe_join.loop1, Paths.checkAll]
  | cons f rest ih =>
    intro parts
    unfold Gen.PyFns_Paths.safe_join.loop1 Paths.checkAll Paths.checkComp
    -- rewrite every atom of the translated refusal test to the model's form ...
    simp only [norm1_eq, ih, startswith_sep, startswith_dds, beq_dotdot, List.any_map,
      Function.comp_def, contains_singleton, Paths.hasChar]
    generalize (if f = [] then f else Paths.normpath f) = g
    -- ... and compare the two tests up to the order of their `or` operands
    simp only [Bool.or_comm, Bool.or_left_comm]
    split
    · simp
    · cases Paths.checkAll alts rest <;> simp

/-- `safe_join(directory, *pathnames)`, as translated from the current source, never raises (the
`posixpath.join(*parts)` call always has its first argument) and returns exactly the model's
`safeJoinWith`, for every directory, every number of untrusted components and every list of
single-character alternative separators. -/
theorem safe_join_eq (alts : List Char) (d : List Char) (ps : List (List Char)) :
    Gen.PyFns_Paths.safe_join (alts.map fun c => [c]) d ps = .ok (Paths.safeJoinWith alts d ps) := by
  unfold Gen.PyFns_Paths.safe_join Paths.safeJoinWith
  simp only [safe_join_loop_eq]
  cases Paths.checkAll alts ps with
  | none => simp
  | some cs => 
    simp [starCall1, Paths.dot]

/-- The same with this platform's `_os_alt_seps` (regenerated from the source, `Gen/Paths.lean`). -/
theorem safe_join_eq_here (d : List Char) (ps : List (List Char)) :
    Gen.PyFns_Paths.safe_join (Gen.Paths.osAltSeps.map fun c => [c]) d ps = .ok (Paths.safeJoin d ps) :=
  safe_join_eq _ d ps

/-- **Containment (C14 `safe_join_contained`) on the translated definition.** Whenever the regenerated
`safe_join` returns a path, the normalised result has the normalised directory's segments as a
prefix, continues only with clean components and keeps the directory's root class. -/
theorem safe_join_contained_translated (alts : List Char) (d : List Char) (ps : List (List Char))
    (p : List Char) (h : Gen.PyFns_Paths.safe_join (alts.map fun c => [c]) d ps = .ok (some p)) :
    ∃ extra, Paths.segments (Paths.normpath p) = Paths.segments (Paths.normpath d) ++ extra ∧
      (∀ c ∈ extra, Paths.Clean c) ∧
      Paths.initialSlashes (Paths.normpath p) = Paths.initialSlashes (Paths.normpath d) := by
  rw [safe_join_eq] at h
  have h' : Paths.safeJoinWith alts d ps = some p := by simpa using h
  obtain ⟨extra, h1, h2, h3⟩ := Paths.safeJoinWith_contained h'
  exact ⟨extra, by rw [Paths.segments_normpath, Paths.segments_normpath, h1], h2,
    by rw [Paths.initialSlashes_normpath, Paths.initialSlashes_normpath, h3]⟩

/-- The Windows device-file branch of `secure_filename` was decided at generation time
(`os.name == "nt"` is false): the translation leaves that branch out, this pins the decision. -/
theorem windows_branch_static : Gen.PyFns_Paths.osNameNt = false := by decide

/-- `secure_filename`, as translated from the current source (NFKD as an opaque function, the
`ascii`/`ignore` fold, the `os.sep` / `os.path.altsep` replacement loop, `"_".join(split())`, the
strip regex and `.strip("._")`; the Windows branch is dead, see above), returns exactly the model's
`secureFilename`, for every NFKD function and every file name. -/
theorem secure_filename_eq (nfkd : List Char → List Char) (s : List Char) :
    Gen.PyFns_Paths.secure_filename nfkd s = Paths.secureFilename nfkd s := by
  unfold Gen.PyFns_Paths.secure_filename Paths.secureFilename Paths.secureAscii
  simp only [Gen.PyFns_Paths.osSep, Gen.PyFns_Paths.osAltsep, replace_singleton, splitWs_eq, join_eq, stripChars_eq,
    Gen.PyFns_Paths.filenameAsciiStripReSubEmpty]
  have e1 : Gen.Paths.stripChars = ['.', '_'] := by decide
  have e2 : Gen.Paths.joinChars = ['_'] := by decide
  rw [e1, e2]
  congr 4
  have e3 : Gen.Paths.osSeps = ['/'] := by decide
  simp only [List.isEmpty_cons, Bool.not_false, if_true, Paths.replaceSeps, e3, Pre.asciiIgnore, Paths.asciiIgnore]
  apply List.map_congr_left
  intro c _
  simp

/-- C14 `secure_filename_charset` on the translated definition: whatever the regenerated code
returns uses only `[A-Za-z0-9_.-]`. -/
theorem secure_filename_charset_translated (nfkd : List Char → List Char) (s : List Char) :
    ∀ c ∈ Gen.PyFns_Paths.secure_filename nfkd s, Paths.allowed c = true := by
  rw [secure_filename_eq]
  exact Paths.secureAscii_allowed _

example : Gen.PyFns_Paths.secure_filename id " ../.. /etc/pass wd\t$._".toList
    = "etc_pass_wd".toList := by decide

example : (Gen.PyFns_Paths.safe_join [] "/srv/root".toList
    ["a/../b".toList, "".toList, "c".toList]).toOption = some (some "/srv/root/b/c".toList) := by decide
example : (Gen.PyFns_Paths.safe_join [] "/srv".toList ["a".toList, "b/../..".toList]).toOption
    = some none := by decide

/-! ### `SharedDataMiddleware.__call__` up to the decision which file is served (middleware/shared_data.py;
the translation stops at `guessed_type = …`; proofs in Lemmas/PyFnsEq_Middleware.lean) -/

/-- **The `for search_path, loader in self.exports` loop** of `SharedDataMiddleware.__call__`, as
translated from the current source, for **arbitrary** loaders (`call` is `loader(path)`), entered
with `file_loader = None` and `real_filename` in any state (unbound or bound): it is left by `break`
exactly when some export's loader answers a non-`None` file loader - for the first such export in
the order of `self.exports`, with the `(real_filename, file_loader)` of that call (`firstLoader`) -
and otherwise runs to its end with `file_loader` still `None`. It never returns from inside. -/
theorem shared_data_loop_eq (pinfo : Str) (call : Ldr → Option Str → Option Str × Option Fld)
    (allowed : Str → Bool) (path : Str) : ∀ (exports : List (Str × Ldr)) (rf : Option (Option Str)),
    (∀ r, firstLoader call path exports = some r →
      shared_data_select.loop1 pinfo call allowed path exports rf none = .brk (some r.1, some r.2)) ∧
    (firstLoader call path exports = none →
      ∃ rf', shared_data_select.loop1 pinfo call allowed path exports rf none = .fall (rf', none)) := by
  apply PyFnsEq.Middleware.shared_data_loop_eq <;> assumption

/-- **`SharedDataMiddleware.__call__` up to the decision which file is served**, as translated from
the current source (the export loop, then `if file_loader is None or not
self.is_allowed(real_filename): return self.app(…)`), for **arbitrary** loaders, every `is_allowed`
predicate, every export list and every request path: the request goes to the wrapped application
(`none`) when no export's loader answers a file loader, or when `is_allowed` rejects the
`real_filename` of the first one that does; otherwise that `(real_filename, file_loader)` is served.
The only error arm that can be reached is `is_allowed(None)` ("TypeError": a loader answered
`(None, file_loader)` with a file loader - none of werkzeug's three loaders does, see
`shared_data_select_eq`). -/
theorem shared_data_select_general (path : Str) (call : Ldr → Option Str → Option Str × Option Fld)
    (allowed : Str → Bool) (exports : List (Str × Ldr)) :
    shared_data_select path call allowed exports () ()
      = selected allowed (firstLoader call path exports) := by
  apply PyFnsEq.Middleware.shared_data_select_general <;> assumption

/-- `real_filename` is declared by its first assignment inside the loop, and read after the loop;
the translation therefore has an "UnboundLocalError" arm. It is **unreachable for every loader**:
`real_filename` is only read when `file_loader is not None`, and both are assigned together. -/
theorem shared_data_select_not_unbound (path : Str)
    (call : Ldr → Option Str → Option Str × Option Fld) (allowed : Str → Bool)
    (exports : List (Str × Ldr)) :
    shared_data_select path call allowed exports () () ≠ .error "UnboundLocalError" := by
  apply PyFnsEq.Middleware.shared_data_select_not_unbound <;> assumption

/-- **`SharedDataMiddleware.__call__` with werkzeug's own loaders**, as translated from the current
source, for every file system (`isfile`), every `is_allowed` predicate, every export list as
`__init__` builds it (directory / single-file / package exports, in the order of `self.exports`) and
every request path: the function **never raises** - no `UnboundLocalError` and no `TypeError` arm is
reachable, because these loaders answer `(None, None)` or `(basename, opener)` - and it decides
exactly as C14's model: the first export whose loader finds a file (`Paths.findExport`), served iff
`is_allowed(real_filename)`. The answer is `(real_filename, path that is opened)`, `none` = the
wrapped application is called. No input was found on which code and model differ. -/
theorem shared_data_select_eq (isfile allowed : Str → Bool) (exports : List (Str × Paths.Export))
    (path : Str) :
    shared_data_select path
        (fun ex p => match Paths.loaderOf isfile ex p with
          | some (name, f) => (some name, some f)
          | none => (none, none))
        allowed exports () ()
      = .ok ((Paths.findExport isfile exports path).bind fun (name, f) =>
          if allowed name then some (name, f) else none) := by
  apply PyFnsEq.Middleware.shared_data_select_eq <;> assumption

/-- **The file that is served**: the path opened by the file loader the translated `__call__`
selects is exactly C14's `Paths.sharedData` (the function the C14 containment theorems are about),
for every file system, `is_allowed`, export list and request path. -/
theorem shared_data_select_served (isfile allowed : Str → Bool) (exports : List (Str × Paths.Export))
    (path : Str) :
    (shared_data_select path
        (fun ex p => match Paths.loaderOf isfile ex p with
          | some (name, f) => (some name, some f)
          | none => (none, none))
        allowed exports () ()).map (Option.map (·.2))
      = .ok (Paths.sharedData isfile allowed exports path) := by
  apply PyFnsEq.Middleware.shared_data_select_served <;> assumption


end Wz.Props.C14T
