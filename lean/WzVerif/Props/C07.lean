/-
C07 — no client-controlled header text can crash request parsing.
Property theorems only (lemmas: Lemmas/HttpSafe*.lean, Lemmas/HttpTerm*.lean).

The model (Model/Http.lean) is exception-aware: every Python operation that can raise (`s[0]`,
`s[-1]`, `int()`, `_plain_int`, `b64decode`, `.decode()`, tuple unpacking of `split`, the `Range`
constructor) is a primitive returning `Except String` and every `try/except` is a `catching` on the
listed classes. `Safe x` says that `x` returns a value: no exception of any class escapes — for
**every** input text (`∀ s : List Char`, no length bound). None of the modelled parsers raises an
HTTP exception either, so `Safe` is the whole claim. Termination is Lean's acceptance of the
definitions (structural recursion; the two `while` loops carry fuel, shown never to run out).
-/
import WzVerif.Lemmas.HttpSafeKeys
import WzVerif.Lemmas.HttpTermEtag
import WzVerif.Lemmas.RequestAttrs
import WzVerif.Lemmas.RequestBody
import WzVerif.Gen.RequestSurface
import WzVerif.Gen.Regexes
import WzVerif.Gen.DateExc
namespace Wz.Props.C07
open Wz Wz.Http

/-- no exception escapes -/
abbrev Safe {α : Type} (x : Except String α) : Prop := Wz.Http.Safe x

/-! ### key=value dicts, Cache-Control -/

/-- `parse_dict_header(s)` returns a dict for every text `s`: `key[-1]` is evaluated only after the
`if not key: continue` guard, and (after the F07e repair) the key left by stripping a trailing `*`
is checked again before use. -/
theorem parseDict_total_safe (s : Str) : Safe (parseDictHeader s) := parseDictHeader_safe s

/-- regression F07e: the item `*=x` is skipped, not stored under an empty key -/
theorem parseDict_star_only_key : parseDictHeader ['*', '=', 'x'] = .ok [] := by decide

/-- `parse_cache_control_header(s)` returns a directive dict for every `s` ... -/
theorem parseCacheControl_total_safe (s : Str) : Safe (parseCacheControl s) := parseCacheControl_safe s

/-- ... and every typed accessor returns a value on every dict: the `int()` conversion is the only
partial operation and its ValueError is caught. -/
theorem cacheControl_get_total_safe (d : Dict (Option Str)) (key : Str) (empty : CCVal) (ty : CCType) :
    Safe (getCacheValue d key empty ty) := getCacheValue_safe d key empty ty

/-! ### option headers -/

/-- `parse_options_header(s)` returns `(value, options)` for every text `s`. The content is the
invariant that makes the unguarded `pk[-1]`, `pv[0]`, `pv[-1]` safe: every part collected by the
scanner has a non-empty key and a non-empty value (a token of ≥ 1 character or a quoted string of
≥ 2), RFC 2231 percent-decoding never produces the empty string from a non-empty one, and a key that
is only `*` is dropped before its value is looked at (F07e repair). -/
theorem parseOptions_total_safe (s : Str) : Safe (parseOptionsHeader s) := parseOptionsHeader_safe s

/-- regression F07e: a parameter named only `*` is dropped -/
theorem parseOptions_star_only_key :
    parseOptionsHeader "text/html;*=x".toList = .ok ("text/html".toList, []) := by decide

/-- the `while True` scanner terminates: each iteration that continues has consumed at least the `;`
it searched for, so `len(rest) + 1` iterations always suffice (more fuel changes nothing). -/
theorem parseOptions_scanner_terminates (f1 f2 : Nat) (rest : Str) (acc : List (Str × Str))
    (h1 : rest.length < f1) (h2 : rest.length < f2) : optScan f1 rest acc = optScan f2 rest acc :=
  optScan_fuel_irrelevant f1 f2 rest acc h1 h2

example : "a=1; b=\"x;y\"; ;c".toList.length < 40 := by decide

/-! ### Accept headers -/

/-- regression F07g: a parameter named only by a continuation marker (`*0`) is dropped, as one named
only `*` is (F07e) -/
theorem parseOptions_continuation_only_key :
    parseOptionsHeader "text/html;*0=x".toList = .ok ("text/html".toList, [])
    ∧ parseAcceptHeader "text/html;*0=x".toList = .ok [("text/html".toList, "1".toList)] := by decide

/-- consequently every parameter name `parse_options_header` returns is non-empty ... -/
theorem parseOptions_keys_nonempty (s v : Str) (opts : Dict Str) (h : parseOptionsHeader s = .ok (v, opts)) :
    ∀ x ∈ opts, x.1 ≠ [] := parseOptionsHeader_keys s v opts h

/-- ... and `parse_accept_header(s)` returns its list for **every** text `s`: the `q` value is
converted with `float` only after the regex matched, and `dump_options_header`'s `key[-1]` only
ever sees the non-empty names above. -/
theorem parseAccept_total_safe (s : Str) : Safe (parseAcceptHeader s) := parseAcceptHeader_safe s

/-- what reverting either repair exposes: the dumper does raise on an empty name -/
theorem dumpOptions_needs_nonempty_key :
    dumpOptionsHeader (some ['a']) [([], some ['x'])] = .error "IndexError" := by decide

example : parseAcceptHeader "text/html;level=1;q=0.5, */*;q=0.1, x;q=2".toList
    = .ok [("text/html; level=1".toList, "0.5".toList), ("*/*".toList, "0.1".toList)] := by decide +kernel

/-! ### entity tags -/

/-- `parse_etags` is a total function of its text by construction; its `while pos < end` loop
terminates on every header text (no LF): each regex match ends strictly to the right of where it
started, so `len(value) + 1` iterations always suffice. -/
theorem parseEtags_terminates (f1 f2 : Nat) (s : Str) (st wk : List (Option Str))
    (hlf : '\n' ∉ s) (h1 : s.length < f1) (h2 : s.length < f2) :
    parseEtagsGo f1 s st wk = parseEtagsGo f2 s st wk :=
  parseEtagsGo_fuel_irrelevant f1 f2 s st wk hlf h1 h2

example : '\n' ∉ "W/\"a\", \"b\" ,,*".toList := by decide

/-! ### Range, Content-Range, Age -/

/-- `parse_range_header(s)` returns a `Range` or `None` for every `s`: every `_plain_int` sits in a
`try`, and the `Range` constructor's ValueError is unreachable because a begin without `-` is
non-negative and `begin < end` was checked. -/
theorem parseRange_total_safe (s : Str) : Safe (parseRangeHeader s) := parseRangeHeader_safe s

/-- what the self-test mutates: without the `try` around `_plain_int` the ValueError escapes -/
theorem parseRange_needs_try : plainInt "x".toList = .error "ValueError" := by decide

/-- `parse_content_range_header(s)`: the two-field unpacking and all three `_plain_int` calls are
inside `try ... except ValueError`. -/
theorem parseContentRange_total_safe (s : Str) : Safe (parseContentRangeHeader s) :=
  parseContentRangeHeader_safe s

/-- `parse_age(s)`: ValueError of `int()` and OverflowError of `timedelta` are caught. -/
theorem parseAge_total_safe (s : Str) : Safe (parseAge s) := parseAge_safe s

/-! ### Authorization / WWW-Authenticate -/

/-- `Authorization.from_header(s)` returns an object or `None` for every `s`: `b64decode` raises
`binascii.Error` (bad padding / length) or plain `ValueError` (non-ASCII text, caught since the F07a
repair) and `.decode()` raises `UnicodeDecodeError` — all in the `except` clause. -/
theorem authorization_total_safe (s : Str) : Safe (authorizationFromHeader s) := authorizationFromHeader_safe s

/-- regression F07a: non-ASCII Basic credentials give `None` -/
theorem authorization_non_ascii_basic :
    authorizationFromHeader ("Basic ".toList ++ [Char.ofNat 0xff, Char.ofNat 0xfe]) = .ok none := by decide

/-- the primitive really raises plain ValueError there (what reverting the repair exposes) -/
theorem b64decode_non_ascii : b64Decode [Char.ofNat 0xff] = .error "ValueError" := by decide

theorem wwwAuthenticate_total_safe (s : Str) : Safe (wwwFromHeader s) := wwwFromHeader_safe s

/-! ### the descriptor layer of `Request` -/

/-- `_DictAccessorProperty.__get__` (behind `header_property` / `environ_property`) returns the
default or the loaded value whenever `load_func` raises nothing but ValueError / TypeError. -/
theorem headerProperty_total_safe {α : Type} (load : Str → Except String α) (dflt : α) (hdr : Option Str)
    (h : ∀ v, OnlyRaises ["ValueError", "TypeError"] (load v)) : Safe (headerProperty load dflt hdr) :=
  headerProperty_safe load dflt hdr h

example : ∀ v, OnlyRaises ["ValueError", "TypeError"] ((pyInt v).map some) := fun v =>
  onlyRaises_mono (onlyRaises_map _ (pyInt_onlyRaises v)) (by intro e he; simp at he; subst he; simp)

/-- the hypothesis is needed: a loader that raises another class lets it through — which is exactly
how `Request.date` (loader `parse_date`, OverflowError, finding F07f) escapes the descriptor -/
theorem headerProperty_needs_caught_class :
    headerProperty (fun _ => (.error "OverflowError" : Except String Nat)) 0 (some []) = .error "OverflowError" := by
  decide

/-- a `header_property` / `environ_property` *without* load function (`content_type`, `referrer`,
`origin`, `content_md5`, `content_encoding`, `access_control_request_method`, `remote_user`, ...)
returns the raw text or the default: the kind `…:raw` of the generated surface table -/
theorem request_raw_property_total_safe (dflt : Str) (hdr : Option Str) :
    Safe (headerProperty (fun v => (.ok v : Except String Str)) dflt hdr) :=
  headerProperty_safe _ _ _ (fun v e he => by simp at he)

/-- `Request.max_forwards`, `Request.content_length` (`get_content_length`: `max(0, _plain_int(...))`
inside `try`), `Request.access_control_request_headers` return a value for every header text. -/
theorem request_scalar_attrs_total_safe (a b : Option Str) :
    Safe (requestMaxForwards a) ∧ Safe (getContentLength a b) ∧ Safe (requestAccessControlRequestHeaders a) :=
  ⟨requestMaxForwards_safe a, getContentLength_safe a b, requestAcrh_safe a⟩

/-! ### the lazily parsed attributes of `Request` (Model/RequestAttrs.lean) -/

/-- every character is a latin-1 code point (PEP 3333: what every environ string is) -/
abbrev Latin1 := Wz.Req.Latin1

/-- **`request_attr_total_safe`** — for every environ `e` (every header value an arbitrary text, the
query string latin-1 as WSGI guarantees), every configuration (`trusted_hosts`, server name/port,
scheme) and each of the 24 modelled attributes
`args, cookies, accept_mimetypes, accept_charsets, accept_encodings, accept_languages,
cache_control, if_match, if_none_match, if_modified_since, if_unmodified_since, if_range, date,
range, authorization, mimetype, mimetype_params, is_json, content_length, max_forwards,
access_control_request_headers, pragma, access_route, host`:
reading the attribute returns a value — or, for `host` with `trusted_hosts` set, raises
`SecurityError` (a `BadRequest`, i.e. an HTTPException). Nothing else can escape.
`parse_date`, the idna codec and `codecs.lookup` are parameters (any total functions). -/
theorem request_attr_total_safe (x : Wz.Req.Ext) (e : Wz.Req.Env) (a : Wz.Req.Attr)
    (h : Latin1 e.queryString = true) :
    Wz.Req.outcome x e a = .ok () ∨
      (a = .host ∧ e.trustedHosts.isSome = true ∧ Wz.Req.outcome x e a = .error "SecurityError") :=
  Wz.Req.outcome_spec x e a h

example : Latin1 "a=\u00ff&b=%ff".toList = true := by decide

/-- without `trusted_hosts` (the default) no modelled attribute raises at all -/
theorem request_attr_total_safe_default (x : Wz.Req.Ext) (e : Wz.Req.Env) (a : Wz.Req.Attr)
    (h : Latin1 e.queryString = true) (ht : e.trustedHosts = none) : Wz.Req.outcome x e a = .ok () := by
  rcases Wz.Req.outcome_spec x e a h with h1 | ⟨_, h2, _⟩
  · exact h1
  · rw [ht] at h2; simp at h2

/-- the `SecurityError` branch is real: an untrusted Host is refused with an HTTP exception -/
theorem request_host_untrusted :
    Wz.Req.host Wz.Dbg.asciiIdna { host := some "evil.example".toList, trustedHosts := some ["localhost".toList] }
      = .error "SecurityError" := by decide +kernel

/-- the latin-1 hypothesis is what rules out `UnicodeEncodeError` from
`environ["QUERY_STRING"].encode("latin1")` (not client-reachable: servers hand over latin-1) -/
theorem request_args_needs_latin1 : Wz.Req.args { queryString := [Char.ofNat 0x100] } = .error "UnicodeEncodeError" := by
  decide

/-- what the application then does with an Accept object — membership, `quality`, `best_match` — is a
total function of the parsed list and the offers (Model/Accept.lean, C17); the only exception in that
layer, `MIMEAccept`'s ValueError for a malformed *offer*, is application-side and does not occur for
well-formed offers, whatever the client sent -/
theorem accept_use_never_raises_on_wellformed_offers (self : List (Wz.Accept.Str × Wz.Accept.Q)) (offer : Wz.Accept.Str)
    (h : Wz.Accept.mimeOfferInvalid offer = false) : Wz.Accept.mimeRaises self offer = false := by
  simp [Wz.Accept.mimeRaises, h]

example : Wz.Accept.mimeOfferInvalid "text/html".toList = false := by decide

/-! ### the body-parsing attributes: `form`, `files`, `values`, `data`, `get_data()`, `json`,
`get_json(silent=True)`, `stream` (Model/RequestBody.lean) -/

/-- The glue the body attributes run through is the one the model was written for (collected from the
AST of formparser.py / wrappers/request.py on every run): `FormDataParser.parse` dispatches on exactly
these two mimetypes and catches exactly `ValueError`; the only codec names that reach
`bytes.decode` / `str.encode` are literals, the defaults, or `get_part_charset`'s result; `parse_qsl`
gets no `encoding=`; `get_part_charset` returns `"utf-8"` or a member of its four-element safe list;
`get_json` catches exactly `ValueError`. A client-chosen codec name reaching `decode` — what makes
`LookupError` possible — changes one of these rows. -/
theorem request_glue_pinned :
    Gen.RequestGlue.parseMimetypes = ["multipart/form-data", "application/x-www-form-urlencoded"] ∧
    Gen.RequestGlue.parseCaught = ["ValueError"] ∧
    Gen.RequestGlue.codecSites =
      [("formparser:FormDataParser._parse_multipart", "encode", "'ascii'"),
       ("formparser:FormDataParser._parse_urlencoded", "decode", ""),
       ("formparser:MultiPartParser.parse", "decode", "self.get_part_charset(current_part.headers), 'replace'"),
       ("wrappers.request:Request.__init__", "encode", "'latin1'"),
       ("wrappers.request:Request.get_data", "decode", "errors='replace'")] ∧
    Gen.RequestGlue.parseQslArgs =
      [("<positional>", "data.decode()"), ("keep_blank_values", "True"), ("errors", "'werkzeug.url_quote'")] ∧
    Gen.RequestGlue.partCharsets = [["ascii", "iso-8859-1", "us-ascii", "utf-8"]] ∧
    Gen.RequestGlue.partCharsetReturns = ["'utf-8'", "ct_charset"] ∧
    Gen.RequestGlue.jsonCaught = ["ValueError"] := by
  decide

/-- the subclass facts the argument rests on, from the live classes: the codec errors of strict
decoding / ASCII encoding *are* ValueErrors (so the silent fallback swallows them), an unknown codec
name (`LookupError`) and a too deeply nested document (`RecursionError`) are *not*; the four exceptions
the glue raises itself are HTTP exceptions -/
theorem exception_vocabulary :
    Wz.Req.isValueError "UnicodeDecodeError" = true ∧ Wz.Req.isValueError "UnicodeEncodeError" = true ∧
    Wz.Req.isValueError "json.JSONDecodeError" = true ∧ Wz.Req.isValueError "binascii.Error" = true ∧
    Wz.Req.isValueError "LookupError" = false ∧ Wz.Req.isValueError "RecursionError" = false ∧
    Wz.Req.isValueError "KeyError" = false ∧ Wz.Req.isValueError "IndexError" = false ∧
    Wz.Req.isValueError "TypeError" = false ∧ Wz.Req.isValueError "AttributeError" = false ∧
    Wz.Req.isHttpExc "RequestEntityTooLarge" = true ∧ Wz.Req.isHttpExc "ClientDisconnected" = true ∧
    Wz.Req.isHttpExc "BadRequest" = true ∧ Wz.Req.isHttpExc "UnsupportedMediaType" = true ∧
    Wz.Req.isHttpExc "SecurityError" = true ∧ Wz.Req.isHttpExc "ValueError" = false ∧
    Wz.Req.isHttpExc "LookupError" = false := by
  decide

/-- the exception is one of werkzeug's HTTP exceptions -/
abbrev Http := Wz.Req.Http
/-- hypothesis on the multipart parser (C01/C02/C10's): it raises ValueError (subclasses) or an HTTP
exception (413, client disconnect) only -/
abbrev MultipartRaisesOnly := Wz.Req.MultipartRaisesOnly
/-- hypothesis on `json.loads`: ValueError (JSONDecodeError, UnicodeDecodeError) only -/
abbrev JsonRaisesOnly := Wz.Req.JsonRaisesOnly

/-- **`request_body_attr_total_safe`** — for every environ (Content-Type, Content-Length,
Transfer-Encoding arbitrary text; query string latin-1), every request method, every limit
configuration, every body the input stream delivers (complete or cut short) and each of
`form, files, values, data, get_data(), json, get_json(silent=True), stream, want_form_data_parsed`:
the first access returns a value or raises an HTTP exception (413 `RequestEntityTooLarge`, 400
`ClientDisconnected` / `BadRequest`, 415 `UnsupportedMediaType`). Content: the `except ValueError`
fallback of `FormDataParser.parse` swallows every error of the boundary encoding, of strict body
decoding and of the multipart parser; `parse_options_header` / `get_content_length` are total (above);
the urlencoded reader raises only 413; `get_json` turns ValueError into 400. -/
theorem request_body_attr_total_safe (bx : Wz.Req.BodyExt) (hmp : MultipartRaisesOnly bx) (hjl : JsonRaisesOnly bx)
    (cfg : Wz.Req.BodyCfg) (e : Wz.Req.Env) (method : Str) (w : Wz.Req.Wire) (a : Wz.Req.BodyAttr)
    (h : Latin1 e.queryString = true) :
    Wz.Req.bodyOutcome bx cfg e method w a = .ok () ∨
      ∃ x, Wz.Req.bodyOutcome bx cfg e method w a = .error x ∧ Http x := by
  have := Wz.Req.bodyOutcome_raises bx hmp hjl cfg e method w a h
  cases ho : Wz.Req.bodyOutcome bx cfg e method w a with
  | ok u => left; rfl
  | error x => right; exact ⟨x, rfl, this x ho⟩

/-- the body attributes **with C01/C02/C10's multipart model in the multipart branch** (what the
driver runs against the real code), *without* a hypothesis on the multipart parser: a value, an HTTP
exception, or the model-only value `UNMODELLED` (the multipart model met an RFC 2231 `name*=` part
parameter, which its option-header model does not interpret). The exception set of that model —
`ValueError`, `UnicodeDecodeError`, `RequestEntityTooLarge`, `UNMODELLED`; `AttributeError`,
`UnboundLocalError` and fuel exhaustion unreachable from a fresh decoder — is proved in the multipart
slice (Lemmas/MultipartSafe.lean, `formParse_raises` / `formLoop_raises`); the first two are
ValueErrors and end in the silent fallback of `FormDataParser.parse`. Only `json.loads` stays a
parameter. -/
theorem request_body_attr_total_safe_model (jl : Bytes → Except String Unit)
    (hjl : JsonRaisesOnly ⟨Wz.Req.mpModel, jl⟩) (cfg : Wz.Req.BodyCfg) (e : Wz.Req.Env) (method : Str)
    (w : Wz.Req.Wire) (a : Wz.Req.BodyAttr) (h : Latin1 e.queryString = true) :
    Wz.Req.bodyOutcome ⟨Wz.Req.mpModel, jl⟩ cfg e method w a = .ok () ∨
      ∃ x, Wz.Req.bodyOutcome ⟨Wz.Req.mpModel, jl⟩ cfg e method w a = .error x ∧ (Http x ∨ x = "UNMODELLED") := by
  have := Wz.Req.bodyOutcome_raisesP Wz.Req.HttpOrUnmodelled (fun _ h => Or.inl h) _
    (Wz.Req.mpModel_raises Wz.Req.multipartModelRaises jl) hjl cfg e method w a h
  cases ho : Wz.Req.bodyOutcome ⟨Wz.Req.mpModel, jl⟩ cfg e method w a with
  | ok u => left; rfl
  | error x => right; exact ⟨x, rfl, this x ho⟩

/-- the form attributes do not involve `json.loads` at all: `form`, `files`, `values`, `data`,
`get_data`, `stream` with the multipart model — no hypothesis left -/
theorem request_form_attrs_total_safe_model (jl : Bytes → Except String Unit) (cfg : Wz.Req.BodyCfg) (e : Wz.Req.Env)
    (w : Wz.Req.Wire) :
    ∀ x, Wz.Req.formValue ⟨Wz.Req.mpModel, jl⟩ cfg e w = .error x → (Http x ∨ x = "UNMODELLED") :=
  Wz.Req.loadFormData_raises Wz.Req.HttpOrUnmodelled (fun _ h => Or.inl h) _
    (Wz.Req.mpModel_raises Wz.Req.multipartModelRaises jl) cfg e w

/-- the model-only value is real in the model (and only there: the real parser reads the parameter) -/
theorem request_form_unmodelled_witness :
    Wz.Req.formValue ⟨Wz.Req.mpModel, fun _ => .ok ()⟩ {}
      { contentType := some "multipart/form-data; boundary=x".toList, contentLength := some "60".toList }
      { body := "--x\r\nContent-Disposition: form-data; name*=utf-8''a\r\n\r\nv\r\n--x--".toList.map (fun c => UInt8.ofNat c.toNat) }
      = .error "UNMODELLED" := by decide +kernel

/-- the hypotheses are satisfiable (a multipart parser that refuses everything with ValueError, a JSON
parser that accepts everything) -/
example : MultipartRaisesOnly ⟨fun _ _ _ => .error "ValueError", fun _ => .ok ()⟩ ∧
    JsonRaisesOnly ⟨fun _ _ _ => .error "ValueError", fun _ => .ok ()⟩ :=
  ⟨fun _ _ _ e h => by cases h; left; decide, fun _ e h => by cases h⟩

/-- the hypothesis on the parsers is needed, and is exactly what a client-chosen codec name violates:
a body parser that lets `LookupError` out makes `Request.form` raise it (it is not a ValueError, so
the silent fallback does not apply) -/
theorem request_form_needs_value_errors_only :
    Wz.Req.bodyOutcome ⟨fun _ _ _ => .error "LookupError", fun _ => .ok ()⟩ {}
      { contentType := some "multipart/form-data; boundary=x".toList, contentLength := some "0".toList }
      "POST".toList {} .form = .error "LookupError" := by decide +kernel

/-- while every ValueError — here the strict decoding of a urlencoded body that is not UTF-8 — ends
in an empty form -/
theorem request_form_invalid_utf8_is_empty :
    Wz.Req.formValue ⟨fun _ _ _ => .error "ValueError", fun _ => .ok ()⟩ {}
      { contentType := some "application/x-www-form-urlencoded; charset=bogus".toList, contentLength := some "3".toList }
      { body := [0x61, 0x3d, 0xff] } = .ok {} := by decide +kernel

/-- the same for `json`: ValueError becomes 400, anything else `json.loads` raises escapes — as
CPython's does for a body of a few thousand `[` (RecursionError; the body is outside this property's
quantifier, recorded as an observation in the harness) -/
theorem request_json_needs_value_errors_only :
    Wz.Req.bodyOutcome ⟨fun _ _ _ => .error "ValueError", fun _ => .error "RecursionError"⟩ {}
      { contentType := some "application/json".toList, contentLength := some "1".toList }
      "POST".toList { body := [0x5b] } .json = .error "RecursionError"
    ∧ Wz.Req.bodyOutcome ⟨fun _ _ _ => .error "ValueError", fun _ => .error "json.JSONDecodeError"⟩ {}
      { contentType := some "application/json".toList, contentLength := some "1".toList }
      "POST".toList { body := [0x5b] } .json = .error "BadRequest" := by decide +kernel

/-! ### `parse_date`: the exception behaviour of `email.utils.parsedate_to_datetime` -/

/-- `parse_date(value)` around a raw date parser: `except (TypeError, ValueError, OverflowError): return None`
(the caught classes are read from the source) -/
def parseDateWith (raw : Str → Except String (Option Nat)) (v : Str) : Except String (Option Nat) :=
  Wz.Req.tryExcept Gen.DateExc.parseDateCaught (raw v) none

/-- every exception class `email.utils.parsedate_to_datetime` raised over the generated boundary
family (≈ 41 000 date-shaped texts: every day × month × year × time × zone at and beyond the ends of
their ranges, re-evaluated on every run) is caught by `parse_date` ... -/
theorem parseDate_catches_observed :
    Gen.DateExc.raised.all (fun r => Wz.Req.caughtBy Gen.DateExc.parseDateCaught r.1) = true ∧
    Gen.DateExc.parseDateCaught = ["TypeError", "ValueError", "OverflowError"] := by decide

/-- ... hence `parse_date` returns a value for every text, for any raw parser that raises only the
observed classes (or any other subclass of ValueError). What reverting repair c7e3c04 (F07f) exposes:
without `OverflowError` in the list the obligation above fails on its recorded witness. -/
theorem parseDate_total_safe (raw : Str → Except String (Option Nat))
    (h : ∀ v e, raw v = .error e → e = "TypeError" ∨ e = "OverflowError" ∨ Wz.Req.isValueError e = true) (v : Str) :
    Safe (parseDateWith raw v) := by
  unfold parseDateWith Wz.Req.tryExcept
  cases hr : raw v with
  | ok a => exact ⟨a, rfl⟩
  | error e =>
    have hc : Wz.Req.caughtBy Gen.DateExc.parseDateCaught e = true := by
      rw [parseDate_catches_observed.2]
      rcases h v e hr with rfl | rfl | hv
      · decide
      · decide
      · simp [Wz.Req.caughtBy, hv]
    simp only [hc, if_true]
    exact ⟨none, rfl⟩

example : ∀ (v : Str) (e : String), (fun _ => (.error "OverflowError" : Except String (Option Nat))) v = .error e →
    e = "TypeError" ∨ e = "OverflowError" ∨ Wz.Req.isValueError e = true := by
  intro v e h; cases h; right; left; rfl

/-! ### coverage of the public surface (regenerated from the live classes on every run) -/

/-- why a public name of `Request` is outside the two theorems above -/
def excludedAttrs : List (String × String) :=
  [ -- known finding F07d (Host → urlsplit ValueError)
    ("url", "F07d"), ("base_url", "F07d"), ("host_url", "F07d"), ("root_url", "F07d"), ("url_root", "F07d"),
    -- set by `__init__` from server-controlled or already decoded CGI variables (decoding: C15), no lazy parsing
    ("environ", "init"), ("headers", "init"), ("method", "init"), ("scheme", "init"), ("server", "init"),
    ("root_path", "init"), ("path", "init"), ("query_string", "init"), ("remote_addr", "init"), ("shallow", "init"),
    -- total string formatting of those (`full_path` decodes the query string with the same total decoder as `args`)
    ("is_secure", "format"), ("script_root", "format"), ("full_path", "format"),
    -- stores the raw header text in an object
    ("user_agent", "raw-object"),
    -- configuration, class attributes, methods that parse nothing by themselves
    ("application", "config"), ("close", "config"), ("dict_storage_class", "config"), ("form_data_parser_class", "config"),
    ("from_values", "config"), ("json_module", "config"), ("list_storage_class", "config"), ("make_form_data_parser", "config"),
    ("max_content_length", "config"), ("max_form_memory_size", "config"), ("max_form_parts", "config"),
    ("on_json_loading_failed", "config"), ("parameter_storage_class", "config"), ("trusted_hosts", "config"),
    ("user_agent_class", "config") ]

/-- a public name of a live `Request` is covered: by `request_attr_total_safe` (its `Attr`), by
`request_body_attr_total_safe` (its `BodyAttr`), by `headerProperty_total_safe` with the identity
loader (a `header_property` / `environ_property` without load function), or listed in `excludedAttrs` -/
def attrCovered (row : String × String) : Bool :=
  (Wz.Req.Attr.all.map Wz.Req.Attr.name).contains row.1 ||
  (Wz.Req.BodyAttr.all.map Wz.Req.BodyAttr.name).contains row.1 ||
  row.2.endsWith ":raw" ||
  excludedAttrs.any (·.1 == row.1)

/-- **every public attribute of `Request` is in a covered list or in the explicit exclusion list** —
a property / cached_property added to `sansio.Request` or `wrappers.Request` shows up as an uncovered
row and breaks this obligation (the hostile stream enumerates the same live list). -/
theorem request_surface_covered : Gen.RequestSurface.requestAttrs.all attrCovered = true := by decide +kernel

/-- the enumerations used above are complete -/
theorem request_attr_enumerations (a : Wz.Req.Attr) (b : Wz.Req.BodyAttr) :
    a ∈ Wz.Req.Attr.all ∧ b ∈ Wz.Req.BodyAttr.all := by
  constructor
  · cases a <;> decide
  · cases b <;> decide

/-- public functions of werkzeug.http / sansio.http / sansio.utils with a totality theorem in this file -/
def modelledFunctions : List String :=
  ["parse_options_header", "parse_dict_header", "parse_cache_control_header", "parse_accept_header", "parse_etags",
   "parse_range_header", "parse_content_range_header", "parse_age", "parse_list_header", "parse_set_header",
   "parse_csp_header", "unquote_etag", "unquote_header_value", "get_content_length", "get_host", "host_is_trusted",
   "parse_if_range_header", "is_byte_range_valid"]
/-- parsers modelled by another property and composed here, or Python's (stream `hostile` + oracle) -/
def streamFunctions : List String :=
  ["parse_cookie", "parse_date", "is_resource_modified", "get_current_url"]
/-- serialisers and table predicates (application-side input, not parsers of client text) -/
def serialiserFunctions : List String :=
  ["dump_age", "dump_cookie", "dump_csp_header", "dump_header", "dump_options_header", "generate_etag", "http_date",
   "quote_etag", "quote_header_value", "is_entity_header", "is_hop_by_hop_header", "remove_entity_headers",
   "remove_hop_by_hop_headers"]

/-- every public function of the HTTP utility layer is classified; every `from_header` class, Accept
class and cache-control class is one the hostile stream instantiates -/
theorem http_functions_covered :
    Gen.RequestSurface.httpFunctions.all
      (fun f => modelledFunctions.contains f.2 || streamFunctions.contains f.2 || serialiserFunctions.contains f.2) = true ∧
    Gen.RequestSurface.fromHeaderClasses = ["Authorization", "WWWAuthenticate"] ∧
    Gen.RequestSurface.acceptClasses = ["Accept", "CharsetAccept", "LanguageAccept", "MIMEAccept"] ∧
    Gen.RequestSurface.cacheControlClasses = ["RequestCacheControl", "ResponseCacheControl"] := by decide +kernel

/-! ### cookies: the octal escapes of quoted values fit a byte -/

/-- `_cookie_unslash_replace` turns a three-digit octal escape into `int(v, 8).to_bytes(1, "big")`,
which raises OverflowError above 255: the character classes of the live `_cookie_unslash_re`
(regenerated per byte: first digit, later digits) admit `0..3` and `0..7` only, so every escape the
regex recognises is at most `\377`; the pattern source is the one the cookie model was written for.
Widening the first digit to `0..7` (`\400` … `\777` from a client's `Cookie:` header) breaks this. -/
theorem cookie_octal_escape_fits_byte :
    (∀ n, n < 256 → Wz.Http.tbl Gen.Cookie.unslashOct1 n = true → 48 ≤ n ∧ n ≤ 51) ∧
    (∀ n, n < 256 → Wz.Http.tbl Gen.Cookie.unslashOct23 n = true → 48 ≤ n ∧ n ≤ 55) ∧
    (Gen.Regexes.table.find? (fun r => r.1 == "werkzeug.sansio.http" && r.2.1 == "_cookie_unslash_re")).map (·.2.2.1)
      = some "\\\\([0-3][0-7]{2}|.)" := by
  refine ⟨by decide +kernel, by decide +kernel, by decide +kernel⟩

/-! ### termination: where a hang can come from -/

/-- regexes with an alternation or an unbounded repeat *inside* an unbounded repeat — the shapes
super-linear backtracking needs — that have been examined: `_cookie_re`'s quoted-string branch
`"(?:[^\\"]|\\.)*"` has disjoint alternatives (C13 models it; the repetition family of stream
`hostile` times it on every run) -/
def examinedRegexes : List (String × String) := [("werkzeug.sansio.http", "_cookie_re")]

/-- every module-level compiled regex of the request-parsing modules (live objects, 20 at this
commit) is free of nested unbounded quantifiers and of alternations under an unbounded quantifier,
or is in the examined list; no function builds further patterns per call except the two multipart
boundary patterns and `urls._make_unquote_part`. A new regex of either shape breaks this obligation;
the stream times every listed regex on its own repetition family. -/
theorem regexes_examined :
    Gen.Regexes.table.all (fun r => (!r.2.2.2.1 && !r.2.2.2.2) || examinedRegexes.contains (r.1, r.2.1)) = true ∧
    Gen.Regexes.localUses =
      [("werkzeug.sansio.multipart:MultipartDecoder.__init__", "re.compile"),
       ("werkzeug.sansio.multipart:MultipartDecoder.__init__", "re.compile"),
       ("werkzeug.urls:_make_unquote_part", "re.compile")] := by decide +kernel

/-
-- OPEN (known finding F07d): `Request.url/base_url/host_url/root_url/url_root` pass the Host header
--   through `urllib.parse.urlsplit(...).port/.hostname`, which raise ValueError for a non-numeric or
--   out-of-range port and for unbalanced / invalid `[...]`. `urlsplit` is Python's and is not
--   modelled; these five attributes are the explicit exclusion of `request_attr_total_safe`
--   (`excludedAttrs`); the failing family is replayed on the real code by the harness on every run.
-- OPEN: `email.utils.parsedate_to_datetime` itself is Python's: `parseDate_total_safe` is relative to
--   the exception classes observed over the regenerated boundary family (`parseDate_catches_observed`);
--   that no other class occurs on other texts is watched by the oracle of stream `hostile`.
-- OPEN: `JsonRaisesOnly` is a hypothesis of `request_body_attr_total_safe(_model)`: `json.loads` is
--   Python's (it does raise RecursionError on deep nesting — a body, outside this property's quantifier).
--   `MultipartRaisesOnly` is discharged for C01/C02/C10's model up to its model-only value `UNMODELLED`
--   (RFC 2231 part parameters, `request_form_unmodelled_witness`); both are exercised on the real code
--   by stream `hostile` (Content-Type x body family).
-/

end Wz.Props.C07
