/- C07 property theorems (not written yet) -/
namespace Wz.Props.C07
end Wz.Props.C07
