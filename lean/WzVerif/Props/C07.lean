/-
C07 — no client-controlled header text can crash request parsing.
Property theorems only (lemmas: Lemmas/HttpSafe*.lean, Lemmas/HttpTerm*.lean).

The model (Model/Http.lean) is exception-aware: every Python operation that can raise (`s[0]`,
`s[-1]`, `int()`, `_plain_int`, `b64decode`, `.decode()`, tuple unpacking of `split`, the `Range`
constructor) is a primitive returning `Except String` and every `try/except` is a `catching` on the
listed classes. `Safe x` says that `x` returns a value: no exception of any class escapes — for
**every** input text (`∀ s : List Char`, no length bound). None of the modelled parsers raises an
HTTP exception either, so `Safe` is the whole claim. Termination is Lean's acceptance of the
definitions (structural recursion; the two `while` loops carry fuel, shown never to run out).
-/
import WzVerif.Lemmas.HttpSafeKeys
import WzVerif.Lemmas.HttpTermEtag
import WzVerif.Lemmas.RequestAttrs
namespace Wz.Props.C07
open Wz Wz.Http

/-- no exception escapes -/
abbrev Safe {α : Type} (x : Except String α) : Prop := Wz.Http.Safe x

/-! ### key=value dicts, Cache-Control -/

/-- `parse_dict_header(s)` returns a dict for every text `s`: `key[-1]` is evaluated only after the
`if not key: continue` guard, and (after the F07e repair) the key left by stripping a trailing `*`
is checked again before use. -/
theorem parseDict_total_safe (s : Str) : Safe (parseDictHeader s) := parseDictHeader_safe s

/-- regression F07e: the item `*=x` is skipped, not stored under an empty key -/
theorem parseDict_star_only_key : parseDictHeader ['*', '=', 'x'] = .ok [] := by decide

/-- `parse_cache_control_header(s)` returns a directive dict for every `s` ... -/
theorem parseCacheControl_total_safe (s : Str) : Safe (parseCacheControl s) := parseCacheControl_safe s

/-- ... and every typed accessor returns a value on every dict: the `int()` conversion is the only
partial operation and its ValueError is caught. -/
theorem cacheControl_get_total_safe (d : Dict (Option Str)) (key : Str) (empty : CCVal) (ty : CCType) :
    Safe (getCacheValue d key empty ty) := getCacheValue_safe d key empty ty

/-! ### option headers -/

/-- `parse_options_header(s)` returns `(value, options)` for every text `s`. The content is the
invariant that makes the unguarded `pk[-1]`, `pv[0]`, `pv[-1]` safe: every part collected by the
scanner has a non-empty key and a non-empty value (a token of ≥ 1 character or a quoted string of
≥ 2), RFC 2231 percent-decoding never produces the empty string from a non-empty one, and a key that
is only `*` is dropped before its value is looked at (F07e repair). -/
theorem parseOptions_total_safe (s : Str) : Safe (parseOptionsHeader s) := parseOptionsHeader_safe s

/-- regression F07e: a parameter named only `*` is dropped -/
theorem parseOptions_star_only_key :
    parseOptionsHeader "text/html;*=x".toList = .ok ("text/html".toList, []) := by decide

/-- the `while True` scanner terminates: each iteration that continues has consumed at least the `;`
it searched for, so `len(rest) + 1` iterations always suffice (more fuel changes nothing). -/
theorem parseOptions_scanner_terminates (f1 f2 : Nat) (rest : Str) (acc : List (Str × Str))
    (h1 : rest.length < f1) (h2 : rest.length < f2) : optScan f1 rest acc = optScan f2 rest acc :=
  optScan_fuel_irrelevant f1 f2 rest acc h1 h2

example : "a=1; b=\"x;y\"; ;c".toList.length < 40 := by decide

/-! ### Accept headers -/

/-- regression F07g: a parameter named only by a continuation marker (`*0`) is dropped, as one named
only `*` is (F07e) -/
theorem parseOptions_continuation_only_key :
    parseOptionsHeader "text/html;*0=x".toList = .ok ("text/html".toList, [])
    ∧ parseAcceptHeader "text/html;*0=x".toList = .ok [("text/html".toList, "1".toList)] := by decide

/-- consequently every parameter name `parse_options_header` returns is non-empty ... -/
theorem parseOptions_keys_nonempty (s v : Str) (opts : Dict Str) (h : parseOptionsHeader s = .ok (v, opts)) :
    ∀ x ∈ opts, x.1 ≠ [] := parseOptionsHeader_keys s v opts h

/-- ... and `parse_accept_header(s)` returns its list for **every** text `s`: the `q` value is
converted with `float` only after the regex matched, and `dump_options_header`'s `key[-1]` only
ever sees the non-empty names above. -/
theorem parseAccept_total_safe (s : Str) : Safe (parseAcceptHeader s) := parseAcceptHeader_safe s

/-- what reverting either repair exposes: the dumper does raise on an empty name -/
theorem dumpOptions_needs_nonempty_key :
    dumpOptionsHeader (some ['a']) [([], some ['x'])] = .error "IndexError" := by decide

example : parseAcceptHeader "text/html;level=1;q=0.5, */*;q=0.1, x;q=2".toList
    = .ok [("text/html; level=1".toList, "0.5".toList), ("*/*".toList, "0.1".toList)] := by decide +kernel

/-! ### entity tags -/

/-- `parse_etags` is a total function of its text by construction; its `while pos < end` loop
terminates on every header text (no LF): each regex match ends strictly to the right of where it
started, so `len(value) + 1` iterations always suffice. -/
theorem parseEtags_terminates (f1 f2 : Nat) (s : Str) (st wk : List (Option Str))
    (hlf : '\n' ∉ s) (h1 : s.length < f1) (h2 : s.length < f2) :
    parseEtagsGo f1 s st wk = parseEtagsGo f2 s st wk :=
  parseEtagsGo_fuel_irrelevant f1 f2 s st wk hlf h1 h2

example : '\n' ∉ "W/\"a\", \"b\" ,,*".toList := by decide

/-! ### Range, Content-Range, Age -/

/-- `parse_range_header(s)` returns a `Range` or `None` for every `s`: every `_plain_int` sits in a
`try`, and the `Range` constructor's ValueError is unreachable because a begin without `-` is
non-negative and `begin < end` was checked. -/
theorem parseRange_total_safe (s : Str) : Safe (parseRangeHeader s) := parseRangeHeader_safe s

/-- what the self-test mutates: without the `try` around `_plain_int` the ValueError escapes -/
theorem parseRange_needs_try : plainInt "x".toList = .error "ValueError" := by decide

/-- `parse_content_range_header(s)`: the two-field unpacking and all three `_plain_int` calls are
inside `try ... except ValueError`. -/
theorem parseContentRange_total_safe (s : Str) : Safe (parseContentRangeHeader s) :=
  parseContentRangeHeader_safe s

/-- `parse_age(s)`: ValueError of `int()` and OverflowError of `timedelta` are caught. -/
theorem parseAge_total_safe (s : Str) : Safe (parseAge s) := parseAge_safe s

/-! ### Authorization / WWW-Authenticate -/

/-- `Authorization.from_header(s)` returns an object or `None` for every `s`: `b64decode` raises
`binascii.Error` (bad padding / length) or plain `ValueError` (non-ASCII text, caught since the F07a
repair) and `.decode()` raises `UnicodeDecodeError` — all in the `except` clause. -/
theorem authorization_total_safe (s : Str) : Safe (authorizationFromHeader s) := authorizationFromHeader_safe s

/-- regression F07a: non-ASCII Basic credentials give `None` -/
theorem authorization_non_ascii_basic :
    authorizationFromHeader ("Basic ".toList ++ [Char.ofNat 0xff, Char.ofNat 0xfe]) = .ok none := by decide

/-- the primitive really raises plain ValueError there (what reverting the repair exposes) -/
theorem b64decode_non_ascii : b64Decode [Char.ofNat 0xff] = .error "ValueError" := by decide

theorem wwwAuthenticate_total_safe (s : Str) : Safe (wwwFromHeader s) := wwwFromHeader_safe s

/-! ### the descriptor layer of `Request` -/

/-- `_DictAccessorProperty.__get__` (behind `header_property` / `environ_property`) returns the
default or the loaded value whenever `load_func` raises nothing but ValueError / TypeError. -/
theorem headerProperty_total_safe {α : Type} (load : Str → Except String α) (dflt : α) (hdr : Option Str)
    (h : ∀ v, OnlyRaises ["ValueError", "TypeError"] (load v)) : Safe (headerProperty load dflt hdr) :=
  headerProperty_safe load dflt hdr h

example : ∀ v, OnlyRaises ["ValueError", "TypeError"] ((pyInt v).map some) := fun v =>
  onlyRaises_mono (onlyRaises_map _ (pyInt_onlyRaises v)) (by intro e he; simp at he; subst he; simp)

/-- the hypothesis is needed: a loader that raises another class lets it through — which is exactly
how `Request.date` (loader `parse_date`, OverflowError, finding F07f) escapes the descriptor -/
theorem headerProperty_needs_caught_class :
    headerProperty (fun _ => (.error "OverflowError" : Except String Nat)) 0 (some []) = .error "OverflowError" := by
  decide

/-- `Request.max_forwards`, `Request.content_length` (`get_content_length`: `max(0, _plain_int(...))`
inside `try`), `Request.access_control_request_headers` return a value for every header text. -/
theorem request_scalar_attrs_total_safe (a b : Option Str) :
    Safe (requestMaxForwards a) ∧ Safe (getContentLength a b) ∧ Safe (requestAccessControlRequestHeaders a) :=
  ⟨requestMaxForwards_safe a, getContentLength_safe a b, requestAcrh_safe a⟩

/-! ### the lazily parsed attributes of `Request` (Model/RequestAttrs.lean) -/

/-- every character is a latin-1 code point (PEP 3333: what every environ string is) -/
abbrev Latin1 := Wz.Req.Latin1

/-- **`request_attr_total_safe`** — for every environ `e` (every header value an arbitrary text, the
query string latin-1 as WSGI guarantees), every configuration (`trusted_hosts`, server name/port,
scheme) and each of the 24 modelled attributes
`args, cookies, accept_mimetypes, accept_charsets, accept_encodings, accept_languages,
cache_control, if_match, if_none_match, if_modified_since, if_unmodified_since, if_range, date,
range, authorization, mimetype, mimetype_params, is_json, content_length, max_forwards,
access_control_request_headers, pragma, access_route, host`:
reading the attribute returns a value — or, for `host` with `trusted_hosts` set, raises
`SecurityError` (a `BadRequest`, i.e. an HTTPException). Nothing else can escape.
`parse_date`, the idna codec and `codecs.lookup` are parameters (any total functions). -/
theorem request_attr_total_safe (x : Wz.Req.Ext) (e : Wz.Req.Env) (a : Wz.Req.Attr)
    (h : Latin1 e.queryString = true) :
    Wz.Req.outcome x e a = .ok () ∨
      (a = .host ∧ e.trustedHosts.isSome = true ∧ Wz.Req.outcome x e a = .error "SecurityError") :=
  Wz.Req.outcome_spec x e a h

example : Latin1 "a=\u00ff&b=%ff".toList = true := by decide

/-- without `trusted_hosts` (the default) no modelled attribute raises at all -/
theorem request_attr_total_safe_default (x : Wz.Req.Ext) (e : Wz.Req.Env) (a : Wz.Req.Attr)
    (h : Latin1 e.queryString = true) (ht : e.trustedHosts = none) : Wz.Req.outcome x e a = .ok () := by
  rcases Wz.Req.outcome_spec x e a h with h1 | ⟨_, h2, _⟩
  · exact h1
  · rw [ht] at h2; simp at h2

/-- the `SecurityError` branch is real: an untrusted Host is refused with an HTTP exception -/
theorem request_host_untrusted :
    Wz.Req.host Wz.Dbg.asciiIdna { host := some "evil.example".toList, trustedHosts := some ["localhost".toList] }
      = .error "SecurityError" := by decide +kernel

/-- the latin-1 hypothesis is what rules out `UnicodeEncodeError` from
`environ["QUERY_STRING"].encode("latin1")` (not client-reachable: servers hand over latin-1) -/
theorem request_args_needs_latin1 : Wz.Req.args { queryString := [Char.ofNat 0x100] } = .error "UnicodeEncodeError" := by
  decide

/-- what the application then does with an Accept object — membership, `quality`, `best_match` — is a
total function of the parsed list and the offers (Model/Accept.lean, C17); the only exception in that
layer, `MIMEAccept`'s ValueError for a malformed *offer*, is application-side and does not occur for
well-formed offers, whatever the client sent -/
theorem accept_use_never_raises_on_wellformed_offers (self : List (Wz.Accept.Str × Wz.Accept.Q)) (offer : Wz.Accept.Str)
    (h : Wz.Accept.mimeOfferInvalid offer = false) : Wz.Accept.mimeRaises self offer = false := by
  simp [Wz.Accept.mimeRaises, h]

example : Wz.Accept.mimeOfferInvalid "text/html".toList = false := by decide

/-
-- OPEN (known finding F07d): `Request.url/base_url/host_url/root_url/url_root` pass the Host header
--   through `urllib.parse.urlsplit(...).port/.hostname`, which raise ValueError for a non-numeric or
--   out-of-range port and for unbalanced / invalid `[...]`. `urlsplit` is Python's and is not
--   modelled; these five attributes are the explicit exclusion of `request_attr_total_safe`; the
--   failing family is replayed on the real code by the harness on every run.
-- OPEN: `parse_date` wraps `email.utils.parsedate_to_datetime` in
--   `except (TypeError, ValueError, OverflowError)` (OverflowError since repair c7e3c04, former
--   finding F07f). `email.utils` is Python's: in `request_attr_total_safe` it is a parameter
--   (a total function); that it raises no other class is watched by the oracle of stream `hostile`.
-- OPEN: `form`, `files`, `data`, `json`, `values`, `stream` go through the body parsers (C01, C02, C10's
--   models) and are exercised on the real code by stream `hostile` only.
-/

end Wz.Props.C07
