/-
C09T2 — C09T continued: the methods of `werkzeug.wsgi.LimitedStream` *as regenerated from the source* by
`tools/py2lean.py` (`Gen/PyFns_Length.lean`, rewritten on every check run: `is_exhausted`, `on_exhausted`,
`on_disconnect`, `tell`, `readinto`, `readall`, `exhaust`, and the glue `ls_raw_read` = CPython's
`RawIOBase.read(n)` on top of `readinto`) equal, for every model state and buffer, the hand-written
model functions the C09 theorems are about (`Model/LimitedStream.lean`), read through `view` /
`viewRead` (new `_pos`, the wrapped stream with its call log, the caller's buffer, the result /
exception). The `while` loop of `readall` is translated with fuel: `limit - pos + 1` iterations are
enough and exactly needed (`ls_readall_fuel_sharp`). The C09 bounds (`*_no_overread`,
`ls_readinto_errors`) are restated on the translated definitions.
Property theorems only: the proofs live in Lemmas/PyFnsEq_LimitedStream.lean.
-/
import WzVerif.Lemmas.PyFnsEq_LimitedStream
namespace Wz.Props.C09T2
open Wz Wz.Pre Wz.Gen.PyFns_Length Wz.PyFnsEq.LimitedStream

/-- the model's `hook` is "call the hook, then `return 0`" (zero bytes written) -/
theorem hook_raised (o : Option String) : LS.hook o = (raised o).map (fun _ => ([] : Bytes)) := by
  apply PyFnsEq.LimitedStream.hook_raised <;> assumption

/-- `LimitedStream.is_exhausted`, as translated from the current source (`self._pos >= self.limit`),
is the model's test `limit ≤ pos` (`LS.isExhausted`) that guards `readinto`, `readall`, `exhaust`,
for every position and limit. -/
theorem ls_is_exhausted_eq (s : LS.St) :
    ls_is_exhausted (s.pos : Int) (s.limit : Int) = decide (s.limit ≤ s.pos) := by
  apply PyFnsEq.LimitedStream.ls_is_exhausted_eq <;> assumption

/-- the same, against the model's observer `LS.isExhausted` -/
theorem ls_is_exhausted_eq_model (s : LS.St) :
    ls_is_exhausted (s.pos : Int) (s.limit : Int) = LS.isExhausted s := by
  apply PyFnsEq.LimitedStream.ls_is_exhausted_eq' <;> assumption

/-- `LimitedStream.tell()`, as translated from the current source, returns the model's `pos`. -/
theorem ls_tell_eq (s : LS.St) : ls_tell (s.pos : Int) = (LS.tell s : Int) := by
  apply PyFnsEq.LimitedStream.ls_tell_eq <;> assumption

/-- `LimitedStream.on_exhausted()`, as translated from the current source, raises
`RequestEntityTooLarge` exactly when the limit is a maximum and otherwise returns: the model's
`LS.onExhausted`. -/
theorem ls_on_exhausted_eq (s : LS.St) : ls_on_exhausted s.isMax = raised (LS.onExhausted s) := by
  apply PyFnsEq.LimitedStream.ls_on_exhausted_eq <;> assumption

/-- `LimitedStream.on_disconnect(error)`, as translated from the current source, raises
`ClientDisconnected` unless the limit is a maximum and no error was passed: the model's
`LS.onDisconnect s err`, `err` = "`error is not None`". -/
theorem ls_on_disconnect_eq (s : LS.St) (err : Option Unit) :
    ls_on_disconnect s.isMax err = raised (LS.onDisconnect s err.isSome) := by
  apply PyFnsEq.LimitedStream.ls_on_disconnect_eq <;> assumption

/-- **`LimitedStream.readinto(b)`, as translated from the current source, is the model's
`LS.readinto`** - for every object state `s` (position, limit, `is_max`, with or without
`_stream.readinto`, any wrapped stream: any data, any script of short reads / empty reads / raises)
and every buffer `b`:
the new `_pos`, the wrapped stream after the call (including the ghost log of the request made), the
returned count and the escaping exception are the model's, and the caller's buffer afterwards is the
bytes the model hands out followed by the untouched rest of `b` (unchanged on an exception or a zero
return). The three paths of the code - `_stream.readinto(b)` when the buffer fits into the remaining
limit, a temporary `bytearray(remaining)` copied into `b[:out_size]` when it does not,
`_stream.read(min(size, remaining))` for a stream without `readinto` - collapse into the model's one
underlying call of size `LS.request s (len b)`; `on_exhausted` runs iff `limit ≤ pos`,
`on_disconnect(error=e)` iff the stream raised, `on_disconnect()` iff it gave zero bytes. -/
theorem ls_readinto_eq (s : LS.St) (b : Bytes) :
    ls_readinto s.hasReadinto (s.pos : Int) (s.limit : Int) s.isMax s.u b
      = view b (LS.readinto s b.length) := by
  apply PyFnsEq.LimitedStream.ls_readinto_eq <;> assumption

/-- **`read(n)` (CPython's `RawIOBase.read` glue over the translated `readinto`: allocate `n` zero
bytes, `readinto`, truncate to the returned count) returns exactly the model's `LS.read s n`**: the
same bytes or the same exception, the same new position and wrapped stream - for every state and every
`n ≥ 0`. -/
theorem ls_raw_read_eq (s : LS.St) (n : Nat) :
    ls_raw_read s.hasReadinto (s.limit : Int) s.isMax (s.pos : Int) s.u (n : Int)
      = viewRead (LS.read s n) := by
  apply PyFnsEq.LimitedStream.ls_raw_read_eq <;> assumption

/-- the same for an integer argument `n ≥ 0` -/
theorem ls_raw_read_eq_int (s : LS.St) (n : Int) (hn : 0 ≤ n) :
    ls_raw_read s.hasReadinto (s.limit : Int) s.isMax (s.pos : Int) s.u n
      = viewRead (LS.read s n.toNat) := by
  apply PyFnsEq.LimitedStream.ls_raw_read_eq_int <;> assumption

/-- The translated `while not self.is_exhausted: data = self.read(1024 * 64); if not data: break;
out.extend(data)` loop agrees with the model's `readallLoop` from every state and every accumulator,
whenever both have more fuel than `limit - pos`: same accumulated bytes / same escaping exception,
same position and wrapped stream; the marker error does not occur. -/
theorem ls_readall_loop_eq : ∀ (f g : Nat) (s : LS.St) (acc : Bytes),
    s.limit - s.pos < f → s.limit - s.pos < g →
    ls_readall.loop1 s.hasReadinto (s.limit : Int) s.isMax f (s.pos : Int) s.u acc
      = viewLoop (LS.readallLoop g s acc) := by
  apply PyFnsEq.LimitedStream.ls_readall_loop_eq <;> assumption

/-- **`LimitedStream.readall()` (= `read()` / `read(-1)`), as translated from the current source, is
the model's `LS.readall`** - for every object state and every amount of fuel `≥ limit - pos + 1`: the
function terminates (the marker error "py2lean: out of fuel" does not occur) and returns exactly the
model's bytes, or raises exactly the model's exception (`on_exhausted` when already exhausted, what
escapes from `read` otherwise), leaving the same position and the same wrapped stream. All C09
theorems about `LS.readall` therefore speak about the current source. -/
theorem ls_readall_eq (fuel : Nat) (s : LS.St) (hf : s.limit - s.pos + 1 ≤ fuel) :
    ls_readall fuel s.hasReadinto (s.pos : Int) s.u (s.limit : Int) s.isMax = viewRead (LS.readall s) := by
  apply PyFnsEq.LimitedStream.ls_readall_eq <;> assumption

/-- **`LimitedStream.exhaust()`, as translated from the current source, is the model's `LS.exhaust`**
(`b""` without touching anything when already exhausted - no `on_exhausted`, unlike `readall` - else
`readall()`), for every object state and every amount of fuel `≥ limit - pos + 1`. -/
theorem ls_exhaust_eq (fuel : Nat) (s : LS.St) (hf : s.limit - s.pos + 1 ≤ fuel) :
    ls_exhaust fuel s.hasReadinto (s.pos : Int) s.u (s.limit : Int) s.isMax = viewRead (LS.exhaust s) := by
  apply PyFnsEq.LimitedStream.ls_exhaust_eq <;> assumption

/-- The result of the translated `readall` does not depend on the fuel once it exceeds `limit - pos`. -/
theorem ls_readall_fuel_irrelevant (f1 f2 : Nat) (s : LS.St)
    (h1 : s.limit - s.pos + 1 ≤ f1) (h2 : s.limit - s.pos + 1 ≤ f2) :
    ls_readall f1 s.hasReadinto (s.pos : Int) s.u (s.limit : Int) s.isMax
      = ls_readall f2 s.hasReadinto (s.pos : Int) s.u (s.limit : Int) s.isMax := by
  apply PyFnsEq.LimitedStream.ls_readall_fuel_irrelevant <;> assumption

/-- one iteration of the translated loop from an unexhausted state, in terms of the model's `read` -/
theorem ls_readall_loop_step (f : Nat) (s : LS.St) (acc : Bytes) (hlim : ¬ s.limit ≤ s.pos) :
    ls_readall.loop1 s.hasReadinto (s.limit : Int) s.isMax (f + 1) (s.pos : Int) s.u acc
      = match (LS.read s 65536).1 with
        | .error e => .ret ((((LS.read s 65536).2.pos : Int), (LS.read s 65536).2.u), .error e)
        | .ok d =>
          if d.isEmpty then .fall (((LS.read s 65536).2.pos : Int), (LS.read s 65536).2.u, acc)
          else ls_readall.loop1 s.hasReadinto (s.limit : Int) s.isMax f
            ((LS.read s 65536).2.pos : Int) (LS.read s 65536).2.u (acc ++ d) := by
  apply PyFnsEq.LimitedStream.ls_readall_loop_step <;> assumption

/-- The bound `limit - pos + 1` is sharp: on `sharpSt` the loop makes two productive iterations and
needs a third unit for the final (failing) loop test, so with 2 units the marker error appears, and
with 3 the result is the real one (`LimitedStream(u, 2, is_max=True).exhaust() == b"\x01\x02"`,
`tell() == 2`, underlying requests `(0, 2)` then `(1, 1)`; replayed on CPython with both kinds of
stream). -/
theorem ls_readall_fuel_sharp (ri : Bool) :
    (ls_exhaust 2 ri 0 (sharpSt ri).u 2 true).2 = .error "py2lean: out of fuel" ∧
    ls_exhaust 3 ri 0 (sharpSt ri).u 2 true
      = ((2, { data := [], taken := [1, 2], script := [], log := [(1, 1), (0, 2)] }), .ok [1, 2]) := by
  apply PyFnsEq.LimitedStream.ls_readall_fuel_sharp <;> assumption

/-- **No over-read, for the translated `readinto`**: on an object that satisfies C09's invariant
(every state reachable from a fresh object does, `LS.fresh_inv` / `LS.readinto_adv`), after the
translated `readinto(b)` every request the wrapped stream has ever received - including the one just
made, on whichever of the three paths - asked for at most `limit - (bytes consumed before it)` bytes. -/
theorem ls_readinto_no_overread (s : LS.St) (b : Bytes) (hinv : LS.Inv s) :
    ∀ p ∈ (ls_readinto s.hasReadinto (s.pos : Int) (s.limit : Int) s.isMax s.u b).1.2.1.log,
      p.1 + p.2 ≤ s.limit := by
  apply PyFnsEq.LimitedStream.ls_readinto_no_overread <;> assumption

/-- **No over-read, for the translated `readall`** (hence `exhaust`, `read()`): the same bound for
every request made by all the iterations of the loop together. -/
theorem ls_readall_no_overread (fuel : Nat) (s : LS.St) (hf : s.limit - s.pos + 1 ≤ fuel) (hinv : LS.Inv s) :
    ∀ p ∈ (ls_readall fuel s.hasReadinto (s.pos : Int) s.u (s.limit : Int) s.isMax).1.2.log,
      p.1 + p.2 ≤ s.limit := by
  apply PyFnsEq.LimitedStream.ls_readall_no_overread <;> assumption

/-- The only exceptions that escape from the translated `readinto` are `RequestEntityTooLarge` (only
at or past a maximum) and `ClientDisconnected`: an `OSError` / `ValueError` of the wrapped stream never
gets through. -/
theorem ls_readinto_errors (s : LS.St) (b : Bytes) (e : String)
    (h : (ls_readinto s.hasReadinto (s.pos : Int) (s.limit : Int) s.isMax s.u b).2 = .error e) :
    LS.GoodErr s e := by
  apply PyFnsEq.LimitedStream.ls_readinto_errors <;> assumption

/-- A normal return `n` of the translated `readinto(b)` satisfies `0 ≤ n ≤ len(b)`, the position
advances by exactly `n`, and the buffer keeps its length. -/
theorem ls_readinto_ok_bounds (s : LS.St) (b : Bytes) (n : Int)
    (h : (ls_readinto s.hasReadinto (s.pos : Int) (s.limit : Int) s.isMax s.u b).2 = .ok n) :
    0 ≤ n ∧ n ≤ b.length
    ∧ (ls_readinto s.hasReadinto (s.pos : Int) (s.limit : Int) s.isMax s.u b).1.1 = (s.pos : Int) + n
    ∧ (ls_readinto s.hasReadinto (s.pos : Int) (s.limit : Int) s.isMax s.u b).1.2.2.length = b.length := by
  apply PyFnsEq.LimitedStream.ls_readinto_ok_bounds <;> assumption


end Wz.Props.C09T2
