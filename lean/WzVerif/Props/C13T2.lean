/-
C13T2 — C13T continued: the test client's `Cookie._matches_request`, `_should_delete` and `_storage_key`
(`werkzeug/test.py`) *as regenerated from the source* by `tools/py2lean.py` (`Gen/PyFns_CookieJar.lean`,
rewritten on every check run) equal the hand-written `JarCookie.matchesRequest` (`domainMatch` /
`pathMatch`), `shouldDelete` and `storageKey` of `Model/CookieJar.lean`, for every cookie, server name
and request path (including the degenerate slices `server_name[:-0]` and `path[len(p) - p.endswith("/"):]`).
Property theorems only: the proofs live in Lemmas/PyFnsEq_CookieJar.lean.
-/
import WzVerif.Lemmas.PyFnsEq_CookieJar
namespace Wz.Props.C13T2
open Wz Wz.Gen.PyFns_CookieJar Wz.PyFnsEq.CookieJar

/-- the first conjunct of the translated `_matches_request` (the test on the server name) is the
model's `domainMatch` -/
theorem cookie_domain_half_eq (d : Wz.Cookie.Str) (oo : Bool) (s : Wz.Cookie.Str) :
    ((s == d) || ((!oo) && (Pre.endswith s d) &&
        (Pre.endswith (Pre.slice s none (some (-(Int.ofNat d.length)))) ['.']))) =
      Wz.Cookie.domainMatch d oo s := by
  apply PyFnsEq.CookieJar.cookie_domain_half_eq <;> assumption

/-- the second conjunct of the translated `_matches_request` (the test on the request path) is the
model's `pathMatch` -/
theorem cookie_path_half_eq (c p : Wz.Cookie.Str) :
    ((p == c) || ((Pre.startswith p c) &&
        (Pre.startswith (Pre.slice p (some ((Int.ofNat c.length) -
          (if Pre.endswith c ['/'] then 1 else 0))) none) ['/']))) =
      Wz.Cookie.pathMatch c p := by
  apply PyFnsEq.CookieJar.cookie_path_half_eq <;> assumption

/-- the translated `Cookie._matches_request`, applied to the domain, origin-only flag and path of a
jar cookie, decides exactly what the model's `matchesRequest` decides, for every server name and
request path -/
theorem cookie_matches_request_eq (c : Wz.Cookie.JarCookie) (serverName reqPath : Wz.Cookie.Str) :
    cookie_matches_request c.domain c.originOnly c.path serverName reqPath =
      c.matchesRequest serverName reqPath := by
  apply PyFnsEq.CookieJar.cookie_matches_request_eq <;> assumption

/-- the translated `Cookie._should_delete` (max-age is 0, or there is an expiry date whose timestamp
is 0) is the model's `shouldDelete`, for every max-age and expiry timestamp -/
theorem cookie_should_delete_eq (ma ex : Option Int) :
    cookie_should_delete ma ex = Wz.Cookie.shouldDelete ma ex := by
  apply PyFnsEq.CookieJar.cookie_should_delete_eq <;> assumption

/-- the same for the fields of a jar cookie -/
theorem cookie_should_delete_jar_eq (c : Wz.Cookie.JarCookie) :
    cookie_should_delete c.maxAge c.expires = c.shouldDelete := by
  apply PyFnsEq.CookieJar.cookie_should_delete_jar_eq <;> assumption

/-- the translated `Cookie._storage_key` is the model's key (domain, path, decoded name) -/
theorem cookie_storage_key_eq (c : Wz.Cookie.JarCookie) :
    cookie_storage_key c.domain c.path c.decodedKey = c.storageKey := by
  apply PyFnsEq.CookieJar.cookie_storage_key_eq <;> assumption


end Wz.Props.C13T2
