/-
C10T3 — C10T continued: a small piece of request-side glue *as regenerated from the source* by
`tools/py2lean.py` (`Gen/PyFns_FormGlue.lean`, rewritten on every check run):
`MultiPartParser.get_part_charset` (`formparser.py`) equals the hand-written `Multipart.partCharset`
(with `Headers.get` / `parse_options_header` instantiated by the model's `headerGet` /
`FormOptions.parseOptionsHeader`). (`Request.want_form_data_parsed`: Props/C07T2.lean.)
-/
import WzVerif.Gen.PyFns_FormGlue
import WzVerif.Model.Multipart
namespace Wz.Props.C10T3
open Wz Wz.Gen.PyFns_FormGlue

/-- the prelude's `d.get(k, "")` on a list of pairs is the model's `lookup` -/
theorem dictGetD_eq_lookup (l : List (List Char × List Char)) (k : List Char) :
    Pre.dictGetD l k [] = (FormOptions.lookup k l).getD [] := by
  unfold Pre.dictGetD Pre.dictGet?
  induction l with
  | nil => rfl
  | cons p t ih =>
    obtain ⟨a, b⟩ := p
    by_cases h : a = k
    · subst h; simp [FormOptions.lookup, List.find?]
    · have h' : (a == k) = false := by simpa using h
      simp only [List.find?, h', FormOptions.lookup] at ih ⊢
      simpa [h, h'] using ih

/-- `get_part_charset(headers)`, as translated from the current source (`headers.get("content-type")`,
`parse_options_header(...)[1].get("charset", "").lower()`, the four allowed names, `"utf-8"`
otherwise), is the model's `partCharset` for every header list. -/
theorem get_part_charset_eq (headers : Multipart.Headers) :
    get_part_charset FormOptions.parseOptionsHeader (fun h k => Multipart.headerGet k h) headers
      = Multipart.partCharset headers := by
  have k1 : "content-type".toList = ['c', 'o', 'n', 't', 'e', 'n', 't', '-', 't', 'y', 'p', 'e'] := by decide
  have k2 : "charset".toList = ['c', 'h', 'a', 'r', 's', 'e', 't'] := by decide
  have k3 : "utf-8".toList = ['u', 't', 'f', '-', '8'] := by decide
  have k4 : "ascii".toList = ['a', 's', 'c', 'i', 'i'] := by decide
  have k5 : "us-ascii".toList = ['u', 's', '-', 'a', 's', 'c', 'i', 'i'] := by decide
  have k6 : "iso-8859-1".toList = ['i', 's', 'o', '-', '8', '8', '5', '9', '-', '1'] := by decide
  unfold get_part_charset Multipart.partCharset
  rw [k1, k2, k3, k4, k5, k6]
  simp only []
  cases h : Multipart.headerGet ['c', 'o', 'n', 't', 'e', 'n', 't', '-', 't', 'y', 'p', 'e'] headers with
  | none => simp [h]
  | some ct =>
    simp only [h]
    by_cases he : ct.isEmpty = true
    · simp [he]
    · simp only [he, Bool.not_false, if_true, Bool.false_eq_true, if_false]
      cases hp : FormOptions.parseOptionsHeader ct with
      | error e => simp [hp]
      | ok r =>
        simp only [hp, dictGetD_eq_lookup]
        rfl

end Wz.Props.C10T3
