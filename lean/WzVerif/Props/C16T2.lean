/-
C16T2 — C16T continued: the accessors behind the `cache_control_property` descriptors,
`_CacheControl._get_cache_value / _set_cache_value / _del_cache_value`
(`datastructures/cache_control.py`), *as regenerated from the source* by `tools/py2lean.py`
(`Gen/PyFns_CacheControl.lean`, rewritten on every check run; one translation per property type: `bool`,
`int`, `None` = a str property) equal the hand-written `Http.getCacheValue` / `Http.setCacheValue` of
`Model/Http.lean` (C06/C16; cross-checked against the live decision table `CacheSetTable`) for every
dict, key and value of the property's type. The object is its dict of `str | None` values.
-/
import WzVerif.Gen.PyFns_CacheControl
import WzVerif.Model.Http
import WzVerif.Lemmas.PyFns_Http
import WzVerif.Lemmas.PyFns_HttpList
import WzVerif.Lemmas.PyFns_HttpDict
namespace Wz.Props.C16T2
open Wz Wz.Http Wz.Gen.PyFns_CacheControl

/-- an `int` property value (or None) as the model's `CCVal` -/
def ccOfInt : Option Int → CCVal
  | none => .none
  | some i => .int i

/-- a str property value (or None) as the model's `CCVal` -/
def ccOfStr : Option Str → CCVal
  | none => .none
  | some s => .str s

/-- a bool property value as the model's `CCVal` -/
def ccOfBool (b : Bool) : CCVal := if b then .true_ else .false_

/-- after a successful `key in d`, `d[key]` is what `d.get(key)` finds: no KeyError -/
theorem getItem_of_has {ν : Type} (d : List (Str × ν)) (k : Str) (h : Pre.dictHas d k = true) :
    ∃ v, Pre.dictGet? d k = some v ∧ Pre.dictGetItem d k = .ok v := by
  have hs : (d.find? (·.1 == k)).isSome = true := by
    rw [List.find?_isSome]
    simpa [Pre.dictHas] using h
  obtain ⟨p, hp⟩ := Option.isSome_iff_exists.mp hs
  exact ⟨p.2, by simp [Pre.dictGet?, hp], by simp [Pre.dictGetItem, Pre.dictGet?, hp]⟩

theorem get_none_of_not_has {ν : Type} (d : List (Str × ν)) (k : Str) (h : Pre.dictHas d k = false) :
    Pre.dictGet? d k = none := by
  simp only [Pre.dictGet?]
  cases hf : d.find? (·.1 == k) with
  | none => rfl
  | some p =>
    have hs : (d.find? (·.1 == k)).isSome = true := by simp [hf]
    rw [List.find?_isSome] at hs
    have : Pre.dictHas d k = true := by simpa [Pre.dictHas] using hs
    rw [h] at this; cases this

/-- `_get_cache_value(key, empty, bool)`, as translated from the current source: `key in self`. -/
theorem cc_get_bool_eq (d : Dict (Option Str)) (key : Str) (empty : CCVal) :
    (cc_get_bool d key () ()).map ccOfBool = getCacheValue d key empty .bool := by
  unfold cc_get_bool getCacheValue
  rw [PyFnsHttp.dictHas_eq]
  cases Http.dictHas d key <;> rfl

/-- `_get_cache_value(key, empty, int)`, as translated from the current source (absent: None; present
without a value: `empty`; else `int(value)`, None when that raises ValueError), is the model's
`getCacheValue … .int`; the KeyError arm of `self[key]` is unreachable. -/
theorem cc_get_int_eq (d : Dict (Option Str)) (key : Str) (empty : Option Int) :
    (cc_get_int d key empty ()).map ccOfInt = getCacheValue d key (ccOfInt empty) .int := by
  unfold cc_get_int getCacheValue
  cases hh : Pre.dictHas d key with
  | false =>
    have := get_none_of_not_has d key hh
    rw [PyFnsHttp.dictGet?_eq] at this
    simp [this, Except.map, ccOfInt]
  | true =>
    obtain ⟨v, hg, hi⟩ := getItem_of_has d key hh
    rw [PyFnsHttp.dictGet?_eq] at hg
    simp only [hg, hi, Bool.not_true, Bool.false_eq_true, if_false]
    cases v with
    | none => simp [Except.map]
    | some s =>
      cases hp : Http.pyInt s with
      | ok i => simp [hp, catching, Except.map, ccOfInt]
      | error e =>
        have he : e = "ValueError" := PyFnsHttp.pyInt_error s e hp
        subst he
        simp [hp, catching, Except.map, ccOfInt]

/-- `_get_cache_value(key, empty, None)` (a str property), as translated from the current source, is the
model's `getCacheValue … .str`. -/
theorem cc_get_str_eq (d : Dict (Option Str)) (key : Str) (empty : Option Str) :
    (cc_get_str d key empty ()).map ccOfStr = getCacheValue d key (ccOfStr empty) .str := by
  unfold cc_get_str getCacheValue
  cases hh : Pre.dictHas d key with
  | false =>
    have := get_none_of_not_has d key hh
    rw [PyFnsHttp.dictGet?_eq] at this
    simp [this, Except.map, ccOfStr]
  | true =>
    obtain ⟨v, hg, hi⟩ := getItem_of_has d key hh
    rw [PyFnsHttp.dictGet?_eq] at hg
    simp only [hg, hi, Bool.not_true, Bool.false_eq_true, if_false]
    cases v <;> simp [Except.map, ccOfStr]

/-- `_set_cache_value(key, value, bool)`: a true value stores the bare directive, a false one removes it. -/
theorem cc_set_bool_eq (d : Dict (Option Str)) (key : Str) (b : Bool) :
    cc_set_bool d key b () = setCacheValue d key (ccOfBool b) .bool := by
  cases b <;> rfl

/-- `_set_cache_value(key, value, int)` for an int value or None: None removes the directive, a number
is stored as its decimal text (`str(int(value))`). -/
theorem cc_set_int_eq (d : Dict (Option Str)) (key : Str) (v : Option Int) :
    cc_set_int d key v () = setCacheValue d key (ccOfInt v) .int := by
  cases v with
  | none => rfl
  | some i =>
    simp only [cc_set_int, setCacheValue, ccOfInt, PyFnsHttp.strOfInt_eq, id_eq]
    exact PyFnsHttp.dictSet_eq d key _

/-- `_set_cache_value(key, value, None)` for a str value or None. -/
theorem cc_set_str_eq (d : Dict (Option Str)) (key : Str) (v : Option Str) :
    cc_set_str d key v () = setCacheValue d key (ccOfStr v) .str := by
  cases v <;> rfl

/-- `_del_cache_value(key)` (`if key in self: del self[key]`) is the model's `dictPop` (what
`self.pop(key, None)` does): removing an absent key changes nothing. -/
theorem cc_del_eq (d : Dict (Option Str)) (key : Str) : cc_del d key = Http.dictPop d key := by
  unfold cc_del
  cases hh : Pre.dictHas d key with
  | true => rfl
  | false =>
    simp only [Bool.false_eq_true, if_false, Http.dictPop]
    unfold Pre.dictHas at hh
    symm
    apply List.filter_eq_self.mpr
    intro p hp
    simp at hh
    have := hh p.1 p.2 hp
    simpa using this

end Wz.Props.C16T2
