/-
C11T4 — C11T continued: `IfRange.to_header` (`datastructures/range.py`) *as regenerated from the source*
by `tools/py2lean.py` (`Gen/PyFns_IfRange.lean`, rewritten on every check run; it calls the translated
`quote_etag`) equals the hand-written `Http.ifRangeToHeader` of `Model/IfRange.lean`: the date wins over
the tag, a tag is quoted (ValueError for a tag containing `"`), neither gives the empty text.
`http.http_date` is a parameter (the model's `Date.httpDate` in the theorem).
-/
import WzVerif.Gen.PyFns_IfRange
import WzVerif.Model.IfRange
import WzVerif.Props.C06T
namespace Wz.Props.C11T4
open Wz Wz.Http Wz.Gen.PyFns_IfRange

/-- `IfRange.to_header()` for an object holding a date (whatever its tag): the HTTP date. -/
theorem if_range_to_header_date (t : Nat) (etag : Option (List Char)) :
    if_range_to_header (fun i => Wz.Date.httpDate i.toNat) (some (t : Int)) etag = ifRangeToHeader (.date t) := by
  simp [if_range_to_header, ifRangeToHeader]

/-- `IfRange.to_header()` for an object holding only an entity tag: the translated `quote_etag` of it,
which is the model's `quoteEtag` (C06T) - ValueError when the tag contains a double quote. -/
theorem if_range_to_header_etag (hd : Int → List Char) (e : List Char) :
    if_range_to_header hd none (some e) = ifRangeToHeader (.etag e) := by
  simp only [if_range_to_header, ifRangeToHeader, Props.C06T.quote_etag_eq]
  cases Http.quoteEtag e false <;> rfl

/-- `IfRange.to_header()` for an empty object: the empty text. -/
theorem if_range_to_header_empty (hd : Int → List Char) :
    if_range_to_header hd none none = ifRangeToHeader .empty := rfl

end Wz.Props.C11T4
