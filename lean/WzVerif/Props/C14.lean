/-
C14 — untrusted paths and filenames cannot escape the trusted directory.
Property theorems only (helper lemmas: Lemmas/Paths.lean, PathsRefuse.lean, PathsGlue.lean, PathsNt.lean).

Vocabulary: `segments s` = the components of `s.split("/")` other than `""` and `"."`;
`initialSlashes s` = normpath's root class of `s` (0 relative, 1 `/`, 2 `//`);
`Clean c` = `c` is a non-empty component other than `.` and `..` that contains no `/`;
`Inside d p` = the normalised segments of `d` are a prefix of those of `p`, only clean components
follow, same root class; `Refused alts f` = `f` is non-empty and absolute / climbing / contains an
alternative separator after normalisation; `ServedFrom isfile e path p` = how a served file `p`
relates to the export `e` that produced it (Lemmas/PathsGlue.lean).

Outside the model, hence outside every theorem here (also listed in the check's `assumptions`):
the file system itself - symbolic links, case-insensitive or normalising file systems, races between
`os.path.isfile` and `open` -; containment is *lexical*. `os.path.isfile`, `is_allowed`/`fnmatch`,
`importlib`'s resource reader and `unicodedata.normalize("NFKD", ·)` are opaque parameters.
`FileStorage.save(dst)` uses `dst` as given: the property only speaks about `secure_filename`,
which the application has to call itself; nothing of `FileStorage` is modelled.
-/
import WzVerif.Lemmas.Paths
import WzVerif.Lemmas.PathsRefuse
import WzVerif.Lemmas.PathsGlue
import WzVerif.Lemmas.PathsNt
import WzVerif.Model.StaticFiles
import WzVerif.Gen.StaticGlue
namespace Wz.Props.C14
open Wz Wz.Paths

/-- The Windows device-file branch of `secure_filename` is dead on the platform the model is
generated for (`os.name != "nt"`), so leaving it out of `secureAscii` loses nothing. -/
theorem windows_branch_dead : Gen.Paths.osNameNt = false := by decide

/-- Shape of `posixpath.normpath`'s result for every path: its segments are a block of `..`
followed only by clean components (no `.`, `..`, empty component, or `/` inside a component);
an absolute path keeps no `..` at all. -/
theorem normpath_shape (p : Str) :
    ∃ k rest, segments (normpath p) = List.replicate k dotdot ++ rest ∧
      (isabs p = true → k = 0) ∧ ∀ c ∈ rest, Clean c := by
  obtain ⟨k, rest, hs, hk, hr⟩ := normSegs_shape p
  exact ⟨k, rest, by rw [segments_normpath, hs], fun h => hk ((isabs_iff p).mp h), hr⟩

example : segments (normpath "a/./b//../../../c/".toList) = [dotdot, "c".toList] := by decide
example : segments (normpath "//a/../../b".toList) = ["b".toList] := by decide

/-- The text `normpath` returns is never empty and is exactly the canonical rendering of its own
segments under its own root class: no repeated, trailing or stray slashes, `"."` only for the empty
relative path. -/
theorem normpath_text (p : Str) :
    normpath p ≠ [] ∧
    normpath p = render (initialSlashes (normpath p)) (segments (normpath p)) := by
  refine ⟨normpath_ne_nil p, ?_⟩
  by_cases hp : p = []
  · subst hp; decide
  · rw [segments_normpath, initialSlashes_normpath, normpath_eq_render hp]

/-- `normpath` is idempotent and preserves the root class (relative, `/`, `//`). -/
theorem normpath_idempotent (p : Str) :
    normpath (normpath p) = normpath p ∧ initialSlashes (normpath p) = initialSlashes p :=
  ⟨normpath_idem p, initialSlashes_normpath p⟩

/-- **Containment.** Whenever `safe_join(directory, *pathnames)` returns a path (for every trusted
directory - absolute, relative, empty, root -, any number of untrusted components over arbitrary
characters incl. NUL and backslash, and any list of alternative separators), the normalised result
has the normalised directory's segments as a prefix, continues only with clean components (so it
never climbs out through `..`), and keeps the directory's root class. -/
theorem safe_join_contained (alts : List Char) (d : Str) (ps : List Str) (p : Str)
    (h : safeJoinWith alts d ps = some p) :
    ∃ extra, segments (normpath p) = segments (normpath d) ++ extra ∧
      (∀ c ∈ extra, Clean c) ∧
      initialSlashes (normpath p) = initialSlashes (normpath d) := by
  obtain ⟨extra, h1, h2, h3⟩ := safeJoinWith_contained h
  exact ⟨extra, by rw [segments_normpath, segments_normpath, h1], h2,
    by rw [initialSlashes_normpath, initialSlashes_normpath, h3]⟩

example : safeJoinWith [] "/srv/root".toList ["a/../b".toList, "".toList, "c".toList]
    = some "/srv/root/b/c".toList := by decide
example : safeJoinWith [] "".toList ["x\x00\\..".toList] = some "./x\x00\\..".toList := by decide

/-- The same for this platform's `_os_alt_seps` (regenerated from the source). -/
theorem safe_join_contained_here (d : Str) (ps : List Str) (p : Str) (h : safeJoin d ps = some p) :
    (segments (normpath d)) <+: (segments (normpath p)) ∧ dotdot ∉ (segments (normpath p)).drop (segments (normpath d)).length := by
  obtain ⟨extra, h1, h2, _⟩ := safe_join_contained _ d ps p h
  refine ⟨⟨extra, h1.symm⟩, ?_⟩
  rw [h1, List.drop_left]
  intro hm
  exact (h2 _ hm).2.2.1 rfl

example : safeJoin "rel".toList ["a".toList, "b/../c".toList] = some "rel/a/c".toList := by decide

/-- Refusals the property text lists: a component that normalises to `..`, starts with `../`, or is
absolute is refused whatever precedes or follows it. -/
theorem safe_join_refuses (alts : List Char) (d : Str) (pre post : List Str) (f : Str)
    (hf : f ≠ []) (hbad : normpath f = dotdot ∨ (['.', '.', '/'] : Str).isPrefixOf (normpath f) = true ∨
      isabs (normpath f) = true) :
    safeJoinWith alts d (pre ++ f :: post) = none := by
  have hc : checkComp alts f = none := by
    unfold checkComp
    simp only [hf, if_false]
    rcases hbad with h | h | h <;> simp [h]
  have : checkAll alts (pre ++ f :: post) = none := by
    induction pre with
    | nil => simp [checkAll, hc]
    | cons g t ih =>
      simp only [List.cons_append, checkAll, ih]
      cases checkComp alts g <;> simp
  simp [safeJoinWith, this]

example : safeJoinWith [] "/srv".toList ["a".toList, "b/../..".toList] = none := by decide

/-- **Exactly what `safe_join` refuses.** For every directory, every number of components and every
alternative-separator list: the result is `None` iff some component is refused, and a component is
refused iff it is not the empty string and (it is absolute, or the first segment of its normal form
is `..` - i.e. it climbs above where it starts -, or its normal form contains an alternative
separator). Nothing else is refused: `.`, `""`, `~`, `C:`, backslashes (POSIX), percent-encoded
dots, NUL and names with dots are all accepted; `a/../..`, `/x`, `//x`, `..` are refused wherever
they stand. -/
theorem safe_join_refuses_iff (alts : List Char) (d : Str) (ps : List Str) :
    safeJoinWith alts d ps = none ↔ ∃ f ∈ ps, Refused alts f := by
  unfold safeJoinWith
  simp only [Option.map_eq_none_iff]
  exact checkAll_none_iff alts ps

example : Refused [] "a/../..".toList := by decide
example : Refused ['\\'] "a\\b".toList := by decide
example : ∀ f ∈ ["..a", "a..", "...", ".", "", "~", "C:", "C:\\x", "\\..\\", "%2e%2e", "%2e%2e/x", "a\x00b",
    "a/../b", "./"].map String.toList, ¬ Refused [] f := by decide
example : ∀ f ∈ ["..", "../", "../a", "a/../..", "./..", "/", "//", "/a", "//a", ".//../x"].map String.toList,
    Refused [] f := by decide

/-- **Exactly what `safe_join` returns otherwise**: when no component is refused, the result is
`posixpath.join(directory or ".", *components)` with every non-empty component replaced by its
`normpath` - nothing else is rewritten, decoded or dropped. -/
theorem safe_join_result (alts : List Char) (d : Str) (ps : List Str)
    (h : ∀ f ∈ ps, ¬ Refused alts f) :
    safeJoinWith alts d ps = some (join (if d = [] then dot else d) (ps.map normOrEmpty)) := by
  unfold safeJoinWith
  rw [checkAll_some h]
  rfl

example : ∀ f ∈ ["a/./b".toList, [], "%2e%2e".toList], ¬ Refused [] f := by decide
example : safeJoinWith [] [] ["a/./b".toList, [], "%2e%2e".toList] = some "./a/b/%2e%2e".toList := by decide

/-- **The static-file helpers never open a file outside their root.** For every request path (any
text: what is left after percent-decoding, incl. `..`, `//`, NUL, backslashes), every directory,
every `is_allowed` predicate and every state of the file system (`isfile` is an arbitrary predicate):
* whatever `send_from_directory` sends is exactly `safe_join(directory, path)`, lies inside
  `directory`, and is a file; otherwise NotFound;
* whatever `SharedDataMiddleware` serves comes from one of its exports and is related to it as
  `ServedFrom` says: a directory export serves `safe_join(directory, rest)` (inside the directory,
  `rest` = the request path behind `key/`, cleaned by nothing but `safe_join`) or the directory value
  itself under its exact key; a single-file export serves that file; a package export serves
  `pkgDir/safe_join(package_path, rest)`, inside `pkgDir/package_path`. A path outside every export
  root is never served. -/
theorem served_path_inside_root (isfile allowed : Str → Bool) :
    (∀ d path p, sendFromDirectory isfile d path = some p →
      safeJoin d [path] = some p ∧ Inside d p ∧ isfile p = true) ∧
    (∀ exports path p, sharedData isfile allowed exports path = some p →
      ∃ e ∈ exports, ServedFrom isfile e path p) := by
  refine ⟨?_, ?_⟩
  · intro d path p h
    obtain ⟨h1, h2⟩ := joinIfFile_spec h
    exact ⟨h1, safeJoin_inside h1, h2⟩
  · intro exports path p h
    unfold sharedData at h
    cases hf : findExport isfile exports path with
    | none => simp [hf] at h
    | some r =>
      obtain ⟨name, f⟩ := r
      simp only [hf] at h
      split at h
      · cases h
        obtain ⟨pre, e, post, rfl, _, he⟩ := (findExport_eq_some_iff isfile exports path (name, p)).mp hf
        exact ⟨e, by simp, tryExport_served he⟩
      · cases h

example : sendFromDirectory (fun _ => true) "/srv/root".toList "a/../b.txt".toList
    = some "/srv/root/b.txt".toList := by decide
example : sendFromDirectory (fun _ => true) "/srv/root".toList "../secret".toList = none := by decide
example : sharedData (fun p => p == "/srv/root/x.css".toList) (fun _ => true)
    [("/static".toList, .dir "/srv/root".toList)] "/static/x.css".toList = some "/srv/root/x.css".toList := by decide
example : sharedData (fun _ => true) (fun _ => true) [("/static".toList, .dir "/srv/root".toList)]
    "/static/../../etc/passwd".toList = none := by decide
/-- a directory exported at the mount point `/`: a request path with two leading slashes leaves an
absolute remainder, which `safe_join` refuses -/
example : sharedData (fun _ => true) (fun _ => true) [("/".toList, .dir "/srv/root".toList)]
    "//etc/passwd".toList = none := by decide
/-- backslashes are ordinary characters on POSIX: the package loader hands them through unchanged -/
example : sharedData (fun _ => true) (fun _ => true) [("/static".toList, .pkg "/pkg".toList "static".toList)]
    "/static/..\\..\\secret.txt".toList = some "/pkg/static/..\\..\\secret.txt".toList := by decide
/-- a single-file export answers for its key and for everything below it -/
example : sharedData (fun _ => false) (fun _ => true) [("/robots.txt".toList, .file "/srv/r.txt".toList)]
    "/robots.txt/../../x".toList = some "/srv/r.txt".toList := by decide

/-- **Which export answers** (the loop of `SharedDataMiddleware.__call__`, read off the code): the
exports are tried in the order of `self.exports` (dict / list order as given to the constructor -
not longest-prefix); the *first* export whose loader yields a file wins and ends the loop; an
export that matches the path but has no such file (or refuses it) does not stop later exports from
being tried; if the winner's `real_filename` is not allowed the wrapped application is called and
no later export is tried. -/
theorem shared_data_first_match (isfile allowed : Str → Bool) (exports : List (Str × Export))
    (path : Str) :
    (∀ p, sharedData isfile allowed exports path = some p ↔
      ∃ pre e post name, exports = pre ++ e :: post ∧
        (∀ e' ∈ pre, tryExport isfile e'.1 e'.2 path = none) ∧
        tryExport isfile e.1 e.2 path = some (name, p) ∧ allowed name = true) ∧
    (sharedData isfile allowed exports path = none ↔
      (∀ e ∈ exports, tryExport isfile e.1 e.2 path = none) ∨
      ∃ r, findExport isfile exports path = some r ∧ allowed r.1 = false) := by
  refine ⟨?_, ?_⟩
  · intro p
    unfold sharedData
    cases hf : findExport isfile exports path with
    | none =>
      simp only [false_iff, reduceCtorEq]
      rintro ⟨pre, e, post, name, heq, hpre, he, _⟩
      have := (findExport_eq_some_iff isfile exports path (name, p)).mpr ⟨pre, e, post, heq, hpre, he⟩
      rw [hf] at this; cases this
    | some r =>
      obtain ⟨name, f⟩ := r
      simp only
      constructor
      · intro h
        split at h
        · rename_i ha
          cases h
          obtain ⟨pre, e, post, heq, hpre, he⟩ := (findExport_eq_some_iff isfile exports path (name, p)).mp hf
          exact ⟨pre, e, post, name, heq, hpre, he, ha⟩
        · cases h
      · rintro ⟨pre, e, post, name', heq, hpre, he, ha⟩
        have := (findExport_eq_some_iff isfile exports path (name', p)).mpr ⟨pre, e, post, heq, hpre, he⟩
        rw [hf] at this
        cases this
        simp [ha]
  · unfold sharedData
    cases hf : findExport isfile exports path with
    | none =>
      simp only [true_iff]
      exact Or.inl ((findExport_eq_none_iff isfile exports path).mp hf)
    | some r =>
      obtain ⟨name, f⟩ := r
      simp only
      constructor
      · intro h
        split at h
        · cases h
        · rename_i ha
          exact Or.inr ⟨(name, f), rfl, by simpa using ha⟩
      · rintro (h | ⟨r, hr, ha⟩)
        · have := (findExport_eq_none_iff isfile exports path).mpr h
          rw [hf] at this; cases this
        · cases hr
          simp [ha]

/-- an earlier export that matches but has no such file lets a later export answer -/
example : sharedData (fun p => p == "/b/x".toList) (fun _ => true)
    [("/s".toList, .dir "/a".toList), ("/s".toList, .dir "/b".toList)] "/s/x".toList = some "/b/x".toList := by decide
/-- list order, not prefix length, decides -/
example : sharedData (fun _ => true) (fun _ => true)
    [("/s".toList, .dir "/a".toList), ("/s/t".toList, .dir "/b".toList)] "/s/t/x".toList = some "/a/t/x".toList := by decide
/-- a disallowed winner ends the search -/
example : sharedData (fun _ => true) (fun n => n != "x".toList)
    [("/s".toList, .dir "/a".toList), ("/s".toList, .file "/b/y".toList)] "/s/x".toList = none := by decide

/-- **`disallow` only ever removes files**: whatever is served passed `is_allowed`, and for directory
and single-file exports the name tested is the base name of the very file that is opened. -/
theorem shared_data_disallow (isfile allowed : Str → Bool) (exports : List (Str × Export)) (path p : Str)
    (h : sharedData isfile allowed exports path = some p) :
    sharedData isfile (fun _ => true) exports path = some p ∧
    ((∀ e ∈ exports, ∀ pd pp, e.2 ≠ .pkg pd pp) → allowed (basename p) = true) := by
  unfold sharedData at h ⊢
  cases hf : findExport isfile exports path with
  | none => simp [hf] at h
  | some r =>
    obtain ⟨name, f⟩ := r
    simp only [hf] at h ⊢
    split at h
    · rename_i ha
      cases h
      refine ⟨by simp, ?_⟩
      intro hex
      obtain ⟨pre, e, post, rfl, _, he⟩ := (findExport_eq_some_iff isfile exports path (name, p)).mp hf
      have := tryExport_name_dir_file he (hex e (by simp))
      simp only at this
      rw [← this]; exact ha
    · cases h

example : sharedData (fun _ => true) (fun n => n != "x.py".toList) [("/s".toList, .dir "/a".toList)]
    "/s/y.css".toList = some "/a/y.css".toList := by decide

/-- **Which loader an export value gets** (`SharedDataMiddleware.__init__`): a tuple is a package
export; a `str` that is a regular file when the middleware is built is a single-file export,
otherwise a directory export; the order of the exports is kept. -/
theorem shared_data_exports_init (isfileInit : Str → Bool) (specs : List (Str × ExportSpec)) :
    (mkExports isfileInit specs).map (·.1) = specs.map (·.1) ∧
    ∀ k v, (k, v) ∈ specs →
      (k, match v with
          | .path s => if isfileInit s then Export.file s else Export.dir s
          | .package pd pp => Export.pkg pd pp) ∈ mkExports isfileInit specs := by
  refine ⟨by simp [mkExports, Function.comp_def], ?_⟩
  intro k v h
  unfold mkExports
  refine List.mem_map.mpr ⟨(k, v), h, ?_⟩
  cases v <;> rfl

/-- two file-system states: a `str` value that names nothing when the middleware is built gets the
directory loader; once it is a regular file it is served under its exact key (`loader(None)`, the
value itself - the export root), not below it (stream static-files, export kind `late:`) -/
example : sharedData (fun p => p == "/srv/late".toList) (fun _ => true)
    (mkExports (fun _ => false) [("/static".toList, .path "/srv/late".toList)]) "/static".toList
    = some "/srv/late".toList := by decide
example : sharedData (fun p => p == "/srv/late".toList) (fun _ => true)
    (mkExports (fun _ => false) [("/static".toList, .path "/srv/late".toList)]) "/static/x".toList
    = none := by decide

/-- **`_root_path`, when absolute or empty** (what Flask passes is `app.root_path`, an absolute
path): the file `send_file` opens is the file that was tested with `os.path.isfile`, it is
`join(_root_path, safe_join(directory, path))`, and it lies inside `join(_root_path, directory)`;
without `_root_path` the tested and the opened path are the `safe_join` result itself. -/
theorem send_from_directory_root_partial (isfile : Str → Bool) (root : Option Str) (d path tested opened : Str)
    (hroot : ∀ r, root = some r → r = [] ∨ isabs r = true)
    (h : sendFromDirectoryRoot isfile root d path = some (tested, opened)) :
    opened = tested ∧ isfile tested = true ∧
    ∃ p, safeJoin d [path] = some p ∧
      match root with
      | none => tested = p ∧ Inside d p
      | some r => tested = join r [p] ∧ Inside (join r [if d = [] then dot else d]) tested := by
  unfold sendFromDirectoryRoot at h
  cases hj : safeJoin d [path] with
  | none => simp [hj] at h
  | some p =>
    simp only [hj] at h
    split at h
    · rename_i hf
      simp only [Option.some.injEq, Prod.mk.injEq] at h
      obtain ⟨rfl, rfl⟩ := h
      cases root with
      | none => exact ⟨rfl, hf, p, rfl, rfl, safeJoin_inside hj⟩
      | some r =>
        refine ⟨?_, hf, p, rfl, rfl, safeJoinWith_inside_under hj r⟩
        simp only [sendFileOpened, sfdChecked, join, List.foldl_cons, List.foldl_nil]
        exact joinStep_abs_idem (hroot r rfl) p
    · cases h

example : sendFromDirectoryRoot (fun _ => true) (some "/app".toList) "static".toList "a/../x.css".toList
    = some ("/app/static/x.css".toList, "/app/static/x.css".toList) := by decide
example : ∀ r, some "/app".toList = some r → r = [] ∨ isabs r = true := by
  intro r h; cases h; right; decide
example : sendFromDirectoryRoot (fun _ => true) none "static".toList "x.css".toList
    = some ("static/x.css".toList, "static/x.css".toList) := by decide

/-- **Finding F14b: a relative `_root_path` is joined twice.** `send_from_directory` joins
`_root_path` onto the `safe_join` result, tests *that* path with `os.path.isfile`, and passes it on
to `send_file` together with the same `_root_path`, which joins it again: for `_root_path="r"`,
`directory="d"`, `path="x.txt"` the file tested is `r/d/x.txt` but the file opened is
`r/r/d/x.txt` - not the tested file and not inside `r/d`. (So the hypothesis of
`send_from_directory_root_partial` is necessary.) -/
theorem send_from_directory_root_full_false :
    ¬ ∀ (isfile : Str → Bool) (root : Option Str) (d path tested opened : Str),
      sendFromDirectoryRoot isfile root d path = some (tested, opened) → opened = tested := by
  intro h
  have := h (fun _ => true) (some "r".toList) "d".toList "x.txt".toList "r/d/x.txt".toList
    "r/r/d/x.txt".toList (by decide)
  revert this
  decide

/-- the opened file of the F14b witness is outside the directory the request was confined to -/
example : ¬ (segments (normpath "r/d".toList) <+: segments (normpath "r/r/d/x.txt".toList)) := by decide

/-- **Nothing decodes or rewrites the path behind the containment check** (AST facts, every run):
in `send_from_directory`, in the directory loader and in the package loader of
`SharedDataMiddleware`, the joined path variable is only ever assigned the result of `safe_join`
(plus the trusted `_root_path` prefix / the export directory itself), and the only functions called
are the file tests, the openers and `safe_join` - no `unquote`, no `replace`, no `normpath`. This is
what makes `sendFromDirectory` / `directoryLoader` / `packageLoader` (join, then test, then open the
very same text) a faithful model. -/
theorem glue_keeps_checked_path :
    (∀ a ∈ Gen.StaticGlue.sfdAssigns,
      a ∈ ["safe_join(os.fspath(directory), os.fspath(path))", "os.path.join(kwargs['_root_path'], path_str)"]) ∧
    (∀ a ∈ Gen.StaticGlue.dirLoaderAssigns, a ∈ ["safe_join(directory, path)", "directory"]) ∧
    (∀ a ∈ Gen.StaticGlue.pkgLoaderAssigns, a ∈ ["safe_join(package_path, path)"]) ∧
    (∀ c ∈ Gen.StaticGlue.sfdCalls,
      c ∈ ["NotFound", "os.fspath", "os.path.isfile", "os.path.join", "safe_join", "send_file"]) ∧
    (∀ c ∈ Gen.StaticGlue.dirLoaderCalls,
      c ∈ ["os.path.basename", "os.path.isfile", "safe_join", "self._opener"]) ∧
    (∀ c ∈ Gen.StaticGlue.pkgLoaderCalls,
      c ∈ ["datetime.fromtimestamp", "isinstance", "len", "os.path.getmtime", "os.path.getsize",
        "posixpath.basename", "reader.open_resource", "resource.getvalue", "safe_join"]) := by
  decide

/-- **The loaders test and open the path they joined** (AST facts, every run): the directory loader
tests `os.path.isfile(path)` and returns `basename(path)` with `self._opener(path)`; `_opener` opens
its argument; the package loader opens `reader.open_resource(path)`; the file loader is
`lambda x: (basename(filename), self._opener(filename))` whatever `x` is. -/
theorem glue_loaders_shape :
    Gen.StaticGlue.dirLoaderTests = ["path is not None", "path is None", "os.path.isfile(path)"] ∧
    Gen.StaticGlue.dirLoaderReturns =
      ["None | None", "os.path.basename(path) | self._opener(path)", "None | None"] ∧
    Gen.StaticGlue.openerOpenArgs = ["filename, 'rb'"] ∧
    Gen.StaticGlue.pkgLoaderTests = ["path is None", "path is None", "isinstance(resource, BytesIO)"] ∧
    Gen.StaticGlue.pkgOpenArgs = ["path"] ∧
    Gen.StaticGlue.pkgLoaderReturns =
      ["None | None", "None | None", "None | None", "basename | <lambda>", "basename | <lambda>"] ∧
    Gen.StaticGlue.fileLoaderReturns = ["lambda x: (os.path.basename(filename), self._opener(filename))"] := by
  decide

/-- **The export loop of `SharedDataMiddleware.__call__` has the shape `tryExport` / `findExport` /
`sharedData` model** (AST facts, every run): the request path is `get_path_info(environ)` and is
never re-assigned (no normalisation, no decoding); the loop runs over `self.exports` in order;
its tests are `search_path == path` → `loader(None)`, then `search_path += "/"` unless it ends with
a slash, then `path.startswith(search_path)` → `loader(path[len(search_path):])` (slicing, not
`lstrip`/`replace`), each followed by `break` when a file loader came back; nothing else is called
in the loop; afterwards the only gate is `file_loader is None or not self.is_allowed(real_filename)`.
`__init__`: tuple → package loader, `str` → file loader if `os.path.isfile(value)` else directory
loader; a mapping contributes `exports.items()`; `disallow` installs `not fnmatch(x, disallow)`. -/
theorem glue_export_loop_shape :
    Gen.StaticGlue.callPathAssigns = ["get_path_info(environ)"] ∧
    Gen.StaticGlue.callSearchAssigns = ["search_path += '/'"] ∧
    Gen.StaticGlue.callLoopHead = ["(search_path, loader)", "self.exports"] ∧
    Gen.StaticGlue.callLoopTests = ["search_path == path", "file_loader is not None",
      "not search_path.endswith('/')", "path.startswith(search_path)", "file_loader is not None"] ∧
    Gen.StaticGlue.callLoaderArgs = ["None", "path[len(search_path):]"] ∧
    Gen.StaticGlue.callLoopCalls = ["len", "loader", "path.startswith", "search_path.endswith"] ∧
    Gen.StaticGlue.callLoopBreaks = 2 ∧ Gen.StaticGlue.callLoopContinues = 0 ∧
    Gen.StaticGlue.callGate = ["file_loader is None or not self.is_allowed(real_filename)"] ∧
    Gen.StaticGlue.initLoopHead = ["(key, value)", "exports"] ∧
    Gen.StaticGlue.initTests = ["isinstance(value, tuple)", "isinstance(value, str)", "os.path.isfile(value)"] ∧
    Gen.StaticGlue.initLoaderAssigns = ["self.get_package_loader(*value)", "self.get_file_loader(value)",
      "self.get_directory_loader(value)"] ∧
    Gen.StaticGlue.initExportsAssigns = ["exports.items()"] ∧
    Gen.StaticGlue.initAppendArgs = ["(key, loader)"] ∧
    Gen.StaticGlue.initAllowed = ["lambda x: not fnmatch(x, disallow)"] := by
  decide

/-- **`send_from_directory` / `send_file` have the shape `sendFromDirectoryRoot` models** (AST facts,
every run): refusal → NotFound, then the `_root_path` join, then the `os.path.isfile` test, then
`send_file(path_str, environ, **kwargs)` (so `_root_path` travels on); `send_file` opens
`os.path.join(_root_path, path_or_file)` or `os.path.abspath(path_or_file)`. -/
theorem glue_send_file_shape :
    Gen.StaticGlue.sfdTests = ["path_str is None", "'_root_path' in kwargs", "not os.path.isfile(path_str)"] ∧
    Gen.StaticGlue.sfdSendFileArgs = ["path_str, environ, **kwargs"] ∧
    Gen.StaticGlue.sendFilePathAssigns = ["path: str | None = None",
      "os.path.join(_root_path, path_or_file)", "os.path.abspath(path_or_file)"] ∧
    Gen.StaticGlue.sendFileOpenArgs = ["path, 'rb'"] := by
  decide

/-- **Constants the hand models hard-code, against the source** (regenerated every run):
`posixpath.sep/curdir/pardir` are the model's `/`, `.`, `..`; `_os_alt_seps` is `os.sep`,
`os.path.altsep` without `None` and `/`, and the separators `secure_filename` replaces are the
truthy ones of the same pair; the string literals of `safe_join` are exactly
`""`, `"."`, `".."`, `"../"`, `"/"` and those of `secure_filename` exactly
`""`, `" "`, `"."`, `"._"`, `"NFKD"`, `"_"`, `"ascii"`, `"ignore"`, `"nt"`. -/
theorem model_constants_match_source :
    Gen.Paths.posixSep.toList = [sep] ∧ Gen.Paths.posixCurdir.toList = dot ∧
    Gen.Paths.posixPardir.toList = dotdot ∧
    Gen.Paths.osAltSeps.map String.singleton =
      (Gen.Paths.osSep :: Gen.Paths.osAltsep.toList).filter (· != "/") ∧
    Gen.Paths.osSeps.map String.singleton = Gen.Paths.osSep :: Gen.Paths.osAltsep.toList ∧
    Gen.Paths.safeJoinLiterals = ["", ".", "..", "../", "/"] ∧
    Gen.Paths.secureFilenameLiterals = ["", " ", ".", "._", "NFKD", "_", "ascii", "ignore", "nt"] ∧
    Gen.Paths.stripChars = ['.', '_'] ∧ Gen.Paths.joinChars = ['_'] := by
  decide

/-- **`_filename_ascii_strip_re` is the negated class `[A-Za-z0-9_.-]`**: the pattern text, its flags,
and the live regex evaluated on all 128 ASCII code points (kept = exactly `[A-Za-z0-9_.-]`) and on
every code point above (all removed); no `str.isspace` character and no separator survives it. -/
theorem strip_regex_class :
    Gen.Paths.stripRePattern = "[^A-Za-z0-9_.-]" ∧ Gen.Paths.stripReFlags = 32 ∧
    Gen.Paths.stripRe.length = 128 ∧
    (∀ n, n < 128 → (!tbl Gen.Paths.stripRe n) = allowedNat n) ∧
    Gen.Paths.stripReHigh = true ∧
    (∀ n ∈ Gen.Paths.pySpaces, allowedNat n = false) ∧
    allowed '/' = false ∧ allowed '\\' = false :=
  ⟨by decide, by decide, by decide +kernel, strip_table, strip_high, spaces_not_allowed, by decide, by decide⟩

/-- **`_windows_device_files` and `str.upper`**: the device table is the 24 names the model's
`isDevice` consults, and the model's `upperChar` is `str.upper` on all 128 ASCII characters. -/
theorem windows_device_table :
    Gen.Paths.windowsDeviceFiles = ["AUX", "COM0", "COM1", "COM2", "COM3", "COM4", "COM5", "COM6",
      "COM7", "COM8", "COM9", "CON", "LPT0", "LPT1", "LPT2", "LPT3", "LPT4", "LPT5", "LPT6", "LPT7",
      "LPT8", "LPT9", "NUL", "PRN"] ∧
    Gen.Paths.upperAscii.length = 128 ∧
    ∀ n, n < 128 → (upperChar (Char.ofNat n)).toNat = Gen.Paths.upperAscii.getD n 0 := by
  refine ⟨by decide, by decide +kernel, by decide +kernel⟩

/-- **The one law assumed of the opaque NFKD normalisation** (hypothesis `hn` of the idempotence
theorems: identity on ASCII text) holds for the live `unicodedata.normalize("NFKD", ·)` on every
ASCII string of length one and two (evaluated at generation time, every run). -/
theorem nfkd_law_checked : Gen.Paths.nfkdAsciiIdentity = true := by decide

/-- Sanitised names use only `[A-Za-z0-9_.-]` (so they are ASCII), whatever the input and whatever
the Unicode normalisation did before. -/
theorem secure_filename_charset (nfkd : Str → Str) (s : Str) :
    ∀ c ∈ secureFilename nfkd s, allowed c = true :=
  secureAscii_allowed _

/-- ... hence contain no path separator (`/`, `\`) and no whitespace (`str.isspace`). -/
theorem secure_filename_no_sep_ws (nfkd : Str → Str) (s : Str) :
    ∀ c ∈ secureFilename nfkd s, c ≠ '/' ∧ c ≠ '\\' ∧ isSpace c = false ∧ c.toNat < 128 := by
  intro c hc
  have h := secure_filename_charset nfkd s c hc
  refine ⟨?_, ?_, allowed_not_space h, allowedNat_lt h⟩
  · rintro rfl; exact absurd h (by decide)
  · rintro rfl; exact absurd h (by decide)

/-- A sanitised name never starts (or ends) with a dot or underscore. -/
theorem secure_filename_no_leading_dot (nfkd : Str → Str) (s : Str) :
    (secureFilename nfkd s).head? ≠ some '.' ∧ (secureFilename nfkd s).head? ≠ some '_' ∧
    (secureFilename nfkd s).getLast? ≠ some '.' := by
  refine ⟨?_, ?_, ?_⟩
  · intro h; exact absurd (head_stripOf h) (by decide)
  · intro h; exact absurd (head_stripOf h) (by decide)
  · intro h; exact absurd (last_stripOf h) (by decide)

/-- Sanitising is idempotent, provided the (opaque) NFKD normalisation leaves ASCII text alone. -/
theorem secure_filename_idempotent (nfkd : Str → Str)
    (hn : ∀ t : Str, (∀ c ∈ t, c.toNat < 128) → nfkd t = t) (s : Str) :
    secureFilename nfkd (secureFilename nfkd s) = secureFilename nfkd s := by
  have hascii : ∀ c ∈ secureFilename nfkd s, c.toNat < 128 :=
    fun c hc => (secure_filename_no_sep_ws nfkd s c hc).2.2.2
  have h1 : nfkd (secureFilename nfkd s) = secureFilename nfkd s := hn _ hascii
  have h2 : asciiIgnore (secureFilename nfkd s) = secureFilename nfkd s := by
    apply List.filter_eq_self.mpr
    intro c hc; simpa using hascii c hc
  show secureAscii (asciiIgnore (nfkd (secureFilename nfkd s))) = secureFilename nfkd s
  rw [h1, h2]
  exact secureAscii_idem _

example : ∀ t : Str, (∀ c ∈ t, c.toNat < 128) → id t = t := fun _ _ => rfl
example : secureFilename id " ../.. /etc/pass wd\t$._".toList = "etc_pass_wd".toList := by decide

/-- The platform-parametric model (`os.sep`/`os.path.altsep` as `seps`, `os.name == "nt"` as `nt`)
instantiated with the generating platform's values is the model the theorems above, the
correspondence stream `secure-filename` and Props/C14T are about. -/
theorem secure_filename_here (nfkd : Str → Str) (s : Str) :
    secureFilenameWith Gen.Paths.osSeps false nfkd s = secureFilename nfkd s :=
  secureAsciiWith_here _

/-- **What the property demands of `secure_filename`, on every platform** - whatever `os.sep` /
`os.path.altsep` are and whether or not the Windows device-file branch (`os.name == "nt"`) runs:
the result uses only `[A-Za-z0-9_.-]` (hence is ASCII, contains no `/`, no `\`, no whitespace) and
never starts with a dot. (The property says nothing about device names; with the branch on, the
result may start with `_`.) -/
theorem secure_filename_any_platform (seps : List Char) (nt : Bool) (nfkd : Str → Str) (s : Str) :
    (∀ c ∈ secureFilenameWith seps nt nfkd s,
      allowed c = true ∧ c ≠ '/' ∧ c ≠ '\\' ∧ isSpace c = false ∧ c.toNat < 128) ∧
    (secureFilenameWith seps nt nfkd s).head? ≠ some '.' := by
  refine ⟨?_, secureAsciiWith_head _ _ _⟩
  intro c hc
  have h := secureAsciiWith_allowed seps nt _ c hc
  refine ⟨h, ?_, ?_, allowed_not_space h, allowedNat_lt h⟩
  · rintro rfl; exact absurd h (by decide)
  · rintro rfl; exact absurd h (by decide)

example : secureFilenameWith ['\\', '/'] true id "..\\CON.txt".toList = "_CON.txt".toList := by decide

/-- **Idempotent on every platform**, incl. Windows (`_CON` strips back to `CON`, which is prefixed
again), provided no separator is one of `[A-Za-z0-9_.-]` (true for `/` and `\`) and the opaque NFKD
normalisation leaves ASCII text alone. -/
theorem secure_filename_idempotent_any_platform (seps : List Char) (nt : Bool) (nfkd : Str → Str)
    (hs : ∀ c ∈ seps, allowed c = false)
    (hn : ∀ t : Str, (∀ c ∈ t, c.toNat < 128) → nfkd t = t) (s : Str) :
    secureFilenameWith seps nt nfkd (secureFilenameWith seps nt nfkd s) = secureFilenameWith seps nt nfkd s := by
  have hascii : ∀ c ∈ secureFilenameWith seps nt nfkd s, c.toNat < 128 :=
    fun c hc => ((secure_filename_any_platform seps nt nfkd s).1 c hc).2.2.2.2
  have h1 : nfkd (secureFilenameWith seps nt nfkd s) = secureFilenameWith seps nt nfkd s := hn _ hascii
  have h2 : asciiIgnore (secureFilenameWith seps nt nfkd s) = secureFilenameWith seps nt nfkd s := by
    apply List.filter_eq_self.mpr
    intro c hc; simpa using hascii c hc
  show secureAsciiWith seps nt (asciiIgnore (nfkd (secureFilenameWith seps nt nfkd s))) = _
  rw [h1, h2]
  exact secureAsciiWith_idem hs nt _

example : ∀ c ∈ ['\\', '/'], allowed c = false := by decide
example : secureFilenameWith ['\\', '/'] true id "_CON.txt".toList = "_CON.txt".toList := by decide
/-- the hypothesis on the separators is not an artefact: were `_` a separator, `a $ b` would go to
`a__b` and then to `a_b` -/
example : secureFilenameWith ['_'] false id "a $ b".toList = "a__b".toList ∧
    secureFilenameWith ['_'] false id "a__b".toList = "a_b".toList := by decide

/-- **What the code does about Windows device names** (not demanded by the property): with the
branch on, the result is never a name whose part before the first dot, upper-cased, is in
`_windows_device_files` (`CON`, `nul.txt`, `Com1.tar.gz` ... get a `_` prefix). With the branch off
(every non-Windows host) such names are returned unchanged. -/
theorem secure_filename_nt_not_device (seps : List Char) (nfkd : Str → Str) (s : Str) :
    isDevice (secureFilenameWith seps true nfkd s) = false ∨ secureFilenameWith seps true nfkd s = [] :=
  secureAsciiWith_nt_not_device _ _

example : secureFilenameWith ['/'] false id "nul.txt".toList = "nul.txt".toList := by decide
example : isDevice "nul.txt".toList = true := by decide

end Wz.Props.C14
