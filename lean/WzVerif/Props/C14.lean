/-
C14 — untrusted paths and filenames cannot escape the trusted directory.
Property theorems only (helper lemmas live in Lemmas/Paths.lean).

Vocabulary: `segments s` = the components of `s.split("/")` other than `""` and `"."`;
`initialSlashes s` = normpath's root class of `s` (0 relative, 1 `/`, 2 `//`);
`Clean c` = `c` is a non-empty component other than `.` and `..` that contains no `/`.
-/
import WzVerif.Lemmas.Paths
import WzVerif.Model.StaticFiles
import WzVerif.Gen.StaticGlue
namespace Wz.Props.C14
open Wz Wz.Paths

/-- The Windows device-file branch of `secure_filename` is dead on the platform the model is
generated for (`os.name != "nt"`), so leaving it out of `secureAscii` loses nothing. -/
theorem windows_branch_dead : Gen.Paths.osNameNt = false := by decide

/-- Shape of `posixpath.normpath`'s result for every path: its segments are a block of `..`
followed only by clean components (no `.`, `..`, empty component, or `/` inside a component);
an absolute path keeps no `..` at all. -/
theorem normpath_shape (p : Str) :
    ∃ k rest, segments (normpath p) = List.replicate k dotdot ++ rest ∧
      (isabs p = true → k = 0) ∧ ∀ c ∈ rest, Clean c := by
  obtain ⟨k, rest, hs, hk, hr⟩ := normSegs_shape p
  exact ⟨k, rest, by rw [segments_normpath, hs], fun h => hk ((isabs_iff p).mp h), hr⟩

example : segments (normpath "a/./b//../../../c/".toList) = [dotdot, "c".toList] := by decide
example : segments (normpath "//a/../../b".toList) = ["b".toList] := by decide

/-- The text `normpath` returns is never empty and is exactly the canonical rendering of its own
segments under its own root class: no repeated, trailing or stray slashes, `"."` only for the empty
relative path. -/
theorem normpath_text (p : Str) :
    normpath p ≠ [] ∧
    normpath p = render (initialSlashes (normpath p)) (segments (normpath p)) := by
  refine ⟨normpath_ne_nil p, ?_⟩
  by_cases hp : p = []
  · subst hp; decide
  · rw [segments_normpath, initialSlashes_normpath, normpath_eq_render hp]

/-- `normpath` is idempotent and preserves the root class (relative, `/`, `//`). -/
theorem normpath_idempotent (p : Str) :
    normpath (normpath p) = normpath p ∧ initialSlashes (normpath p) = initialSlashes p :=
  ⟨normpath_idem p, initialSlashes_normpath p⟩

/-- **Containment.** Whenever `safe_join(directory, *pathnames)` returns a path (for every trusted
directory - absolute, relative, empty, root -, any number of untrusted components over arbitrary
characters incl. NUL and backslash, and any list of alternative separators), the normalised result
has the normalised directory's segments as a prefix, continues only with clean components (so it
never climbs out through `..`), and keeps the directory's root class. -/
theorem safe_join_contained (alts : List Char) (d : Str) (ps : List Str) (p : Str)
    (h : safeJoinWith alts d ps = some p) :
    ∃ extra, segments (normpath p) = segments (normpath d) ++ extra ∧
      (∀ c ∈ extra, Clean c) ∧
      initialSlashes (normpath p) = initialSlashes (normpath d) := by
  obtain ⟨extra, h1, h2, h3⟩ := safeJoinWith_contained h
  exact ⟨extra, by rw [segments_normpath, segments_normpath, h1], h2,
    by rw [initialSlashes_normpath, initialSlashes_normpath, h3]⟩

example : safeJoinWith [] "/srv/root".toList ["a/../b".toList, "".toList, "c".toList]
    = some "/srv/root/b/c".toList := by decide
example : safeJoinWith [] "".toList ["x\x00\\..".toList] = some "./x\x00\\..".toList := by decide

/-- The same for this platform's `_os_alt_seps` (regenerated from the source). -/
theorem safe_join_contained_here (d : Str) (ps : List Str) (p : Str) (h : safeJoin d ps = some p) :
    (segments (normpath d)) <+: (segments (normpath p)) ∧ dotdot ∉ (segments (normpath p)).drop (segments (normpath d)).length := by
  obtain ⟨extra, h1, h2, _⟩ := safe_join_contained _ d ps p h
  refine ⟨⟨extra, h1.symm⟩, ?_⟩
  rw [h1, List.drop_left]
  intro hm
  exact (h2 _ hm).2.2.1 rfl

example : safeJoin "rel".toList ["a".toList, "b/../c".toList] = some "rel/a/c".toList := by decide

/-- Refusals the property text lists: a component that normalises to `..`, starts with `../`, or is
absolute is refused whatever precedes or follows it. -/
theorem safe_join_refuses (alts : List Char) (d : Str) (pre post : List Str) (f : Str)
    (hf : f ≠ []) (hbad : normpath f = dotdot ∨ (['.', '.', '/'] : Str).isPrefixOf (normpath f) = true ∨
      isabs (normpath f) = true) :
    safeJoinWith alts d (pre ++ f :: post) = none := by
  have hc : checkComp alts f = none := by
    unfold checkComp
    simp only [hf, if_false]
    rcases hbad with h | h | h <;> simp [h]
  have : checkAll alts (pre ++ f :: post) = none := by
    induction pre with
    | nil => simp [checkAll, hc]
    | cons g t ih =>
      simp only [List.cons_append, checkAll, ih]
      cases checkComp alts g <;> simp
  simp [safeJoinWith, this]

example : safeJoinWith [] "/srv".toList ["a".toList, "b/../..".toList] = none := by decide

/-- `p` is lexically inside directory `d`: the normalised segments of `d` are a prefix of those of
`p`, what follows is clean (no `..`), and the root class is the same -/
def Inside (d p : Str) : Prop :=
  ∃ extra, segments (normpath p) = segments (normpath d) ++ extra ∧ (∀ c ∈ extra, Clean c) ∧
    initialSlashes (normpath p) = initialSlashes (normpath d)

/-- **The static-file helpers never open a file outside their root.** For every request path (any
text: what is left after percent-decoding, incl. `..`, `//`, NUL, backslashes), every directory and
every state of the file system (`isfile` is an arbitrary predicate):
* whatever `send_from_directory` sends lies inside `directory` (and is a file);
* whatever `SharedDataMiddleware` serves comes from one of its exports - `(search_path, directory)`
  or `(search_path, (package, package_path))` - and either lies inside that directory / package path
  or is a directory export itself requested by its exact key. -/
theorem served_path_inside_root (isfile : Str → Bool) :
    (∀ d path p, sendFromDirectory isfile d path = some p → Inside d p ∧ isfile p = true) ∧
    (∀ exports path p, sharedData isfile exports path = some p →
      ∃ e ∈ exports, isfile p = true ∧ ((e.1 = path ∧ e.2 = .dir p) ∨ Inside e.2.root p)) := by
  have hjoin : ∀ d rel p, joinIfFile isfile d rel = some p → Inside d p ∧ isfile p = true := by
    intro d rel p h
    unfold joinIfFile at h
    cases hj : safeJoin d [rel] with
    | none => simp [hj] at h
    | some q =>
      simp only [hj] at h
      split at h
      · rename_i hf
        cases h
        exact ⟨safe_join_contained _ d [rel] _ hj, hf⟩
      · cases h
  have hload : ∀ ex rel p, loaderOf isfile ex (some rel) = some p → Inside ex.root p ∧ isfile p = true := by
    intro ex rel p h
    cases ex with
    | dir d => exact hjoin d rel p h
    | pkg pp => exact hjoin pp rel p h
  refine ⟨?_, ?_⟩
  · intro d path p h
    exact hjoin d path p h
  · intro exports
    induction exports with
    | nil => intro path p h; simp [sharedData] at h
    | cons e rest ih =>
      obtain ⟨search, ex⟩ := e
      intro path p h
      simp only [sharedData] at h
      generalize (if search.getLast? = some '/' then search else search ++ ['/']) = sp at h
      split at h
      · rename_i f hexact
        cases h
        split at hexact
        · rename_i heq
          cases ex with
          | dir d =>
            simp only [loaderOf, directoryLoader] at hexact
            split at hexact
            · rename_i hf
              cases hexact
              exact ⟨(search, .dir _), by simp, hf, Or.inl ⟨heq, rfl⟩⟩
            · cases hexact
          | pkg pp => simp [loaderOf, packageLoader] at hexact
        · cases hexact
      · split at h
        · rename_i f hsub
          cases h
          split at hsub
          · obtain ⟨h1, h2⟩ := hload ex _ p hsub
            exact ⟨(search, ex), by simp, h2, Or.inr h1⟩
          · cases hsub
        · obtain ⟨e, he, h1⟩ := ih path p h
          exact ⟨e, List.mem_cons_of_mem _ he, h1⟩

/-- **Nothing decodes or rewrites the path behind the containment check** (AST facts, every run):
in `send_from_directory`, in the directory loader and in the package loader of
`SharedDataMiddleware`, the joined path variable is only ever assigned the result of `safe_join`
(plus the trusted `_root_path` prefix / the export directory itself), and the only functions called
are the file tests, the openers and `safe_join` - no `unquote`, no `replace`, no `normpath`. This is
what makes `sendFromDirectory` / `directoryLoader` / `packageLoader` (join, then test, then open the
very same text) a faithful model. -/
theorem glue_keeps_checked_path :
    (∀ a ∈ Gen.StaticGlue.sfdAssigns,
      a ∈ ["safe_join(os.fspath(directory), os.fspath(path))", "os.path.join(kwargs['_root_path'], path_str)"]) ∧
    (∀ a ∈ Gen.StaticGlue.dirLoaderAssigns, a ∈ ["safe_join(directory, path)", "directory"]) ∧
    (∀ a ∈ Gen.StaticGlue.pkgLoaderAssigns, a ∈ ["safe_join(package_path, path)"]) ∧
    (∀ c ∈ Gen.StaticGlue.sfdCalls,
      c ∈ ["NotFound", "os.fspath", "os.path.isfile", "os.path.join", "safe_join", "send_file"]) ∧
    (∀ c ∈ Gen.StaticGlue.dirLoaderCalls,
      c ∈ ["os.path.basename", "os.path.isfile", "safe_join", "self._opener"]) ∧
    (∀ c ∈ Gen.StaticGlue.pkgLoaderCalls,
      c ∈ ["datetime.fromtimestamp", "isinstance", "len", "os.path.getmtime", "os.path.getsize",
        "posixpath.basename", "reader.open_resource", "resource.getvalue", "safe_join"]) := by
  decide

example : sendFromDirectory (fun _ => true) "/srv/root".toList "a/../b.txt".toList
    = some "/srv/root/b.txt".toList := by decide
example : sendFromDirectory (fun _ => true) "/srv/root".toList "../secret".toList = none := by decide
example : sharedData (fun p => p == "/srv/root/x.css".toList) [("/static".toList, .dir "/srv/root".toList)]
    "/static/x.css".toList = some "/srv/root/x.css".toList := by decide
example : sharedData (fun _ => true) [("/static".toList, .dir "/srv/root".toList)]
    "/static/../../etc/passwd".toList = none := by decide
/-- backslashes are ordinary characters on POSIX: the package loader hands them through unchanged -/
example : sharedData (fun _ => true) [("/static".toList, .pkg "static".toList)]
    "/static/..\\..\\secret.txt".toList = some "static/..\\..\\secret.txt".toList := by decide

/-- Sanitised names use only `[A-Za-z0-9_.-]` (so they are ASCII), whatever the input and whatever
the Unicode normalisation did before. -/
theorem secure_filename_charset (nfkd : Str → Str) (s : Str) :
    ∀ c ∈ secureFilename nfkd s, allowed c = true :=
  secureAscii_allowed _

/-- ... hence contain no path separator (`/`, `\`) and no whitespace (`str.isspace`). -/
theorem secure_filename_no_sep_ws (nfkd : Str → Str) (s : Str) :
    ∀ c ∈ secureFilename nfkd s, c ≠ '/' ∧ c ≠ '\\' ∧ isSpace c = false ∧ c.toNat < 128 := by
  intro c hc
  have h := secure_filename_charset nfkd s c hc
  refine ⟨?_, ?_, allowed_not_space h, allowedNat_lt h⟩
  · rintro rfl; exact absurd h (by decide)
  · rintro rfl; exact absurd h (by decide)

/-- A sanitised name never starts (or ends) with a dot or underscore. -/
theorem secure_filename_no_leading_dot (nfkd : Str → Str) (s : Str) :
    (secureFilename nfkd s).head? ≠ some '.' ∧ (secureFilename nfkd s).head? ≠ some '_' ∧
    (secureFilename nfkd s).getLast? ≠ some '.' := by
  refine ⟨?_, ?_, ?_⟩
  · intro h; exact absurd (head_stripOf h) (by decide)
  · intro h; exact absurd (head_stripOf h) (by decide)
  · intro h; exact absurd (last_stripOf h) (by decide)

/-- Sanitising is idempotent, provided the (opaque) NFKD normalisation leaves ASCII text alone. -/
theorem secure_filename_idempotent (nfkd : Str → Str)
    (hn : ∀ t : Str, (∀ c ∈ t, c.toNat < 128) → nfkd t = t) (s : Str) :
    secureFilename nfkd (secureFilename nfkd s) = secureFilename nfkd s := by
  have hascii : ∀ c ∈ secureFilename nfkd s, c.toNat < 128 :=
    fun c hc => (secure_filename_no_sep_ws nfkd s c hc).2.2.2
  have h1 : nfkd (secureFilename nfkd s) = secureFilename nfkd s := hn _ hascii
  have h2 : asciiIgnore (secureFilename nfkd s) = secureFilename nfkd s := by
    apply List.filter_eq_self.mpr
    intro c hc; simpa using hascii c hc
  show secureAscii (asciiIgnore (nfkd (secureFilename nfkd s))) = secureFilename nfkd s
  rw [h1, h2]
  exact secureAscii_idem _

example : ∀ t : Str, (∀ c ∈ t, c.toNat < 128) → id t = t := fun _ _ => rfl
example : secureFilename id " ../.. /etc/pass wd\t$._".toList = "etc_pass_wd".toList := by decide

end Wz.Props.C14
