/- C14 property theorems (not written yet) -/
namespace Wz.Props.C14
end Wz.Props.C14
