/-
C05 — responses are well-formed WSGI output.
Property theorems only (helper lemmas: Lemmas/Response.lean; models: Model/Headers.lean,
Model/Response.lean; generated tables: Gen/Response.lean).
-/
import WzVerif.Lemmas.Response
import WzVerif.Lemmas.ResponseHist
namespace Wz.Props.C05
open Wz Hdr Resp Wz.C05L

/-! ## header hygiene through every mutator -/

/-- For EVERY sequence of public mutators (`add`, `set`, `setlist`, `setdefault`,
`setlistdefault`, `extend`, `update`, `|=`, `h[k]=`, `h[i]=`, `h[a:b]=`, `del`, `remove`, `pop…`,
`clear`; the keyword forms reach the same code after the options header was dumped), applied to an
empty `Headers`, every stored value is free of CR and LF — whether the individual calls succeeded
or raised. No bound on the length of the history. -/
theorem headers_newline_free (ops : List Hdr.Op) : Clean (Hdr.run [] ops) :=
  run_clean [] ops clean_nil

/-- the same from any constructor input: `Headers(defaults)` either raises or yields clean values -/
theorem headers_construct_newline_free (arg : Option Arg) (l : HList) (h : Hdr.construct arg = .ok l)
    (ops : List Hdr.Op) : Clean (Hdr.run l ops) := by
  apply run_clean
  unfold Hdr.construct at h
  have := extend_clean [] arg [] clean_nil
  cases he : extend [] arg [] with
  | mk l' res =>
    rw [he] at h this
    cases res with
    | ok _ => simp at h; subst h; exact this
    | error e => simp at h

example : Hdr.construct (some (.pairs [("X".toList, "a\nb".toList)])) = .error "ValueError" := by rfl

def isErr {α : Type} (r : Except String α) : Prop := ∃ e, r = .error e

/-- the single-value mutators refuse a value containing CR or LF with ValueError and leave the
list unchanged: `add`, `set`, `h[k] = v`, `h[i] = (k, v)`; so does slice assignment when any of
its values is bad (all values are checked before the list is touched) -/
theorem atomic_mutator_refuses (l : HList) (k v : Str) (i : Int) (s : Slice) (ps : List Pair)
    (hv : hasNL v = true) (hps : ∃ p ∈ ps, hasNL p.2 = true) :
    Hdr.step l (.add k v) = (l, .error "ValueError") ∧
    Hdr.step l (.set k v) = (l, .error "ValueError") ∧
    Hdr.step l (.setitemKey k v) = (l, .error "ValueError") ∧
    Hdr.step l (.setitemIdx i (k, v)) = (l, .error "ValueError") ∧
    Hdr.step l (.setitemSlice s ps) = (l, .error "ValueError") := by
  refine ⟨?_, ?_, ?_, ?_, ?_⟩
  · simp [Hdr.step, retUnit, Hdr.add, strHeaderValue, hv, Except.map]
  · simp [Hdr.step, retUnit, Hdr.set, strHeaderValue, hv, Except.map]
  · simp [Hdr.step, retUnit, Hdr.set, strHeaderValue, hv, Except.map]
  · simp [Hdr.step, retUnit, Hdr.setIdx, strHeaderValue, hv, Except.map]
  · have : cleanPairs ps = .error "ValueError" := by
      obtain ⟨p, hp, hb⟩ := hps
      induction ps with
      | nil => cases hp
      | cons q t ih =>
        obtain ⟨qk, qv⟩ := q
        simp only [cleanPairs]
        cases hq : hasNL qv with
        | true => simp [strHeaderValue, hq]
        | false =>
          simp only [strHeaderValue, hq, Bool.false_eq_true, if_false]
          rcases List.mem_cons.1 hp with e | e
          · subst e; simp [hq] at hb
          · rw [ih e]
    simp [Hdr.step, retUnit, setSliceOp, this, Except.map]

example : hasNL "v\r\nSet-Cookie: evil=1".toList = true := by decide

/-- the multi-value mutators (`setlist`, `extend`, `update` / `|=` with pairs or a mapping) fail
as soon as they reach a value with CR or LF: the call raises (what was stored before that point
stays, and by `headers_newline_free` it is clean) -/
theorem compound_mutator_refuses (l : HList) (k : Str) (vs : List Str) (ps : List Pair) (m : MapArg)
    (hvs : ∃ v ∈ vs, hasNL v = true) (hps : ∃ p ∈ ps, hasNL p.2 = true)
    (hm : ∃ p ∈ mapItems m, hasNL p.2 = true) :
    isErr (Hdr.step l (.setlist k vs)).2 ∧
    isErr (Hdr.step l (.extend (some (.pairs ps)) [])).2 ∧
    isErr (Hdr.step l (.extend none m)).2 ∧
    isErr (Hdr.step l (.update (some (.pairs ps)) [])).2 ∧
    isErr (Hdr.step l (.update (some (.mapping m)) [])).2 := by
  have addAll_bad : ∀ (l : HList) (vs : List Str), (∃ v ∈ vs, hasNL v = true) → isErr (addAll l k vs).2 := by
    intro l vs
    induction vs generalizing l with
    | nil => rintro ⟨v, hv, _⟩; cases hv
    | cons v t ih =>
      rintro ⟨w, hw, hb⟩
      simp only [addAll]
      cases hv : hasNL v with
      | true => exact ⟨"ValueError", by simp [Hdr.add, strHeaderValue, hv]⟩
      | false =>
        simp only [Hdr.add, strHeaderValue, hv, Bool.false_eq_true, if_false]
        rcases List.mem_cons.1 hw with e | e
        · subst e; simp [hv] at hb
        · exact ih _ ⟨w, e, hb⟩
  have addPairs_bad : ∀ (l : HList) (ps : List Pair), (∃ p ∈ ps, hasNL p.2 = true) → isErr (addPairs l ps).2 := by
    intro l ps
    induction ps generalizing l with
    | nil => rintro ⟨v, hv, _⟩; cases hv
    | cons q t ih =>
      obtain ⟨qk, qv⟩ := q
      rintro ⟨w, hw, hb⟩
      simp only [addPairs]
      cases hv : hasNL qv with
      | true => exact ⟨"ValueError", by simp [Hdr.add, strHeaderValue, hv]⟩
      | false =>
        simp only [Hdr.add, strHeaderValue, hv, Bool.false_eq_true, if_false]
        rcases List.mem_cons.1 hw with e | e
        · subst e; simp [hv] at hb
        · exact ih _ ⟨w, e, hb⟩
  have set_ok : ∀ (l : HList) (k v : Str), hasNL v = false → ∃ l', Hdr.set l k v = (l', .ok ()) := by
    intro l k v hv
    unfold Hdr.set
    simp only [strHeaderValue, hv, Bool.false_eq_true, if_false]
    split
    · exact ⟨_, rfl⟩
    · split <;> exact ⟨_, rfl⟩
  have setPairs_bad : ∀ (l : HList) (ps : List Pair), (∃ p ∈ ps, hasNL p.2 = true) → isErr (setPairs l ps).2 := by
    intro l ps
    induction ps generalizing l with
    | nil => rintro ⟨v, hv, _⟩; cases hv
    | cons q t ih =>
      obtain ⟨qk, qv⟩ := q
      rintro ⟨w, hw, hb⟩
      simp only [setPairs]
      cases hv : hasNL qv with
      | true => exact ⟨"ValueError", by simp [Hdr.set, strHeaderValue, hv]⟩
      | false =>
        obtain ⟨l', hl'⟩ := set_ok l qk qv hv
        rw [hl']
        rcases List.mem_cons.1 hw with e | e
        · subst e; simp [hv] at hb
        · exact ih _ ⟨w, e, hb⟩
  have setlist_bad : ∀ (l : HList) (k : Str) (vs : List Str), (∃ v ∈ vs, hasNL v = true) → isErr (setlist l k vs).2 := by
    intro l k' vs
    cases vs with
    | nil => rintro ⟨v, hv, _⟩; cases hv
    | cons v t =>
      rintro ⟨w, hw, hb⟩
      simp only [setlist]
      cases hv : hasNL v with
      | true => exact ⟨"ValueError", by simp [Hdr.set, strHeaderValue, hv]⟩
      | false =>
        obtain ⟨l', hl'⟩ := set_ok l k' v hv
        rw [hl']
        rcases List.mem_cons.1 hw with e | e
        · subst e; simp [hv] at hb
        · have : ∀ (l : HList) (vs : List Str), (∃ v ∈ vs, hasNL v = true) → isErr (addAll l k' vs).2 := by
            intro l vs
            induction vs generalizing l with
            | nil => rintro ⟨v, hv, _⟩; cases hv
            | cons v t ih =>
              rintro ⟨w, hw, hb⟩
              simp only [addAll]
              cases hv : hasNL v with
              | true => exact ⟨"ValueError", by simp [Hdr.add, strHeaderValue, hv]⟩
              | false =>
                simp only [Hdr.add, strHeaderValue, hv, Bool.false_eq_true, if_false]
                rcases List.mem_cons.1 hw with e | e
                · subst e; simp [hv] at hb
                · exact ih _ ⟨w, e, hb⟩
          exact this _ _ ⟨w, e, hb⟩
  have updateMap_bad : ∀ (l : HList) (m : MapArg), (∃ p ∈ mapItems m, hasNL p.2 = true) → isErr (updateMap l m).2 := by
    intro l m
    induction m generalizing l with
    | nil => rintro ⟨v, hv, _⟩; cases hv
    | cons e t ih =>
      obtain ⟨ek, mv⟩ := e
      rintro ⟨w, hw, hb⟩
      cases mv with
      | one v =>
        simp only [mapItems, List.mem_cons] at hw
        simp only [updateMap]
        cases hv : hasNL v with
        | true => exact ⟨"ValueError", by simp [Hdr.set, strHeaderValue, hv]⟩
        | false =>
          obtain ⟨l', hl'⟩ := set_ok l ek v hv
          rw [hl']
          rcases hw with e | e
          · subst e; simp [hv] at hb
          · exact ih _ ⟨w, e, hb⟩
      | many vs =>
        simp only [mapItems, List.mem_append, List.mem_map] at hw
        simp only [updateMap]
        by_cases hbad : ∃ v ∈ vs, hasNL v = true
        · obtain ⟨e, he⟩ := setlist_bad l ek vs hbad
          cases hs : setlist l ek vs with
          | mk l' res =>
            rw [hs] at he
            simp only at he
            subst he
            exact ⟨e, rfl⟩
        · rcases hw with ⟨v, hv, hwv⟩ | hw
          · exact absurd ⟨v, hv, by subst hwv; exact hb⟩ hbad
          · cases hs : setlist l ek vs with
            | mk l' res =>
              cases res with
              | error e => exact ⟨e, rfl⟩
              | ok _ => exact ih _ ⟨w, hw, hb⟩
  refine ⟨?_, ?_, ?_, ?_, ?_⟩
  · obtain ⟨e, he⟩ := setlist_bad l k vs hvs
    exact ⟨e, by simp [Hdr.step, retUnit, he, Except.map]⟩
  · obtain ⟨e, he⟩ := addPairs_bad l ps hps
    refine ⟨e, ?_⟩
    simp only [Hdr.step, retUnit, extend, extendHead, iterMultiItems, andThen]
    cases hs : addPairs l ps with
    | mk l' res => rw [hs] at he; simp only at he; subst he; rfl
  · obtain ⟨e, he⟩ := addPairs_bad l (mapItems m) hm
    exact ⟨e, by simp [Hdr.step, retUnit, extend, extendHead, andThen, he, Except.map]⟩
  · obtain ⟨e, he⟩ := setPairs_bad l ps hps
    refine ⟨e, ?_⟩
    simp only [Hdr.step, retUnit, update, updateHead, andThen]
    cases hs : setPairs l ps with
    | mk l' res => rw [hs] at he; simp only at he; subst he; rfl
  · obtain ⟨e, he⟩ := updateMap_bad l m hm
    refine ⟨e, ?_⟩
    simp only [Hdr.step, retUnit, update, updateHead, andThen]
    cases hs : updateMap l m with
    | mk l' res => rw [hs] at he; simp only at he; subst he; rfl

example : ∃ p ∈ mapItems [("a".toList, MVal.many ["1".toList, "2\n".toList])], hasNL p.2 = true :=
  ⟨("a".toList, "2\n".toList), by decide, by decide⟩

/-- the headers handed to the WSGI server are clean when the response headers are (the converted
Location / Content-Location values come from `iri_to_uri`, which escapes control characters — C15 —
hence the hypotheses on them) -/
theorem wsgi_headers_newline_free (r : R) (lo co : Str) (h : Clean r.headers)
    (hlo : hasNL lo = false) (hco : hasNL co = false) : Clean (getWsgiHeaders r lo co) := by
  have set_clean' : ∀ (l : HList) (k v : Str), Clean l → hasNL v = false → Clean (Hdr.set l k v).1 :=
    fun l k v hl _ => set_clean l k v hl
  unfold getWsgiHeaders
  simp only
  have h1 : Clean (if (getlist r.headers "location".toList).isEmpty then r.headers
      else (Hdr.set r.headers "Location".toList lo).1) := by
    split
    · exact h
    · exact set_clean' _ _ _ h hlo
  generalize (if (getlist r.headers "location".toList).isEmpty then r.headers
      else (Hdr.set r.headers "Location".toList lo).1) = ha at h1
  have h2 : Clean (if (getlist r.headers "content-location".toList).isEmpty then ha
      else (Hdr.set ha "Content-Location".toList co).1) := by
    split
    · exact h1
    · exact set_clean' _ _ _ h1 hco
  generalize (if (getlist r.headers "content-location".toList).isEmpty then ha
      else (Hdr.set ha "Content-Location".toList co).1) = hb at h2
  have h3 : Clean (if (decide (100 ≤ r.status) && decide (r.status < 200) || r.status == 204) = true then
      delKey hb "Content-Length".toList else if (r.status == 304) = true then removeEntityHeaders hb else hb) := by
    split
    · exact delKey_clean _ _ h2
    · split
      · exact clean_filter _ h2
      · exact h2
  generalize (if (decide (100 ≤ r.status) && decide (r.status < 200) || r.status == 204) = true then
      delKey hb "Content-Length".toList else if (r.status == 304) = true then removeEntityHeaders hb else hb) = hc at h3
  split
  · exact set_clean' _ _ _ h3 (C16L.natText_noNL _)
  · exact h3

/-! ## body suppression and Content-Length: the regenerated exhaustive table -/

def rowStatus (key : Nat) : Nat := key / 12
def rowMethod (key : Nat) : Nat := key % 12 / 4
def rowPreset (key : Nat) : Bool := key % 4 / 2 == 1
def rowStream (key : Nat) : Bool := key % 2 == 1
def rowBytes (val : Nat) : Nat := val % 100
/-- 0 = no Content-Length, else its value + 1 -/
def rowCL (val : Nat) : Nat := val / 100 % 1000

/-- walk the table checking that the keys are consecutive from `n`; answers the next key -/
def scanKeys : Nat → List (Nat × Nat) → Option Nat
  | n, [] => some n
  | n, (k, _) :: t => if k == n then scanKeys (n + 1) t else none

/-- the table covers every status 100..599 × method × preset × body kind exactly once
(keys 100·12 … 599·12+11 in order) -/
theorem table_exhaustive : scanKeys 1200 Gen.Response.wsgiTable = some 7200 := by
  decide +kernel

/-- On the real code, for every status 100..599, method GET/HEAD/POST, preset or absent
Content-Length and sequence or streamed body: no body byte is produced iff the method is HEAD or
the status is 1xx, 204 or 304 (otherwise all 5 bytes of the test body are). -/
theorem bodyless_iff :
    Gen.Response.wsgiTable.all (fun (k, v) =>
      let s := rowStatus k
      let nobody := rowMethod k == 1 || (100 ≤ s && s < 200) || s == 204 || s == 304
      rowBytes v == (if nobody then 0 else 5)) = true := by
  decide +kernel

/-- ... and no Content-Length is sent with 1xx / 204 (nor with 304, where all entity headers are
stripped), a preset Content-Length is otherwise kept, and an absent one is computed exactly for
sequence bodies (5 = bytes of the encoded items) and left absent for streamed bodies. -/
theorem content_length_table :
    Gen.Response.wsgiTable.all (fun (k, v) =>
      let s := rowStatus k
      let stripped := (100 ≤ s && s < 200) || s == 204 || s == 304
      rowCL v == (if stripped then 0 else if rowPreset k then 100 else if rowStream k then 0 else 6)) = true := by
  decide +kernel

/-- the model's decision, computed by running Model.Response on the same 6000 inputs -/
def modelRow (key : Nat) : Nat :=
  let m : Str := if rowMethod key == 0 then "GET".toList else if rowMethod key == 1 then "HEAD".toList else "POST".toList
  let body : Body := ⟨if rowStream key then .stream true else .seq, [.bytes [97, 98], .text ['c', 'é']]⟩
  match construct [] (.code (rowStatus key)) body none false with
  | .error _ => 0
  | .ok r0 =>
    let r := if rowPreset key then { r0 with headers := (Hdr.set r0.headers "Content-Length".toList "99".toList).1 } else r0
    let h := getWsgiHeaders r [] []
    let n := (getAppIter r m).chunks.flatten.length
    let cl := match (getlist h "content-length".toList).head? with
      | none => 0
      | some v => (Views.CC.digitsVal v).getD 0 + 1
    n + 100 * cl + 100000 * (if Hdr.contains h "content-type".toList then 1 else 0)

/-- the hand-written model of `get_wsgi_headers` / `get_app_iter` agrees with the real code on
the whole table (so the general theorems below speak about the code's decisions) -/
theorem model_matches_table :
    Gen.Response.wsgiTable.all (fun (k, v) => modelRow k == v) = true := by
  have h0 : Gen.Response.wsgiTable0.all (fun (k, v) => modelRow k == v) = true := by decide +kernel
  have h1 : Gen.Response.wsgiTable1.all (fun (k, v) => modelRow k == v) = true := by decide +kernel
  have h2 : Gen.Response.wsgiTable2.all (fun (k, v) => modelRow k == v) = true := by decide +kernel
  have h3 : Gen.Response.wsgiTable3.all (fun (k, v) => modelRow k == v) = true := by decide +kernel
  have h4 : Gen.Response.wsgiTable4.all (fun (k, v) => modelRow k == v) = true := by decide +kernel
  have h5 : Gen.Response.wsgiTable5.all (fun (k, v) => modelRow k == v) = true := by decide +kernel
  have h6 : Gen.Response.wsgiTable6.all (fun (k, v) => modelRow k == v) = true := by decide +kernel
  have h7 : Gen.Response.wsgiTable7.all (fun (k, v) => modelRow k == v) = true := by decide +kernel
  have h8 : Gen.Response.wsgiTable8.all (fun (k, v) => modelRow k == v) = true := by decide +kernel
  have h9 : Gen.Response.wsgiTable9.all (fun (k, v) => modelRow k == v) = true := by decide +kernel
  have h10 : Gen.Response.wsgiTable10.all (fun (k, v) => modelRow k == v) = true := by decide +kernel
  have h11 : Gen.Response.wsgiTable11.all (fun (k, v) => modelRow k == v) = true := by decide +kernel
  have h12 : Gen.Response.wsgiTable12.all (fun (k, v) => modelRow k == v) = true := by decide +kernel
  simp only [Gen.Response.wsgiTable, List.all_append, h0, h1, h2, h3, h4, h5, h6, h7, h8, h9, h10, h11, h12, Bool.and_self]

/-- general form in the model: the iterable handed to the server yields nothing iff HEAD / 1xx /
204 / 304 — for every response, status (any int) and method -/
theorem model_bodyless (r : R) (method : Str) :
    (bodyless r.status method = true → (getAppIter r method).chunks = []) ∧
    (bodyless r.status method = false → (getAppIter r method).chunks = r.body.items.map Item.encode) := by
  constructor
  · intro h; simp [getAppIter, h]
  · intro h; simp only [getAppIter, h, Bool.false_eq_true, if_false]; split <;> rfl

/-- a Content-Length that werkzeug computes equals the number of bytes the iterable produces:
for every sequence body (text items count their UTF-8 length), when no Content-Length was preset
and the response may carry a body -/
theorem auto_length_exact (r : R) (method : Str) (lo co : Str)
    (hseq : r.body.kind = .seq) (hnone : getlist r.headers "content-length".toList = [])
    (hb : bodyless r.status method = false) :
    getlist (getWsgiHeaders r lo co) "content-length".toList
      = [Views.CC.natText (getAppIter r method).chunks.flatten.length] := by
  have hlen : (getAppIter r method).chunks.flatten.length = totalLen r.body.items := by
    rw [(model_bodyless r method).2 hb, List.length_flatten, List.map_map]
    rfl
  rw [hlen]
  simp only [bodyless, Bool.or_eq_false_iff, Bool.and_eq_false_iff] at hb
  obtain ⟨⟨⟨_, h1⟩, h2⟩, h3⟩ := hb
  have hinf : (decide (100 ≤ r.status) && decide (r.status < 200)) = false := by
    rcases h1 with h | h <;> simp [h]
  unfold getWsgiHeaders
  simp only [hnone, List.getLast?_nil, Option.isNone_none, hseq, hinf, h2, h3, beq_self_eq_true,
    Bool.or_self, Bool.not_false, Bool.and_self, if_true, Bool.false_eq_true, if_false]
  exact C16L.set_getlist' _ _ _ _ (by decide) (C16L.natText_noNL _)

example : totalLen [.bytes [97, 98], .text ['c', 'é'], .bytes []] = 5 := by decide +kernel

/-! ## close callbacks -/

/-- F05 excluded: unless the response is in direct passthrough *and* carries a body, closing the
returned iterable runs the wrapped iterable's `close` (when it has one) and every registered
callback exactly once, in registration order — whatever prefix was iterated (the close actions do
not depend on it). -/
theorem close_exactly_once_partial (r : R) (method : Str)
    (h : ¬ (r.directPassthrough = true ∧ bodyless r.status method = false)) :
    closeLog r method = expectedClose r := by
  unfold closeLog getAppIter expectedClose respClose
  cases hb : bodyless r.status method with
  | true => simp
  | false =>
    cases hd : r.directPassthrough with
    | true => exact absurd ⟨hd, hb⟩ h
    | false => simp

example : ¬ ((⟨[], [], 200, ⟨.stream true, []⟩, false, [.cb 0]⟩ : R).directPassthrough = true ∧
    bodyless 200 "GET".toList = false) := by decide

/-- F05: the full statement is false — with `direct_passthrough=True`, status 200, GET, a closable
body and one registered callback, closing the returned iterable runs the body's `close` but never
the callback. -/
theorem close_exactly_once_full_false :
    ¬ (∀ (r : R) (method : Str), closeLog r method = expectedClose r) := by
  intro h
  exact absurd (h ⟨[], [], 200, ⟨.stream true, []⟩, true, [.cb 0]⟩ "GET".toList) (by decide)

/-- registering callbacks and calling `get_data()` (which turns a streamed body into a sequence
and hands the original `close` over to the callbacks) before the WSGI call do not lose or duplicate
any close action: every event is logged as often as it was expected before -/
theorem close_counts_after_make_sequence (r : R) (method : Str) (e : CloseEv)
    (h : ¬ (r.directPassthrough = true ∧ bodyless r.status method = false)) :
    (closeLog (makeSequence r) method).count e = (expectedClose r).count e := by
  have hm : ¬ ((makeSequence r).directPassthrough = true ∧ bodyless (makeSequence r).status method = false) := by
    unfold makeSequence; split <;> exact h
  rw [close_exactly_once_partial _ _ hm]
  unfold expectedClose makeSequence
  cases hk : r.body.kind with
  | seq => simp [hk]
  | stream c =>
    cases c with
    | true => simp only [hk, if_true, List.count_append, List.count_cons, List.count_nil]; omega
    | false => simp [hk]

/-- `call_on_close` adds exactly one expected run of the new callback -/
theorem close_counts_after_call_on_close (r : R) (n : Nat) (e : CloseEv) :
    (expectedClose (callOnClose r n)).count e = (expectedClose r).count e + (if e = .cb n then 1 else 0) := by
  unfold expectedClose callOnClose
  rw [← List.append_assoc, List.count_append, List.count_singleton]
  by_cases he : e = .cb n
  · subst he; simp
  · have h1 : (CloseEv.cb n == e) = false := by
      rw [beq_eq_false_iff_ne]; exact fun h => he h.symm
    rw [h1, if_neg he]; simp

/-! ## close callbacks over whole histories of a response object

`Resp.St` / `REv` (Model/Response.lean): registering callbacks, `get_data()`, `make_sequence()`,
`freeze()`, `set_data()`, explicit `close()` / `with`, `get_wsgi_response`, the server pulling
chunks (any prefix, also none) and closing the iterable. -/

/-- **Exactly once, over histories.** Start from any response (any body shape, status, headers,
callbacks already registered, either setting of `implicit_sequence_conversion` /
`automatically_set_content_length`). Let any sequence `pre` of callback registrations, `get_data()`,
`make_sequence()` happen, then `get_wsgi_response` for any method, then any sequence `mid` of the
server pulling chunks (generator bodies closed early included), FURTHER callback registrations
(`call_on_close` after `get_app_iter`), `get_data()` / `make_sequence()` on the side; then the server
closes the iterable (`freeze()` may occur among these events too). Unless the response is in direct passthrough with a body to send (F05), every
close action - the wrapped iterable's own `close` when it has one, every callback registered before
or after - has run exactly as often as it was registered: once. -/
theorem close_exactly_once_history (r : R) (cfg : Cfg) (pre mid : List REv) (m lo co : Str)
    (hq : (pre ++ mid).all quiet = true)
    (h : ¬ (r.directPassthrough = true ∧ bodyless r.status m = false)) (e : CloseEv) :
    (runEvs (initSt r cfg) (pre ++ [.getWsgi m lo co] ++ mid ++ [.iterClose])).log.count e
      = (expectedClose r).count e + regs (pre ++ mid) e := by
  simp only [List.all_append, Bool.and_eq_true] at hq
  rw [runEvs_append, runEvs_append, runEvs_append]
  obtain ⟨p1, p2, p3, _, p5⟩ := quiet_run pre (initSt r cfg) hq.1
  generalize hs1 : runEvs (initSt r cfg) pre = s1 at p1 p2 p3 p5
  -- get_wsgi_response: the held iterable is a ClosingIterator
  have hheld : isClosing (runEvs s1 [.getWsgi m lo co]).held = true := by
    have p2' : s1.r.status = r.status := p2
    have p3' : s1.r.directPassthrough = r.directPassthrough := p3
    simp only [runEvs, nextEv]
    rw [p2', p3']
    by_cases hb : bodyless r.status m = true
    · rw [if_pos hb]; rfl
    · rw [if_neg hb]
      have hb' : bodyless r.status m = false := by simpa using hb
      by_cases hd : r.directPassthrough = true
      · exact absurd ⟨hd, hb'⟩ h
      · have hd' : r.directPassthrough = false := by simpa using hd
        rw [hd']
        cases s1.r.body.kind <;> rfl
  have hs2 : (runEvs s1 [.getWsgi m lo co]).log = s1.log ∧ (runEvs s1 [.getWsgi m lo co]).r = s1.r := ⟨rfl, rfl⟩
  generalize runEvs s1 [.getWsgi m lo co] = s2 at hheld hs2
  obtain ⟨q1, _, _, q4, q5⟩ := quiet_run mid s2 hq.2
  generalize hs3 : runEvs s2 mid = s3 at q1 q4 q5
  have hc := q4 hheld
  have hlog : (runEvs s3 [.iterClose]).log = s3.log ++ respClose s3.r := by
    simp only [runEvs, nextEv]
    cases hh : s3.held <;> simp_all [isClosing]
  rw [hlog, q1, hs2.1, p1]
  have hexp : respClose s3.r = expectedClose s3.r := rfl
  simp only [initSt, List.nil_append, hexp]
  rw [q5 e, hs2.2, p5 e, regs_append]
  simp only [initSt]
  omega

example : ([REv.callOnClose 0, .getData, .freeze []] ++ [REv.take 1, .callOnClose 1, .makeSequence]).all quiet = true := by decide

/-- every close event - the server closing a `ClosingIterator`, `response.close()`, leaving a `with`
block - runs exactly the actions due at that moment, once each; so closing twice (explicitly and by
the server) runs them twice: "exactly once" is per close of the returned iterable -/
theorem each_close_runs_each_action_once (s : St) :
    (nextEv s .close).1.log = s.log ++ expectedClose s.r ∧
    (isClosing s.held = true → (nextEv s .iterClose).1.log = s.log ++ expectedClose s.r) ∧
    (runEvs s [.close, .close]).log = s.log ++ expectedClose s.r ++ expectedClose s.r := by
  refine ⟨rfl, fun hc => ?_, by simp [runEvs, nextEv, expectedClose, respClose]⟩
  simp only [nextEv]
  cases hh : s.held <;> simp_all [isClosing, expectedClose, respClose]

/-- **`Response.from_app(inner, environ)` / `force_type(app, environ)`** (`run_wsgi_app`): the outer
response's body is the inner response's WSGI iterable - a streamed body whose `close` is the inner
`ClosingIterator.close`. Whatever happens to the outer response before and while it is served (as in
`close_exactly_once_history`), the server closing the outer iterable closes the inner iterable
exactly once, and that one close runs every close action of the inner response - its callbacks and
its own body's `close` - exactly once, however many chunks were pulled. -/
theorem from_app_close_exactly_once (rI rO : R) (cfgI cfgO : Cfg) (mI mO : Str) (pre mid : List REv) (n : Nat)
    (hq : (pre ++ mid).all quiet = true)
    (hO : rO.body.kind = .stream true) (hOn : rO.onClose.count .wrapped = 0)
    (hdO : rO.directPassthrough = false) (hdI : rI.directPassthrough = false) :
    (runEvs (initSt rO cfgO) (pre ++ [.getWsgi mO [] []] ++ mid ++ [.iterClose])).log.count .wrapped = 1 ∧
    ∀ e, (runEvs (initSt rI cfgI) [.getWsgi mI [] [], .take n, .iterClose]).log.count e = (expectedClose rI).count e := by
  have regs_wrapped : ∀ evs : List REv, regs evs .wrapped = 0 := by
    intro evs
    induction evs with
    | nil => rfl
    | cons x t ih => cases x <;> simp [regs, ih]
  constructor
  · rw [close_exactly_once_history rO cfgO pre mid mO [] [] hq (by simp [hdO]) .wrapped, regs_wrapped]
    simp [expectedClose, hO, hOn]
  · intro e
    have := close_exactly_once_history rI cfgI [] [.take n] mI [] [] rfl (by simp [hdI]) e
    simpa [regs] using this

/-- the F05b regression (repaired by 41b0631): `freeze()` on a closable iterator body, then
`get_wsgi_response` and the server closing - the iterator's own `close` and the callback each run
exactly once (before the repair the iterator's close never ran) -/
theorem freeze_keeps_wrapped_close_regression :
    (runEvs (initSt ⟨[], [], 200, ⟨.stream true, [.bytes [97]]⟩, false, [.cb 0]⟩ {})
      [.freeze [], .getWsgi "GET".toList [] [], .iterClose]).log = [.cb 0, .wrapped] := by
  decide

/-- **`freeze()` at full strength** (it is one of the quiet events of `close_exactly_once_history`,
so it may occur anywhere before or after `get_wsgi_response`): for every body shape it leaves a
sequence body whose Content-Length header is exactly the number of body bytes, and every close
action still runs exactly once when the server closes the response. -/
theorem freeze_full (r : R) (cfg : Cfg) (etag m : Str) (e : CloseEv)
    (h : ¬ (r.directPassthrough = true ∧ bodyless r.status m = false)) :
    (runEvs (initSt r cfg) [.freeze etag, .getWsgi m [] [], .iterClose]).log.count e = (expectedClose r).count e ∧
    (nextEv (initSt r cfg) (.freeze etag)).1.r.body.kind = .seq ∧
    getlist (nextEv (initSt r cfg) (.freeze etag)).1.r.headers "content-length".toList
      = [Views.CC.natText (allBytes r.body.items).length] := by
  have hlen : totalLen (r.body.items.map fun i => Item.bytes i.encode) = (allBytes r.body.items).length := by
    simp [totalLen, allBytes, List.length_flatten, Item.encode, Function.comp_def]
  refine ⟨?_, rfl, ?_⟩
  · have := close_exactly_once_history r cfg [.freeze etag] [] m [] [] rfl h e
    simpa [regs] using this
  · rw [← hlen]
    simp only [nextEv]
    split
    · exact C16L.set_getlist' _ _ _ _ (by decide) (C16L.natText_noNL _)
    · rw [C05L.set_getlist_ne _ _ _ _ (by decide)]
      exact C16L.set_getlist' _ _ _ _ (by decide) (C16L.natText_noNL _)

/-- `response.stream.write(b)` on a sequence body appends `b` and leaves NO Content-Length header
behind - on every write, whatever happened in between (`set_data`, `freeze`, … may have stored one
again) - so that `get_wsgi_response` computes the length of the body that is actually sent
(`auto_length_exact`) -/
theorem stream_write_drops_length (s : St) (b : Bytes) (hk : s.r.body.kind = .seq) :
    (nextEv s (.streamWrite b)).1.r.body = ⟨.seq, s.r.body.items ++ [.bytes b]⟩ ∧
    getlist (nextEv s (.streamWrite b)).1.r.headers "content-length".toList = [] := by
  have hn : nextEv s (.streamWrite b) =
      ({ s with r := { s.r with body := ⟨.seq, s.r.body.items ++ [.bytes b]⟩,
                                headers := (popKey s.r.headers "Content-Length".toList (some [])).1 } }, .ok .unit) := by
    simp only [nextEv, ensureSequence, hk]
  rw [hn]
  exact ⟨rfl, popKey_getlist _ _ _ (by decide)⟩

/-- `set_data(value)` replaces the body by the one byte string and (with
`automatically_set_content_length`) stores its exact length; `get_data()` on a streamed body is
refused with RuntimeError - leaving the response as it was - in direct passthrough mode or when
`implicit_sequence_conversion` is off, and otherwise returns exactly the bytes the body yields -/
theorem set_data_get_data (s : St) (b : Bytes) :
    (nextEv s (.setData b)).1.r.body = ⟨.seq, [.bytes b]⟩ ∧
    (s.cfg.autoLength = true →
      getlist (nextEv s (.setData b)).1.r.headers "content-length".toList = [Views.CC.natText b.length]) ∧
    ((∃ c, s.r.body.kind = .stream c) → (s.r.directPassthrough = true ∨ s.cfg.implicitConv = false) →
      nextEv s .getData = (s, .error "RuntimeError")) ∧
    (s.r.directPassthrough = false → s.cfg.implicitConv = true →
      (nextEv s .getData).2 = .ok (.data (allBytes s.r.body.items))) := by
  refine ⟨rfl, fun ha => ?_, fun ⟨c, hc⟩ hor => ?_, fun hd hi => ?_⟩
  · simp only [nextEv, ha, if_true]
    exact C16L.set_getlist' _ _ _ _ (by decide) (C16L.natText_noNL _)
  · rcases hor with hd | hi
    · simp [nextEv, ensureSequence, hc, hd]
    · cases hd : s.r.directPassthrough <;> simp [nextEv, ensureSequence, hc, hd, hi]
  · cases hk : s.r.body.kind with
    | seq => simp [nextEv, ensureSequence, hk]
    | stream c =>
      simp only [nextEv, ensureSequence, hk, hd, hi, Bool.false_eq_true, if_false, Bool.not_true]
      simp only [makeSequence, hk, allBytes, List.map_map]
      congr 2

/-! ## Location is an ASCII URI (on top of C15) -/

open Wz.C16L Wz.C08L
/-- all characters are ASCII -/
def Ascii (s : Str) : Prop := ∀ c ∈ s, c.toNat < 128

/-- the assumed laws of the opaque URL primitives: `urlsplit` yields an ASCII scheme and (after
IDNA) an ASCII host; `urlunsplit` and `urljoin` only rearrange the characters they are given plus
ASCII delimiters, so ASCII inputs give ASCII output -/
structure UrlLaws (U : UrlOps) : Prop where
  split_scheme : ∀ url, Ascii (U.split url).scheme
  split_host : ∀ url, Ascii (U.split url).host
  unsplit_ascii : ∀ sp : Url.Split, Ascii sp.scheme → Ascii sp.netloc → Ascii sp.path → Ascii sp.query →
    Ascii sp.fragment → Ascii (U.unsplit sp)
  join_ascii : ∀ a b, Ascii a → Ascii b → Ascii (U.join a b)

theorem iriToUriStr_ascii (U : UrlOps) (hU : UrlLaws U) (url : Str) : Ascii (iriToUriStr U url) := by
  obtain ⟨h1, h2, h3, h4, h5⟩ := C05L.iriToUri_ascii (U.split url) (hU.split_scheme url) (hU.split_host url)
  exact hU.unsplit_ascii _ h1 h2 h3 h4 h5

theorem locationOut_ascii (U : UrlOps) (hU : UrlLaws U) (ac : Bool) (cur loc : Str) :
    Ascii (locationOut U ac cur loc) := by
  unfold locationOut
  cases ac with
  | false => exact iriToUriStr_ascii U hU loc
  | true => exact hU.join_ascii _ _ (iriToUriStr_ascii U hU cur) (iriToUriStr_ascii U hU loc)

/-- **Location is an ASCII URI**: the value `get_wsgi_headers` computes for Location is ASCII for
every Location text, every current URL and both settings of `autocorrect_location_header`; the same
for Content-Location. (`iri_to_uri` = opaque `urlsplit`/IDNA, C15's `iriToUri`, opaque `urlunsplit`;
with autocorrection both arguments of the opaque `urljoin` went through `iri_to_uri` first.) -/
theorem location_ascii (U : UrlOps) (hU : UrlLaws U) (autocorrect : Bool) (currentUrl location : Str) :
    Ascii (locationOut U autocorrect currentUrl location) ∧ Ascii (iriToUriStr U location) :=
  ⟨locationOut_ascii U hU autocorrect currentUrl location, iriToUriStr_ascii U hU location⟩

/-- the IDNA law (`split_host`: the host that `hostname.encode("idna").decode("ascii")` leaves in the
split URL is ASCII - the codec either produces ASCII labels or raises, and then nothing is handed to
the server) is NEEDED: with a host conversion that lets a refused label through unchanged, the same
composition hands a non-ASCII Location to the server. The harness checks this law on the real call
path for every case (`urlsplit(iri_to_uri(u)).hostname.isascii()`). -/
theorem location_ascii_needs_idna_law :
    let U : UrlOps := ⟨fun url => { host := url }, fun sp => sp.netloc, fun _ b => b⟩
    ¬ Ascii (locationOut U false [] ['א', 'a']) := by
  intro U h
  have := h 'א' (by decide +kernel)
  exact absurd this (by decide)

/-- non-vacuity of the assumed laws: they hold e.g. for primitives that drop everything -/
example : UrlLaws ⟨fun url => { path := url },
    fun sp => sp.scheme ++ sp.netloc ++ sp.path ++ sp.query ++ sp.fragment, fun a b => a ++ b⟩ where
  split_scheme := fun _ c hc => (by cases hc)
  split_host := fun _ c hc => (by cases hc)
  unsplit_ascii := fun _ h1 h2 h3 h4 h5 c hc => (by
    simp only [List.mem_append] at hc
    rcases hc with (((h | h) | h) | h) | h
    · exact h1 c h
    · exact h2 c h
    · exact h3 c h
    · exact h4 c h
    · exact h5 c h)
  join_ascii := fun _ _ ha hb c hc => (by
    rcases List.mem_append.1 hc with h | h
    · exact ha c h
    · exact hb c h)

/-- ... and that value is what the server receives: when the response has a Location header, the
WSGI header list carries exactly one Location entry, the converted ASCII value (all duplicates
replaced); none otherwise. If the converted text contained CR/LF `Headers.__setitem__` would raise
and nothing is handed to the server - hence the hypothesis. Same for Content-Location. -/
theorem location_handed_to_server (U : UrlOps) (hU : UrlLaws U) (autocorrect : Bool) (currentUrl : Str) (r : R)
    (hnl : hasNL (locationOut U autocorrect currentUrl
      (((getlist r.headers "location".toList).getLast?).getD [])) = false)
    (hnl' : hasNL (iriToUriStr U (((getlist r.headers "content-location".toList).getLast?).getD [])) = false) :
    (∀ v ∈ getlist (getWsgiHeadersU U autocorrect currentUrl r) "location".toList, Ascii v) ∧
    (∀ v ∈ getlist (getWsgiHeadersU U autocorrect currentUrl r) "content-location".toList, Ascii v) ∧
    ((getlist r.headers "location".toList).isEmpty = false →
      getlist (getWsgiHeadersU U autocorrect currentUrl r) "location".toList
        = [locationOut U autocorrect currentUrl (((getlist r.headers "location".toList).getLast?).getD [])]) := by
  unfold getWsgiHeadersU
  simp only
  generalize hlo : locationOut U autocorrect currentUrl (((getlist r.headers "location".toList).getLast?).getD []) = lo at hnl
  generalize hco : iriToUriStr U (((getlist r.headers "content-location".toList).getLast?).getD []) = co at hnl'
  have alo : Ascii lo := hlo ▸ locationOut_ascii U hU _ _ _
  have aco : Ascii co := hco ▸ iriToUriStr_ascii U hU _
  have hL := wsgi_getlist_of r lo co "location".toList (by decide) (Or.inl (by decide))
  have hC := wsgi_getlist_of r lo co "content-location".toList (by decide) (Or.inr (Or.inr (by decide)))
  -- Location entries after the two stores
  have hLval : getlist (if (getlist r.headers "content-location".toList).isEmpty then
          (if (getlist r.headers "location".toList).isEmpty then r.headers else (Hdr.set r.headers "Location".toList lo).1)
        else (Hdr.set (if (getlist r.headers "location".toList).isEmpty then r.headers
          else (Hdr.set r.headers "Location".toList lo).1) "Content-Location".toList co).1) "location".toList
      = if (getlist r.headers "location".toList).isEmpty then [] else [lo] := by
    have h1 : getlist (if (getlist r.headers "location".toList).isEmpty then r.headers
        else (Hdr.set r.headers "Location".toList lo).1) "location".toList
        = if (getlist r.headers "location".toList).isEmpty then [] else [lo] := by
      cases he : (getlist r.headers "location".toList).isEmpty with
      | true => simpa using he
      | false => simp only [Bool.false_eq_true, if_false]; exact set_getlist' _ _ _ _ (by decide) hnl
    split
    · exact h1
    · rw [set_getlist_ne _ _ _ _ (by decide)]; exact h1
  have hCval : ∀ v ∈ getlist (if (getlist r.headers "content-location".toList).isEmpty then
          (if (getlist r.headers "location".toList).isEmpty then r.headers else (Hdr.set r.headers "Location".toList lo).1)
        else (Hdr.set (if (getlist r.headers "location".toList).isEmpty then r.headers
          else (Hdr.set r.headers "Location".toList lo).1) "Content-Location".toList co).1) "content-location".toList,
      Ascii v := by
    cases he : (getlist r.headers "content-location".toList).isEmpty with
    | true =>
      simp only [if_true]
      have : getlist (if (getlist r.headers "location".toList).isEmpty then r.headers
          else (Hdr.set r.headers "Location".toList lo).1) "content-location".toList = [] := by
        split
        · simpa using he
        · rw [set_getlist_ne _ _ _ _ (by decide)]; simpa using he
      rw [this]; intro v hv; cases hv
    | false =>
      simp only [Bool.false_eq_true, if_false]
      rw [set_getlist' _ _ _ _ (by decide) hnl']
      intro v hv; simp at hv; subst hv; exact aco
  refine ⟨?_, ?_, ?_⟩
  · rw [hL, hLval]
    intro v hv
    split at hv
    · cases hv
    · simp at hv; subst hv; exact alo
  · rw [hC]; exact hCval
  · intro hne
    rw [hL, hLval, hne]; rfl


end Wz.Props.C05
