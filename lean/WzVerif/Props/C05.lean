/- C05 property theorems (not written yet) -/
namespace Wz.Props.C05
end Wz.Props.C05
