/-
C08 — multi-value containers behave like their documented model.
Property theorems only (helper lemmas: Lemmas/Containers.lean; models: Model/Containers.lean,
Model/Headers.lean; generated tables: Gen/Containers.lean).
-/
import WzVerif.Lemmas.Containers
namespace Wz.Props.C08
open Wz Wz.C08L

/-! ## Immutable variants: every mutator of the mutable base is blocked

`Gen.Containers.immTable` is regenerated on every run from the live classes: for each immutable
class, the mutator names of its mutable base (found behaviourally) and the names the immutable
class answers with `TypeError` leaving the object unchanged. -/

def immBlocksAll (except : List (String × String)) : Bool :=
  Gen.Containers.immTable.all fun (cls, _, muts, blocked) =>
    muts.all fun m => blocked.contains m || except.contains (cls, m)

/-- Every mutator of `list` / `dict` / `TypeConversionDict` / `MultiDict` / `Headers` is answered
with TypeError (object unchanged) by `ImmutableList`, `ImmutableDict`, `ImmutableTypeConversionDict`,
`ImmutableMultiDict`, `CombinedMultiDict`, `EnvironHeaders` — full strength, no exception
(`decide` over the regenerated table; the former holes `ImmutableList.clear` / `EnvironHeaders.clear`,
F08e / F08f, were repaired by 1433786). -/
theorem immutable_blocks_all : immBlocksAll [] = true := by decide

/-- the table is not vacuous: every class has mutators, and `clear` is among the mutators that are
checked for `ImmutableList` and `EnvironHeaders` (the F08e / F08f regressions) -/
theorem immutable_table_covers_clear :
    Gen.Containers.immTable.all (fun (_, _, muts, _) => !muts.isEmpty) = true ∧
    (Gen.Containers.immTable.filter (fun (cls, _, muts, _) =>
      (cls == "ImmutableList" || cls == "EnvironHeaders") && muts.contains "clear")).length = 2 := by
  decide

/-! ## MultiDict refines the insertion-ordered multimap -/
section MultiDict
open PyDict MD MDSpec
variable {κ ν : Type} [DecidableEq κ]

/-- One step: on a well-formed state (distinct keys, no empty value list) every public mutator of
`MultiDict` — `d[k]=v`, `del d[k]`, `add`, `setlist`, `setdefault`, `setlistdefault`, `update`,
`|=`, `pop`, `popitem`, `poplist`, `popitemlist`, `clear` — changes the state and returns / raises
exactly as the multimap model does, provided the call does not give a key zero values
(`okOp`: `setlist(k, [])`, `setlistdefault(k)` on a missing key — F08d). -/
theorem md_step_refines (c : MD.St κ ν) (h : WF c) (op : MD.Op κ ν) (hop : okOp c op = true) :
    MD.step c op = MDSpec.step c op ∧ WF (MD.step c op).1 :=
  ⟨C08L.md_step_refines c h op hop, C08L.md_step_wf c h op hop⟩

example : okOp ([(1, [2])] : MD.St Nat Nat) (.setlist 1 [3, 4]) = true ∧ WF ([(1, [2])] : MD.St Nat Nat) :=
  ⟨by decide, by simp [WF]⟩

/-- Every read of the public API (`d[k]`, `getlist`, `in`, `len`, `keys`, `values`, `items`
(multi on/off), `lists`, `listvalues`, `to_dict` (flat on/off)) on a well-formed state gives what the
multimap model gives — in particular none of them raises IndexError. -/
theorem md_read_refines (c : MD.St κ ν) (h : WF c) (q : Query κ) : MD.read c q = MDSpec.read c q :=
  C08L.md_read_refines c h q

/-- Refinement over EVERY history: from a well-formed state, after any sequence of operations that
stays inside the model (`okHist`), the concrete state equals the model state, is well-formed, and
every read agrees with the model. No bound on the length of the history or the sizes. -/
theorem md_refines (c : MD.St κ ν) (h : WF c) (ops : List (MD.Op κ ν)) (hok : okHist c ops = true)
    (q : Query κ) :
    MD.read (MD.run c ops) q = MDSpec.read (MDSpec.run c ops) q := by
  have := C08L.md_run_refines c h ops hok
  rw [← this.1]
  exact C08L.md_read_refines _ this.2 q

example : okHist ([] : MD.St Nat Nat)
    [.add 1 2, .add 1 3, .setitem 2 5, .setlist 1 [7, 8], .pop 2 none, .setlistdefault 1 [], .popitem,
     .update (.mapping [(4, .many []), (5, .one 6)])] = true := by decide

/-- The constructor establishes well-formedness for every supported input form (pairs, mapping with
scalar / list values — empty lists are skipped); for a `MultiDict` argument it copies the argument. -/
theorem md_construct_wf (arg : Option (MD.Arg κ ν)) (h : ∀ m, arg = some (.multi m) → WF m) :
    WF (MD.construct arg) := by
  cases arg with
  | none => exact ⟨by simp [MD.construct], by simp [MD.construct]⟩
  | some a =>
    cases a with
    | multi m => exact h m rfl
    | pairs l => exact MDLemmas.wf_addAll ⟨by simp, by simp⟩ l
    | mapping m =>
      simp only [MD.construct]
      have key : ∀ (t : List (κ × MD.MVal ν)) (acc : MD.St κ ν), WF acc → WF (t.foldl (fun tmp e =>
          match e.2 with
          | .one v => PyDict.set tmp e.1 [v]
          | .many vs => if vs.isEmpty then tmp else PyDict.set tmp e.1 vs) acc) := by
        intro t
        induction t with
        | nil => intro acc hacc; exact hacc
        | cons e t ih =>
          intro acc hacc
          simp only [List.foldl_cons]
          apply ih
          obtain ⟨k, mv⟩ := e
          cases mv with
          | one v => exact MDLemmas.wf_set hacc k (List.cons_ne_nil v [])
          | many vs =>
            cases vs with
            | nil => exact hacc
            | cons x r => exact MDLemmas.wf_set hacc k (List.cons_ne_nil x r)
      exact key m [] ⟨by simp, by simp⟩

/-- F08d: the full statement (every operation keeps the state a multimap) is false:
`MultiDict().setlist('a', [])` leaves the key `'a'` with zero values — `'a' in d` is true while
`items()` raises IndexError, which no multimap state can exhibit. -/
theorem md_step_wf_full_false :
    ¬ (∀ (c : MD.St Nat Nat) (op : MD.Op Nat Nat), WF c → WF (MD.step c op).1) := by
  intro h
  have := (h [] (.setlist 0 []) ⟨by simp, by simp⟩).2 (0, []) (by simp [MD.step, PyDict.set])
  exact this rfl

/-- ... and the reads really disagree with every multimap: after `setlist('a', [])` (or
`setlistdefault('a')`) the key is present but `items()`, `values()` and `to_dict()` fail. -/
theorem md_zero_values_reads :
    MD.read (MD.step ([] : MD.St Nat Nat) (.setlist 0 [])).1 (.contains 0) = .ok (.bool true) ∧
    MD.read (MD.step ([] : MD.St Nat Nat) (.setlist 0 [])).1 (.items false) = .error "IndexError" ∧
    MD.read (MD.step ([] : MD.St Nat Nat) (.setlist 0 [])).1 .values = .error "IndexError" ∧
    MD.read (MD.step ([] : MD.St Nat Nat) (.setlist 0 [])).1 (.toDict true) = .error "IndexError" ∧
    MD.read (MD.step ([] : MD.St Nat Nat) (.setlistdefault 0 [])).1 (.contains 0) = .ok (.bool true) ∧
    MD.read (MD.step ([] : MD.St Nat Nat) (.setlistdefault 0 [])).1 (.items false) = .error "IndexError" := by
  refine ⟨rfl, rfl, rfl, rfl, rfl, rfl⟩

/-- the multimap model itself never leaves well-formed states (so `MDSpec` is a model of
"insertion-ordered multimap" for every history, including the calls excluded above, where it
removes / does not create the key) -/
theorem mdspec_step_wf (m : MultiMap κ ν) (h : WF m) (op : MD.Op κ ν) : WF (MDSpec.step m op).1 := by
  by_cases hop : okOp m op = true
  · rw [← C08L.md_step_refines m h op hop]; exact C08L.md_step_wf m h op hop
  · cases op with
    | setlist k vs =>
      simp only [okOp, Bool.not_eq_true', Bool.not_eq_false] at hop
      simp only [MDSpec.step, hop, if_true]
      exact MDLemmas.wf_filter h _
    | setlistdefault k vs =>
      simp only [okOp, Bool.or_eq_true, Bool.not_eq_true', not_or, Bool.not_eq_true,
        Bool.not_eq_false] at hop
      simp only [MDSpec.step, MDLemmas.hasKey_eq, hop.1, Bool.false_eq_true, if_false, hop.2, if_true]
      exact h
    | _ => simp [okOp] at hop

end MultiDict

/-! ## HeaderSet: the case-insensitive ordered set -/
section HeaderSet
open Hdr HS

/-- `HeaderSet.Inv` (`_set` = lower-cased `_headers`, no two members equal ignoring case) is
preserved by `add`, `remove` (as repaired), `discard`, `update`, `clear`, `del hs[i]`, and by
`hs[i] = v` whenever `v` is not already a member at another position. -/
theorem hs_inv_preserved (c : HS.St) (h : Inv c) (op : HS.Op) (hok : hsOk c op = true) :
    Inv (HS.step c op).st :=
  C08L.hs_inv_preserved c h op hok

example : Inv (HS.construct [['a'], ['b']]) ∧ hsOk (HS.construct [['a'], ['b']]) (.setitem 0 ['A']) = true := by
  decide

/-- F08b: item assignment does NOT preserve the invariant in general:
`hs = HeaderSet(['a','b']); hs[0] = 'B'` leaves items `['B','b']` with `len(hs) == 1`. -/
theorem hs_inv_setitem_full_false :
    ¬ (∀ (c : HS.St) (op : HS.Op), Inv c → Inv (HS.step c op).st) := by
  intro h
  exact absurd (h (HS.construct [['a'], ['b']]) (.setitem 0 ['B']) (by decide)) (by decide)

/-- the constructor establishes the invariant when the input has no case-duplicates -/
theorem hs_construct_inv (l : List Str) (h : (l.map lower).Nodup) : Inv (HS.construct l) :=
  C08L.hs_construct_inv l h

example : (([['a'], ['B'], ['c']] : List Str).map lower).Nodup := by decide

/-- F08c: ... and does not otherwise: `HeaderSet(['a','A'])` has two items and `len == 1`. -/
theorem hs_construct_inv_full_false : ¬ (∀ l : List Str, Inv (HS.construct l)) := by
  intro h
  exact absurd (h [['a'], ['A']]) (by decide)

/-- One step: under the invariant every mutator acts on the member list exactly like the
case-insensitive ordered set model (`HSSpec.step`) and raises the same exception. -/
theorem hs_step_refines (c : HS.St) (h : Inv c) (op : HS.Op) :
    (HS.step c op).st.headers = (HSSpec.step c.headers op).1 ∧
    (HS.step c op).res = (HSSpec.step c.headers op).2 :=
  C08L.hs_step_refines c h op

/-- reads: membership and length agree with the model under the invariant (indexing, `find`,
`index`, iteration, `to_header` are functions of the member list alone) -/
theorem hs_reads_refine (c : HS.St) (h : Inv c) (x : Str) :
    HS.contains c x = HSSpec.mem c.headers x ∧ HS.len c = c.headers.length :=
  ⟨(mem_iff_contains c h x).symm, hs_len_eq c h⟩

/-- Refinement over EVERY history: starting from a state satisfying the invariant, after any
sequence of operations (item assignments restricted as in `hsOk`) the invariant holds and the member
list is the one the ordered-set model computes. -/
theorem hs_refines (c : HS.St) (h : Inv c) (ops : List HS.Op) (hok : hsOkHist c ops = true) :
    Inv (HS.run c ops) ∧ (HS.run c ops).headers = hsSpecRun c.headers ops :=
  C08L.hs_run_refines c h ops hok

example : hsOkHist (HS.construct [['a'], ['b']])
    [.remove ['A'], .add ['C'], .setitem 0 ['x'], .discard ['q'], .update [['b'], ['B'], ['d']], .delitem (-1)] = true := by
  decide

/-- the F08a regression (repaired by bc9f56a): `HeaderSet(['foo','bar']).remove('Foo')` removes the
member from both `_headers` and `_set` -/
theorem hs_remove_other_case :
    (HS.step (HS.construct ["foo".toList, "bar".toList]) (.remove "Foo".toList)).st
      = ⟨["bar".toList], ["bar".toList]⟩ := by
  decide

end HeaderSet

/-! ## Headers.set algebra -/
section Headers
open Hdr

/-- `Headers.set` (the `for … else` loop with its replace-first / delete-rest slice assignment) is
exactly its documented meaning `specSet`: the first entry of the key is replaced in place, every
later entry of the key is dropped, and without an entry the pair is appended. Every other keyed
mutator (`setlist`, `setdefault`, `update`, `h[k] = v`, …) is defined through `set` / `add`. -/
theorem headers_set_eq_spec (l : HList) (k v : Str) (hv : hasNL v = false) :
    Hdr.set l k v = (specSet l k v, .ok ()) :=
  set_eq_spec l k v hv

/-- Headers refines its abstract spec — an ordered list of `(key, value)` pairs whose keys compare
case-insensitively (`HdrSpec`): every public mutator (`add`, `set`, `h[k]=v`, `setlist`,
`setdefault`, `setlistdefault`, `extend`, `update`, `|=`, `del h[k]`, `remove`, `pop`, `clear`, with
all argument forms) is a sequence of the three atomic actions append / replace-first-drop-rest /
drop-all, performed in order up to the first refused value; positional mutators are the list
operations. One step: same new state, same result / exception. -/
theorem hdr_step_refines (l : HList) (op : Hdr.Op) : Hdr.step l op = HdrSpec.step l op :=
  HdrSpec.step_refines l op

/-- ... hence over EVERY operation history the concrete state is the abstract state, and so every
read (`h[k]`, `get`, `getlist`, `in`, `len`, iteration, `items/keys/values`, index and slice access,
`str`) — any function `read` of the pair list — agrees with the spec. No bound on the history. -/
theorem hdr_refines {α : Type} (l : HList) (ops : List Hdr.Op) (read : HList → α) :
    read (Hdr.run l ops) = read (HdrSpec.run l ops) := by
  rw [HdrSpec.run_refines]

example : HdrSpec.run [] [.add "a".toList "1".toList, .add "A".toList "2".toList, .set "a".toList "3".toList,
    .setlist "b".toList ["x".toList, "y\n".toList], .update (some (.mapping [("a".toList, .many [])])) []]
    = [("b".toList, "x".toList)] := by decide +kernel

/-- `add` appends: the key's values gain `v` at the end, nothing else moves -/
theorem headers_add (l : HList) (k v : Str) (hv : hasNL v = false) :
    (Hdr.add l k v).1 = l ++ [(k, v)] ∧ getlist (Hdr.add l k v).1 k = getlist l k ++ [v] := by
  simp [Hdr.add, strHeaderValue, hv, getlist, List.filter_append, keyEq_self]

/-- after `headers.set(k, v)` (newline-free `v`) the key has exactly the one value `v` -/
theorem headers_set_getlist (l : HList) (k v : Str) (hv : hasNL v = false) :
    getlist (Hdr.set l k v).1 k = [v] ∧ (Hdr.set l k v).2 = .ok () := by
  rcases set_cases l k v hv with ⟨r, hs, he⟩ | ⟨hnone, he⟩
  · rw [he]; simp [getlist, setLoop_filter_self k v l r hs]
  · rw [he]
    simp [getlist, List.filter_append, filter_keyEq_none k l hnone, keyEq_self]

example : hasNL "text/plain".toList = false := by decide

/-- ... every other entry (keys different ignoring case) keeps its value and the relative order of
those entries is unchanged -/
theorem headers_set_others_unchanged (l : HList) (k v : Str) (hv : hasNL v = false) :
    (Hdr.set l k v).1.filter (fun p => !keyEq k p) = l.filter (fun p => !keyEq k p) := by
  rcases set_cases l k v hv with ⟨r, hs, he⟩ | ⟨_, he⟩
  · rw [he]; exact setLoop_filter_other k v l r hs
  · rw [he]; simp [List.filter_append, keyEq_self]

/-- `setlist(k, vs)` with newline-free values: afterwards `getlist k = vs`, and the entries of
other keys (and their order) are unchanged; `setlist(k, [])` removes the key -/
theorem headers_setlist (l : HList) (k : Str) (vs : List Str) (hvs : ∀ v ∈ vs, hasNL v = false) :
    getlist (Hdr.setlist l k vs).1 k = vs ∧
    (Hdr.setlist l k vs).1.filter (fun p => !keyEq k p) = l.filter (fun p => !keyEq k p) := by
  have addAll_ok : ∀ (l : HList) (t : List Str), (∀ v ∈ t, hasNL v = false) →
      Hdr.addAll l k t = (l ++ t.map (fun v => (k, v)), .ok ()) := by
    intro l t
    induction t generalizing l with
    | nil => intro _; simp [Hdr.addAll]
    | cons v t ih =>
      intro h
      have hv := h v List.mem_cons_self
      simp only [Hdr.addAll, Hdr.add, strHeaderValue, hv, Bool.false_eq_true, if_false]
      rw [ih _ (fun w hw => h w (List.mem_cons_of_mem _ hw))]
      simp
  cases vs with
  | nil => simp [Hdr.setlist, getlist, delKey, List.filter_filter]
  | cons v t =>
    have hv := hvs v List.mem_cons_self
    have ht : ∀ w ∈ t, hasNL w = false := fun w hw => hvs w (List.mem_cons_of_mem _ hw)
    simp only [Hdr.setlist, set_eq_spec l k v hv, addAll_ok _ t ht]
    have h1 := (headers_set_getlist l k v hv).1
    have h2 := headers_set_others_unchanged l k v hv
    rw [set_eq_spec l k v hv] at h1 h2
    simp only at h1 h2
    constructor
    · simp only [getlist, List.filter_append, List.map_append] at h1 ⊢
      rw [h1]
      have : (t.map fun v => (k, v)).filter (keyEq k) = t.map fun v => (k, v) := by
        rw [List.filter_eq_self]; intro p hp
        obtain ⟨w, _, hw⟩ := List.mem_map.1 hp
        subst hw; exact keyEq_self k w
      simp [this, Function.comp_def]
    · rw [List.filter_append, h2]
      have : (t.map fun v => (k, v)).filter (fun p => !keyEq k p) = [] := by
        rw [List.filter_eq_nil_iff]; intro p hp
        obtain ⟨w, _, hw⟩ := List.mem_map.1 hp
        subst hw; simp [keyEq_self]
      simp [this]

/-- ... hence `getlist` of any other key is unchanged -/
theorem headers_set_getlist_other (l : HList) (k k' v : Str) (hv : hasNL v = false)
    (hne : lower k' ≠ lower k) : getlist (Hdr.set l k v).1 k' = getlist l k' := by
  unfold getlist
  rw [filter_other_key k k' hne, headers_set_others_unchanged l k v hv, ← filter_other_key k k' hne]

example : lower "Content-Type".toList ≠ lower "content-length".toList := by decide

/-- ... and the new pair sits at the position of the first former occurrence of the key, or at
the end when there was none -/
theorem headers_set_position (l : HList) (k v : Str) (hv : hasNL v = false) :
    let pos := if contains l k then l.findIdx (keyEq k) else l.length
    (Hdr.set l k v).1.findIdx (keyEq k) = pos ∧ (Hdr.set l k v).1[pos]? = some (k, v) := by
  rcases set_cases l k v hv with ⟨r, hs, he⟩ | ⟨hnone, he⟩
  · have hc : contains l k = true := by
      unfold contains
      cases hf : l.find? (keyEq k) with
      | some _ => rfl
      | none =>
        rw [List.find?_eq_none] at hf
        have hall : ∀ p ∈ l, keyEq k p = false := fun p hp => by simpa using hf p hp
        rw [setLoop_none_of k v l hall] at hs
        exact absurd hs (by simp)
    simp only [hc, if_true]
    rw [he]
    exact setLoop_findIdx k v l r hs
  · have hc : contains l k = false := by
      unfold contains
      cases hf : l.find? (keyEq k) with
      | none => rfl
      | some p =>
        have := List.find?_some hf
        have := hnone p (List.mem_of_find?_eq_some hf)
        simp_all
    simp only [hc, Bool.false_eq_true, if_false]
    rw [he]
    constructor
    · rw [List.findIdx_append]
      have : l.findIdx (keyEq k) = l.length := by
        rw [List.findIdx_eq_length]; intro p hp; simp [hnone p hp]
      simp [this, List.findIdx_cons, keyEq_self]
    · simp

/-- a value containing CR or LF is refused with ValueError and the list is left unchanged -/
theorem headers_set_refuses_newline (l : HList) (k v : Str) (hv : hasNL v = true) :
    Hdr.set l k v = (l, .error "ValueError") := by
  simp [Hdr.set, strHeaderValue, hv]

example : hasNL "a\r\nSet-Cookie: x".toList = true := by decide

/-- `remove(k)` / `del h[k]` removes exactly the entries of that key -/
theorem headers_remove (l : HList) (k : Str) :
    getlist (delKey l k) k = [] ∧
    (delKey l k).filter (fun p => !keyEq k p) = l.filter (fun p => !keyEq k p) := by
  constructor
  · simp only [getlist, delKey, List.filter_filter]
    have : (l.filter fun a => keyEq k a && !keyEq k a) = [] := by
      rw [List.filter_eq_nil_iff]; intro a _; cases keyEq k a <;> simp
    simp [this]
  · simp [delKey, List.filter_filter]

end Headers

/-! ## CombinedMultiDict reads through to the wrapped dicts -/
section Combined
open PyDict MD
variable {κ ν : Type} [DecidableEq κ]

/-- `combined[k]` is `d[k]` of the first wrapped dict that contains `k`; `getlist` concatenates the
dicts' lists; `k in combined` iff some dict contains it — for every list of dicts (so a change to a
wrapped dict is visible through the view: the view holds no data of its own). -/
theorem combined_reads_through (c : CMD.St κ ν) (k : κ) :
    CMD.getitem c k = (match c.find? (has · k) with
      | some d => MD.getitem d k
      | none => .error "BadRequestKeyError") ∧
    CMD.getlist c k = (c.map (MD.getlist · k)).flatten ∧
    (CMD.contains c k = true ↔ ∃ d ∈ c, has d k = true) := by
  refine ⟨?_, ?_, ?_⟩
  · induction c with
    | nil => rfl
    | cons d t ih =>
      simp only [CMD.getitem, List.find?_cons]
      cases has d k <;> simp [ih]
  · simp [CMD.getlist, List.flatMap_def]
  · simp [CMD.contains]

end Combined

/-! ## EnvironHeaders reflects the environ -/
section Environ
open Hdr PyDict EH

/-- the environ variable a header name is looked up under -/
def envName (key : Str) : Str :=
  let k := replaceCh '-' '_' (upper key)
  if special k then k else "HTTP_".toList ++ k

/-- The view has no state of its own: a lookup after the environ variable was set returns the new
value, and after it was deleted raises KeyError — for every environ and header name. -/
theorem environ_view_reflects (env : Env) (key v : Str) :
    EH.getKey (PyDict.set env (envName key) v) key = .ok v ∧
    (NodupKeys env → EH.getKey (PyDict.erase env (envName key)) key = .error "KeyError") := by
  have getKey_eq : ∀ e : Env, EH.getKey e key =
      (match PyDict.get? e (envName key) with | some v => .ok v | none => .error "KeyError") := by
    intro e; simp only [EH.getKey, envName]; rfl
  constructor
  · rw [getKey_eq]; unfold PyDict.get?; rw [lookup_set_self]
  · intro hn
    rw [getKey_eq]
    have : PyDict.get? (PyDict.erase env (envName key)) (envName key) = none := by
      unfold PyDict.get?
      rw [erase_eq_filter env _ hn]
      apply Option.not_isSome_iff_eq_none.1
      intro h
      have hm := (mem_keys_iff_lookup _ _).2 h
      simp only [PyDict.keys, List.mem_map, List.mem_filter] at hm
      obtain ⟨e, ⟨_, he⟩, heq⟩ := hm
      simp [heq] at he
    rw [this]

end Environ

end Wz.Props.C08
