/- C08 property theorems (not written yet) -/
namespace Wz.Props.C08
end Wz.Props.C08
