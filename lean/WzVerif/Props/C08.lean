/-
C08 — multi-value containers behave like their documented model.
Property theorems only (helper lemmas: Lemmas/Containers.lean; models: Model/Containers.lean,
Model/Headers.lean; generated tables: Gen/Containers.lean).
-/
import WzVerif.Lemmas.Containers
import WzVerif.Lemmas.Containers2
import WzVerif.Lemmas.ContainersHeap
namespace Wz.Props.C08
open Wz Wz.C08L

/-! ## Immutable variants: every mutator of the mutable base is blocked

`Gen.Containers.immTable` is regenerated on every run from the live classes: for each immutable
class, the mutator names of its mutable base (found behaviourally) and the names the immutable
class answers with `TypeError` leaving the object unchanged. -/

def immBlocksAll (except : List (String × String)) : Bool :=
  Gen.Containers.immTable.all fun (cls, _, muts, blocked) =>
    muts.all fun m => blocked.contains m || except.contains (cls, m)

/-- Every mutator of `list` / `dict` / `TypeConversionDict` / `MultiDict` / `Headers` is answered
with TypeError (object unchanged) by `ImmutableList`, `ImmutableDict`, `ImmutableTypeConversionDict`,
`ImmutableMultiDict`, `CombinedMultiDict`, `EnvironHeaders` — full strength, no exception
(`decide` over the regenerated table; the former holes `ImmutableList.clear` / `EnvironHeaders.clear`,
F08e / F08f, were repaired by 1433786). -/
theorem immutable_blocks_all : immBlocksAll [] = true := by decide

/-- the table is not vacuous: every class has mutators, and `clear` is among the mutators that are
checked for `ImmutableList` and `EnvironHeaders` (the F08e / F08f regressions) -/
theorem immutable_table_covers_clear :
    Gen.Containers.immTable.all (fun (_, _, muts, _) => !muts.isEmpty) = true ∧
    (Gen.Containers.immTable.filter (fun (cls, _, muts, _) =>
      (cls == "ImmutableList" || cls == "EnvironHeaders") && muts.contains "clear")).length = 2 := by
  decide

/-! ## MultiDict refines the insertion-ordered multimap -/
section MultiDict
open PyDict MD MDSpec
variable {κ ν : Type} [DecidableEq κ]

/-- One step: on a well-formed state (distinct keys, no empty value list) every public mutator of
`MultiDict` — `d[k]=v`, `del d[k]`, `add`, `setlist`, `setdefault`, `setlistdefault`, `update`,
`|=`, `pop`, `popitem`, `poplist`, `popitemlist`, `clear` — changes the state and returns / raises
exactly as the multimap model does, provided the call does not give a key zero values
(`okOp`: `setlist(k, [])`, `setlistdefault(k)` on a missing key — F08d). -/
theorem md_step_refines (c : MD.St κ ν) (h : WF c) (op : MD.Op κ ν) (hop : okOp c op = true) :
    MD.step c op = MDSpec.step c op ∧ WF (MD.step c op).1 :=
  ⟨C08L.md_step_refines c h op hop, C08L.md_step_wf c h op hop⟩

example : okOp ([(1, [2])] : MD.St Nat Nat) (.setlist 1 [3, 4]) = true ∧ WF ([(1, [2])] : MD.St Nat Nat) :=
  ⟨by decide, by simp [WF]⟩

/-- Every read of the public API (`d[k]`, `getlist`, `in`, `len`, `keys`, `values`, `items`
(multi on/off), `lists`, `listvalues`, `to_dict` (flat on/off)) on a well-formed state gives what the
multimap model gives — in particular none of them raises IndexError. -/
theorem md_read_refines (c : MD.St κ ν) (h : WF c) (q : Query κ) : MD.read c q = MDSpec.read c q :=
  C08L.md_read_refines c h q

/-- Refinement over EVERY history: from a well-formed state, after any sequence of operations that
stays inside the model (`okHist`), the concrete state equals the model state, is well-formed, and
every read agrees with the model. No bound on the length of the history or the sizes. -/
theorem md_refines (c : MD.St κ ν) (h : WF c) (ops : List (MD.Op κ ν)) (hok : okHist c ops = true)
    (q : Query κ) :
    MD.read (MD.run c ops) q = MDSpec.read (MDSpec.run c ops) q := by
  have := C08L.md_run_refines c h ops hok
  rw [← this.1]
  exact C08L.md_read_refines _ this.2 q

example : okHist ([] : MD.St Nat Nat)
    [.add 1 2, .add 1 3, .setitem 2 5, .setlist 1 [7, 8], .pop 2 none, .setlistdefault 1 [], .popitem,
     .update (.mapping [(4, .many []), (5, .one 6)])] = true := by decide

/-- The constructor establishes well-formedness for every supported input form (pairs, mapping with
scalar / list values — empty lists are skipped); for a `MultiDict` argument it copies the argument. -/
theorem md_construct_wf (arg : Option (MD.Arg κ ν)) (h : ∀ m, arg = some (.multi m) → WF m) :
    WF (MD.construct arg) := by
  cases arg with
  | none => exact ⟨by simp [MD.construct], by simp [MD.construct]⟩
  | some a =>
    cases a with
    | multi m => exact h m rfl
    | pairs l => exact MDLemmas.wf_addAll ⟨by simp, by simp⟩ l
    | mapping m =>
      simp only [MD.construct]
      have key : ∀ (t : List (κ × MD.MVal ν)) (acc : MD.St κ ν), WF acc → WF (t.foldl (fun tmp e =>
          match e.2 with
          | .one v => PyDict.set tmp e.1 [v]
          | .many vs => if vs.isEmpty then tmp else PyDict.set tmp e.1 vs) acc) := by
        intro t
        induction t with
        | nil => intro acc hacc; exact hacc
        | cons e t ih =>
          intro acc hacc
          simp only [List.foldl_cons]
          apply ih
          obtain ⟨k, mv⟩ := e
          cases mv with
          | one v => exact MDLemmas.wf_set hacc k (List.cons_ne_nil v [])
          | many vs =>
            cases vs with
            | nil => exact hacc
            | cons x r => exact MDLemmas.wf_set hacc k (List.cons_ne_nil x r)
      exact key m [] ⟨by simp, by simp⟩

/-- F08d: the full statement (every operation keeps the state a multimap) is false:
`MultiDict().setlist('a', [])` leaves the key `'a'` with zero values — `'a' in d` is true while
`items()` raises IndexError, which no multimap state can exhibit. -/
theorem md_step_wf_full_false :
    ¬ (∀ (c : MD.St Nat Nat) (op : MD.Op Nat Nat), WF c → WF (MD.step c op).1) := by
  intro h
  have := (h [] (.setlist 0 []) ⟨by simp, by simp⟩).2 (0, []) (by simp [MD.step, PyDict.set])
  exact this rfl

/-- ... and the reads really disagree with every multimap: after `setlist('a', [])` (or
`setlistdefault('a')`) the key is present but `items()`, `values()` and `to_dict()` fail. -/
theorem md_zero_values_reads :
    MD.read (MD.step ([] : MD.St Nat Nat) (.setlist 0 [])).1 (.contains 0) = .ok (.bool true) ∧
    MD.read (MD.step ([] : MD.St Nat Nat) (.setlist 0 [])).1 (.items false) = .error "IndexError" ∧
    MD.read (MD.step ([] : MD.St Nat Nat) (.setlist 0 [])).1 .values = .error "IndexError" ∧
    MD.read (MD.step ([] : MD.St Nat Nat) (.setlist 0 [])).1 (.toDict true) = .error "IndexError" ∧
    MD.read (MD.step ([] : MD.St Nat Nat) (.setlistdefault 0 [])).1 (.contains 0) = .ok (.bool true) ∧
    MD.read (MD.step ([] : MD.St Nat Nat) (.setlistdefault 0 [])).1 (.items false) = .error "IndexError" := by
  refine ⟨rfl, rfl, rfl, rfl, rfl, rfl⟩

/-- the multimap model itself never leaves well-formed states (so `MDSpec` is a model of
"insertion-ordered multimap" for every history, including the calls excluded above, where it
removes / does not create the key) -/
theorem mdspec_step_wf (m : MultiMap κ ν) (h : WF m) (op : MD.Op κ ν) : WF (MDSpec.step m op).1 := by
  by_cases hop : okOp m op = true
  · rw [← C08L.md_step_refines m h op hop]; exact C08L.md_step_wf m h op hop
  · cases op with
    | setlist k vs =>
      simp only [okOp, Bool.not_eq_true', Bool.not_eq_false] at hop
      simp only [MDSpec.step, hop, if_true]
      exact MDLemmas.wf_filter h _
    | setlistdefault k vs =>
      simp only [okOp, Bool.or_eq_true, Bool.not_eq_true', not_or, Bool.not_eq_true,
        Bool.not_eq_false] at hop
      simp only [MDSpec.step, MDLemmas.hasKey_eq, hop.1, Bool.false_eq_true, if_false, hop.2, if_true]
      exact h
    | _ => simp [okOp] at hop

end MultiDict

/-! ## HeaderSet: the case-insensitive ordered set -/
section HeaderSet
open Hdr HS

/-- `HeaderSet.Inv` (`_set` = lower-cased `_headers`, no two members equal ignoring case) is
preserved by `add`, `remove` (as repaired), `discard`, `update`, `clear`, `del hs[i]`, and by
`hs[i] = v` whenever `v` is not already a member at another position. -/
theorem hs_inv_preserved (c : HS.St) (h : Inv c) (op : HS.Op) (hok : hsOk c op = true) :
    Inv (HS.step c op).st :=
  C08L.hs_inv_preserved c h op hok

example : Inv (HS.construct [['a'], ['b']]) ∧ hsOk (HS.construct [['a'], ['b']]) (.setitem 0 ['A']) = true := by
  decide

/-- F08b: item assignment does NOT preserve the invariant in general:
`hs = HeaderSet(['a','b']); hs[0] = 'B'` leaves items `['B','b']` with `len(hs) == 1`. -/
theorem hs_inv_setitem_full_false :
    ¬ (∀ (c : HS.St) (op : HS.Op), Inv c → Inv (HS.step c op).st) := by
  intro h
  exact absurd (h (HS.construct [['a'], ['b']]) (.setitem 0 ['B']) (by decide)) (by decide)

/-- **the constructor establishes the invariant for every input** (as repaired by 1a2e0e6: both
containers are built through the loop of `update()`): `HeaderSet(items)` keeps the first spelling of
every member - it is the case-insensitive ordered set obtained by inserting the items one by one -
and nothing is dropped when the input has no case-duplicates -/
theorem hs_construct_inv (l : List Str) :
    Inv (HS.construct l) ∧ (HS.construct l).headers = HSSpec.insertAll [] l ∧
    ((l.map lower).Nodup → HS.construct l = ⟨l, l.map lower⟩) :=
  ⟨C08L.hs_construct_inv_any l, C08L.construct_headers l, C08L.construct_of_nodup l⟩

/-- the F08c regression (repaired by 1a2e0e6): `HeaderSet(['a','A'])` has one item and `len == 1`
(it used to keep both spellings with `len == 1`) -/
theorem hs_construct_case_duplicates_regression :
    HS.construct [['a'], ['A']] = ⟨[['a']], [['a']]⟩ ∧ HS.construct [['b'], ['a'], ['B'], ['c']] = ⟨[['b'], ['a'], ['c']], [['b'], ['a'], ['c']]⟩ := by
  decide

/-- One step: under the invariant every mutator acts on the member list exactly like the
case-insensitive ordered set model (`HSSpec.step`) and raises the same exception. -/
theorem hs_step_refines (c : HS.St) (h : Inv c) (op : HS.Op) :
    (HS.step c op).st.headers = (HSSpec.step c.headers op).1 ∧
    (HS.step c op).res = (HSSpec.step c.headers op).2 :=
  C08L.hs_step_refines c h op

/-- reads: membership and length agree with the model under the invariant (indexing, `find`,
`index`, iteration, `to_header` are functions of the member list alone) -/
theorem hs_reads_refine (c : HS.St) (h : Inv c) (x : Str) :
    HS.contains c x = HSSpec.mem c.headers x ∧ HS.len c = c.headers.length :=
  ⟨(mem_iff_contains c h x).symm, hs_len_eq c h⟩

/-- Refinement over EVERY history: starting from a state satisfying the invariant, after any
sequence of operations (item assignments restricted as in `hsOk`) the invariant holds and the member
list is the one the ordered-set model computes. -/
theorem hs_refines (c : HS.St) (h : Inv c) (ops : List HS.Op) (hok : hsOkHist c ops = true) :
    Inv (HS.run c ops) ∧ (HS.run c ops).headers = hsSpecRun c.headers ops :=
  C08L.hs_run_refines c h ops hok

example : hsOkHist (HS.construct [['a'], ['b']])
    [.remove ['A'], .add ['C'], .setitem 0 ['x'], .discard ['q'], .update [['b'], ['B'], ['d']], .delitem (-1)] = true := by
  decide

/-- the F08a regression (repaired by bc9f56a): `HeaderSet(['foo','bar']).remove('Foo')` removes the
member from both `_headers` and `_set` -/
theorem hs_remove_other_case :
    (HS.step (HS.construct ["foo".toList, "bar".toList]) (.remove "Foo".toList)).st
      = ⟨["bar".toList], ["bar".toList]⟩ := by
  decide

end HeaderSet

/-! ## Headers.set algebra -/
section Headers
open Hdr

/-- `Headers.set` (the `for … else` loop with its replace-first / delete-rest slice assignment) is
exactly its documented meaning `specSet`: the first entry of the key is replaced in place, every
later entry of the key is dropped, and without an entry the pair is appended. Every other keyed
mutator (`setlist`, `setdefault`, `update`, `h[k] = v`, …) is defined through `set` / `add`. -/
theorem headers_set_eq_spec (l : HList) (k v : Str) (hv : hasNL v = false) :
    Hdr.set l k v = (specSet l k v, .ok ()) :=
  set_eq_spec l k v hv

/-- Headers refines its abstract spec — an ordered list of `(key, value)` pairs whose keys compare
case-insensitively (`HdrSpec`): every public mutator (`add`, `set`, `h[k]=v`, `setlist`,
`setdefault`, `setlistdefault`, `extend`, `update`, `|=`, `del h[k]`, `remove`, `pop`, `clear`, with
all argument forms) is a sequence of the three atomic actions append / replace-first-drop-rest /
drop-all, performed in order up to the first refused value; positional mutators are the list
operations. One step: same new state, same result / exception. -/
theorem hdr_step_refines (l : HList) (op : Hdr.Op) : Hdr.step l op = HdrSpec.step l op :=
  HdrSpec.step_refines l op

/-- ... hence over EVERY operation history the concrete state is the abstract state, and so every
read (`h[k]`, `get`, `getlist`, `in`, `len`, iteration, `items/keys/values`, index and slice access,
`str`) — any function `read` of the pair list — agrees with the spec. No bound on the history. -/
theorem hdr_refines {α : Type} (l : HList) (ops : List Hdr.Op) (read : HList → α) :
    read (Hdr.run l ops) = read (HdrSpec.run l ops) := by
  rw [HdrSpec.run_refines]

example : HdrSpec.run [] [.add "a".toList "1".toList, .add "A".toList "2".toList, .set "a".toList "3".toList,
    .setlist "b".toList ["x".toList, "y\n".toList], .update (some (.mapping [("a".toList, .many [])])) []]
    = [("b".toList, "x".toList)] := by decide +kernel

/-- `add` appends: the key's values gain `v` at the end, nothing else moves -/
theorem headers_add (l : HList) (k v : Str) (hv : hasNL v = false) :
    (Hdr.add l k v).1 = l ++ [(k, v)] ∧ getlist (Hdr.add l k v).1 k = getlist l k ++ [v] := by
  simp [Hdr.add, strHeaderValue, hv, getlist, List.filter_append, keyEq_self]

/-- after `headers.set(k, v)` (newline-free `v`) the key has exactly the one value `v` -/
theorem headers_set_getlist (l : HList) (k v : Str) (hv : hasNL v = false) :
    getlist (Hdr.set l k v).1 k = [v] ∧ (Hdr.set l k v).2 = .ok () := by
  rcases set_cases l k v hv with ⟨r, hs, he⟩ | ⟨hnone, he⟩
  · rw [he]; simp [getlist, setLoop_filter_self k v l r hs]
  · rw [he]
    simp [getlist, List.filter_append, filter_keyEq_none k l hnone, keyEq_self]

example : hasNL "text/plain".toList = false := by decide

/-- ... every other entry (keys different ignoring case) keeps its value and the relative order of
those entries is unchanged -/
theorem headers_set_others_unchanged (l : HList) (k v : Str) (hv : hasNL v = false) :
    (Hdr.set l k v).1.filter (fun p => !keyEq k p) = l.filter (fun p => !keyEq k p) := by
  rcases set_cases l k v hv with ⟨r, hs, he⟩ | ⟨_, he⟩
  · rw [he]; exact setLoop_filter_other k v l r hs
  · rw [he]; simp [List.filter_append, keyEq_self]

/-- `setlist(k, vs)` with newline-free values: afterwards `getlist k = vs`, and the entries of
other keys (and their order) are unchanged; `setlist(k, [])` removes the key -/
theorem headers_setlist (l : HList) (k : Str) (vs : List Str) (hvs : ∀ v ∈ vs, hasNL v = false) :
    getlist (Hdr.setlist l k vs).1 k = vs ∧
    (Hdr.setlist l k vs).1.filter (fun p => !keyEq k p) = l.filter (fun p => !keyEq k p) := by
  have addAll_ok : ∀ (l : HList) (t : List Str), (∀ v ∈ t, hasNL v = false) →
      Hdr.addAll l k t = (l ++ t.map (fun v => (k, v)), .ok ()) := by
    intro l t
    induction t generalizing l with
    | nil => intro _; simp [Hdr.addAll]
    | cons v t ih =>
      intro h
      have hv := h v List.mem_cons_self
      simp only [Hdr.addAll, Hdr.add, strHeaderValue, hv, Bool.false_eq_true, if_false]
      rw [ih _ (fun w hw => h w (List.mem_cons_of_mem _ hw))]
      simp
  cases vs with
  | nil => simp [Hdr.setlist, getlist, delKey, List.filter_filter]
  | cons v t =>
    have hv := hvs v List.mem_cons_self
    have ht : ∀ w ∈ t, hasNL w = false := fun w hw => hvs w (List.mem_cons_of_mem _ hw)
    simp only [Hdr.setlist, set_eq_spec l k v hv, addAll_ok _ t ht]
    have h1 := (headers_set_getlist l k v hv).1
    have h2 := headers_set_others_unchanged l k v hv
    rw [set_eq_spec l k v hv] at h1 h2
    simp only at h1 h2
    constructor
    · simp only [getlist, List.filter_append, List.map_append] at h1 ⊢
      rw [h1]
      have : (t.map fun v => (k, v)).filter (keyEq k) = t.map fun v => (k, v) := by
        rw [List.filter_eq_self]; intro p hp
        obtain ⟨w, _, hw⟩ := List.mem_map.1 hp
        subst hw; exact keyEq_self k w
      simp [this, Function.comp_def]
    · rw [List.filter_append, h2]
      have : (t.map fun v => (k, v)).filter (fun p => !keyEq k p) = [] := by
        rw [List.filter_eq_nil_iff]; intro p hp
        obtain ⟨w, _, hw⟩ := List.mem_map.1 hp
        subst hw; simp [keyEq_self]
      simp [this]

/-- ... hence `getlist` of any other key is unchanged -/
theorem headers_set_getlist_other (l : HList) (k k' v : Str) (hv : hasNL v = false)
    (hne : lower k' ≠ lower k) : getlist (Hdr.set l k v).1 k' = getlist l k' := by
  unfold getlist
  rw [filter_other_key k k' hne, headers_set_others_unchanged l k v hv, ← filter_other_key k k' hne]

example : lower "Content-Type".toList ≠ lower "content-length".toList := by decide

/-- ... and the new pair sits at the position of the first former occurrence of the key, or at
the end when there was none -/
theorem headers_set_position (l : HList) (k v : Str) (hv : hasNL v = false) :
    let pos := if contains l k then l.findIdx (keyEq k) else l.length
    (Hdr.set l k v).1.findIdx (keyEq k) = pos ∧ (Hdr.set l k v).1[pos]? = some (k, v) := by
  rcases set_cases l k v hv with ⟨r, hs, he⟩ | ⟨hnone, he⟩
  · have hc : contains l k = true := by
      unfold contains
      cases hf : l.find? (keyEq k) with
      | some _ => rfl
      | none =>
        rw [List.find?_eq_none] at hf
        have hall : ∀ p ∈ l, keyEq k p = false := fun p hp => by simpa using hf p hp
        rw [setLoop_none_of k v l hall] at hs
        exact absurd hs (by simp)
    simp only [hc, if_true]
    rw [he]
    exact setLoop_findIdx k v l r hs
  · have hc : contains l k = false := by
      unfold contains
      cases hf : l.find? (keyEq k) with
      | none => rfl
      | some p =>
        have := List.find?_some hf
        have := hnone p (List.mem_of_find?_eq_some hf)
        simp_all
    simp only [hc, Bool.false_eq_true, if_false]
    rw [he]
    constructor
    · rw [List.findIdx_append]
      have : l.findIdx (keyEq k) = l.length := by
        rw [List.findIdx_eq_length]; intro p hp; simp [hnone p hp]
      simp [this, List.findIdx_cons, keyEq_self]
    · simp

/-- a value containing CR or LF is refused with ValueError and the list is left unchanged -/
theorem headers_set_refuses_newline (l : HList) (k v : Str) (hv : hasNL v = true) :
    Hdr.set l k v = (l, .error "ValueError") := by
  simp [Hdr.set, strHeaderValue, hv]

example : hasNL "a\r\nSet-Cookie: x".toList = true := by decide

/-- `remove(k)` / `del h[k]` removes exactly the entries of that key -/
theorem headers_remove (l : HList) (k : Str) :
    getlist (delKey l k) k = [] ∧
    (delKey l k).filter (fun p => !keyEq k p) = l.filter (fun p => !keyEq k p) := by
  constructor
  · simp only [getlist, delKey, List.filter_filter]
    have : (l.filter fun a => keyEq k a && !keyEq k a) = [] := by
      rw [List.filter_eq_nil_iff]; intro a _; cases keyEq k a <;> simp
    simp [this]
  · simp [delKey, List.filter_filter]

end Headers

/-! ## CombinedMultiDict reads through to the wrapped dicts -/
section Combined
open PyDict MD
variable {κ ν : Type} [DecidableEq κ]

/-- `combined[k]` is `d[k]` of the first wrapped dict that contains `k`; `getlist` concatenates the
dicts' lists; `k in combined` iff some dict contains it — for every list of dicts (so a change to a
wrapped dict is visible through the view: the view holds no data of its own). -/
theorem combined_reads_through (c : CMD.St κ ν) (k : κ) :
    CMD.getitem c k = (match c.find? (has · k) with
      | some d => MD.getitem d k
      | none => .error "BadRequestKeyError") ∧
    CMD.getlist c k = (c.map (MD.getlist · k)).flatten ∧
    (CMD.contains c k = true ↔ ∃ d ∈ c, has d k = true) := by
  refine ⟨?_, ?_, ?_⟩
  · induction c with
    | nil => rfl
    | cons d t ih =>
      simp only [CMD.getitem, List.find?_cons]
      cases has d k <;> simp [ih]
  · simp [CMD.getlist, List.flatMap_def]
  · simp [CMD.contains]

end Combined

/-! ## Immutable variants: unchanged after every refused mutator, over every history -/
section ImmutableHistories
open PyDict

/-- every mutator of the MultiDict / dict / Headers models carries the name of a method the
generated table lists as a mutator of the mutable base class (so the table speaks about the same
operations the refinement theorems speak about) -/
theorem model_ops_are_table_mutators {κ ν : Type} :
    (∀ op : MD.Op κ ν, (Imm.mutators "ImmutableMultiDict").contains (Imm.mdOpName op) = true) ∧
    (∀ op : PyDict.Op κ ν, (Imm.mutators "ImmutableDict").contains (PyDict.opName op) = true ∧
      (Imm.mutators "ImmutableTypeConversionDict").contains (PyDict.opName op) = true) ∧
    (∀ op : Hdr.Op, (Imm.mutators "EnvironHeaders").contains (Imm.hdrOpName op) = true) := by
  refine ⟨fun op => ?_, fun op => ?_, fun op => ?_⟩
  · cases op <;> (simp only [Imm.mdOpName]; decide)
  · cases op <;> (simp only [PyDict.opName]; decide)
  · cases op <;> (simp only [Imm.hdrOpName]; decide)

/-- **Immutable variants reject every mutator with TypeError and are left unchanged** - as a
statement over the regenerated blocker table and the models: for each immutable class, every
history of mutator calls (any length, any arguments) on an instance in any state answers TypeError
every time and ends in the initial state. `ImmutableMultiDict` and `CombinedMultiDict` over the
MultiDict mutators, `ImmutableDict` / `ImmutableTypeConversionDict` over the dict mutators,
`EnvironHeaders` over the Headers mutators; for `ImmutableList` (and every class of the table) over
any call whose method name is a mutator of the base class, whatever the inherited method would do. -/
theorem immutable_unchanged_after_refusal {κ ν : Type} [DecidableEq κ] :
    (∀ cls ∈ ["ImmutableMultiDict", "CombinedMultiDict"], ∀ (c : MD.St κ ν) (ops : List (MD.Op κ ν)),
      immRun cls c (ops.map fun op => (Imm.mdOpName op, fun c => MD.step c op))
        = (c, ops.map fun _ => .error "TypeError")) ∧
    (∀ cls ∈ ["ImmutableDict", "ImmutableTypeConversionDict"], ∀ (d : Dict κ ν) (ops : List (PyDict.Op κ ν)),
      immRun cls d (ops.map fun op => (PyDict.opName op, fun d => PyDict.step d op))
        = (d, ops.map fun _ => .error "TypeError")) ∧
    (∀ (l : Hdr.HList) (ops : List Hdr.Op),
      immRun "EnvironHeaders" l (ops.map fun op => (Imm.hdrOpName op, fun l => Hdr.step l op))
        = (l, ops.map fun _ => .error "TypeError")) ∧
    (∀ (σ ρ : Type) (cls : String) (c : σ) (calls : List (String × (σ → σ × Except String ρ))),
      (Gen.Containers.immTable.map (·.1)).contains cls = true →
      (∀ call ∈ calls, (Imm.mutators cls).contains call.1 = true) →
      immRun cls c calls = (c, calls.map fun _ => .error "TypeError")) := by
  have tbl : ∀ cls, (Gen.Containers.immTable.map (·.1)).contains cls = true →
      ∀ name, (Imm.mutators cls).contains name = true → (Imm.blocked cls).contains name = true := by
    intro cls hc name hm
    have hall : Gen.Containers.immTable.all (fun (c, _, muts, blocked) => muts.all fun m => blocked.contains m) = true := by
      decide
    simp only [List.contains_iff_mem, List.mem_map] at hc
    obtain ⟨row, hrow, rfl⟩ := hc
    have hfind : Gen.Containers.immTable.find? (·.1 == row.1) = some row ∨
        ∃ r, Gen.Containers.immTable.find? (·.1 == row.1) = some r := by
      cases hf : Gen.Containers.immTable.find? (·.1 == row.1) with
      | some r => exact Or.inr ⟨r, rfl⟩
      | none =>
        rw [List.find?_eq_none] at hf
        exact absurd (hf row hrow) (by simp)
    obtain ⟨r, hr⟩ : ∃ r, Gen.Containers.immTable.find? (·.1 == row.1) = some r := by
      rcases hfind with h | h
      · exact ⟨row, h⟩
      · exact h
    have hrmem := List.mem_of_find?_eq_some hr
    have := List.all_eq_true.1 hall r hrmem
    simp only [Imm.mutators, Imm.blocked, hr] at hm ⊢
    obtain ⟨c0, b0, muts, blocked⟩ := r
    simp only [List.all_eq_true] at this
    exact this name (by simpa using hm)
  have gen : ∀ (σ ρ : Type) (cls : String) (c : σ) (calls : List (String × (σ → σ × Except String ρ))),
      (Gen.Containers.immTable.map (·.1)).contains cls = true →
      (∀ call ∈ calls, (Imm.mutators cls).contains call.1 = true) →
      immRun cls c calls = (c, calls.map fun _ => .error "TypeError") :=
    fun σ ρ cls c calls hc hm => immRun_unchanged cls c calls (fun call h => tbl cls hc _ (hm call h))
  have names := @model_ops_are_table_mutators κ ν
  refine ⟨?_, ?_, ?_, gen⟩
  · intro cls hcls c ops
    have hc : (Gen.Containers.immTable.map (·.1)).contains cls = true := by
      simp only [List.mem_cons, List.not_mem_nil, or_false] at hcls
      rcases hcls with rfl | rfl <;> decide
    have hmut : ∀ op : MD.Op κ ν, (Imm.mutators cls).contains (Imm.mdOpName op) = true := by
      simp only [List.mem_cons, List.not_mem_nil, or_false] at hcls
      rcases hcls with rfl | rfl
      · exact names.1
      · intro op; cases op <;> (simp only [Imm.mdOpName]; decide)
    have := gen _ _ cls c (ops.map fun op => (Imm.mdOpName op, fun c => MD.step c op)) hc
      (fun call h => by
        obtain ⟨op, _, rfl⟩ := List.mem_map.1 h
        exact hmut op)
    simpa [Function.comp_def] using this
  · intro cls hcls d ops
    have hc : (Gen.Containers.immTable.map (·.1)).contains cls = true := by
      simp only [List.mem_cons, List.not_mem_nil, or_false] at hcls
      rcases hcls with rfl | rfl <;> decide
    have hmut : ∀ op : PyDict.Op κ ν, (Imm.mutators cls).contains (PyDict.opName op) = true := by
      simp only [List.mem_cons, List.not_mem_nil, or_false] at hcls
      rcases hcls with rfl | rfl
      · exact fun op => (names.2.1 op).1
      · exact fun op => (names.2.1 op).2
    have := gen _ _ cls d (ops.map fun op => (PyDict.opName op, fun d => PyDict.step d op)) hc
      (fun call h => by
        obtain ⟨op, _, rfl⟩ := List.mem_map.1 h
        exact hmut op)
    simpa [Function.comp_def] using this
  · intro l ops
    have := gen _ _ "EnvironHeaders" l (ops.map fun op => (Imm.hdrOpName op, fun l => Hdr.step l op)) (by decide)
      (fun call h => by
        obtain ⟨op, _, rfl⟩ := List.mem_map.1 h
        exact names.2.2 op)
    simpa [Function.comp_def] using this

example : (Imm.mdStep "ImmutableMultiDict" ([(1, [2])] : MD.St Nat Nat) (.add 1 3)) = ([(1, [2])], .error "TypeError") := by
  rfl

end ImmutableHistories

/-! ## TypeConversionDict and FileMultiDict -/
section TypeConv
open PyDict
variable {κ ν τ : Type} [DecidableEq κ]

/-- `TypeConversionDict.get(key, default, type)` (also `ImmutableTypeConversionDict`, `MultiDict`,
whose `get` is this one on the first value): the converted value when the key is present and the
callable accepts it; the default when the key is missing or the callable raises ValueError /
TypeError - and it is a read: on the immutable variant it is not refused (`get` is not in the
blocker table). -/
theorem typeconv_get (conv : ν → Option τ) (d : Dict κ ν) (k : κ) (dflt : Option τ) :
    (PyDict.get? d k = none → TCD.get conv d k dflt = dflt) ∧
    (∀ v x, PyDict.get? d k = some v → conv v = some x → TCD.get conv d k dflt = some x) ∧
    (∀ v, PyDict.get? d k = some v → conv v = none → TCD.get conv d k dflt = dflt) ∧
    (Imm.blocked "ImmutableTypeConversionDict").contains "get" = false := by
  refine ⟨fun h => by simp [TCD.get, h], fun v x h hc => by simp [TCD.get, h, hc],
    fun v h hc => by simp [TCD.get, h, hc], by decide⟩

/-- ... and on a MultiDict `get(key, type=conv)` is the conversion of the *first* value of the key -/
theorem md_get_typed_first (conv : ν → Option τ) (c : MD.St κ ν) (h : MDSpec.WF c) (k : κ) :
    MD.getTyped conv c k = (MDSpec.first? c k).bind conv := by
  unfold MD.getTyped MD.getitem PyDict.get?
  rw [C08L.first?_eq c h k]
  cases hl : c.lookup k with
  | none => rfl
  | some vs =>
    cases vs with
    | nil => exact absurd rfl (MDLemmas.lookup_ne_nil h hl)
    | cons v r => rfl

/-- `FileMultiDict.add_file(name, file, filename, content_type)` is `add(name, storage)`: the
field's list of files grows by exactly the one `FileStorage` built from the arguments (the given
object itself when it already is a `FileStorage`; otherwise a new one around the stream / opened
path, carrying the field name, the file name - the path when none is given - and a content type
guessed from the file name when none is given), every other field is untouched; hence the file
variant refines the same multimap (`md_refines` with values = file storages). -/
theorem filemultidict_add_file (guess : Hdr.Str → Option Hdr.Str) (c : MD.St Hdr.Str FMD.FS) (name : Hdr.Str)
    (f : FMD.FileArg) (filename ct : Option Hdr.Str) (k : Hdr.Str) :
    FMD.addFile guess c name f filename ct = (MD.step c (.add name (FMD.mkStorage guess name f filename ct))).1 ∧
    MD.getlist (FMD.addFile guess c name f filename ct) k =
      (if k = name then MD.getlist c name ++ [FMD.mkStorage guess name f filename ct] else MD.getlist c k) ∧
    (∀ fs, FMD.mkStorage guess name (.storage fs) filename ct = fs) ∧
    (∀ p h, (FMD.mkStorage guess name (.path p h) none none).filename = some p) := by
  refine ⟨rfl, ?_, fun _ => rfl, fun _ _ => rfl⟩
  unfold FMD.addFile
  rw [getlist_add]

example : FMD.mkStorage (fun _ => some "text/plain".toList) "f".toList (.stream 7) (some "a.txt".toList) none
    = ⟨7, some "a.txt".toList, some "f".toList, some "text/plain".toList⟩ := by decide

end TypeConv

/-! ## bulk operations from every input form -/
section Bulk
open PyDict MD
variable {κ ν : Type} [DecidableEq κ]

/-- `update` / `|=` / `|` from every supported input form (iterable of pairs, dict with scalar or
list / tuple / set values, another MultiDict): afterwards every key has its old values followed by
the values the argument gives it, in the argument's order (`iter_multi_items`); keys the argument
does not mention keep their lists. No input form replaces existing values. -/
theorem md_update_getlist (c : MD.St κ ν) (a : MD.Arg κ ν) (k : κ) :
    MD.getlist (MD.step c (.update a)).1 k =
      MD.getlist c k ++ ((MD.iterMultiItems a).filter (fun p => p.1 == k)).map (·.2) ∧
    (MD.step c (.ior a)).1 = (MD.step c (.update a)).1 :=
  ⟨getlist_addAll c _ k, rfl⟩

/-- the constructor from pairs is `update` on an empty dict; from a dict with distinct keys too
(list values as they are, scalars as one-element lists, empty lists skipped); from a MultiDict it is
that MultiDict's state (`copy`) -/
theorem md_construct_forms (l : List (κ × ν)) (c : MD.St κ ν) (hc : MDSpec.WF c) :
    MD.construct (some (.pairs l)) = (MD.step [] (.update (.pairs l))).1 ∧
    MD.construct (some (.multi c)) = c ∧
    MD.construct (some (.mapping (c.map fun e => (e.1, MD.MVal.many e.2)))) = c := by
  refine ⟨rfl, rfl, ?_⟩
  rw [construct_mapping_many c hc.2, dictOf_self c hc.1]

/-- **the single-key mutators, stated as laws on the reads** (a multimap state `c`, any keys):
`d[k] = v` / `setlist` give `k` exactly the new values; `del d[k]`, `pop`, `poplist` leave `k`
without values and return the first value / the whole list; `setdefault` returns the first value of a
present key and otherwise stores and returns the default; `popitem` / `popitemlist` take the key
inserted last. No other key's list changes in any of them. -/
theorem md_mutator_laws (c : MD.St κ ν) (hw : MDSpec.WF c) (k k' : κ) (v : ν) (vs : List ν) (d : Option ν) :
    MD.getlist (MD.step c (.setitem k v)).1 k' = (if k' = k then [v] else MD.getlist c k') ∧
    MD.getlist (MD.step c (.setlist k vs)).1 k' = (if k' = k then vs else MD.getlist c k') ∧
    (has c k = true → MD.getlist (MD.step c (.delitem k)).1 k' = (if k' = k then [] else MD.getlist c k')) ∧
    MD.getlist (MD.step c (.pop k d)).1 k' = (if k' = k then [] else MD.getlist c k') ∧
    (∀ x, MDSpec.first? c k = some x → (MD.step c (.pop k d)).2 = .ok (.val x)) ∧
    MD.getlist (MD.step c (.poplist k)).1 k' = (if k' = k then [] else MD.getlist c k') ∧
    (MD.step c (.poplist k)).2 = .ok (.vals (MD.getlist c k)) ∧
    (∀ x, MDSpec.first? c k = some x → MD.step c (.setdefault k v) = (c, .ok (.val x))) ∧
    (MDSpec.first? c k = none → MD.getlist (MD.step c (.setdefault k v)).1 k' = (if k' = k then [v] else MD.getlist c k') ∧
      (MD.step c (.setdefault k v)).2 = .ok (.val v)) ∧
    (MD.step c .popitem).1 = c.dropLast ∧ (MD.step c .popitemlist).1 = c.dropLast := by
  have hn := hw.1
  have hfirst := C08L.first?_eq c hw k
  have hpop : (MD.step c (.pop k d)).1 = (if has c k then erase c k else c) := by
    simp only [MD.step, has]
    split <;> (rename_i heq; simp only [PyDict.get?] at heq ⊢; simp [heq])
  have hpl : (MD.step c (.poplist k)).1 = (if has c k then erase c k else c) := by
    simp only [MD.step, has]
    split <;> (rename_i heq; simp only [PyDict.get?] at heq ⊢; simp [heq])
  have hnot : has c k = false → MD.getlist c k = [] := by
    intro h
    unfold has at h
    unfold MD.getlist PyDict.get?
    cases hg : c.lookup k with
    | none => rfl
    | some l => rw [hg] at h; cases h
  have herase : ∀ kk, MD.getlist (if has c k then erase c k else c) kk = if kk = k then [] else MD.getlist c kk := by
    intro kk
    cases hh : has c k with
    | true => simp only [if_true]; exact getlist_erase c hn k kk
    | false =>
      simp only [Bool.false_eq_true, if_false]
      by_cases e : kk = k
      · subst e; simp [hnot hh]
      · simp [e]
  refine ⟨getlist_set c k k' [v], getlist_set c k k' vs, ?_, ?_, ?_, ?_, ?_, ?_, ?_, ?_, ?_⟩
  · intro hh
    simp only [MD.step, hh, if_true]
    exact getlist_erase c hn k k'
  · rw [hpop]; exact herase k'
  · intro x hx
    rw [hfirst] at hx
    simp only [MD.step, PyDict.get?]
    cases hl : c.lookup k with
    | none => rw [hl] at hx; simp at hx
    | some l =>
      rw [hl] at hx
      cases l with
      | nil => simp at hx
      | cons y r => simp at hx; subst hx; rfl
  · rw [hpl]; exact herase k'
  · simp only [MD.step, MD.getlist]
    split <;> (rename_i heq; simp [heq])
  · intro x hx
    rw [hfirst] at hx
    have hh : has c k = true := by
      unfold has
      cases hl : c.lookup k with
      | none => rw [hl] at hx; simp at hx
      | some l => rfl
    simp only [MD.step, hh, if_true, MD.getitem, PyDict.get?]
    cases hl : c.lookup k with
    | none => rw [hl] at hx; simp at hx
    | some l =>
      rw [hl] at hx
      cases l with
      | nil => simp at hx
      | cons y r => simp at hx; subst hx; rfl
  · intro hx
    rw [hfirst] at hx
    have hh : has c k = false := by
      unfold has
      cases hl : c.lookup k with
      | none => rfl
      | some l =>
        rw [hl] at hx
        cases l with
        | nil => exact absurd rfl (MDLemmas.lookup_ne_nil hw hl)
        | cons y r => simp at hx
    simp only [MD.step, hh, Bool.false_eq_true, if_false]
    refine ⟨getlist_set c k k' [v], ?_⟩
    simp [MD.getitem, PyDict.get?, lookup_set_self, Except.map]
  · simp only [MD.step, PyDict.popitem]
    cases hg : c.getLast? with
    | none => simp [List.getLast?_eq_none_iff.1 hg]
    | some e => obtain ⟨ek, el⟩ := e; cases el <;> rfl
  · simp only [MD.step, PyDict.popitem]
    cases hg : c.getLast? with
    | none => simp [List.getLast?_eq_none_iff.1 hg]
    | some e => rfl

end Bulk

/-! ## CombinedMultiDict is the merge of the wrapped dicts -/
section CombinedMerge
open PyDict MD
variable {κ ν : Type} [DecidableEq κ]

/-- `lists()`, `listvalues()`, `to_dict(flat=False)` of a CombinedMultiDict over dicts with distinct
keys: one entry per key of any wrapped dict, in order of first appearance, holding the wrapped
dicts' value lists for that key concatenated in dict order (= `getlist`). -/
theorem combined_lists_merged (c : CMD.St κ ν) (hn : ∀ d ∈ c, NodupKeys d) :
    NodupKeys (CMD.lists c) ∧
    keys (CMD.lists c) = firstOcc [] (c.flatMap keys) ∧
    ∀ k, (CMD.lists c).lookup k = if CMD.contains c k then some (CMD.getlist c k) else none :=
  cmd_lists_spec c hn

example : CMD.lists ([[(1, [10]), (2, [20])], [(2, [21]), (3, [30]), (1, [11, 12])]] : CMD.St Nat Nat)
    = [(1, [10, 11, 12]), (2, [20, 21]), (3, [30])] := by decide

/-- `combined.get(key)` / `combined[key]`: first wins - the first wrapped dict that has the key
answers with its first value; `get(key, type=conv)` skips dicts whose first value does not convert. -/
theorem combined_get_first_wins {τ : Type} (conv : ν → Option τ) (c : CMD.St κ ν) (k : κ)
    (hv : ∀ d ∈ c, has d k = true → ∃ v, MD.getitem d k = .ok v) :
    CMD.get c k = (match c.find? (has · k) with
      | some d => (MD.getitem d k).map some
      | none => .ok none) ∧
    CMD.getTyped conv c k = .ok ((c.filterMap fun d => MD.getTyped conv d k).head?) :=
  ⟨cmd_get_first c k, cmd_getTyped_first conv c k hv⟩

/-- `combined.items()` - and `values()`, `to_dict()`, which are read off it - over multimap states:
exactly one pair per key of any wrapped dict, keys in order of first appearance (the key order of
`lists()`), each carrying `combined[key]`, the first value of the first dict that has the key. -/
theorem combined_items_first_wins (c : CMD.St κ ν) (hw : ∀ d ∈ c, MDSpec.WF d) :
    ∃ l, CMD.itemsFirst c = .ok l ∧ l.map (·.1) = firstOcc [] (c.flatMap keys) ∧
      l.map (·.1) = keys (CMD.lists c) ∧ ∀ p ∈ l, CMD.getitem c p.1 = .ok p.2 := by
  obtain ⟨l, h1, h2, h3⟩ := cmd_itemsFirst_spec c hw []
  have hk : l.map (·.1) = firstOcc [] (c.flatMap keys) := by rw [h2, firstOcc_eq_newKeys]; simp
  exact ⟨l, h1, hk, by rw [hk, (cmd_lists_spec c (fun d hd => (hw d hd).1)).2.1], fun p hp => (h3 p hp).2⟩

example : CMD.itemsFirst ([[(1, [10]), (2, [20])], [(2, [21]), (3, [30]), (1, [11, 12])]] : CMD.St Nat Nat)
    = .ok [(1, 10), (2, 20), (3, 30)] := by rfl

end CombinedMerge

/-! ## pickling, copying, equality and hashing -/
section PickleEq
open PyDict MD Pickle
variable {κ ν : Type} [DecidableEq κ]

/-- **pickle round trip**: `__setstate__(__getstate__())` of a MultiDict with distinct keys restores
the state exactly (keys, order, value lists - also lists without values); the immutable variant,
which pickles as `cls(list(items(multi=True)))`, is restored exactly when it is a multimap state. -/
theorem md_pickle_roundtrip (c old : MD.St κ ν) (hn : NodupKeys c) :
    mdSetstate old (mdGetstate c) = c ∧ (MDSpec.WF c → imdRebuild c = c) := by
  constructor
  · unfold mdSetstate mdGetstate MD.lists
    rw [dictOf_self c hn, dictOf_self c hn]
  · intro hw
    unfold imdRebuild MD.construct
    simpa using addAll_itemsMulti [] c (by simpa using hn) hw.2

/-- `copy()` and `deepcopy()` (values as atoms) of a multimap state yield an equal state; this is
the *content* half of "copies are consistent" - independence is `copy_independent` below, in a model
with object identity. `deepcopy` goes through the dict constructor and therefore drops a key without
values (a consequence of F08d). -/
theorem md_copy_eq (c : MD.St κ ν) (hw : MDSpec.WF c) :
    mdCopy c = c ∧ mdDeepcopy c = c := by
  refine ⟨rfl, ?_⟩
  unfold mdDeepcopy MD.lists
  rw [dictOf_self c hw.1, construct_mapping_many c hw.2, dictOf_self c hw.1]

theorem md_deepcopy_drops_empty : mdDeepcopy ([(0, []), (1, [5])] : MD.St Nat Nat) = [(1, [5])] := by decide

/-- **equality and hashing are consistent** for the immutable multidict (and dict): `==` is dict
equality of the key → value-list maps; `hash` is the hash of the *frozenset* of `items(multi=True)`
(`ImmutableMultiDictMixin._iter_hashitems`). Equal objects have the same set of (key, value) pairs
- whatever the order in which their keys were inserted - hence equal hashes. -/
theorem imd_eq_hash_consistent [DecidableEq ν] (a b : MD.St κ ν) (ha : NodupKeys a) (hb : NodupKeys b)
    (h : dictEq a b = true) : ∀ p, p ∈ MD.itemsMulti a ↔ p ∈ MD.itemsMulti b := by
  have he := dictEq_same_entries a b ha hb h
  intro p
  simp only [MD.itemsMulti, List.mem_flatMap, List.mem_map]
  constructor
  · rintro ⟨e, hea, v, hv, rfl⟩; exact ⟨e, (he e).1 hea, v, hv, rfl⟩
  · rintro ⟨e, heb, v, hv, rfl⟩; exact ⟨e, (he e).2 heb, v, hv, rfl⟩

example : dictEq ([(1, [2, 3]), (4, [5])] : MD.St Nat Nat) [(4, [5]), (1, [2, 3])] = true := by decide

/-- `Headers.copy()` (`cls(self._list)`, every pair re-added through `add`) and pickling (the
instance dict, i.e. `_list`) give a Headers with the same pair list, for every list of stored
values (stored values are CR/LF-free: C05 `headers_newline_free`). -/
theorem headers_copy_eq (l : Hdr.HList) (h : ∀ p ∈ l, Hdr.hasNL p.2 = false) :
    Hdr.construct (some (.pairs l)) = .ok l := by
  simp [Hdr.construct, Hdr.extend, Hdr.extendHead, Hdr.iterMultiItems, Hdr.andThen, addPairs_clean [] l h,
    Hdr.mapItems, Hdr.addPairs]

end PickleEq

/-! ## copies are independent of the original - in a model with object identity

`HeapMD`: the inner lists of a MultiDict are heap objects, mutators change them in place where the
Python code does, `setlistdefault` leaks the live list (`Ev.via`), `copy()` / `copy.copy` /
`deepcopy` / unpickling allocate new list objects. -/
section CopyIndependence
open HeapMD
variable {κ ν : Type} [DecidableEq κ]

/-- the heap model refines the functional model: every history of mutators and of appends through
leaked live lists on one MultiDict object changes its value exactly as the functional model says -/
theorem heap_refines (h : Heap ν) (o : Obj κ) (hw : HeapMD.WF h o) (evs : List (Ev κ ν)) :
    abs (run h o evs).1 (run h o evs).2 = runAbs (abs h o) evs :=
  (run_spec h o evs hw).1

example : HeapMD.WF ([[1, 2], [3]] : Heap Nat) ([(10, 1), (20, 0)] : Obj Nat) := by
  refine ⟨by simp [PyDict.NodupKeys], by simp [addrs], ?_⟩
  intro a ha; simp [addrs] at ha; rcases ha with rfl | rfl <;> decide

/-- **Copies are independent of the original.** Take any MultiDict object (distinct keys, every key
its own list object), copy it (`copy()`, `copy.copy`, `deepcopy`, pickle round trip: new list object
per key). Then: the copy has the same value; after ANY history on the copy - every public mutator,
and appends to live lists obtained from the copy - the original still has its value while the copy
has the value the functional model computes; and after any further history on the original the copy
keeps its value. No bound on the histories. -/
theorem copy_independent (h : Heap ν) (o : Obj κ) (hw : HeapMD.WF h o) (evsCopy evsOrig : List (Ev κ ν)) :
    let w1 := copyObj h o
    let w2 := run w1.1 w1.2 evsCopy
    let w3 := run w2.1 o evsOrig
    abs w1.1 w1.2 = abs h o ∧
    abs w2.1 o = abs h o ∧ abs w2.1 w2.2 = runAbs (abs h o) evsCopy ∧
    abs w3.1 w2.2 = abs w2.1 w2.2 ∧ abs w3.1 w3.2 = runAbs (abs h o) evsOrig := by
  intro w1 w2 w3
  obtain ⟨c1, c2, csep⟩ := copyObj_spec h o hw
  obtain ⟨r1, r2, r3⟩ := run_spec w1.1 w1.2 evsCopy csep.2.1
  obtain ⟨f1, f2⟩ := frame w1.1 o w1.2 w2.1 w2.2 csep r2 r3
  have sym : Sep w2.1 w2.2 o := ⟨f2.2.1, f2.1, fun a ha hm => f2.2.2 a hm ha⟩
  obtain ⟨s1, s2, s3⟩ := run_spec w2.1 o evsOrig f2.1
  obtain ⟨g1, _⟩ := frame w2.1 w2.2 o w3.1 w3.2 sym s2 s3
  refine ⟨c1, by rw [f1, c2], by rw [r1, c1], g1, by rw [s1, f1, c2]⟩

/-- the statement is not vacuous and not automatic: a copy that shares the list objects (what a
plain `dict.copy` of the underlying dict would be) is NOT independent - `copy.add(k, v)` on a key
that exists changes the original -/
theorem alias_copy_not_independent :
    let h : Heap Nat := [[1]]
    let o : Obj Nat := [(0, 0)]
    let w1 := aliasCopy h o
    let w2 := run w1.1 w1.2 [.op (.add 0 2)]
    abs w2.1 o ≠ abs h o := by
  decide

end CopyIndependence

/-! ## EnvironHeaders reflects the environ -/
section Environ
open Hdr PyDict EH

/-- the environ variable a header name is looked up under -/
def envName (key : Str) : Str :=
  let k := replaceCh '-' '_' (upper key)
  if special k then k else "HTTP_".toList ++ k

/-- The view has no state of its own: a lookup after the environ variable was set returns the new
value, and after it was deleted raises KeyError — for every environ and header name. -/
theorem environ_view_reflects (env : Env) (key v : Str) :
    EH.getKey (PyDict.set env (envName key) v) key = .ok v ∧
    (NodupKeys env → EH.getKey (PyDict.erase env (envName key)) key = .error "KeyError") := by
  have getKey_eq : ∀ e : Env, EH.getKey e key =
      (match PyDict.get? e (envName key) with | some v => .ok v | none => .error "KeyError") := by
    intro e; simp only [EH.getKey, envName]; rfl
  constructor
  · rw [getKey_eq]; unfold PyDict.get?; rw [lookup_set_self]
  · intro hn
    rw [getKey_eq]
    have : PyDict.get? (PyDict.erase env (envName key)) (envName key) = none := by
      unfold PyDict.get?
      rw [erase_eq_filter env _ hn]
      apply Option.not_isSome_iff_eq_none.1
      intro h
      have hm := (mem_keys_iff_lookup _ _).2 h
      simp only [PyDict.keys, List.mem_map, List.mem_filter] at hm
      obtain ⟨e, ⟨_, he⟩, heq⟩ := hm
      simp [heq] at he
    rw [this]

end Environ

end Wz.Props.C08
