/-
C04T — `NumberConverter.to_python` and `NumberConverter.to_url` of `werkzeug.routing.converters`
*as regenerated from the source* by `tools/py2lean.py` (`Gen/PyFns_Routing.lean`, rewritten on every
check run) agree, for all inputs, with the `int` converter of the hand-written routing model
(`Model/RoutingConv.lean` `toPython`, `Model/RoutingBuild.lean` `toUrl`). `self.num_convert` (`int`)
stays a parameter of the translated `to_python`; the theorem instantiates it with the model's
`intOfText`. Property theorems only (helper lemmas live in Lemmas/PyFns_Routing.lean).
-/
import WzVerif.Gen.PyFns_Routing
import WzVerif.Lemmas.PyFns_Routing
namespace Wz.Props.C04T
open Wz Wz.Pre Wz.Routing Wz.PyFnsRouting

/-- `NumberConverter.to_python(value)`, as translated from the current source (the `fixed_digits`
length check, `num_convert`, the `min` / `max` bounds, `ValidationError`), with `num_convert` read as
the model's `intOfText`, returns the model's `toPython` for the `int` converter - `ValidationError`
exactly where the model answers `none` - for every `fixed_digits`, `min`, `max` and every text. -/
theorem number_to_python_eq (fixed : Nat) (signed : Bool) (mn mx : Option Int) (s : List Char) :
    Gen.PyFns_Routing.number_to_python (fun t => .ok (intOfText t)) (fixed : Int) mn mx s
      = match toPython (.int fixed signed mn mx) s with
        | some (.int v) => .ok v
        | _ => .error "ValidationError" := by
  unfold Gen.PyFns_Routing.number_to_python toPython
  by_cases h : (fixed ≠ 0 ∧ s.length ≠ fixed)
  · have h1 : ((fixed : Int) == 0) = false := by simp; omega
    have h2 : ((Int.ofNat s.length) == (fixed : Int)) = false := by simp; omega
    simp only [h1, h2, Bool.not_false, Bool.and_self, if_true]
    simp [h]
  · have h3 : ((!((fixed : Int) == 0)) && (!((Int.ofNat s.length) == (fixed : Int)))) = false := by
      by_cases hf : fixed = 0
      · simp [hf]
      · have : s.length = fixed := by
          by_cases hs : s.length = fixed
          · exact hs
          · exact absurd ⟨hf, hs⟩ h
        simp [this]
    simp only [h3, Bool.false_eq_true, if_false, h]
    cases mn <;> cases mx <;> simp <;> (repeat' split) <;> simp_all <;> omega

/-- `NumberConverter.to_url(value)` for an `int` value, as translated from the current source
(`str(int(value))`, `zfill(fixed_digits)` when `fixed_digits` is set), is what the model's `toUrl`
returns for the `int` converter, for every `fixed_digits` and every integer. -/
theorem number_to_url_eq (fixed : Nat) (signed : Bool) (mn mx : Option Int) (i : Int) :
    toUrl (.int fixed signed mn mx) (.int i)
      = .ok (Gen.PyFns_Routing.number_to_url (fixed : Int) i) := by
  unfold Gen.PyFns_Routing.number_to_url toUrl
  by_cases hf : fixed = 0
  · subst hf; simp [Pre.strOfInt]
  · have h1 : ((fixed : Int) == 0) = false := by simp; omega
    have hz := zfill_eq fixed (Pre.strOfInt i) (strOfInt_head i)
    simp only [h1, Bool.not_false, if_true, id, hz, hf, ne_eq, not_false_eq_true]
    rfl

example : Gen.PyFns_Routing.number_to_url 4 (-7) = "-007".toList := by decide
example : (Gen.PyFns_Routing.number_to_python (fun t => .ok (intOfText t)) 0 (some 1) none
    "0".toList).toOption = none := by decide

end Wz.Props.C04T
