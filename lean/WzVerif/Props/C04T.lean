/-
C04T — `NumberConverter.to_python` and `NumberConverter.to_url` of `werkzeug.routing.converters`
*as regenerated from the source* by `tools/py2lean.py` (`Gen/PyFns_Routing.lean`, rewritten on every
check run) agree, for all inputs, with the `int` converter of the hand-written routing model
(`Model/RoutingConv.lean` `toPython`, `Model/RoutingBuild.lean` `toUrl`). `self.num_convert` (`int`)
stays a parameter of the translated `to_python`; the theorem instantiates it with the model's
`intOfText`. Property theorems only (helper lemmas live in Lemmas/PyFns_Routing.lean).
-/
import WzVerif.Gen.PyFns_Routing
import WzVerif.Lemmas.PyFns_Routing
import WzVerif.Lemmas.PyFnsEq_Conv
namespace Wz.Props.C04T
open Wz Wz.Pre Wz.Routing Wz.PyFnsRouting Wz.Gen.PyFns_Routing Wz.PyFnsEq.Conv

/-- `NumberConverter.to_python(value)`, as translated from the current source (the `fixed_digits`
length check, `num_convert`, the `min` / `max` bounds, `ValidationError`), with `num_convert` read as
the model's `intOfText`, returns the model's `toPython` for the `int` converter - `ValidationError`
exactly where the model answers `none` - for every `fixed_digits`, `min`, `max` and every text. -/
theorem number_to_python_eq (fixed : Nat) (signed : Bool) (mn mx : Option Int) (s : List Char) :
    Gen.PyFns_Routing.number_to_python (fun t => .ok (intOfText t)) (fixed : Int) mn mx s
      = match toPython (.int fixed signed mn mx) s with
        | some (.int v) => .ok v
        | _ => .error "ValidationError" := by
  unfold Gen.PyFns_Routing.number_to_python toPython
  by_cases h : (fixed ≠ 0 ∧ s.length ≠ fixed)
  · have h1 : ((fixed : Int) == 0) = false := by simp; omega
    have h2 : ((Int.ofNat s.length) == (fixed : Int)) = false := by simp; omega
    simp only [h1, h2, Bool.not_false, Bool.and_self, if_true]
    simp [h]
  · have h3 : ((!((fixed : Int) == 0)) && (!((Int.ofNat s.length) == (fixed : Int)))) = false := by
      by_cases hf : fixed = 0
      · simp [hf]
      · have : s.length = fixed := by
          by_cases hs : s.length = fixed
          · exact hs
          · exact absurd ⟨hf, hs⟩ h
        simp [this]
    simp only [h3, Bool.false_eq_true, if_false, h]
    cases mn <;> cases mx <;> simp <;> (repeat' split) <;> simp_all <;> omega

/-- `NumberConverter.to_url(value)` for an `int` value, as translated from the current source
(`str(int(value))`, `zfill(fixed_digits)` when `fixed_digits` is set), is what the model's `toUrl`
returns for the `int` converter, for every `fixed_digits` and every integer. -/
theorem number_to_url_eq (fixed : Nat) (signed : Bool) (mn mx : Option Int) (i : Int) :
    toUrl (.int fixed signed mn mx) (.int i)
      = .ok (Gen.PyFns_Routing.number_to_url (fixed : Int) i) := by
  unfold Gen.PyFns_Routing.number_to_url toUrl
  by_cases hf : fixed = 0
  · subst hf; simp [Pre.strOfInt]
  · have h1 : ((fixed : Int) == 0) = false := by simp; omega
    have hz := zfill_eq fixed (Pre.strOfInt i) (strOfInt_head i)
    simp only [h1, Bool.not_false, if_true, id, hz, hf, ne_eq, not_false_eq_true]
    rfl

example : Gen.PyFns_Routing.number_to_url 4 (-7) = "-007".toList := by decide
example : (Gen.PyFns_Routing.number_to_python (fun t => .ok (intOfText t)) 0 (some 1) none
    "0".toList).toOption = none := by decide

/-! ### the other converters (translated in round 3; proofs in Lemmas/PyFnsEq_Conv.lean) -/

/-- `BaseConverter.to_python(value)`, as translated from the current source (`return value`), is what
the model's `toPython` answers for every converter whose class does not override it —
`UnicodeConverter` (`string` / `default`, any length options), `AnyConverter` (any items) and
`PathConverter`: the matched text itself, never a `ValidationError`. So for these converters the
regex alone decides whether a rule matches. -/
theorem base_to_python_eq (c : Routing.Conv) (s : List Char)
    (hc : InheritsBase c ∨ ∃ items, c = .any items) :
    toPython c s = some (.str (base_to_python s)) := by
  apply PyFnsEq.Conv.base_to_python_eq <;> assumption

/-- `BaseConverter.to_url(value)`, as translated from the current source
(`quote(str(value), safe="!$&'()*+,/:;=@")`), is the model's `quote pathSafe`: the `safe=` literal
written in `converters.py` is exactly the model's `pathSafe` (the WHATWG path-segment set), for every
text. A change of that literal in the source breaks this theorem. -/
theorem base_to_url_eq (s : List Char) : base_to_url s = Routing.quote Routing.pathSafe s := by
  apply PyFnsEq.Conv.base_to_url_eq <;> assumption

/-- What the model's `toUrl` answers for the converters inheriting `BaseConverter.to_url`
(`UnicodeConverter` with any length options, `PathConverter`) is the translated
`BaseConverter.to_url` applied to `str(value)` — for every value, in particular
`toUrl c (.str s) = .ok (base_to_url s)`: URL building percent-encodes the value with the safe set of
the source and never fails for these converters. -/
theorem base_to_url_toUrl (c : Routing.Conv) (hc : InheritsBase c) (v : Routing.Value) :
    toUrl c v = .ok (base_to_url (pyStr v)) := by
  apply PyFnsEq.Conv.base_to_url_toUrl <;> assumption

/-- The regex text the translated `UnicodeConverter.__init__` stores in `self.regex`
(`[^/]{length}`, or `[^/]{minlength,maxlength}` with an empty upper bound for `maxlength=None`) is the
model's `Conv.regexText` of the `string` converter, for all natural `minlength`, `maxlength`,
`length`: `length` wins over `minlength` / `maxlength`, exactly as in the model's `Conv.kind`. -/
theorem unicode_init_eq (mn : Nat) (mx len : Option Nat) :
    String.ofList (unicode_init () (mn : Int) (mx.map Int.ofNat) (len.map Int.ofNat))
      = (Routing.Conv.string mn mx len).regexText := by
  apply PyFnsEq.Conv.unicode_init_eq <;> assumption

/-- `AnyConverter.__init__` in one statement: the stored regex is the model's regex text and the stored
set has the membership of the model's item list -/
theorem any_init_eq (items : List (List Char)) :
    String.ofList (any_init () items).2 = (Routing.Conv.any items).regexText ∧
    (any_init () items).1 = Pre.frozenset items ∧
    ∀ s, (any_init () items).1.contains s = items.contains s := by
  apply PyFnsEq.Conv.any_init_eq <;> assumption

/-- `AnyConverter.to_url(value)` on any stored set with the membership of `items`: the model's
`toUrl (.any items)`. (The text `valid_values` built from `sorted(self.items)` only feeds the message
of the `ValueError`.) -/
theorem any_to_url_of_contains (self_items items : List (List Char)) (s : List Char)
    (h : self_items.contains s = items.contains s) :
    any_to_url self_items s = toUrl (.any items) (.str s) := by
  apply PyFnsEq.Conv.any_to_url_of_contains <;> assumption

/-- `AnyConverter.to_url(value)`, as translated from the current source, on the object the translated
`AnyConverter.__init__` builds from `items`, is the model's `toUrl (.any items)` for every item list
and every text: a value among the items is percent-encoded by `BaseConverter.to_url`, any other
value raises `ValueError` (so URL building with an `any` converter rejects values the rule could
never match). -/
theorem any_to_url_eq (items : List (List Char)) (s : List Char) :
    any_to_url (any_init () items).1 s = toUrl (.any items) (.str s) := by
  apply PyFnsEq.Conv.any_to_url_eq <;> assumption

/-- `NumberConverter.signed_regex`, as translated from the current source (`f"-?{self.regex}"`), is
the signed form of the model's number regex -/
theorem number_signed_regex_eq (cls : String) :
    String.ofList (number_signed_regex cls.toList) = numRegex cls true := by
  apply PyFnsEq.Conv.number_signed_regex_eq <;> assumption

/-- `NumberConverter.__init__`, as translated from the current source, on a class whose class-level
`regex` is `cls`: `self.regex` becomes `-?` + `cls` when `signed`, and stays `cls` otherwise; the
other attributes are the arguments. -/
theorem number_init_eq (cls : String) (fixed : Int) (mn mx : Option Int) (signed : Bool) :
    number_init cls.toList () fixed mn mx signed
      = ((numRegex cls signed).toList, fixed, mn, mx, signed) := by
  apply PyFnsEq.Conv.number_init_eq <;> assumption

/-- `IntegerConverter(map, fixed_digits, min, max, signed)`: the regex text the translated
`NumberConverter.__init__` stores, started from the class-level `IntegerConverter.regex` (`\d+`), is
the model's `Conv.regexText` of the `int` converter — `-?\d+` exactly when `signed` — and the stored
`fixed_digits`, `min`, `max`, `signed` are the fields of the model's `Conv.int`. -/
theorem number_init_int_eq (fixed : Nat) (mn mx : Option Int) (signed : Bool) :
    String.ofList (number_init (classRegex "int").toList () (fixed : Int) mn mx signed).1
        = (Routing.Conv.int fixed signed mn mx).regexText ∧
    (number_init (classRegex "int").toList () (fixed : Int) mn mx signed).2
        = ((fixed : Int), mn, mx, signed) := by
  apply PyFnsEq.Conv.number_init_int_eq <;> assumption

/-- `FloatConverter(map, min, max, signed)` (`fixed_digits` is not offered: `super().__init__` gets
the default `0`): the regex text the translated `NumberConverter.__init__` stores, started from the
class-level `FloatConverter.regex` (`\d+\.\d+`), is the model's `Conv.regexText` of the `float`
converter for any bounds `mn'`, `mx'` of the model (the model keeps float bounds as decimals, the
regex does not depend on them), and the stored attributes are the arguments. -/
theorem number_init_float_eq (fixed : Int) (mn mx : Option Int) (mn' mx' : Option Routing.Dec)
    (signed : Bool) :
    String.ofList (number_init (classRegex "float").toList () fixed mn mx signed).1
        = (Routing.Conv.float signed mn' mx').regexText ∧
    (number_init (classRegex "float").toList () fixed mn mx signed).2
        = (fixed, mn, mx, signed) := by
  apply PyFnsEq.Conv.number_init_float_eq <;> assumption


example : String.ofList (unicode_init () 2 none none) = "[^/]{2,}" := by decide

end Wz.Props.C04T
