/-
C15T3 — C15T continued: `EnvironBuilder._make_base_url` (`werkzeug/test.py`) *as regenerated from the
source* by `tools/py2lean.py` (`Gen/PyFns_BaseUrl.lean`, rewritten on every check run) equals the
hand-written `Url.makeBaseUrl` of `Model/UrlBuilder.lean`; `urlunsplit` (urllib) is a parameter,
instantiated with the model's.
-/
import WzVerif.Gen.PyFns_BaseUrl
import WzVerif.Model.UrlBuilder
namespace Wz.Props.C15T3
open Wz Wz.Gen.PyFns_BaseUrl

/-- `s.rstrip("/")` of the prelude is the model's `rstripSlash` -/
theorem rstrip_slash_eq (s : List Char) : Pre.rstripChars s ['/'] = Url.rstripSlash s := by
  unfold Pre.rstripChars Url.rstripSlash
  congr 2
  funext c
  simp only [List.contains, List.elem]
  cases (c == '/') <;> rfl

/-- `_make_base_url(scheme, host, script_root)`, as translated from the current source
(`urlunsplit((scheme, host, script_root, "", "")).rstrip("/") + "/"`), is the model's `makeBaseUrl`. -/
theorem make_base_url_eq (scheme host scriptRoot : List Char) :
    make_base_url (fun a b c d e => Url.urlunsplit { scheme := a, netloc := b, path := c, query := d, fragment := e })
        scheme host scriptRoot = Url.makeBaseUrl scheme host scriptRoot := by
  simp [make_base_url, Url.makeBaseUrl, rstrip_slash_eq]

end Wz.Props.C15T3
