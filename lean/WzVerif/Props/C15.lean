/-
C15 — URLs keep their meaning between IRI, URI, environ and request.
Property theorems only (helper lemmas live in Lemmas/Url.lean).
-/
import WzVerif.Model.Url
namespace Wz.Props.C15
open Wz Wz.Url

/-- Every safe set `iri_to_uri` passes to `quote` (collected from the AST on every run) contains
`%`: already quoted text is left alone (the premise of idempotence). -/
theorem iri_safe_sets_keep_percent : ∀ p ∈ Gen.UrlTables.iriSafeSets, p.2.contains '%' = true := by decide

end Wz.Props.C15
