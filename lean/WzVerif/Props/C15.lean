/-
C15 - URLs keep their meaning between IRI, URI, environ and request.
Property theorems only (helper lemmas live in Lemmas/Url*.lean).

Modelled (validated by the streams, tied by regenerated tables): urllib quote / unquote with werkzeug's
codec error handler, urlsplit / urlunsplit and the SplitResult attributes, iri_to_uri / uri_to_iri,
the latin-1 dances, EnvironBuilder (__init__ with every argument form, properties, get_environ,
from_environ), Request (path, root_path, host, args, full_path, url / base_url / root_url / host_url),
sansio get_host (Host header and the SERVER_NAME / SERVER_PORT fallback) / get_current_url,
wsgi.get_current_url, DispatcherMiddleware, ProxyFix.
Opaque (stated laws `HostLaws` / `AsciiHostLaws`, shown satisfiable): ipaddress validation of a bracketed
host, the NFKC test of `_checknetloc`, `hostname.lower()` + IDNA codec / `_decode_idna`;
`parse_list_header` (C06) for ProxyFix; `_urlencode` / `parse_qsl` are C02's model - its `unquote` is
proved equal to this property's (`unquote_models_agree`).

Repaired in /repo and kept as regression cases of stream iri-uri: F15a (`_decode_idna` leaves a
malformed `xn--` label as punycode, c7898ed), F15b (`[` `]` in the keep-quoted set of the userinfo,
319c4e1 - `keep_tables_cover_reserved`); F15d (899f28c) and F15e (16e16ac) are regression cases of
stream environ-kernel. Known findings with a negation witness:
* F15c (`environ_path_full_false`: urlsplit inside EnvironBuilder drops TAB/CR/LF) - the explicit
  exclusion of `environ_url_roundtrip`;
* F15f - REPAIRED in 18c1dce (`_quote_url_syntax`): `EnvironBuilder.from_environ` handed the DECODED
  PATH_INFO / SCRIPT_NAME to the URL-syntax parameters (`%XX` decoded once more, `#...` cut, `?`
  refused). It was a clause of the property - "a path ... given to the environ builder [is] recovered
  exactly by the request object": `from_environ` is an entry point of the environ builder and makes
  the quantifier's call `cls(path=, base_url=, query_string=)`. Now `from_environ_roundtrip` holds
  for every decoded path (F15c's TAB/CR/LF is the one exclusion left:
  `from_environ_roundtrip_needs_no_tab`) and `from_environ_f15f_regression` pins the former failing
  inputs; stream from-environ keeps them in its corpus.

Clause -> theorem map (property text, clause by clause):
* "IRI -> URI always yields pure ASCII": `quote_ascii`, `iriToUri_ascii`, `iriToUriText_ascii_idempotent`
* "is idempotent": `quote_idempotent` (+ `_not_idempotent_without_percent`), `iri_safe_sets_keep_percent`,
  `iriToUri_idempotent`, `iriToUri_idempotent_parts`, `iriToUriText_ascii_idempotent`
  (+ `iriToUriText_not_idempotent_without_host`)
* "undone by URI-to-IRI up to normalisation (each direction a fixpoint after one step)": `uriToIri_fixpoint`,
  `uriToIri_fixpoint_parts`, `iri_uri_iri`, `uriToIriText_fixpoint_and_roundtrip`
  (+ `uriToIri_fixpoint_needs_wellformed`)
* "component-specific reserved characters and invalid percent-escapes left quoted rather than
  reinterpreted": `keep_tables_cover_reserved`, `keep_tables_ok`, `keep_tables_are_always_unsafe_plus_extra`,
  `iri_safe_sets_respect_delimiters`, `current_url_safe_sets_respect_delimiters`,
  `current_url_quoting_is_lossless`, `parse_qsl_after_partial_unquote`
* "a path ... given to the environ builder [is] recovered (path)": `environ_url_roundtrip` (exclusions:
  `environ_url_roundtrip_exclusions_needed`, `environ_path_full_false` = F15c), `environ_path_roundtrip`,
  `dance_roundtrip`, `unquote_quote_inverse`; through `from_environ`: `from_environ_roundtrip`,
  `from_environ_f15f_regression` (F15f, repaired), `from_environ_roundtrip_needs_no_tab` (F15c)
* "query ... recovered (args)": `builder_args_roundtrip`, `builder_text_args`, `builder_query_forms`,
  `builder_path_and_query_refused`, `builder_str_form`, `urlencode_safe_ok`, `unquote_models_agree`
* "base URL ... recovered (host)": `environ_url_roundtrip` (host clause), `get_host_on_hostport`,
  `get_host_drops_only_default_port`, `get_host_tables_agree`, `get_host_server_fallback`,
  `get_host_server_table_agrees`, `builder_server_table_agrees`
* "(reconstructed URL)": `environ_url_roundtrip` / `environ_url_roundtrip_partial` (scheme, host, port,
  path component denotes root_path + path, query component denotes the query string),
  `environ_url_query_denotes_mapping` (the query component, parsed, IS the mapping),
  `environ_url_roundtrip_query_grammar_needed`, `request_url_family`, `url_root_denotes`,
  `wsgi_current_url_is_request_url`, `full_path_keeps_question_mark`
* "for all Unicode": every theorem above quantifies over `List Char` (Unicode scalar values)
* "path-dispatching middleware preserves the concatenation of script name and path info while choosing
  the longest matching mount": `dispatcher_preserves_concat`, `dispatcher_longest_mount`,
  `dispatcher_default_unchanged` (+ `dispatcher_default_needs_leading_slash`); ProxyFix (a middleware
  in front of the app): `proxyfix_preserves_path_info`, `proxyfix_prefix_replaces_script_name`,
  `proxyfix_scheme`, `proxyfix_nth_from_right`, `proxyfix_port_replaces`
* glue pinned to the source: `environ_entries_pinned`, `call_sites_pinned`, `proxyfix_writes_pinned`
Only stream-covered: the opaque IDNA / ipaddress / NFKC steps (laws stated, evaluated live per case),
`script_root` / `url_root` aliases, REQUEST_URI / RAW_URI / SERVER_NAME / SERVER_PORT of the environ.

All theorems listed in DESIGN.md for C15 (P0 and P1) are proved below; nothing is left OPEN:
`environ_url_roundtrip` starts at EnvironBuilder's ARGUMENTS, every exclusion has a necessity witness.
-/
import WzVerif.Lemmas.UrlStable
import WzVerif.Lemmas.UrlDenote
import WzVerif.Lemmas.UrlBuilder
import WzVerif.Lemmas.UrlBuilderForms
import WzVerif.Lemmas.UrlFamily
import WzVerif.Lemmas.UrlFamilySplit
import WzVerif.Lemmas.UrlFromEnviron
import WzVerif.Lemmas.UrlNoEscape
import WzVerif.Lemmas.UrlFromEnvironFix
import WzVerif.Lemmas.UrlQueryDenote
import WzVerif.Lemmas.UrlDispatch
import WzVerif.Lemmas.UrlProxyFix
import WzVerif.Model.UrlEnviron
import WzVerif.Model.UrlHostServer
import WzVerif.Gen.UrlGlue
namespace Wz.Props.C15
open Wz Wz.Url

/-- `urllib.parse.quote` produces pure ASCII for every input string and every safe set. -/
theorem quote_ascii (safe s : Str) : ∀ c ∈ quote safe s, c.toNat < 128 :=
  quoteBytes_ascii safe _

example : quote "/".toList "é /~".toList = "%C3%A9%20/~".toList := by decide

/-- `quote` is idempotent whenever `%` is in the safe set: already quoted text is left alone. -/
theorem quote_idempotent (safe s : Str) (h : safe.contains '%' = true) :
    quote safe (quote safe s) = quote safe s :=
  quote_idem h s

example : ("%!$&'()*+,/:;=@".toList).contains '%' = true := by decide

/-- Without `%` in the safe set the statement is false (so the hypothesis is needed): -/
theorem quote_not_idempotent_without_percent :
    quote "/".toList (quote "/".toList " ".toList) ≠ quote "/".toList " ".toList := by decide

/-- Every safe set `iri_to_uri` passes to `quote` (collected from the AST on every run) contains
`%` - the obligation a changed `safe=` literal breaks. -/
theorem iri_safe_sets_keep_percent : ∀ p ∈ Gen.UrlTables.iriSafeSets, p.2.contains '%' = true := by decide

/-- ... and none of them lets through a character that would end or change its component:
no `?`/`#` in the path set, no `#` in the query set, no `/?#@:` in the userinfo sets beyond what
the component allows (`:` is excluded from username and password). -/
theorem iri_safe_sets_respect_delimiters :
    (∀ c ∈ ['?', '#'], Gen.UrlTables.iriPathSafe.contains c = false) ∧
    Gen.UrlTables.iriQuerySafe.contains '#' = false ∧
    (∀ c ∈ ['/', '?', '#', '@', ':'], Gen.UrlTables.iriUserSafe.contains c = false ∧
      Gen.UrlTables.iriPasswordSafe.contains c = false) := by decide

/-- The safe sets `get_current_url` quotes the root path, the path and the query string with (AST,
every run) do not let through the delimiter that would end the component: no `?` / `#` in a path,
no `#` in the query - a decoded `?` in `Request.path` is re-quoted in `Request.url`. -/
theorem current_url_safe_sets_respect_delimiters :
    (∀ s ∈ [Gen.UrlTables.curRootSafe, Gen.UrlTables.curPathSafe],
      s.contains '?' = false ∧ s.contains '#' = false) ∧
    Gen.UrlTables.curQuerySafe.contains '#' = false := by
  decide

/-- `iri_to_uri` yields pure ASCII: every quoted component for every input, and the whole 5-tuple
handed to `urlunsplit` when the scheme and the (IDNA-encoded, opaque) host are ASCII. -/
theorem iriToUri_ascii (p : Parts) (hs : ∀ c ∈ p.scheme, c.toNat < 128) (hh : ∀ c ∈ p.host, c.toNat < 128) :
    let u := iriToUri p
    (∀ c ∈ u.scheme, c.toNat < 128) ∧ (∀ c ∈ u.netloc, c.toNat < 128) ∧ (∀ c ∈ u.path, c.toNat < 128) ∧
    (∀ c ∈ u.query, c.toNat < 128) ∧ (∀ c ∈ u.fragment, c.toNat < 128) := by
  refine ⟨hs, ?_, quote_ascii _ _, quote_ascii _ _, quote_ascii _ _⟩
  have hdig : ∀ k : Nat, ∀ c ∈ (toString k).toList, c.toNat < 128 := by
    intro k c hc
    rw [Nat.toString_eq_repr, Nat.toList_repr] at hc
    have := Char.isDigit_iff_toNat.mp (Nat.isDigit_of_mem_toDigits (by decide) (by decide) hc)
    have h9 : '9'.toNat = 57 := by decide
    omega
  intro c hc
  simp only [iriToUri, netloc] at hc
  have hhost : ∀ c ∈ (if p.host.contains ':' = true then '[' :: p.host ++ [']'] else p.host), c.toNat < 128 := by
    intro c hc
    split at hc
    · simp only [List.cons_append, List.mem_cons, List.mem_append, List.mem_nil_iff, or_false] at hc
      rcases hc with rfl | hc | rfl
      · decide
      · exact hh c hc
      · decide
    · exact hh c hc
  have hport : ∀ c ∈ (match p.port with
      | some 0 => (if p.host.contains ':' = true then '[' :: p.host ++ [']'] else p.host)
      | some k => (if p.host.contains ':' = true then '[' :: p.host ++ [']'] else p.host) ++ ':' :: (toString k).toList
      | none => (if p.host.contains ':' = true then '[' :: p.host ++ [']'] else p.host)), c.toNat < 128 := by
    intro c hc
    split at hc
    · exact hhost c hc
    · rcases List.mem_append.mp hc with hc | hc
      · exact hhost c hc
      · rcases List.mem_cons.mp hc with rfl | hc
        · decide
        · exact hdig _ c hc
    · exact hhost c hc
  split at hc
  · rcases List.mem_append.mp hc with hc | hc
    · split at hc
      · rcases List.mem_append.mp hc with hc | hc
        · exact quote_ascii _ _ c hc
        · rcases List.mem_cons.mp hc with rfl | hc
          · decide
          · exact quote_ascii _ _ c hc
      · exact quote_ascii _ _ c hc
    · rcases List.mem_cons.mp hc with rfl | hc
      · decide
      · exact hport c hc
  · exact hport c hc

example :
    iriToUri
      { scheme := "http".toList
        username := some "ü".toList
        host := "xn--n3h.net".toList
        port := some 8080
        path := "/på th".toList
        query := "q=è%DF".toList } =
      { scheme := "http".toList
        netloc := "%C3%BC@xn--n3h.net:8080".toList
        path := "/p%C3%A5%20th".toList
        query := "q=%C3%A8%DF".toList
        fragment := [] } := by decide

/-- `iri_to_uri` is idempotent component-wise: re-quoting any component it produced (path, query,
fragment, username, password) with the same safe set changes nothing. -/
theorem iriToUri_idempotent (s : Str) :
    ∀ p ∈ Gen.UrlTables.iriSafeSets, quote p.2 (quote p.2 s) = quote p.2 s :=
  fun p hp => quote_idempotent p.2 s (iri_safe_sets_keep_percent p hp)

/-- in particular for the three components that travel unchanged through `urlunsplit`/`urlsplit` -/
theorem iriToUri_idempotent_parts (p : Parts) :
    let u := iriToUri p
    (iriToUri { p with path := u.path, query := u.query, fragment := u.fragment }).path = u.path ∧
    (iriToUri { p with path := u.path, query := u.query, fragment := u.fragment }).query = u.query ∧
    (iriToUri { p with path := u.path, query := u.query, fragment := u.fragment }).fragment = u.fragment := by
  refine ⟨?_, ?_, ?_⟩
  · exact quote_idempotent _ _ (by decide)
  · exact quote_idempotent _ _ (by decide)
  · exact quote_idempotent _ _ (by decide)

/-! ### on whole URL text (urlsplit / urlunsplit modelled, IDNA opaque with stated laws) -/

/-- an instance of the opaque parameters that satisfies the laws (hosts that are plain ASCII text
are their own IDNA form): shows the hypotheses below are satisfiable -/
def plainOpaque : UrlOpaque :=
  { bracketOk := fun _ => true, nfkcOk := fun _ => true,
    hostToAscii := fun h => if !h.isEmpty && h.all (fun c => hostChar c && decide (c.toNat < 128)) then some h else none,
    hostToUnicode := fun h => if !h.isEmpty && h.all (fun c => hostChar c && decide (c.toNat < 128)) then some h else none }

example : AsciiHostLaws plainOpaque := by
  refine ⟨?_, ?_, fun _ _ _ _ => rfl⟩
  · intro h r hr
    simp only [plainOpaque] at hr
    split at hr
    · rename_i hc
      cases hr
      simp only [Bool.and_eq_true, Bool.not_eq_true', List.all_eq_true, decide_eq_true_eq] at hc
      exact ⟨by intro e; simp [e] at hc, fun c hcm => hc.2 c hcm⟩
    · cases hr
  · intro h r hr
    simp only [plainOpaque] at hr ⊢
    split at hr
    · rename_i hc; cases hr; simp [hc]
    · cases hr

example : InGrammar plainOpaque "http://üser:pw@example.com:8080/på th?q=è#f".toList :=
  ⟨⟨"http".toList, "üser:pw@example.com:8080".toList, "/på th".toList, "q=è".toList, "f".toList⟩,
    by rfl, by decide, by decide⟩

example : (iriToUriText plainOpaque "HTTP://üser:pw@example.com:8080/på th?q=è#f".toList).toOption
    = some "http://%C3%BCser:pw@example.com:8080/p%C3%A5%20th?q=%C3%A8#f".toList := by decide

/-- **`iri_to_uri` on URL text** (urlsplit, netloc assembly and urlunsplit included): for every URL
of the grammar - it splits, has a scheme and a host - the result is pure ASCII and converting it
again changes nothing, under the laws assumed of the opaque `hostname.lower()` + IDNA step
(its output is non-empty ASCII host text, is its own image, and passes the bracket check when it
is an IPv6 literal). -/
theorem iriToUriText_ascii_idempotent (o : UrlOpaque) (laws : AsciiHostLaws o) (url r : Str)
    (hg : InGrammar o url) (h : iriToUriText o url = .ok r) :
    (∀ c ∈ r, c.toNat < 128) ∧ iriToUriText o r = .ok r :=
  ⟨iriToUriText_ascii laws hg h, iriToUriText_idem laws hg h⟩

theorem plainOpaque_spec (h r : Str) :
    (plainOpaque.hostToAscii h = some r ∨ plainOpaque.hostToUnicode h = some r) →
    r = h ∧ r ≠ [] ∧ (∀ c ∈ r, hostChar c = true) ∧ plainOpaque.hostToAscii r = some r ∧
      plainOpaque.hostToUnicode r = some r := by
  intro hr
  have key : (if (!h.isEmpty && h.all (fun c => hostChar c && decide (c.toNat < 128))) = true then some h else none)
      = some r := by
    rcases hr with hr | hr <;> simpa [plainOpaque] using hr
  split at key
  · rename_i hc
    cases key
    refine ⟨rfl, ?_, ?_, by simp only [plainOpaque]; rw [if_pos hc], by simp only [plainOpaque]; rw [if_pos hc]⟩
    · intro e; simp [e] at hc
    · simp only [Bool.and_eq_true, Bool.not_eq_true', List.all_eq_true, decide_eq_true_eq] at hc
      exact fun c hcm => (hc.2 c hcm).1
  · cases key

/-- the laws assumed of the opaque host conversions are satisfiable -/
theorem plainOpaque_hostLaws : HostLaws plainOpaque := by
  refine ⟨?_, ?_, ?_, ?_, ?_, fun _ _ _ _ => rfl, fun _ _ _ _ => rfl, fun _ => rfl⟩
  · intro h r hr; have := plainOpaque_spec h r (Or.inl hr); exact ⟨this.2.1, this.2.2.1⟩
  · intro h r hr; have := plainOpaque_spec h r (Or.inr hr); exact ⟨this.2.1, this.2.2.1⟩
  · intro h r hr; exact (plainOpaque_spec h r (Or.inr hr)).2.2.2.2
  · intro h r hr
    have := plainOpaque_spec h r (Or.inr hr)
    exact ⟨r, this.2.2.2.1, this.2.2.2.2⟩
  · intro h a ha
    have := plainOpaque_spec h a (Or.inl ha)
    exact ⟨a, this.2.2.2.2⟩

/-- Outside the grammar (no host) the text-level statement is false - the known `urlunsplit` quirk
for paths that start with `//`: `iri_to_uri("p:////")` is `"p://"`, whose image is `"p:"`. -/
theorem iriToUriText_not_idempotent_without_host :
    (iriToUriText plainOpaque "p:////".toList).toOption = some "p://".toList ∧
    (iriToUriText plainOpaque "p://".toList).toOption = some "p:".toList := by decide

/-- **Known finding F15c, as a theorem about the model**: `EnvironBuilder(path="/a\tb")` does not
hand the path through - `urlsplit`, which it applies to its `path` argument, deletes TAB (likewise
CR, LF), so `Request.path` is `"/ab"`. -/
theorem environ_path_full_false :
    (((builderEnviron plainOpaque "/a\tb".toList "http://localhost/".toList []).bind
      (requestView plainOpaque)).toOption.map (fun r => r.path)) = some "/ab".toList := by decide

/-- Former finding F15d (repaired in /repo, 899f28c: `%` is no longer in the safe sets for the
already-unquoted `root_path` / `path`): a literal `%41` in the path (request target `/%2541`) is now
re-quoted, `Request.url` denotes `Request.path` again. -/
example :
    (((builderEnviron plainOpaque "/%2541".toList "http://localhost/".toList []).bind
      (requestView plainOpaque)).toOption.map (fun r => (r.path, r.url)))
      = some ("/%41".toList, "http://localhost/%2541".toList) := by decide


/-- `%` (0x25) and every C0 control, SP and DEL stay quoted in every component of `uri_to_iri`, and
each component keeps its own delimiters quoted (tables evaluated from the live compiled patterns):
path `/?#`, query `&=+#`, userinfo `:@/?#[]` - the brackets included, so that unquoting can never
produce a netloc that `urlsplit` reads as an (invalid) IPv6 literal (former finding F15b). -/
theorem keep_tables_cover_reserved :
    (∀ n ∈ Gen.UrlTables.alwaysUnsafe, tbl Gen.UrlTables.keepPath n = true ∧
      tbl Gen.UrlTables.keepQuery n = true ∧ tbl Gen.UrlTables.keepFragment n = true ∧
      tbl Gen.UrlTables.keepUser n = true) ∧
    (∀ n, n ≤ 0x20 ∨ n = 0x25 ∨ n = 0x7f → n ∈ Gen.UrlTables.alwaysUnsafe) ∧
    (∀ c ∈ ['/', '?', '#'], tbl Gen.UrlTables.keepPath c.toNat = true) ∧
    (∀ c ∈ ['&', '=', '+', '#'], tbl Gen.UrlTables.keepQuery c.toNat = true) ∧
    (∀ c ∈ [':', '@', '/', '?', '#', '[', ']'], tbl Gen.UrlTables.keepUser c.toNat = true) := by
  refine ⟨by decide, ?_, by decide, by decide, by decide⟩
  intro n hn
  have : n < 128 := by omega
  revert hn
  revert n
  decide

/-- The four keep tables of `uri_to_iri` (evaluated from the live patterns) keep `%` quoted and keep
no byte ≥ 0x80 - what the fixpoint argument needs of them. -/
theorem keep_tables_ok :
    KeepOK Gen.UrlTables.keepPath ∧ KeepOK Gen.UrlTables.keepQuery ∧
    KeepOK Gen.UrlTables.keepFragment ∧ KeepOK Gen.UrlTables.keepUser := by
  have h : ∀ t : List Bool, tbl t 0x25 = true → (∀ n, n < 256 → 128 ≤ n → tbl t n = false) → KeepOK t :=
    fun t h1 h2 => ⟨h1, fun n hn hl => h2 n hl hn⟩
  exact ⟨h _ (by decide) (by decide +kernel), h _ (by decide) (by decide +kernel),
    h _ (by decide) (by decide +kernel), h _ (by decide) (by decide +kernel)⟩

/-- **`uri_to_iri` is a fixpoint after one step**, component-wise: on text whose every `%` starts a
two-hex-digit escape (the property's `%XX` grammar - valid UTF-8, invalid bytes and reserved
characters alike), applying a component's partial unquoter to its own output changes nothing:
decoded characters stay, kept escapes stay, re-quoted undecodable bytes are undecodable again. -/
theorem uriToIri_fixpoint (s : Str) (hs : wellFormed s = true) :
    unquotePartial Gen.UrlTables.keepPath (unquotePartial Gen.UrlTables.keepPath s)
      = unquotePartial Gen.UrlTables.keepPath s ∧
    unquotePartial Gen.UrlTables.keepQuery (unquotePartial Gen.UrlTables.keepQuery s)
      = unquotePartial Gen.UrlTables.keepQuery s ∧
    unquotePartial Gen.UrlTables.keepFragment (unquotePartial Gen.UrlTables.keepFragment s)
      = unquotePartial Gen.UrlTables.keepFragment s ∧
    unquotePartial Gen.UrlTables.keepUser (unquotePartial Gen.UrlTables.keepUser s)
      = unquotePartial Gen.UrlTables.keepUser s :=
  ⟨unquotePartial_fix keep_tables_ok.1 s hs, unquotePartial_fix keep_tables_ok.2.1 s hs,
   unquotePartial_fix keep_tables_ok.2.2.1 s hs, unquotePartial_fix keep_tables_ok.2.2.2 s hs⟩

example : wellFormed "a%2Fb%C3%A9%FF%41%e2%82".toList = true := by decide

/-- in terms of the split URL: the three components that travel unchanged through
`urlunsplit` / `urlsplit` are fixed by a second `uri_to_iri` -/
theorem uriToIri_fixpoint_parts (p : Parts) (hp : wellFormed p.path = true)
    (hq : wellFormed p.query = true) (hf : wellFormed p.fragment = true) :
    let i := uriToIri p
    (uriToIri { p with path := i.path, query := i.query, fragment := i.fragment }).path = i.path ∧
    (uriToIri { p with path := i.path, query := i.query, fragment := i.fragment }).query = i.query ∧
    (uriToIri { p with path := i.path, query := i.query, fragment := i.fragment }).fragment = i.fragment :=
  ⟨(uriToIri_fixpoint p.path hp).1, (uriToIri_fixpoint p.query hq).2.1,
   (uriToIri_fixpoint p.fragment hf).2.2.1⟩

/-- **IRI → URI → IRI is stable after one round** ("undone by URI-to-IRI up to normalisation"):
for every component text `s` of the `%XX` grammar, with `u = quote(s, safe)` what `iri_to_uri` makes
of it and `x = _unquote_partial(u)` the normalised IRI component, converting `x` to a URI and back
gives `x` again - for each pairing of `iri_to_uri`'s safe set with `uri_to_iri`'s keep table
(path, query, fragment, userinfo). -/
theorem iri_uri_iri (s : Str) (hs : wellFormed s = true) :
    (let x := unquotePartial Gen.UrlTables.keepPath (quote Gen.UrlTables.iriPathSafe s)
     unquotePartial Gen.UrlTables.keepPath (quote Gen.UrlTables.iriPathSafe x) = x) ∧
    (let x := unquotePartial Gen.UrlTables.keepQuery (quote Gen.UrlTables.iriQuerySafe s)
     unquotePartial Gen.UrlTables.keepQuery (quote Gen.UrlTables.iriQuerySafe x) = x) ∧
    (let x := unquotePartial Gen.UrlTables.keepFragment (quote Gen.UrlTables.iriFragmentSafe s)
     unquotePartial Gen.UrlTables.keepFragment (quote Gen.UrlTables.iriFragmentSafe x) = x) ∧
    (let x := unquotePartial Gen.UrlTables.keepUser (quote Gen.UrlTables.iriUserSafe s)
     unquotePartial Gen.UrlTables.keepUser (quote Gen.UrlTables.iriUserSafe x) = x) ∧
    (let x := unquotePartial Gen.UrlTables.keepUser (quote Gen.UrlTables.iriPasswordSafe s)
     unquotePartial Gen.UrlTables.keepUser (quote Gen.UrlTables.iriPasswordSafe x) = x) := by
  have key : ∀ (safe : Str) (keep : List Bool) (hp : safe.contains '%' = true) (hk : KeepOK keep),
      unquotePartial keep (quote safe (unquotePartial keep (quote safe s)))
        = unquotePartial keep (quote safe s) := by
    intro safe keep hp hk
    apply unquotePartial_quote_stable hp hk _ (wellFormed_quote hp s hs)
    intro c hc
    obtain ⟨b, _, hb⟩ := List.mem_flatMap.mp hc
    exact quoteByte_fixed hp b c hb
  exact ⟨key _ _ (by decide) keep_tables_ok.1, key _ _ (by decide) keep_tables_ok.2.1,
    key _ _ (by decide) keep_tables_ok.2.2.1, key _ _ (by decide) keep_tables_ok.2.2.2,
    key _ _ (by decide) keep_tables_ok.2.2.2⟩

example : unquotePartial Gen.UrlTables.keepPath (quote Gen.UrlTables.iriPathSafe "/é %41%2F%FF".toList)
    = "/é%20A%2F%FF".toList := by decide

/-- Outside that grammar the statement is false - a bare `%` can combine with a decoded digit
(`uri_to_iri("%%34%31") = "%41"`, whose image is `"A"`): -/
theorem uriToIri_fixpoint_needs_wellformed :
    unquotePartial Gen.UrlTables.keepPath (unquotePartial Gen.UrlTables.keepPath "%%34%31".toList)
      ≠ unquotePartial Gen.UrlTables.keepPath "%%34%31".toList := by decide

/-- a kept escape is copied verbatim by `_unquote_partial` (here: a quoted slash in a path) -/
example : unquotePartial Gen.UrlTables.keepPath "a%2Fb%C3%A9%FF%41".toList = "a%2Fbé%FFA".toList := by decide

/-- **`uri_to_iri` is a fixpoint after one step, and IRI → URI → IRI is stable after one round, on
whole URL text** (urlsplit, netloc re-assembly, port and userinfo handling, urlunsplit included): for
every URL of the grammar whose text components are `%XX`-well-formed and whose userinfo carries no
raw delimiter, under the laws assumed of the opaque host conversions (`HostLaws`). With
`n = uri_to_iri(iri_to_uri(url))`: `uri_to_iri(iri_to_uri(n)) = n`. -/
theorem uriToIriText_fixpoint_and_roundtrip (o : UrlOpaque) (laws : HostLaws o) (url : Str) (sp : Split)
    (g : InGrammarU o url sp) :
    (∀ r, uriToIriText o url = .ok r → uriToIriText o r = .ok r) ∧
    (∀ u1, iriToUriText o url = .ok u1 →
      ∃ n u3, uriToIriText o u1 = .ok n ∧ iriToUriText o n = .ok u3 ∧ uriToIriText o u3 = .ok n) :=
  ⟨fun _ h => uriToIriText_fix laws keep_tables_ok g h,
   fun _ h => iri_uri_iri_text laws keep_tables_ok g h⟩

example : InGrammarU plainOpaque "http://us%40er:pw@example.com:8080/p%C3%A5%2Fth?q=%FF#f".toList
    ⟨"http".toList, "us%40er:pw@example.com:8080".toList, "/p%C3%A5%2Fth".toList, "q=%FF".toList, "f".toList⟩ := by
  refine ⟨by rfl, by decide, by decide, ?_, ?_, by decide, by decide, by decide⟩
  · intro u hu
    have : u = "us%40er".toList := by
      have h : truthy (userinfo "us%40er:pw@example.com:8080".toList).1 = some "us%40er".toList := by decide
      rw [h] at hu; exact (Option.some.inj hu).symm
    subst this; exact ⟨by decide, by decide⟩
  · intro pw hpw
    have : pw = "pw".toList := by
      have h : truthy (userinfo "us%40er:pw@example.com:8080".toList).2 = some "pw".toList := by decide
      rw [h] at hpw; exact (Option.some.inj hpw).symm
    subst this; exact ⟨by decide, by decide⟩

example : (uriToIriText plainOpaque "http://us%40er:pw@example.com:8080/p%C3%A5%2Fth?q=%FF#f".toList).toOption
    = some "http://us%40er:pw@example.com:8080/på%2Fth?q=%FF#f".toList := by decide

/-- `get_current_url` quotes the (already unquoted) root path and path with safe sets that do not
contain `%` (repair 899f28c), so what it quotes decodes back exactly - for EVERY text, a literal
percent sign included; and fully unquoting what `uri_to_iri` leaves partially quoted gives the same
characters as fully unquoting the input (`%XX` grammar, any of the four keep tables). -/
theorem current_url_quoting_is_lossless :
    (∀ s : Str, unquote (quote Gen.UrlTables.curRootSafe s) = s ∧ unquote (quote Gen.UrlTables.curPathSafe s) = s) ∧
    (∀ u : Str, wellFormed u = true →
      unquote (unquotePartial Gen.UrlTables.keepPath u) = unquote u ∧
      unquote (unquotePartial Gen.UrlTables.keepQuery u) = unquote u) :=
  ⟨fun s => ⟨unquote_quote_all cur_no_pct.1 s, unquote_quote_all cur_no_pct.2 s⟩,
   fun u hu => ⟨unquote_unquotePartial keep_tables_ok.1 u hu, unquote_unquotePartial keep_tables_ok.2.1 u hu⟩⟩

example : unquote (quote Gen.UrlTables.curPathSafe "/100%41 é?#".toList) = "/100%41 é?#".toList := by decide

/-- **`environ_url_roundtrip` - from the builder's ARGUMENTS to the request.** For every
`EnvironBuilder(path=p, base_url=scheme://host[:port]root, query_string=qs)` with
* `p` a URL path of the property's domain (`PathArg`: starts with exactly one `/` - "paths not
  starting with '//'" -, no `?` / `#`, no TAB / CR / LF - known finding F15c) without `%` (a `%XX` in the
  path argument is an escape, not text),
* a base URL of the grammar (`BaseArg`: valid lower-case scheme, any host text the opaque IDNA step
  accepts - ASCII, IDN, IPv4, IPv6 -, any port ≤ 65535, a root path without `?` / `#` / `%`),
* any Unicode query string whose `%` all start `%XX` escapes,
under the stated laws of the opaque host conversions: the environ is built; `Request.path` is exactly
`p`; `Request.root_path` is the root without trailing slashes; `Request.host` is the IDNA host with
the port, the scheme's default port dropped and nothing else; `Request.url` splits back into the
scheme, the decoded host (`hu`, which the laws guarantee to exist) with that port, a path component
that denotes `root_path + path`, a query component that denotes what the query string denotes, and no
fragment.
(`urlsplit(path)`, both `iri_to_uri` calls, the `base_url` setter, `_path_encode`, the dances,
`Request.__init__`, `get_host`, `get_current_url` / `uri_to_iri` are all inside the model.) -/
theorem environ_url_roundtrip (o : UrlOpaque) (laws : HostLaws o)
    (scheme h ha root p qs : Str) (port : Option Nat)
    (b : BaseArg o scheme h port root) (hp : PathArg p) (hpp : '%' ∉ p) (hrp : '%' ∉ root)
    (hq : wellFormed (quoteBytes Gen.UrlTables.curQuerySafe (utf8Enc qs)) = true)
    (hconv : o.hostToAscii h = some ha) :
    ∃ e rv t hu, builderEnviron o p (baseText scheme h port root) qs = .ok e ∧ requestView o e = .ok rv ∧
      rv.path = p ∧ rv.rootPath = rstripSlash root ∧
      rv.host = hostBr ha ++ portText (dropDefaultPort scheme port) ∧
      urlsplit o rv.url = .ok t ∧ t.scheme = scheme ∧ o.hostToUnicode ha = some hu ∧
      t.netloc = hostBr hu ++ portText (dropDefaultPort scheme port) ∧
      unquote t.path = rstripSlash root ++ p ∧
      unquote t.query = unquote (quote Gen.UrlTables.curQuerySafe qs) ∧ t.fragment = [] := by
  obtain ⟨hu, hconvu⟩ := laws.u_of_a _ _ hconv
  obtain ⟨e, rv, t, h1, h2, h3, h4, h5, h6, h7, h8, h9, h10, h11⟩ :=
    builder_request_roundtrip laws keep_tables_ok b hp hpp hrp hq hconv hconvu
  exact ⟨e, rv, t, hu, h1, h2, h3, h4, h5, h6, h7, hconvu, h8, h9, h10, h11⟩

example : BaseArg plainOpaque "https".toList "example.com".toList (some 443) "/ap p/é/".toList :=
  ⟨⟨by decide, by decide, by unfold noTab; decide⟩, by decide, by decide, by intro k hk; cases hk; decide,
    by decide, by decide, by decide, by decide, by unfold noTab; decide⟩
example : PathArg "/é x/日本;v=1".toList :=
  ⟨by decide, by decide, by decide, by decide, by unfold noTab; decide⟩
example : baseText "https".toList "example.com".toList (some 443) "/ap p/é/".toList
    = "https://example.com:443/ap p/é/".toList := by decide
example : (((builderEnviron plainOpaque "/é x/日本;v=1".toList "https://example.com:443/ap p/é/".toList
      "q=é&x=%41".toList).bind (requestView plainOpaque)).toOption.map
        (fun r => (r.path, r.rootPath, r.host, r.url)))
    = some ("/é x/日本;v=1".toList, "/ap p/é".toList, "example.com".toList,
        "https://example.com/ap%20p/é/é%20x/日本;v=1?q=é&x=A".toList) := by decide

/-- **Every exclusion of `environ_url_roundtrip` is needed** (the model run on the excluded input):
a path starting with `//` loses its first segment (it is read as an authority); `#` cuts the path
(fragment); `?` next to a `query_string` argument is refused; a `%XX` in the path or in the base
URL's path is an escape and comes back decoded; (TAB / CR / LF: `environ_path_full_false`, F15c). -/
theorem environ_url_roundtrip_exclusions_needed :
    let run := fun (p base : String) =>
      ((builderEnviron plainOpaque p.toList base.toList []).bind (requestView plainOpaque)).toOption.map
        (fun r => (String.ofList r.rootPath, String.ofList r.path))
    run "//x/y" "http://localhost/" = some ("", "/y") ∧
    run "/a#b" "http://localhost/" = some ("", "/a") ∧
    run "/a?b" "http://localhost/" = none ∧
    run "/%41" "http://localhost/" = some ("", "/A") ∧
    run "/p" "http://localhost/%41/" = some ("/A", "/p") := by decide

/-- ... and so is the `%XX` grammar of the query string for the clause about the query component:
for `%%34%31` the URL's query reads `%41`, which denotes `A`, not what the query string denotes. -/
theorem environ_url_roundtrip_query_grammar_needed :
    (((builderEnviron plainOpaque "/".toList "http://localhost/".toList "%%34%31".toList).bind
      (requestView plainOpaque)).toOption.map (fun r => r.url)) = some "http://localhost/?%41".toList ∧
    unquote "%41".toList ≠ unquote (quote Gen.UrlTables.curQuerySafe "%%34%31".toList) := by decide

/-- **`environ_url_roundtrip_partial` - the request side.** For an environ whose SCRIPT_NAME,
PATH_INFO and QUERY_STRING are the latin-1 dances of `root`, `p` and `qs` (what `EnvironBuilder`
and a WSGI server put there), with a valid scheme and a URI-form host without userinfo that
`get_host` leaves alone: `Request.url` is produced; it splits back into the scheme, the decoded host
with the same port, no fragment; its path component denotes exactly `Request.root_path +
Request.path`, and its query component denotes what the query string denotes - for every Unicode
path (literal `%`, `?`, `#` included), under the stated laws of the opaque host conversions. -/
theorem environ_url_roundtrip_partial (o : UrlOpaque) (laws : HostLaws o)
    (scheme ha hu root p qs : Str) (port : Option Nat)
    (ci : CurInput o scheme ha port (rstripSlash root) (utf8Enc qs)) (hconv : o.hostToUnicode ha = some hu)
    (hgh : getHost scheme (hostBr ha ++ portText port) = hostBr ha ++ portText port) :
    ∃ rv t, requestView o (danceEnviron scheme (hostBr ha ++ portText port) root p qs) = .ok rv ∧
      rv.path = '/' :: lstripSlash p ∧ rv.rootPath = rstripSlash root ∧
      urlsplit o rv.url = .ok t ∧ t.scheme = scheme ∧ t.netloc = hostBr hu ++ portText port ∧
      unquote t.path = rv.rootPath ++ rv.path ∧
      unquote t.query = unquote (quote Gen.UrlTables.curQuerySafe qs) ∧ t.fragment = [] :=
  request_url_denotes laws keep_tables_ok ci hconv hgh

example : CurInput plainOpaque "http".toList "example.com".toList (some 8080) (rstripSlash "/app/".toList)
    (utf8Enc "q=é&x=%41".toList) :=
  ⟨⟨by decide, by decide, by unfold noTab; decide⟩, by decide, by decide, by intro k hk; cases hk; decide,
    by decide, by decide, by decide⟩

example : (((requestView plainOpaque (danceEnviron "http".toList "example.com:8080".toList "/app/".toList
    "/é %41?x".toList "q=é".toList)).toOption.map (fun r => r.url)))
    = some "http://example.com:8080/app/é%20%2541%3Fx?q=é".toList := by decide

/-- `werkzeug.wsgi.get_current_url(environ)` - the environ-level public function, modelled as
`sansio.get_current_url` after the WSGI decoding dance (repair 16e16ac, former finding F15e) - is
exactly `Request(environ).url`, for every environ; so `environ_url_roundtrip_partial` covers it too. -/
theorem wsgi_current_url_is_request_url (o : UrlOpaque) (e : Environ) :
    wsgiCurrentUrl o e false false false = (requestView o e).map (fun r => r.url) :=
  wsgiCurrentUrl_eq_request_url o e

example : (wsgiCurrentUrl plainOpaque (danceEnviron "http".toList "localhost".toList [] "/café".toList [])
    false false false).toOption = some "http://localhost/café".toList := by decide

/-- **`get_host` drops the scheme's default port as a suffix and nothing else**: the reported host is
the Host header with `:80` (http, ws) resp. `:443` (https, wss) cut off its end, or the header itself -
`10.0.0.80:80` gives `10.0.0.80`, never `10.0.0.`. -/
theorem get_host_drops_only_default_port (scheme host : Str) :
    (∃ suf, host = getHost scheme host ++ suf ∧
      (suf = [] ∨ ((scheme = "http".toList ∨ scheme = "ws".toList) ∧ suf = ":80".toList) ∨
        ((scheme = "https".toList ∨ scheme = "wss".toList) ∧ suf = ":443".toList))) ∧
    (∀ h, (scheme = "http".toList ∨ scheme = "ws".toList) → getHost scheme (h ++ ":80".toList) = h) ∧
    (∀ h, (scheme = "https".toList ∨ scheme = "wss".toList) → getHost scheme (h ++ ":443".toList) = h) :=
  getHost_spec scheme host

example : getHost "http".toList "10.0.0.80:80".toList = "10.0.0.80".toList ∧
    getHost "https".toList "cdn4:443".toList = "cdn4".toList ∧
    getHost "https".toList "10.0.0.80:80".toList = "10.0.0.80:80".toList := by decide

/-- The latin-1 "dance" is lossless for every string of Unicode scalar values:
`_wsgi_decoding_dance(_wsgi_encoding_dance(s)) == s`. -/
theorem dance_roundtrip (s : Str) : decodingDance (encodingDance s) = some s :=
  dance_roundtrip' s

/-- `unquote` inverts `quote` on every text without `%`, for every safe set (with werkzeug's error
handler and with `errors="replace"` alike): percent-encoding never changes what a component means. -/
theorem unquote_quote_inverse (safe s : Str) (h : '%' ∉ s) :
    unquote (quote safe s) = s ∧ unquoteReplace (quote safe s) = s :=
  ⟨unquote_quote safe s h, unquoteReplace_quote safe s h⟩

example : unquote (quote "/".toList "/é 日本/#?".toList) = "/é 日本/#?".toList := by decide

/-- with a `%` in the text the statement is false for the safe sets that contain `%` (the text is
then read as already quoted): -/
theorem unquote_quote_needs_no_percent :
    unquote (quote Gen.UrlTables.iriPathSafe "%41".toList) ≠ "%41".toList := by decide

/-- **Environ round trip of the path.** For every path of Unicode scalar values without `%`, the
`PATH_INFO` that `EnvironBuilder` derives (`_wsgi_encoding_dance(unquote(iri_to_uri(path)))`) is read
back exactly by the decoding dance, and `Request.path` is exactly the path when it starts with a
single `/` (urlsplit, which sits in front, is opaque - see known finding F15c). -/
theorem environ_path_roundtrip (p : Str) (hp : '%' ∉ p) :
    decodingDance (environPathInfo p) = some p ∧
    (∀ q, p = '/' :: q → q.head? ≠ some '/' → requestPath (environPathInfo p) = some p) := by
  have h1 : decodingDance (environPathInfo p) = some p := by
    unfold environPathInfo
    rw [unquoteReplace_quote _ p hp]
    exact dance_roundtrip p
  refine ⟨h1, ?_⟩
  intro q hq hhead
  simp only [requestPath, h1, Option.map_some, Option.some.injEq]
  subst hq
  cases q with
  | nil => rfl
  | cons c t =>
    have hc : (c == '/') = false := by simpa using hhead
    simp [List.dropWhile, hc]

example : requestPath (environPathInfo "/é/日本 x".toList) = some "/é/日本 x".toList := by decide

/-- `DispatcherMiddleware` preserves the concatenation: what it appends to SCRIPT_NAME followed by
the new PATH_INFO is the original PATH_INFO, for every mount table and every path. -/
theorem dispatcher_preserves_concat (mounts : List Str) (p : Str) :
    (dispatch mounts p).script ++ (dispatch mounts p).pathInfo = p :=
  (dispatch_spec mounts p).concat

/-- The selected mount is the longest mount key that is a `/`-boundary prefix of PATH_INFO
(`BP k p`: `p == k or p.startswith(k + "/")`), the script name is exactly that key; the default app
is used only when no key is such a prefix. -/
theorem dispatcher_longest_mount (mounts : List Str) (p : Str) :
    (∀ k, (dispatch mounts p).mount = some k →
      k ∈ mounts ∧ (dispatch mounts p).script = k ∧ BP k p ∧
      ∀ k' ∈ mounts, BP k' p → k'.length ≤ k.length) ∧
    ((dispatch mounts p).mount = none → ∀ k' ∈ mounts, ¬ BP k' p) :=
  ⟨(dispatch_spec mounts p).chosen, (dispatch_spec mounts p).default⟩

example : dispatch ["/api".toList, "/api/v1".toList] "/api/v1/users".toList =
    ⟨"/api/v1".toList, "/users".toList, some "/api/v1".toList⟩ := by decide
example : dispatch ["/api".toList] "/apix/y".toList = ⟨[], "/apix/y".toList, none⟩ := by decide
example : BP "/api".toList "/api/v1".toList := ⟨"/v1".toList, by decide, Or.inr (by decide)⟩

/-- **A path that no mount matches reaches the default app untouched**: for a PATH_INFO that is empty
or starts with `/` (what a WSGI server sends), when the default app is selected nothing is appended to
SCRIPT_NAME and PATH_INFO is unchanged - for every mount table (nested prefixes, keys with trailing
slashes, the empty key included). -/
theorem dispatcher_default_unchanged (mounts : List Str) (p : Str) (hp : p = [] ∨ p.head? = some '/')
    (h : (dispatch mounts p).mount = none) :
    (dispatch mounts p).script = [] ∧ (dispatch mounts p).pathInfo = p :=
  dispatch_default_unchanged mounts p hp h

example : dispatch ["/api".toList, "/api/".toList] "/apix/y".toList = ⟨[], "/apix/y".toList, none⟩ := by decide
/-- the hypothesis is needed: a PATH_INFO without a leading slash is moved to SCRIPT_NAME as a whole
(the concatenation is still preserved) -/
theorem dispatcher_default_needs_leading_slash :
    dispatch ["/api".toList] "abc".toList = ⟨"abc".toList, [], none⟩ := by decide
/-- mounts that are prefixes of each other, a trailing slash in a key, the empty key -/
example : dispatch ["/a".toList, "/a/b".toList, "/a/b/".toList, []] "/a/b/c".toList =
    ⟨"/a/b".toList, "/c".toList, some "/a/b".toList⟩ := by decide
example : dispatch ["/a".toList, "/a/b".toList, "/a/b/".toList, []] "/a/b/".toList =
    ⟨"/a/b/".toList, [], some "/a/b/".toList⟩ := by decide
example : dispatch ["/a".toList, []] "/x".toList = ⟨[], "/x".toList, some []⟩ := by decide

/-! ### EnvironBuilder's argument forms, `Request.args`, `Request.full_path` -/

/-- `_urlencode`'s safe set (C02's regenerated literal) keeps `%`, `+`, `&`, `=` escaped, and it is the
literal this property's table generator found at the same call site -/
theorem urlencode_safe_ok :
    Urlencode.SafeOk Gen.Urlencode.urlencodeSafe ∧
    Gen.UrlTables.urlencodeSafe.map (fun c => UInt8.ofNat c.toNat) = Gen.Urlencode.urlencodeSafe := by
  decide +kernel

/-- `EnvironBuilder(path, base_url, query_string=<str>)` of `environ_url_roundtrip` is the general
constructor (`builderInit`, every argument form) at that form: the theorems about `builderEnviron`
are theorems about `EnvironBuilder.__init__` + `get_environ`. -/
theorem builder_str_form (o : UrlOpaque) (path base qs : Str) :
    builderEnviron o path base qs =
      (builderInit o path (some base) (.text qs)).map (fun b => b.environ.toEnviron) :=
  builderEnviron_eq_init o path base qs

/-- **Which query string the builder sends, per argument form**: a `str` as given; `_urlencode` of a
dict / MultiDict / list of pairs; the query component of `path` when only the path carries one
(`EnvironBuilder("/a?b=c")`); the empty string otherwise. -/
theorem builder_query_forms (o : UrlOpaque) (path : Str) (base : Option Str) (q : QueryArg) (b : Builder)
    (h : builderInit o path base q = .ok b) :
    ∃ ru, urlsplit o path = .ok ru ∧ b.queryText = (match q with
      | .text s => s
      | .items l => urlencodeText l
      | .absent => if path.contains '?' then ru.query else []) :=
  builderInit_queryText h

example : ((builderInit plainOpaque "/a?b=c&d".toList none .absent).toOption.map
    (fun b => (b.queryText, b.environ.pathInfo, b.environ.requestUri)))
    = some ("b=c&d".toList, "/a".toList, "/a?b=c&d".toList) := by decide

/-- a query in the path next to a `query_string` argument (of any form) is refused with ValueError -/
theorem builder_path_and_query_refused (o : UrlOpaque) (path : Str) (base : Option Str) (q : QueryArg)
    (hq : q.given = true) (hp : '?' ∈ path) : builderInit o path base q = .error "ValueError" :=
  builderInit_both_refused o path base q hq hp

example : (builderInit plainOpaque "/a?b=c".toList none (.items [("x".toList, "y".toList)])).toOption.isNone = true := by
  decide

/-- **`Request.args` recovers the query mapping exactly, for all Unicode**: for every list of pairs
(repeated keys, empty keys / values, `&`, `=`, `+`, `%`, `#` inside them) given as `query_string`, with
any path and base URL the builder accepts: the builder's own `args` property and `Request.args` of the
environ it builds are that list - `_urlencode`, the encoding dance, `encode("latin1")`, the decoding
with werkzeug's error handler and `parse_qsl` compose to the identity (C02's `parseQsl_urlencode`). -/
theorem builder_args_roundtrip (o : UrlOpaque) (path : Str) (base : Option Str) (l : List (Str × Str))
    (b : Builder) (h : builderInit o path base (.items l) = .ok b) :
    b.argsProp = .ok l ∧ requestArgs b.environ.toEnviron = some l :=
  Wz.Url.builder_args_roundtrip urlencode_safe_ok.1 h

example : ((builderInit plainOpaque "/".toList none (.items [("a b".toList, "&=+%#é".toList), ([], [])])).toOption.map
    (fun b => (b.queryText, requestArgs b.environ.toEnviron)))
    = some ("a+b=%26%3D%2B%25%23%C3%A9&=".toList, some [("a b".toList, "&=+%#é".toList), ([], [])]) := by
  decide +kernel

/-- for the `str` form `Request.args` is `parse_qsl` of exactly that string (every Unicode string), and
the builder's `args` property is unavailable (AttributeError: "a query string is defined") -/
theorem builder_text_args (o : UrlOpaque) (path : Str) (base : Option Str) (s : Str) (b : Builder)
    (h : builderInit o path base (.text s) = .ok b) :
    b.argsProp = .error "AttributeError" ∧
    requestArgs b.environ.toEnviron = some (Urlencode.parseQsl true s) :=
  Wz.Url.builder_text_args h

/-- **The two hand models of `unquote(s, "utf-8", "werkzeug.url_quote")` are one function**: C02's
(inside its `parse_qsl` model: Lean core's strict UTF-8 decoder, a monolithic re-quoting scanner for
invalid input) and this property's (`firstItem` / `items` / `render`) agree on every string - so the
theorems about `unquote` / `_unquote_partial` above speak about the `unquote` inside `Request.args`'s
`parse_qsl` too. -/
theorem unquote_models_agree (s : Str) : Urlencode.unquote s = unquote s :=
  unquote_models_eq s

example : Urlencode.unquote "a%C3%A9%FF%E2%82+%zz".toList = "aé%FF%E2%82+%zz".toList ∧
    unquote "a%C3%A9%FF%E2%82+%zz".toList = "aé%FF%E2%82+%zz".toList := by decide +kernel

/-- **`uri_to_iri`'s query unquoter never changes the mapping a query denotes**: for every query text
of the `%XX` grammar (any Unicode, invalid bytes, reserved characters), `parse_qsl(keep_blank_values=
True)` reads the same pairs from `_unquote_query(text)` as from `text` - the raw `&` `=` `+` it splits
at are neither produced nor consumed (their escapes `%26` `%3D` `%2B` and `%20` stay quoted), every
other escape is merely decoded earlier. -/
theorem parse_qsl_after_partial_unquote (s : Str) (hs : wellFormed s = true) :
    Urlencode.parseQsl true (unquotePartial Gen.UrlTables.keepQuery s) = Urlencode.parseQsl true s :=
  parseQsl_unquotePartial keep_tables_ok.2.1 keepQuery_seps.1 keepQuery_seps.2.1 keepQuery_seps.2.2 s hs

example : wellFormed "a+b=%26%3D%2B%C3%A9&%FF=%41&&x".toList = true := by decide

example : unquotePartial Gen.UrlTables.keepQuery "a+b=%26%3D%2B%C3%A9&%FF=%41&&x".toList
      = "a+b=%26%3D%2Bé&%FF=A&&x".toList ∧
    Urlencode.parseQsl true "a+b=%26%3D%2Bé&%FF=A&&x".toList
      = [("a b".toList, "&=+é".toList), ("%FF".toList, "A".toList), ("x".toList, [])] ∧
    Urlencode.parseQsl true "a+b=%26%3D%2B%C3%A9&%FF=%41&&x".toList
      = [("a b".toList, "&=+é".toList), ("%FF".toList, "A".toList), ("x".toList, [])] := by decide +kernel

/-- outside the `%XX` grammar the statement is false (`%%34%31` reads `%41` after the partial pass,
which `parse_qsl` then reads as `A`): -/
theorem parse_qsl_after_partial_unquote_needs_wellformed :
    Urlencode.parseQsl true (unquotePartial Gen.UrlTables.keepQuery "%%34%31".toList)
      ≠ Urlencode.parseQsl true "%%34%31".toList := by decide +kernel

/-- **The reconstructed URL's query component denotes the mapping given to the builder.** For every
`EnvironBuilder(path=p, base_url=scheme://host[:port]root, query_string=<mapping>)` with `p`, the base
URL and the host as in `environ_url_roundtrip` and ANY list of pairs over Unicode as the mapping
(repeated / empty keys, `&` `=` `+` `%` `#` and non-ASCII text inside keys and values): the environ is
built, `Request.url` is produced and splits, and `parse_qsl(urlsplit(Request.url).query,
keep_blank_values=True)` is exactly the list of pairs - as is `Request.args`. (`_urlencode`, the
dances, `get_current_url`'s `quote(query_string, safe=...)`, `uri_to_iri`'s `_unquote_query` and
`parse_qsl` compose to the identity; the `quote` leaves `_urlencode`'s output alone -
`urlencode_alphabet_fixed`, two regenerated literals - and the partial unquoting does not change what
`parse_qsl` reads - `parse_qsl_after_partial_unquote`.) -/
theorem environ_url_query_denotes_mapping (o : UrlOpaque) (laws : HostLaws o)
    (scheme h ha root p : Str) (port : Option Nat) (l : List (Str × Str))
    (b : BaseArg o scheme h port root) (hp : PathArg p) (hpp : '%' ∉ p) (hrp : '%' ∉ root)
    (hconv : o.hostToAscii h = some ha) :
    ∃ bd rv t, builderInit o p (some (baseText scheme h port root)) (.items l) = .ok bd ∧
      requestView o bd.environ.toEnviron = .ok rv ∧ urlsplit o rv.url = .ok t ∧
      Urlencode.parseQsl true t.query = l ∧ requestArgs bd.environ.toEnviron = some l := by
  obtain ⟨hu, hconvu⟩ := laws.u_of_a _ _ hconv
  obtain ⟨bd, rv, t, h1, h2, h3, h4⟩ :=
    builder_url_query_mapping laws keep_tables_ok urlencode_safe_ok.1 l b hp hpp hrp hconv hconvu
  exact ⟨bd, rv, t, h1, h2, h3, h4, (builder_args_roundtrip o p _ l bd h1).2⟩

example : ((builderInit plainOpaque "/é x".toList (some "https://example.com:8443/app/".toList)
      (.items [("a b".toList, "&=+%#é".toList), ([], []), ("k".toList, "1".toList), ("k".toList, "2".toList)])).bind
      (fun bd => (requestView plainOpaque bd.environ.toEnviron).bind (fun rv => (urlsplit plainOpaque rv.url).map
        (fun t => (t.query, Urlencode.parseQsl true t.query))))).toOption
    = some ("a+b=%26%3D%2B%25%23é&=&k=1&k=2".toList,
        [("a b".toList, "&=+%#é".toList), ([], []), ("k".toList, "1".toList), ("k".toList, "2".toList)]) := by
  decide +kernel

/-- **`Request.full_path` is `path + "?" + query`** - the `?` is there even when the query string is
empty - for every environ whose PATH_INFO / QUERY_STRING are the dances of Unicode texts. -/
theorem full_path_keeps_question_mark (scheme host root p qs : Str) :
    requestFullPath (danceEnviron scheme host root p qs) = some (('/' :: lstripSlash p) ++ '?' :: qs) :=
  requestFullPath_dance scheme host root p qs

example : requestFullPath (danceEnviron "http".toList "h".toList [] "/é".toList []) = some "/é?".toList := by decide

/-- **`EnvironBuilder.from_environ` round trip** (after repair 18c1dce of F15f: `_quote_url_syntax`
quotes `%`, `?`, `#` of the decoded PATH_INFO / SCRIPT_NAME before they reach the URL-syntax
parameters of `__init__`). For the environ a builder produces from a base URL of the property's
domain (host in its ASCII form, `BaseArg`, root without `%`) and ANY decoded path that starts with
exactly one `/` and contains no TAB / CR / LF (`EnvPath`; F15c is the one exclusion left, needed:
`from_environ_roundtrip_needs_no_tab`) - literal `%`, `%XX` sequences, `?` and `#` included -:
`from_environ(environ)` succeeds, and the builder it returns builds the same SCRIPT_NAME, PATH_INFO,
QUERY_STRING, HTTP_HOST and wsgi.url_scheme again (`_quote_url_syntax`, `_make_base_url`, the
decoding dances and the whole of `__init__` / `get_environ` in between) - hence the same
`Request.path` / `args` / `host` / `url`. The former hypothesis "no `%XX` escape in the path" is gone. -/
theorem from_environ_roundtrip (o : UrlOpaque) (laws : HostLaws o) (scheme ha root p qs : Str)
    (port : Option Nat) (b : BaseArg o scheme ha port root) (hp : EnvPath p)
    (hrp : '%' ∉ root) (hfix : o.hostToAscii ha = some ha) :
    ∃ b', fromEnviron o (danceEnviron scheme (hostBr ha ++ portText port) (rstripSlash root) p qs) = .ok b' ∧
      b'.environ.toEnviron = danceEnviron scheme (hostBr ha ++ portText port) (rstripSlash root) p qs :=
  Wz.Url.from_environ_roundtrip_fixed laws qs b hp hrp hfix

example : EnvPath "/%41/a?b#c/100%".toList :=
  ⟨by decide, by decide, by intro c hc; revert c hc; decide⟩

example : ((fromEnviron plainOpaque (danceEnviron "https".toList "example.com:8443".toList "/ap p".toList
    "/é x".toList "q=é".toList)).toOption.map (fun b => (b.baseUrl, b.environ.pathInfo, b.environ.scriptName)))
    = some ("https://example.com:8443/ap%20p/".toList, encodingDance "/é x".toList, "/ap p".toList) := by decide

/-- **Regression for F15f** (fixed in 18c1dce; was `from_environ_roundtrip_full_false`): the former
failing inputs round-trip. The environ of a request for `/%2541` (PATH_INFO `/%41`) comes back with
PATH_INFO `/%41` - not `/A` -, the one for `/a%3Fb` (PATH_INFO `/a?b`) is accepted - not refused
with ValueError - and keeps `?b`, the one for `/a%23b` keeps `#b`; a literal `%` goes round as
before. -/
theorem from_environ_f15f_regression :
    let run := fun (p : String) =>
      (fromEnviron plainOpaque (danceEnviron "http".toList "localhost".toList [] p.toList [])).toOption.map
        (fun b => String.ofList b.environ.pathInfo)
    run "/%41" = some "/%41" ∧ run "/a?b" = some "/a?b" ∧ run "/a#b" = some "/a#b" ∧
    run "/100%/%zz" = some "/100%/%zz" ∧ run "/%2541" = some "/%2541" := by decide

/-- the remaining exclusion is needed (known finding F15c, `urlsplit` inside `__init__`): a TAB in the
decoded path is still removed on the way through `from_environ` -/
theorem from_environ_roundtrip_needs_no_tab :
    (fromEnviron plainOpaque (danceEnviron "http".toList "localhost".toList [] "/a\tb".toList [])).toOption.map
      (fun b => String.ofList b.environ.pathInfo) = some "/ab" := by decide

/-! ### `Request.url` / `base_url` / `root_url` (`url_root`) / `host_url` -/

/-- **The URL family as text.** For an environ whose SCRIPT_NAME / PATH_INFO / QUERY_STRING are the
dances of `root`, `p`, `qs`, with a URI-form host that `get_host` leaves alone, and
`H = scheme://<decoded host>[:port]`:
`host_url = H/`; `root_url` (`url_root`) `= H + <root>/`; `base_url = root_url + <path>` (the path
without its leading slashes); `url = base_url` followed by `?<query>` exactly when the query string is
not empty - `<root>/`, `<path>`, `<query>` being the partially unquoted quoted texts, which denote
`root_path + "/"`, `path` and the query (`url_root_denotes`, `environ_url_roundtrip_partial`).
`script_root` / `url_root` are aliases of `root_path` / `root_url` (checked by the streams). -/
theorem request_url_family (o : UrlOpaque) (laws : HostLaws o)
    (scheme ha hu root p qs : Str) (port : Option Nat)
    (ci : CurInput o scheme ha port (rstripSlash root) (utf8Enc qs)) (hconv : o.hostToUnicode ha = some hu)
    (hgh : getHost scheme (hostBr ha ++ portText port) = hostBr ha ++ portText port) :
    ∃ H rootUrl baseUrl, H = scheme ++ "://".toList ++ (hostBr hu ++ portText port) ∧
      rootUrl = H ++ unquotePartial Gen.UrlTables.keepPath (curPathText (rstripSlash root) []) ∧
      baseUrl = rootUrl ++ unquotePartial Gen.UrlTables.keepPath (quote Gen.UrlTables.curPathSafe (lstripSlash p)) ∧
      requestUrls o (danceEnviron scheme (hostBr ha ++ portText port) root p qs) = .ok
        (baseUrl ++ (if (utf8Enc qs).isEmpty then [] else
            '?' :: unquotePartial Gen.UrlTables.keepQuery (quote Gen.UrlTables.curQuerySafe qs)),
         baseUrl, rootUrl, H ++ ['/']) := by
  refine ⟨_, _, _, rfl, rfl, rfl, ?_⟩
  rw [Wz.Url.request_url_family laws keep_tables_ok ci hconv hgh, curPathText_split, lstripSlash_cons]
  simp only [List.append_assoc]

example : (requestUrls plainOpaque (danceEnviron "http".toList "example.com:8080".toList "/app/".toList
    "/é x".toList "q=é".toList)).toOption
    = some ("http://example.com:8080/app/é%20x?q=é".toList, "http://example.com:8080/app/é%20x".toList,
        "http://example.com:8080/app/".toList, "http://example.com:8080/".toList) := by decide

/-- `url_root`'s path component denotes `root_path + "/"` -/
theorem url_root_denotes (root : Str) (hr : root = [] ∨ root.head? = some '/') :
    unquote (unquotePartial Gen.UrlTables.keepPath (curPathText root [])) = rstripSlash root ++ ['/'] := by
  rw [unquote_unquotePartial keep_tables_ok.1 _ (curPathText_facts _ _ hr).2.2.2.2, unquote_curPathText]
  rfl

/-! ### `get_host` -/

/-- **`get_host` on `host[:port]`, every case**: the port stays unless it is the scheme's default
(80 for http / ws, 443 for https / wss) - no other text is cut, whatever the host looks like
(names ending in digits, IPv4, bracketed IPv6), whatever the port. -/
theorem get_host_on_hostport (ha scheme : Str) (port : Option Nat) :
    getHost scheme (hostBr ha ++ portText port) = hostBr ha ++ portText (dropDefaultPort scheme port) :=
  getHost_hostport ha scheme port

example : dropDefaultPort "https".toList (some 443) = none ∧ dropDefaultPort "https".toList (some 80) = some 80 ∧
    dropDefaultPort "ftp".toList (some 80) = some 80 := by decide

/-- the default-port rules read from `get_host`'s source (AST) are the ones the model implements, the
number of characters cut is the length of the suffix tested, and the model agrees with the live
function on the whole generated scheme x host table (hosts ending in the port's digits, IPv6
literals, malformed ports) -/
theorem get_host_tables_agree :
    Gen.UrlGlue.getHostRules = [(["http", "ws"], ":80", 3), (["https", "wss"], ":443", 4)] ∧
    (∀ r ∈ Gen.UrlGlue.getHostRules, r.2.1.length = r.2.2 ∧
      ∀ s ∈ r.1, getHost s.toList ("h".toList ++ r.2.1.toList) = "h".toList) ∧
    (∀ row ∈ Gen.UrlGlue.getHostTable, getHost row.1.toList row.2.1.toList = row.2.2.toList) := by
  refine ⟨by decide, by decide, by decide +kernel⟩

/-- **`get_host` without a Host header falls back to the server address and reports the same text a
Host header would**: for a SERVER_NAME that is a name, an IPv4 address or a bare IPv6 address (wrapped
in brackets) and a SERVER_PORT, the host is `name:port` with the scheme's default port cut - exactly
`get_host(scheme, "name:port")`; with a Host header the server address is ignored. -/
theorem get_host_server_fallback (scheme name : Str) (k : Nat) (hn : name.head? ≠ some '[') :
    getHostFull scheme none (some (name, some (k + 1)))
      = hostBr name ++ portText (dropDefaultPort scheme (some (k + 1))) ∧
    (∀ h srv, getHostFull scheme (some h) srv = getHost scheme h) := by
  refine ⟨?_, fun _ _ => rfl⟩
  have hb : (name.head? != some '[') = true := by simpa using hn
  have : hostOrServer none (some (name, some (k + 1))) = hostBr name ++ portText (some (k + 1)) := by
    simp only [hostOrServer, hb, Bool.and_true, hostBr, portText]
  unfold getHostFull
  rw [this, getHost_hostport]

example : ("2001:db8::1".toList).head? ≠ some '[' := by decide

example : getHostFull "https".toList none (some ("2001:db8::1".toList, some 443)) = "[2001:db8::1]".toList ∧
    getHostFull "http".toList none (some ("web08".toList, some 8080)) = "web08:8080".toList ∧
    getHostFull "http".toList (some "hdr:80".toList) (some ("web08".toList, some 8080)) = "hdr".toList := by decide

/-- the model of the fallback agrees with the live function on the generated scheme x Host header x
server table (IPv6 names with and without brackets, unix socket paths, port `None` / 0 / default) -/
theorem get_host_server_table_agrees :
    ∀ row ∈ Gen.UrlGlue.getHostServerTable,
      getHostFull row.1.toList (row.2.1.map String.toList) (row.2.2.1.map fun p => (p.1.toList, p.2))
        = row.2.2.2.toList := by
  decide +kernel

/-- `EnvironBuilder.server_name` / `server_port` (SERVER_NAME / SERVER_PORT of the environ): the model
agrees with the live object on the generated scheme x host table - 443 for https, 80 otherwise, the
host's own port when it is numeric; `[::1]:5000` is split at its FIRST colon -/
theorem builder_server_table_agrees :
    ∀ row ∈ Gen.UrlGlue.builderServerTable,
      let b : Builder := { path := [], requestUri := [], scriptRoot := [], host := row.2.1.toList,
                           urlScheme := row.1.toList, queryString := none, args := none }
      b.serverName = row.2.2.1.toList ∧ b.serverPort = row.2.2.2 := by
  decide +kernel

/-! ### the glue's constants and shapes, regenerated from the source on every run -/

/-- each keep-quoted table of `uri_to_iri` (evaluated from the live compiled pattern) is exactly
`_always_unsafe` plus the literal given at its `_make_unquote_part` call (AST) -/
theorem keep_tables_are_always_unsafe_plus_extra :
    Gen.UrlGlue.keepExtra.map (fun r => r.2.1) = ["fragment", "query", "path", "user"] ∧
    (∀ r ∈ Gen.UrlGlue.keepExtra.zip
        [Gen.UrlTables.keepFragment, Gen.UrlTables.keepQuery, Gen.UrlTables.keepPath, Gen.UrlTables.keepUser],
      ∀ n, n < 256 → tbl r.2 n =
        (Gen.UrlTables.alwaysUnsafe.contains n || (n < 128 && r.1.2.2.contains (Char.ofNat n)))) := by
  refine ⟨by decide, ?_⟩
  decide +kernel

/-- `EnvironBuilder.get_environ` builds SCRIPT_NAME / PATH_INFO / QUERY_STRING / REQUEST_URI / RAW_URI /
SERVER_NAME / SERVER_PORT / HTTP_HOST / wsgi.url_scheme from exactly the expressions the model
(`Builder.environ`) implements (dict literal, `_path_encode`, `raw_uri`; AST, and nothing writes these
keys afterwards) -/
theorem environ_entries_pinned :
    Gen.UrlGlue.environEntries = [
      ("SCRIPT_NAME", "_path_encode(self.script_root)"), ("PATH_INFO", "_path_encode(self.path)"),
      ("QUERY_STRING", "_wsgi_encoding_dance(self.query_string)"), ("REQUEST_URI", "raw_uri"),
      ("RAW_URI", "raw_uri"), ("SERVER_NAME", "self.server_name"), ("SERVER_PORT", "str(self.server_port)"),
      ("HTTP_HOST", "self.host"), ("wsgi.url_scheme", "self.url_scheme"),
      ("_path_encode(x)", "return _wsgi_encoding_dance(unquote(x))"),
      ("raw_uri", "_wsgi_encoding_dance(self.request_uri)")] := by decide

/-- the URL helper calls of every glue function the model covers, in source order (AST): a new or
removed `quote` / `unquote` / `urlsplit` / `iri_to_uri` / dance call in `EnvironBuilder`, `Request`,
`get_current_url` or `ProxyFix._get_real_value` changes this table -/
theorem call_sites_pinned :
    Gen.UrlGlue.callSites = [
      ("test.py", "EnvironBuilder.__init__", ["urlsplit", "iri_to_uri", "iri_to_uri"]),
      ("test.py", "EnvironBuilder.from_environ",
        ["_wsgi_decoding_dance", "cls._make_base_url", "_wsgi_decoding_dance", "_wsgi_decoding_dance"]),
      ("test.py", "EnvironBuilder._make_base_url", ["urlunsplit"]),
      ("test.py", "EnvironBuilder.base_url", ["self._make_base_url"]),
      ("test.py", "EnvironBuilder.base_url@setter", ["urlsplit"]),
      ("test.py", "EnvironBuilder.query_string", ["_urlencode"]),
      ("test.py", "EnvironBuilder.get_environ",
        ["_urlencode", "_wsgi_encoding_dance", "unquote", "_wsgi_encoding_dance", "_path_encode", "_path_encode",
         "_wsgi_encoding_dance"]),
      ("sansio/utils.py", "get_current_url", ["uri_to_iri", "quote", "uri_to_iri", "quote", "quote", "uri_to_iri"]),
      ("wsgi.py", "get_current_url",
        ["get_host", "_wsgi_decoding_dance", "_wsgi_decoding_dance", "_sansio_utils.get_current_url"]),
      ("wrappers/request.py", "Request.__init__", ["_wsgi_decoding_dance", "_wsgi_decoding_dance"]),
      ("sansio/request.py", "Request.args", ["parse_qsl"]),
      ("sansio/request.py", "Request.url", ["get_current_url"]),
      ("sansio/request.py", "Request.base_url", ["get_current_url"]),
      ("sansio/request.py", "Request.root_url", ["get_current_url"]),
      ("sansio/request.py", "Request.host_url", ["get_current_url"]),
      ("sansio/request.py", "Request.host", ["get_host"]),
      ("middleware/proxy_fix.py", "ProxyFix._get_real_value", ["parse_list_header"]),
      ("urls.py", "_urlencode", ["urlencode"])] := by decide

/-! ### ProxyFix -/

/-- **ProxyFix never touches PATH_INFO**, whatever the trust counts and the forwarded headers - so
`Request.path` behind the middleware is the path the server received ("path-dispatching middleware
preserves ... path info": ProxyFix does not dispatch, it only REPLACES SCRIPT_NAME, see below). -/
theorem proxyfix_preserves_path_info (c : PFConfig) (h : PFHeaders) (e : PFEnviron) :
    (proxyFix c h e).pathInfo = e.pathInfo ∧
    requestPath (proxyFix c h e).pathInfo = requestPath e.pathInfo := by
  rw [proxyFix_pathInfo]; exact ⟨rfl, rfl⟩

/-- ... at the source level: the environ keys `ProxyFix.__call__` assigns (AST, per trusted header)
are exactly those of the model, PATH_INFO and QUERY_STRING are not among them, and `_get_real_value`
is the statement sequence the model implements (`values[-trusted]`) -/
theorem proxyfix_writes_pinned :
    Gen.UrlGlue.proxyFixWrites = [
      ("x_for", "HTTP_X_FORWARDED_FOR", ["REMOTE_ADDR"]),
      ("x_proto", "HTTP_X_FORWARDED_PROTO", ["wsgi.url_scheme"]),
      ("x_host", "HTTP_X_FORWARDED_HOST", ["HTTP_HOST", "SERVER_NAME", "SERVER_NAME", "SERVER_PORT"]),
      ("x_port", "HTTP_X_FORWARDED_PORT", ["HTTP_HOST", "SERVER_PORT"]),
      ("x_prefix", "HTTP_X_FORWARDED_PREFIX", ["SCRIPT_NAME"])] ∧
    (∀ r ∈ Gen.UrlGlue.proxyFixWrites, ¬ "PATH_INFO" ∈ r.2.2 ∧ ¬ "QUERY_STRING" ∈ r.2.2) ∧
    Gen.UrlGlue.realValueBody = ["if not (trusted and value): return None", "values = parse_list_header(value)",
      "if len(values) >= trusted: return values[-trusted]", "return None"] ∧
    Gen.UrlGlue.dispatcherWrites = ["SCRIPT_NAME", "PATH_INFO"] := by decide

/-- **`X-Forwarded-Prefix` REPLACES SCRIPT_NAME** (it is not prepended; the original is only kept in
`werkzeug.proxy_fix.orig`), and only when a non-empty trusted value exists; otherwise SCRIPT_NAME is
unchanged. So ProxyFix does NOT preserve SCRIPT_NAME + PATH_INFO - what it preserves is PATH_INFO. -/
theorem proxyfix_prefix_replaces_script_name (c : PFConfig) (h : PFHeaders) (e : PFEnviron) :
    (proxyFix c h e).scriptName =
      (match truthyV (realValue c.xPrefix h.pfx) with | some v => v | none => e.scriptName) :=
  proxyFix_scriptName c h e

/-- the scheme is the trusted `X-Forwarded-Proto` value when there is one -/
theorem proxyfix_scheme (c : PFConfig) (h : PFHeaders) (e : PFEnviron) :
    (proxyFix c h e).urlScheme =
      (match truthyV (realValue c.xProto h.proto) with | some v => v | none => e.urlScheme) :=
  proxyFix_urlScheme c h e

/-- **`_get_real_value` picks the `n`-th value counted from the RIGHT** (the one appended by the
outermost trusted proxy), and nothing when fewer than `n` values are present or `n = 0`. -/
theorem proxyfix_nth_from_right (n : Nat) (vs : List Str) (v : Str) :
    realValue n (some vs) = some v ↔ 0 < n ∧ vs.reverse[n - 1]? = some v :=
  realValue_spec n vs v

example : realValue 2 (some ["a".toList, "b".toList, "c".toList]) = some "b".toList ∧
    realValue 4 (some ["a".toList, "b".toList, "c".toList]) = none ∧
    realValue 0 (some ["a".toList]) = none := by decide

/-- **`X-Forwarded-Port` replaces or appends the port of HTTP_HOST and nothing else**: for a host of
the form `host[:port]` - a name, an IPv4 address or a bracketed IPv6 literal, with or without a port -
and a trusted non-empty port value `v`, the new HTTP_HOST is `host:v` (the brackets of an IPv6 literal
stay, an old port is dropped). -/
theorem proxyfix_port_replaces (c : PFConfig) (hd : PFHeaders) (e : PFEnviron) (h v : Str) (p : Option Nat)
    (hne : h ≠ []) (hh : e.httpHost = some (hostBr h ++ portText p))
    (hv : truthyV (realValue c.xPort hd.port) = some v) :
    (applyPort c hd e).httpHost = some (hostBr h ++ ':' :: v) ∧ (applyPort c hd e).serverPort = v := by
  have hne' : hostBr h ++ portText p ≠ [] := by
    intro he
    have h1 := (List.append_eq_nil_iff.mp he).1
    unfold hostBr at h1
    split at h1
    · cases h1
    · exact hne h1
  have ht : truthyV e.httpHost = some (hostBr h ++ portText p) := by
    rw [hh]
    cases hx : hostBr h ++ portText p with
    | nil => exact absurd hx hne'
    | cons _ _ => rfl
  unfold applyPort
  simp only [hv, ht, stripPort_hostport, and_self]

example : (proxyFix ⟨0, 0, 0, 1, 1⟩ ⟨none, none, none, some ["8443".toList], some ["/app".toList]⟩
    { remoteAddr := none, urlScheme := "http".toList, httpHost := some "[::1]:5000".toList,
      serverName := "::1".toList, serverPort := "5000".toList, scriptName := "/old".toList,
      pathInfo := "/p".toList })
    = { remoteAddr := none, urlScheme := "http".toList, httpHost := some "[::1]:8443".toList,
        serverName := "::1".toList, serverPort := "8443".toList, scriptName := "/app".toList,
        pathInfo := "/p".toList } := by decide

end Wz.Props.C15
