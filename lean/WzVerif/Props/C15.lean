/-
C15 — URLs keep their meaning between IRI, URI, environ and request.
Property theorems only (helper lemmas live in Lemmas/Url.lean).

Opaque to the model (validated by the streams only): urlsplit / urlunsplit, the IDNA codec.
Repaired in /repo and kept as regression cases of stream iri-uri: F15a (`_decode_idna` now leaves a
malformed `xn--` label as punycode, c7898ed - IDNA is opaque here), F15b (`[` and `]` are now in the
keep-quoted set of the userinfo, 319c4e1 - stated in `keep_tables_cover_reserved`).
Known finding with a negation witness below: F15c (`environ_path_full_false`: urlsplit inside
EnvironBuilder drops TAB/CR/LF). F15d (`get_current_url` left a literal `%XX` of the unquoted path
unquoted) was repaired in /repo (899f28c) and is a regression case of stream environ-kernel.

All theorems listed in DESIGN.md for C15 (P0 and P1) are proved below; nothing is left OPEN.
-/
import WzVerif.Lemmas.UrlStable
import WzVerif.Lemmas.UrlDenote
import WzVerif.Model.UrlEnviron
namespace Wz.Props.C15
open Wz Wz.Url

/-- `urllib.parse.quote` produces pure ASCII for every input string and every safe set. -/
theorem quote_ascii (safe s : Str) : ∀ c ∈ quote safe s, c.toNat < 128 :=
  quoteBytes_ascii safe _

example : quote "/".toList "é /~".toList = "%C3%A9%20/~".toList := by decide

/-- `quote` is idempotent whenever `%` is in the safe set: already quoted text is left alone. -/
theorem quote_idempotent (safe s : Str) (h : safe.contains '%' = true) :
    quote safe (quote safe s) = quote safe s :=
  quote_idem h s

example : ("%!$&'()*+,/:;=@".toList).contains '%' = true := by decide

/-- Without `%` in the safe set the statement is false (so the hypothesis is needed): -/
theorem quote_not_idempotent_without_percent :
    quote "/".toList (quote "/".toList " ".toList) ≠ quote "/".toList " ".toList := by decide

/-- Every safe set `iri_to_uri` passes to `quote` (collected from the AST on every run) contains
`%` - the obligation a changed `safe=` literal breaks. -/
theorem iri_safe_sets_keep_percent : ∀ p ∈ Gen.UrlTables.iriSafeSets, p.2.contains '%' = true := by decide

/-- ... and none of them lets through a character that would end or change its component:
no `?`/`#` in the path set, no `#` in the query set, no `/?#@:` in the userinfo sets beyond what
the component allows (`:` is excluded from username and password). -/
theorem iri_safe_sets_respect_delimiters :
    (∀ c ∈ ['?', '#'], Gen.UrlTables.iriPathSafe.contains c = false) ∧
    Gen.UrlTables.iriQuerySafe.contains '#' = false ∧
    (∀ c ∈ ['/', '?', '#', '@', ':'], Gen.UrlTables.iriUserSafe.contains c = false ∧
      Gen.UrlTables.iriPasswordSafe.contains c = false) := by decide

/-- The safe sets `get_current_url` quotes the root path, the path and the query string with (AST,
every run) do not let through the delimiter that would end the component: no `?` / `#` in a path,
no `#` in the query - a decoded `?` in `Request.path` is re-quoted in `Request.url`. -/
theorem current_url_safe_sets_respect_delimiters :
    (∀ s ∈ [Gen.UrlTables.curRootSafe, Gen.UrlTables.curPathSafe],
      s.contains '?' = false ∧ s.contains '#' = false) ∧
    Gen.UrlTables.curQuerySafe.contains '#' = false := by
  decide

/-- `iri_to_uri` yields pure ASCII: every quoted component for every input, and the whole 5-tuple
handed to `urlunsplit` when the scheme and the (IDNA-encoded, opaque) host are ASCII. -/
theorem iriToUri_ascii (p : Parts) (hs : ∀ c ∈ p.scheme, c.toNat < 128) (hh : ∀ c ∈ p.host, c.toNat < 128) :
    let u := iriToUri p
    (∀ c ∈ u.scheme, c.toNat < 128) ∧ (∀ c ∈ u.netloc, c.toNat < 128) ∧ (∀ c ∈ u.path, c.toNat < 128) ∧
    (∀ c ∈ u.query, c.toNat < 128) ∧ (∀ c ∈ u.fragment, c.toNat < 128) := by
  refine ⟨hs, ?_, quote_ascii _ _, quote_ascii _ _, quote_ascii _ _⟩
  have hdig : ∀ k : Nat, ∀ c ∈ (toString k).toList, c.toNat < 128 := by
    intro k c hc
    rw [Nat.toString_eq_repr, Nat.toList_repr] at hc
    have := Char.isDigit_iff_toNat.mp (Nat.isDigit_of_mem_toDigits (by decide) (by decide) hc)
    have h9 : '9'.toNat = 57 := by decide
    omega
  intro c hc
  simp only [iriToUri, netloc] at hc
  have hhost : ∀ c ∈ (if p.host.contains ':' = true then '[' :: p.host ++ [']'] else p.host), c.toNat < 128 := by
    intro c hc
    split at hc
    · simp only [List.cons_append, List.mem_cons, List.mem_append, List.mem_nil_iff, or_false] at hc
      rcases hc with rfl | hc | rfl
      · decide
      · exact hh c hc
      · decide
    · exact hh c hc
  have hport : ∀ c ∈ (match p.port with
      | some 0 => (if p.host.contains ':' = true then '[' :: p.host ++ [']'] else p.host)
      | some k => (if p.host.contains ':' = true then '[' :: p.host ++ [']'] else p.host) ++ ':' :: (toString k).toList
      | none => (if p.host.contains ':' = true then '[' :: p.host ++ [']'] else p.host)), c.toNat < 128 := by
    intro c hc
    split at hc
    · exact hhost c hc
    · rcases List.mem_append.mp hc with hc | hc
      · exact hhost c hc
      · rcases List.mem_cons.mp hc with rfl | hc
        · decide
        · exact hdig _ c hc
    · exact hhost c hc
  split at hc
  · rcases List.mem_append.mp hc with hc | hc
    · split at hc
      · rcases List.mem_append.mp hc with hc | hc
        · exact quote_ascii _ _ c hc
        · rcases List.mem_cons.mp hc with rfl | hc
          · decide
          · exact quote_ascii _ _ c hc
      · exact quote_ascii _ _ c hc
    · rcases List.mem_cons.mp hc with rfl | hc
      · decide
      · exact hport c hc
  · exact hport c hc

example :
    iriToUri
      { scheme := "http".toList
        username := some "ü".toList
        host := "xn--n3h.net".toList
        port := some 8080
        path := "/på th".toList
        query := "q=è%DF".toList } =
      { scheme := "http".toList
        netloc := "%C3%BC@xn--n3h.net:8080".toList
        path := "/p%C3%A5%20th".toList
        query := "q=%C3%A8%DF".toList
        fragment := [] } := by decide

/-- `iri_to_uri` is idempotent component-wise: re-quoting any component it produced (path, query,
fragment, username, password) with the same safe set changes nothing. -/
theorem iriToUri_idempotent (s : Str) :
    ∀ p ∈ Gen.UrlTables.iriSafeSets, quote p.2 (quote p.2 s) = quote p.2 s :=
  fun p hp => quote_idempotent p.2 s (iri_safe_sets_keep_percent p hp)

/-- in particular for the three components that travel unchanged through `urlunsplit`/`urlsplit` -/
theorem iriToUri_idempotent_parts (p : Parts) :
    let u := iriToUri p
    (iriToUri { p with path := u.path, query := u.query, fragment := u.fragment }).path = u.path ∧
    (iriToUri { p with path := u.path, query := u.query, fragment := u.fragment }).query = u.query ∧
    (iriToUri { p with path := u.path, query := u.query, fragment := u.fragment }).fragment = u.fragment := by
  refine ⟨?_, ?_, ?_⟩
  · exact quote_idempotent _ _ (by decide)
  · exact quote_idempotent _ _ (by decide)
  · exact quote_idempotent _ _ (by decide)

/-! ### on whole URL text (urlsplit / urlunsplit modelled, IDNA opaque with stated laws) -/

/-- an instance of the opaque parameters that satisfies the laws (hosts that are plain ASCII text
are their own IDNA form): shows the hypotheses below are satisfiable -/
def plainOpaque : UrlOpaque :=
  { bracketOk := fun _ => true, nfkcOk := fun _ => true,
    hostToAscii := fun h => if !h.isEmpty && h.all (fun c => hostChar c && decide (c.toNat < 128)) then some h else none,
    hostToUnicode := fun h => if !h.isEmpty && h.all (fun c => hostChar c && decide (c.toNat < 128)) then some h else none }

example : AsciiHostLaws plainOpaque := by
  refine ⟨?_, ?_, fun _ _ _ _ => rfl⟩
  · intro h r hr
    simp only [plainOpaque] at hr
    split at hr
    · rename_i hc
      cases hr
      simp only [Bool.and_eq_true, Bool.not_eq_true', List.all_eq_true, decide_eq_true_eq] at hc
      exact ⟨by intro e; simp [e] at hc, fun c hcm => hc.2 c hcm⟩
    · cases hr
  · intro h r hr
    simp only [plainOpaque] at hr ⊢
    split at hr
    · rename_i hc; cases hr; simp [hc]
    · cases hr

example : InGrammar plainOpaque "http://üser:pw@example.com:8080/på th?q=è#f".toList :=
  ⟨⟨"http".toList, "üser:pw@example.com:8080".toList, "/på th".toList, "q=è".toList, "f".toList⟩,
    by rfl, by decide, by decide⟩

example : (iriToUriText plainOpaque "HTTP://üser:pw@example.com:8080/på th?q=è#f".toList).toOption
    = some "http://%C3%BCser:pw@example.com:8080/p%C3%A5%20th?q=%C3%A8#f".toList := by decide

/-- **`iri_to_uri` on URL text** (urlsplit, netloc assembly and urlunsplit included): for every URL
of the grammar - it splits, has a scheme and a host - the result is pure ASCII and converting it
again changes nothing, under the laws assumed of the opaque `hostname.lower()` + IDNA step
(its output is non-empty ASCII host text, is its own image, and passes the bracket check when it
is an IPv6 literal). -/
theorem iriToUriText_ascii_idempotent (o : UrlOpaque) (laws : AsciiHostLaws o) (url r : Str)
    (hg : InGrammar o url) (h : iriToUriText o url = .ok r) :
    (∀ c ∈ r, c.toNat < 128) ∧ iriToUriText o r = .ok r :=
  ⟨iriToUriText_ascii laws hg h, iriToUriText_idem laws hg h⟩

theorem plainOpaque_spec (h r : Str) :
    (plainOpaque.hostToAscii h = some r ∨ plainOpaque.hostToUnicode h = some r) →
    r = h ∧ r ≠ [] ∧ (∀ c ∈ r, hostChar c = true) ∧ plainOpaque.hostToAscii r = some r ∧
      plainOpaque.hostToUnicode r = some r := by
  intro hr
  have key : (if (!h.isEmpty && h.all (fun c => hostChar c && decide (c.toNat < 128))) = true then some h else none)
      = some r := by
    rcases hr with hr | hr <;> simpa [plainOpaque] using hr
  split at key
  · rename_i hc
    cases key
    refine ⟨rfl, ?_, ?_, by simp only [plainOpaque]; rw [if_pos hc], by simp only [plainOpaque]; rw [if_pos hc]⟩
    · intro e; simp [e] at hc
    · simp only [Bool.and_eq_true, Bool.not_eq_true', List.all_eq_true, decide_eq_true_eq] at hc
      exact fun c hcm => (hc.2 c hcm).1
  · cases key

/-- the laws assumed of the opaque host conversions are satisfiable -/
example : HostLaws plainOpaque := by
  refine ⟨?_, ?_, ?_, ?_, ?_, fun _ _ _ _ => rfl, fun _ _ _ _ => rfl, fun _ => rfl⟩
  · intro h r hr; have := plainOpaque_spec h r (Or.inl hr); exact ⟨this.2.1, this.2.2.1⟩
  · intro h r hr; have := plainOpaque_spec h r (Or.inr hr); exact ⟨this.2.1, this.2.2.1⟩
  · intro h r hr; exact (plainOpaque_spec h r (Or.inr hr)).2.2.2.2
  · intro h r hr
    have := plainOpaque_spec h r (Or.inr hr)
    exact ⟨r, this.2.2.2.1, this.2.2.2.2⟩
  · intro h a ha
    have := plainOpaque_spec h a (Or.inl ha)
    exact ⟨a, this.2.2.2.2⟩

/-- Outside the grammar (no host) the text-level statement is false - the known `urlunsplit` quirk
for paths that start with `//`: `iri_to_uri("p:////")` is `"p://"`, whose image is `"p:"`. -/
theorem iriToUriText_not_idempotent_without_host :
    (iriToUriText plainOpaque "p:////".toList).toOption = some "p://".toList ∧
    (iriToUriText plainOpaque "p://".toList).toOption = some "p:".toList := by decide

/-- **Known finding F15c, as a theorem about the model**: `EnvironBuilder(path="/a\tb")` does not
hand the path through - `urlsplit`, which it applies to its `path` argument, deletes TAB (likewise
CR, LF), so `Request.path` is `"/ab"`. -/
theorem environ_path_full_false :
    (((builderEnviron plainOpaque "/a\tb".toList "http://localhost/".toList []).bind
      (requestView plainOpaque)).toOption.map (fun r => r.path)) = some "/ab".toList := by decide

/-- Former finding F15d (repaired in /repo, 899f28c: `%` is no longer in the safe sets for the
already-unquoted `root_path` / `path`): a literal `%41` in the path (request target `/%2541`) is now
re-quoted, `Request.url` denotes `Request.path` again. -/
example :
    (((builderEnviron plainOpaque "/%2541".toList "http://localhost/".toList []).bind
      (requestView plainOpaque)).toOption.map (fun r => (r.path, r.url)))
      = some ("/%41".toList, "http://localhost/%2541".toList) := by decide


/-- `%` (0x25) and every C0 control, SP and DEL stay quoted in every component of `uri_to_iri`, and
each component keeps its own delimiters quoted (tables evaluated from the live compiled patterns):
path `/?#`, query `&=+#`, userinfo `:@/?#[]` - the brackets included, so that unquoting can never
produce a netloc that `urlsplit` reads as an (invalid) IPv6 literal (former finding F15b). -/
theorem keep_tables_cover_reserved :
    (∀ n ∈ Gen.UrlTables.alwaysUnsafe, tbl Gen.UrlTables.keepPath n = true ∧
      tbl Gen.UrlTables.keepQuery n = true ∧ tbl Gen.UrlTables.keepFragment n = true ∧
      tbl Gen.UrlTables.keepUser n = true) ∧
    (∀ n, n ≤ 0x20 ∨ n = 0x25 ∨ n = 0x7f → n ∈ Gen.UrlTables.alwaysUnsafe) ∧
    (∀ c ∈ ['/', '?', '#'], tbl Gen.UrlTables.keepPath c.toNat = true) ∧
    (∀ c ∈ ['&', '=', '+', '#'], tbl Gen.UrlTables.keepQuery c.toNat = true) ∧
    (∀ c ∈ [':', '@', '/', '?', '#', '[', ']'], tbl Gen.UrlTables.keepUser c.toNat = true) := by
  refine ⟨by decide, ?_, by decide, by decide, by decide⟩
  intro n hn
  have : n < 128 := by omega
  revert hn
  revert n
  decide

/-- The four keep tables of `uri_to_iri` (evaluated from the live patterns) keep `%` quoted and keep
no byte ≥ 0x80 - what the fixpoint argument needs of them. -/
theorem keep_tables_ok :
    KeepOK Gen.UrlTables.keepPath ∧ KeepOK Gen.UrlTables.keepQuery ∧
    KeepOK Gen.UrlTables.keepFragment ∧ KeepOK Gen.UrlTables.keepUser := by
  have h : ∀ t : List Bool, tbl t 0x25 = true → (∀ n, n < 256 → 128 ≤ n → tbl t n = false) → KeepOK t :=
    fun t h1 h2 => ⟨h1, fun n hn hl => h2 n hl hn⟩
  exact ⟨h _ (by decide) (by decide +kernel), h _ (by decide) (by decide +kernel),
    h _ (by decide) (by decide +kernel), h _ (by decide) (by decide +kernel)⟩

/-- **`uri_to_iri` is a fixpoint after one step**, component-wise: on text whose every `%` starts a
two-hex-digit escape (the property's `%XX` grammar - valid UTF-8, invalid bytes and reserved
characters alike), applying a component's partial unquoter to its own output changes nothing:
decoded characters stay, kept escapes stay, re-quoted undecodable bytes are undecodable again. -/
theorem uriToIri_fixpoint (s : Str) (hs : wellFormed s = true) :
    unquotePartial Gen.UrlTables.keepPath (unquotePartial Gen.UrlTables.keepPath s)
      = unquotePartial Gen.UrlTables.keepPath s ∧
    unquotePartial Gen.UrlTables.keepQuery (unquotePartial Gen.UrlTables.keepQuery s)
      = unquotePartial Gen.UrlTables.keepQuery s ∧
    unquotePartial Gen.UrlTables.keepFragment (unquotePartial Gen.UrlTables.keepFragment s)
      = unquotePartial Gen.UrlTables.keepFragment s ∧
    unquotePartial Gen.UrlTables.keepUser (unquotePartial Gen.UrlTables.keepUser s)
      = unquotePartial Gen.UrlTables.keepUser s :=
  ⟨unquotePartial_fix keep_tables_ok.1 s hs, unquotePartial_fix keep_tables_ok.2.1 s hs,
   unquotePartial_fix keep_tables_ok.2.2.1 s hs, unquotePartial_fix keep_tables_ok.2.2.2 s hs⟩

example : wellFormed "a%2Fb%C3%A9%FF%41%e2%82".toList = true := by decide

/-- in terms of the split URL: the three components that travel unchanged through
`urlunsplit` / `urlsplit` are fixed by a second `uri_to_iri` -/
theorem uriToIri_fixpoint_parts (p : Parts) (hp : wellFormed p.path = true)
    (hq : wellFormed p.query = true) (hf : wellFormed p.fragment = true) :
    let i := uriToIri p
    (uriToIri { p with path := i.path, query := i.query, fragment := i.fragment }).path = i.path ∧
    (uriToIri { p with path := i.path, query := i.query, fragment := i.fragment }).query = i.query ∧
    (uriToIri { p with path := i.path, query := i.query, fragment := i.fragment }).fragment = i.fragment :=
  ⟨(uriToIri_fixpoint p.path hp).1, (uriToIri_fixpoint p.query hq).2.1,
   (uriToIri_fixpoint p.fragment hf).2.2.1⟩

/-- **IRI → URI → IRI is stable after one round** ("undone by URI-to-IRI up to normalisation"):
for every component text `s` of the `%XX` grammar, with `u = quote(s, safe)` what `iri_to_uri` makes
of it and `x = _unquote_partial(u)` the normalised IRI component, converting `x` to a URI and back
gives `x` again - for each pairing of `iri_to_uri`'s safe set with `uri_to_iri`'s keep table
(path, query, fragment, userinfo). -/
theorem iri_uri_iri (s : Str) (hs : wellFormed s = true) :
    (let x := unquotePartial Gen.UrlTables.keepPath (quote Gen.UrlTables.iriPathSafe s)
     unquotePartial Gen.UrlTables.keepPath (quote Gen.UrlTables.iriPathSafe x) = x) ∧
    (let x := unquotePartial Gen.UrlTables.keepQuery (quote Gen.UrlTables.iriQuerySafe s)
     unquotePartial Gen.UrlTables.keepQuery (quote Gen.UrlTables.iriQuerySafe x) = x) ∧
    (let x := unquotePartial Gen.UrlTables.keepFragment (quote Gen.UrlTables.iriFragmentSafe s)
     unquotePartial Gen.UrlTables.keepFragment (quote Gen.UrlTables.iriFragmentSafe x) = x) ∧
    (let x := unquotePartial Gen.UrlTables.keepUser (quote Gen.UrlTables.iriUserSafe s)
     unquotePartial Gen.UrlTables.keepUser (quote Gen.UrlTables.iriUserSafe x) = x) ∧
    (let x := unquotePartial Gen.UrlTables.keepUser (quote Gen.UrlTables.iriPasswordSafe s)
     unquotePartial Gen.UrlTables.keepUser (quote Gen.UrlTables.iriPasswordSafe x) = x) := by
  have key : ∀ (safe : Str) (keep : List Bool) (hp : safe.contains '%' = true) (hk : KeepOK keep),
      unquotePartial keep (quote safe (unquotePartial keep (quote safe s)))
        = unquotePartial keep (quote safe s) := by
    intro safe keep hp hk
    apply unquotePartial_quote_stable hp hk _ (wellFormed_quote hp s hs)
    intro c hc
    obtain ⟨b, _, hb⟩ := List.mem_flatMap.mp hc
    exact quoteByte_fixed hp b c hb
  exact ⟨key _ _ (by decide) keep_tables_ok.1, key _ _ (by decide) keep_tables_ok.2.1,
    key _ _ (by decide) keep_tables_ok.2.2.1, key _ _ (by decide) keep_tables_ok.2.2.2,
    key _ _ (by decide) keep_tables_ok.2.2.2⟩

example : unquotePartial Gen.UrlTables.keepPath (quote Gen.UrlTables.iriPathSafe "/é %41%2F%FF".toList)
    = "/é%20A%2F%FF".toList := by decide

/-- Outside that grammar the statement is false - a bare `%` can combine with a decoded digit
(`uri_to_iri("%%34%31") = "%41"`, whose image is `"A"`): -/
theorem uriToIri_fixpoint_needs_wellformed :
    unquotePartial Gen.UrlTables.keepPath (unquotePartial Gen.UrlTables.keepPath "%%34%31".toList)
      ≠ unquotePartial Gen.UrlTables.keepPath "%%34%31".toList := by decide

/-- a kept escape is copied verbatim by `_unquote_partial` (here: a quoted slash in a path) -/
example : unquotePartial Gen.UrlTables.keepPath "a%2Fb%C3%A9%FF%41".toList = "a%2Fbé%FFA".toList := by decide

/-- **`uri_to_iri` is a fixpoint after one step, and IRI → URI → IRI is stable after one round, on
whole URL text** (urlsplit, netloc re-assembly, port and userinfo handling, urlunsplit included): for
every URL of the grammar whose text components are `%XX`-well-formed and whose userinfo carries no
raw delimiter, under the laws assumed of the opaque host conversions (`HostLaws`). With
`n = uri_to_iri(iri_to_uri(url))`: `uri_to_iri(iri_to_uri(n)) = n`. -/
theorem uriToIriText_fixpoint_and_roundtrip (o : UrlOpaque) (laws : HostLaws o) (url : Str) (sp : Split)
    (g : InGrammarU o url sp) :
    (∀ r, uriToIriText o url = .ok r → uriToIriText o r = .ok r) ∧
    (∀ u1, iriToUriText o url = .ok u1 →
      ∃ n u3, uriToIriText o u1 = .ok n ∧ iriToUriText o n = .ok u3 ∧ uriToIriText o u3 = .ok n) :=
  ⟨fun _ h => uriToIriText_fix laws keep_tables_ok g h,
   fun _ h => iri_uri_iri_text laws keep_tables_ok g h⟩

example : InGrammarU plainOpaque "http://us%40er:pw@example.com:8080/p%C3%A5%2Fth?q=%FF#f".toList
    ⟨"http".toList, "us%40er:pw@example.com:8080".toList, "/p%C3%A5%2Fth".toList, "q=%FF".toList, "f".toList⟩ := by
  refine ⟨by rfl, by decide, by decide, ?_, ?_, by decide, by decide, by decide⟩
  · intro u hu
    have : u = "us%40er".toList := by
      have h : truthy (userinfo "us%40er:pw@example.com:8080".toList).1 = some "us%40er".toList := by decide
      rw [h] at hu; exact (Option.some.inj hu).symm
    subst this; exact ⟨by decide, by decide⟩
  · intro pw hpw
    have : pw = "pw".toList := by
      have h : truthy (userinfo "us%40er:pw@example.com:8080".toList).2 = some "pw".toList := by decide
      rw [h] at hpw; exact (Option.some.inj hpw).symm
    subst this; exact ⟨by decide, by decide⟩

example : (uriToIriText plainOpaque "http://us%40er:pw@example.com:8080/p%C3%A5%2Fth?q=%FF#f".toList).toOption
    = some "http://us%40er:pw@example.com:8080/på%2Fth?q=%FF#f".toList := by decide

/-- `get_current_url` quotes the (already unquoted) root path and path with safe sets that do not
contain `%` (repair 899f28c), so what it quotes decodes back exactly - for EVERY text, a literal
percent sign included; and fully unquoting what `uri_to_iri` leaves partially quoted gives the same
characters as fully unquoting the input (`%XX` grammar, any of the four keep tables). -/
theorem current_url_quoting_is_lossless :
    (∀ s : Str, unquote (quote Gen.UrlTables.curRootSafe s) = s ∧ unquote (quote Gen.UrlTables.curPathSafe s) = s) ∧
    (∀ u : Str, wellFormed u = true →
      unquote (unquotePartial Gen.UrlTables.keepPath u) = unquote u ∧
      unquote (unquotePartial Gen.UrlTables.keepQuery u) = unquote u) :=
  ⟨fun s => ⟨unquote_quote_all cur_no_pct.1 s, unquote_quote_all cur_no_pct.2 s⟩,
   fun u hu => ⟨unquote_unquotePartial keep_tables_ok.1 u hu, unquote_unquotePartial keep_tables_ok.2.1 u hu⟩⟩

example : unquote (quote Gen.UrlTables.curPathSafe "/100%41 é?#".toList) = "/100%41 é?#".toList := by decide

-- OPEN (full `environ_url_roundtrip`): the same conclusion for
--   requestView o (← builderEnviron o path baseUrl qs)
-- i.e. with EnvironBuilder's own parsing in front. Missing lemmas: `urlsplit_path_only`
-- (urlsplit o p = .ok ⟨[], [], p, [], []⟩ and iriToUriText o p = .ok (quote iriPathSafe p) for a path text
-- p that starts with one '/' and has no '?', '#', TAB/CR/LF - TAB/CR/LF being the F15c exclusion) and
-- `builder_base_split` (the scheme / netloc / script_root EnvironBuilder reads from
-- iri_to_uri(base_url), with unquoteReplace (rstripSlash (quote s)) = rstripSlash s). The pipeline is
-- modelled end to end (Model/UrlEnviron.lean) and compared with the real code by stream
-- environ-kernel; the PATH_INFO half is `environ_path_roundtrip`.

/-- **`environ_url_roundtrip_partial` - the request side.** For an environ whose SCRIPT_NAME,
PATH_INFO and QUERY_STRING are the latin-1 dances of `root`, `p` and `qs` (what `EnvironBuilder`
and a WSGI server put there), with a valid scheme and a URI-form host without userinfo that
`get_host` leaves alone: `Request.url` is produced; it splits back into the scheme, the decoded host
with the same port, no fragment; its path component denotes exactly `Request.root_path +
Request.path`, and its query component denotes what the query string denotes - for every Unicode
path (literal `%`, `?`, `#` included), under the stated laws of the opaque host conversions. -/
theorem environ_url_roundtrip_partial (o : UrlOpaque) (laws : HostLaws o)
    (scheme ha hu root p qs : Str) (port : Option Nat)
    (ci : CurInput o scheme ha port (rstripSlash root) (utf8Enc qs)) (hconv : o.hostToUnicode ha = some hu)
    (hgh : getHost scheme (hostBr ha ++ portText port) = hostBr ha ++ portText port) :
    ∃ rv t, requestView o (danceEnviron scheme (hostBr ha ++ portText port) root p qs) = .ok rv ∧
      rv.path = '/' :: lstripSlash p ∧ rv.rootPath = rstripSlash root ∧
      urlsplit o rv.url = .ok t ∧ t.scheme = scheme ∧ t.netloc = hostBr hu ++ portText port ∧
      unquote t.path = rv.rootPath ++ rv.path ∧
      unquote t.query = unquote (quote Gen.UrlTables.curQuerySafe qs) ∧ t.fragment = [] :=
  request_url_denotes laws keep_tables_ok ci hconv hgh

example : CurInput plainOpaque "http".toList "example.com".toList (some 8080) (rstripSlash "/app/".toList)
    (utf8Enc "q=é&x=%41".toList) :=
  ⟨⟨by decide, by decide, by unfold noTab; decide⟩, by decide, by decide, by intro k hk; cases hk; decide,
    by decide, by decide, by decide⟩

example : (((requestView plainOpaque (danceEnviron "http".toList "example.com:8080".toList "/app/".toList
    "/é %41?x".toList "q=é".toList)).toOption.map (fun r => r.url)))
    = some "http://example.com:8080/app/é%20%2541%3Fx?q=é".toList := by decide

/-- `werkzeug.wsgi.get_current_url(environ)` - the environ-level public function, modelled as
`sansio.get_current_url` after the WSGI decoding dance (repair 16e16ac, former finding F15e) - is
exactly `Request(environ).url`, for every environ; so `environ_url_roundtrip_partial` covers it too. -/
theorem wsgi_current_url_is_request_url (o : UrlOpaque) (e : Environ) :
    wsgiCurrentUrl o e false false false = (requestView o e).map (fun r => r.url) :=
  wsgiCurrentUrl_eq_request_url o e

example : (wsgiCurrentUrl plainOpaque (danceEnviron "http".toList "localhost".toList [] "/café".toList [])
    false false false).toOption = some "http://localhost/café".toList := by decide

/-- **`get_host` drops the scheme's default port as a suffix and nothing else**: the reported host is
the Host header with `:80` (http, ws) resp. `:443` (https, wss) cut off its end, or the header itself -
`10.0.0.80:80` gives `10.0.0.80`, never `10.0.0.`. -/
theorem get_host_drops_only_default_port (scheme host : Str) :
    (∃ suf, host = getHost scheme host ++ suf ∧
      (suf = [] ∨ ((scheme = "http".toList ∨ scheme = "ws".toList) ∧ suf = ":80".toList) ∨
        ((scheme = "https".toList ∨ scheme = "wss".toList) ∧ suf = ":443".toList))) ∧
    (∀ h, (scheme = "http".toList ∨ scheme = "ws".toList) → getHost scheme (h ++ ":80".toList) = h) ∧
    (∀ h, (scheme = "https".toList ∨ scheme = "wss".toList) → getHost scheme (h ++ ":443".toList) = h) :=
  getHost_spec scheme host

example : getHost "http".toList "10.0.0.80:80".toList = "10.0.0.80".toList ∧
    getHost "https".toList "cdn4:443".toList = "cdn4".toList ∧
    getHost "https".toList "10.0.0.80:80".toList = "10.0.0.80:80".toList := by decide

/-- The latin-1 "dance" is lossless for every string of Unicode scalar values:
`_wsgi_decoding_dance(_wsgi_encoding_dance(s)) == s`. -/
theorem dance_roundtrip (s : Str) : decodingDance (encodingDance s) = some s :=
  dance_roundtrip' s

/-- `unquote` inverts `quote` on every text without `%`, for every safe set (with werkzeug's error
handler and with `errors="replace"` alike): percent-encoding never changes what a component means. -/
theorem unquote_quote_inverse (safe s : Str) (h : '%' ∉ s) :
    unquote (quote safe s) = s ∧ unquoteReplace (quote safe s) = s :=
  ⟨unquote_quote safe s h, unquoteReplace_quote safe s h⟩

example : unquote (quote "/".toList "/é 日本/#?".toList) = "/é 日本/#?".toList := by decide

/-- with a `%` in the text the statement is false for the safe sets that contain `%` (the text is
then read as already quoted): -/
theorem unquote_quote_needs_no_percent :
    unquote (quote Gen.UrlTables.iriPathSafe "%41".toList) ≠ "%41".toList := by decide

/-- **Environ round trip of the path.** For every path of Unicode scalar values without `%`, the
`PATH_INFO` that `EnvironBuilder` derives (`_wsgi_encoding_dance(unquote(iri_to_uri(path)))`) is read
back exactly by the decoding dance, and `Request.path` is exactly the path when it starts with a
single `/` (urlsplit, which sits in front, is opaque - see known finding F15c). -/
theorem environ_path_roundtrip (p : Str) (hp : '%' ∉ p) :
    decodingDance (environPathInfo p) = some p ∧
    (∀ q, p = '/' :: q → q.head? ≠ some '/' → requestPath (environPathInfo p) = some p) := by
  have h1 : decodingDance (environPathInfo p) = some p := by
    unfold environPathInfo
    rw [unquoteReplace_quote _ p hp]
    exact dance_roundtrip p
  refine ⟨h1, ?_⟩
  intro q hq hhead
  simp only [requestPath, h1, Option.map_some, Option.some.injEq]
  subst hq
  cases q with
  | nil => rfl
  | cons c t =>
    have hc : (c == '/') = false := by simpa using hhead
    simp [List.dropWhile, hc]

example : requestPath (environPathInfo "/é/日本 x".toList) = some "/é/日本 x".toList := by decide

/-- `DispatcherMiddleware` preserves the concatenation: what it appends to SCRIPT_NAME followed by
the new PATH_INFO is the original PATH_INFO, for every mount table and every path. -/
theorem dispatcher_preserves_concat (mounts : List Str) (p : Str) :
    (dispatch mounts p).script ++ (dispatch mounts p).pathInfo = p :=
  (dispatch_spec mounts p).concat

/-- The selected mount is the longest mount key that is a `/`-boundary prefix of PATH_INFO
(`BP k p`: `p == k or p.startswith(k + "/")`), the script name is exactly that key; the default app
is used only when no key is such a prefix. -/
theorem dispatcher_longest_mount (mounts : List Str) (p : Str) :
    (∀ k, (dispatch mounts p).mount = some k →
      k ∈ mounts ∧ (dispatch mounts p).script = k ∧ BP k p ∧
      ∀ k' ∈ mounts, BP k' p → k'.length ≤ k.length) ∧
    ((dispatch mounts p).mount = none → ∀ k' ∈ mounts, ¬ BP k' p) :=
  ⟨(dispatch_spec mounts p).chosen, (dispatch_spec mounts p).default⟩

example : dispatch ["/api".toList, "/api/v1".toList] "/api/v1/users".toList =
    ⟨"/api/v1".toList, "/users".toList, some "/api/v1".toList⟩ := by decide
example : dispatch ["/api".toList] "/apix/y".toList = ⟨[], "/apix/y".toList, none⟩ := by decide
example : BP "/api".toList "/api/v1".toList := ⟨"/v1".toList, by decide, Or.inr (by decide)⟩

end Wz.Props.C15
