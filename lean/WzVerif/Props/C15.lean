/- C15 property theorems (not written yet) -/
namespace Wz.Props.C15
end Wz.Props.C15
