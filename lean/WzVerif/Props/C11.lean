/-
C11 — conditional and range responses are sound.
Property theorems only (helper lemmas live in Lemmas/Conditional.lean).
-/
import WzVerif.Lemmas.Conditional
import WzVerif.Lemmas.EtagText
import WzVerif.Gen.RangeTbl
import WzVerif.Gen.EtagTbl
import WzVerif.Gen.CondConsts
namespace Wz.Props.C11
open Wz Wz.Cond

/-! ## tables regenerated from the live code -/

def cube : List (Option Int × Option Int × Option Int) :=
  Gen.RangeTbl.vals.flatMap fun a => Gen.RangeTbl.vals.flatMap fun b => Gen.RangeTbl.vals.map fun c => (a, b, c)

/-- The live `is_byte_range_valid` and the model agree on the whole cube
`{None, -1, …, 6}³` (729 rows; `decide` over the regenerated table — a flipped inequality or sign
in the function changes a row). -/
theorem byte_range_valid_table_agrees :
    (cube.map fun (a, b, c) => isByteRangeValid a b c) = Gen.RangeTbl.byteRangeValid := by
  decide +kernel

/-- The live `Range.range_for_length` and the model agree for every `(begin, end)` pair with
components in `-1..6` / `None` that the `Range` constructor accepts and every length `None, 0..6`. -/
theorem range_for_length_table_agrees :
    Gen.RangeTbl.rangeForLength.all
      (fun (row : (Int × Option Int) × Option Int × Option (Int × Int)) =>
        rangeForLength ⟨bytesUnit, [row.1]⟩ row.2.1 == row.2.2) = true := by
  decide +kernel

/-! ## the modification check -/

/-- "not modified by date": both dates present and `last_modified`, floored to whole seconds, is not
later than the client's date -/
def dateNotModified (since : Option Int) (lm : Option (Int × Nat)) : Prop :=
  ∃ ms l, since = some ms ∧ lm = some l ∧ l.1 ≤ ms

/-- the documented condition for "not modified" (no `If-Range` evaluation): when the response
carries an entity tag `e`, `If-Match` (strong comparison, honouring `*`) decides if present, else
`If-None-Match` (weak comparison) decides if present — taking precedence over the date; otherwise
`If-Modified-Since` at one-second resolution. -/
def NotModifiedSpec (r : CondReq) (etag : Option Str) (lm : Option (Int × Nat)) : Prop :=
  match etag.bind unquoteEtag with
  | some (e, _) =>
    if (parseEtags r.im).truthy then ¬ (parseEtags r.im).contains e = true
    else if (parseEtags r.inm).truthy then (parseEtags r.inm).containsWeak e = true
    else dateNotModified r.ims lm
  | none => dateNotModified r.ims lm

theorem dateNotModified_iff (since : Option Int) (lm : Option (Int × Nat)) :
    dateUnmodified since (lm.map (·.1)) = true ↔ dateNotModified since lm := by
  unfold dateNotModified dateUnmodified
  cases since <;> cases lm <;> simp

/-- `not_modified_sound` and `not_modified_complete` in one statement: `is_resource_modified`
(with `ignore_if_range=True`, as `make_conditional` calls it for the 304/412 decision) answers
"not modified" exactly under the documented condition. -/
theorem not_modified_iff (r : CondReq) (etag : Option Str) (lm : Option (Int × Nat)) :
    isResourceModified r etag lm true = false ↔ NotModifiedSpec r etag lm := by
  have hd := dateNotModified_iff r.ims lm
  unfold isResourceModified NotModifiedSpec
  simp only [Bool.not_true, Bool.false_and, Bool.false_eq_true, ↓reduceIte, Bool.not_eq_eq_eq_not]
  cases etag with
  | none => simpa using hd
  | some et =>
    simp only [Option.bind_some]
    cases hu : unquoteEtag et with
    | none => simpa using hd
    | some p =>
      obtain ⟨e, w⟩ := p
      simp only
      cases him : (parseEtags r.im).truthy <;> cases hinm : (parseEtags r.inm).truthy <;>
        simp [hd]

example : NotModifiedSpec { inm := some "W/\"abc\"".toList } (some "\"abc\"".toList) none :=
  (not_modified_iff _ _ _).mp (by decide)

/-- One-second resolution: the sub-second part of `last_modified` never influences the answer. -/
theorem microseconds_irrelevant (r : CondReq) (etag : Option Str) (s : Int) (m1 m2 : Nat)
    (ign : Bool) :
    isResourceModified r etag (some (s, m1)) ign = isResourceModified r etag (some (s, m2)) ign := by
  simp [isResourceModified]

/-- `If-None-Match` takes precedence over `If-Modified-Since` when the response has an ETag: with a
non-empty `If-None-Match` (and no `If-Match`) the dates do not matter. -/
theorem if_none_match_precedence (r : CondReq) (et e : Str) (w : Bool)
    (hu : unquoteEtag et = some (e, w)) (hinm : (parseEtags r.inm).truthy = true)
    (him : (parseEtags r.im).truthy = false) (lm : Option (Int × Nat)) :
    isResourceModified r (some et) lm true = !(parseEtags r.inm).containsWeak e := by
  simp [isResourceModified, hu, hinm, him]

example : unquoteEtag "\"abc\"".toList = some ("abc".toList, false) ∧
    (parseEtags (some "\"x\", W/\"abc\"".toList)).truthy = true ∧
    (parseEtags (some "\"x\", W/\"abc\"".toList)).containsWeak "abc".toList = true := by decide

/-- Without an ETag on the response the date alone decides, at one-second resolution and with `≤`. -/
theorem date_only (r : CondReq) (ms s : Int) (m : Nat) (h : r.ims = some ms) :
    isResourceModified r none (some (s, m)) true = false ↔ s ≤ ms := by
  simp [isResourceModified, dateUnmodified, h]

/-- `If-Match: *` admits every current entity tag (repaired F11b): no 412. -/
theorem if_match_star_admits (r : CondReq) (et e : Str) (w : Bool)
    (hu : unquoteEtag et = some (e, w)) (him : r.im = some ['*']) (lm : Option (Int × Nat)) :
    isResourceModified r (some et) lm true = true := by
  have hp : parseEtags (some ['*']) = ⟨[], [], true⟩ := by decide
  simp [isResourceModified, hu, him, hp, ETags.truthy, ETags.contains]

/-- "A 304 always when the validators match", on header text: `If-None-Match: "tag"` against a
response with `ETag: "tag"` is not modified — for every tag free of `"` and line feeds, the empty
tag `""` included (F11e, repaired by a63ec67) — whatever the dates say. -/
theorem inm_self_match (tag : Str) (hc : CleanTag tag) (ims : Option Int) (lm : Option (Int × Nat)) :
    isResourceModified { inm := some (quoteTag tag), ims := ims } (some (quoteTag tag)) lm true = false := by
  rw [if_none_match_precedence _ (quoteTag tag) tag false (unquoteEtag_quoted tag)]
  · simp [parseEtags_quoted tag hc, ETags.containsWeak, ETags.contains]
  · simp [parseEtags_quoted tag hc, ETags.truthy]
  · simp [parseEtags, ETags.empty, ETags.truthy]

/-- regression input of F11e: the empty entity tag now matches itself -/
theorem inm_self_match_empty_tag :
    isResourceModified { inm := some "\"\"".toList } (some "\"\"".toList) none true = false := by decide

example : CleanTag "abc".toList := by
  intro c hc
  have : c = 'a' ∨ c = 'b' ∨ c = 'c' := by simpa using hc
  rcases this with rfl | rfl | rfl <;> decide

/-- `If-Range` with an entity tag (and a `Range` header, `ignore_if_range=False`): the range request
is processable exactly when the tag — weakness dropped — *is* the response's tag (plain equality of
the unquoted texts since 9be10e4, repaired F11g); dates and the other validators are not consulted. -/
theorem if_range_etag (r : CondReq) (et e ie v : Str) (w w' : Bool)
    (hr : r.range.isSome = true) (hv : r.ifRange = some v) (hvne : v ≠ [])
    (hd : looksLikeEtag v = true ∨ r.ifRangeDate = none) (hiv : unquoteEtag v = some (ie, w'))
    (hu : unquoteEtag et = some (e, w)) (lm : Option (Int × Nat)) :
    isResourceModified r (some et) lm false = !(ie == e) := by
  have hve : v.isEmpty = false := by
    cases v with
    | nil => exact absurd rfl hvne
    | cons _ _ => rfl
  have hdate : (if looksLikeEtag v = true then none else r.ifRangeDate) = none := by
    rcases hd with hd | hd <;> simp [hd]
  simp [isResourceModified, hr, parseIfRangeHeader, parseIfRange, hv, hve, hdate, hiv, hu]

/-- A quoted (or `W/`-prefixed quoted) `If-Range` value is an entity tag even when it spells a date
that `parse_date` would accept (31f8ea0; model/code difference reported by builder-translator):
the date parser's answer is not consulted. -/
theorem if_range_quoted_is_etag (value : Str) (d1 d2 : Option Int) (h : looksLikeEtag value = true) :
    parseIfRangeHeader (some value) d1 = parseIfRangeHeader (some value) d2 := by
  simp [parseIfRangeHeader, h]

/-- the reported input: `If-Range: "Wed, 21 Oct 2015 07:28:00 GMT"` (with the quotes) against
`ETag: "abc"` does not validate although the quoted text is the resource's date -/
def quotedDateRequest : CondReq :=
  { range := some "bytes=0-1".toList, ifRange := some "\"Wed, 21 Oct 2015 07:28:00 GMT\"".toList, ifRangeDate := some 1445412480 }

theorem if_range_quoted_date_regression :
    looksLikeEtag "\"Wed, 21 Oct 2015 07:28:00 GMT\"".toList = true ∧
    isResourceModified quotedDateRequest (some "\"abc\"".toList) (some (1445412480, 0)) false = true := by
  decide

example : unquoteEtag "W/\"abc\"".toList = some ("abc".toList, true) ∧
    unquoteEtag "\"abc\"".toList = some ("abc".toList, false) := by decide

/-- `If-Range` with a date: the date replaces `If-Modified-Since` (same `≤`, same one-second
resolution) when the response has no ETag. -/
theorem if_range_date (r : CondReq) (v : Str) (d s : Int) (m : Nat)
    (hr : r.range.isSome = true) (hv : r.ifRange = some v) (hvne : v ≠ [])
    (hnq : looksLikeEtag v = false) (hd : r.ifRangeDate = some d) :
    isResourceModified r none (some (s, m)) false = false ↔ s ≤ d := by
  have hve : v.isEmpty = false := by
    cases v with
    | nil => exact absurd rfl hvne
    | cons _ _ => rfl
  simp [isResourceModified, hr, parseIfRangeHeader, parseIfRange, hv, hve, hnq, hd, dateUnmodified]

def exampleIfRangeDate : CondReq :=
  { range := some "bytes=0-1".toList, ifRange := some "x".toList, ifRangeDate := some 100 }

example : looksLikeEtag "x".toList = false ∧
    isResourceModified exampleIfRangeDate none (some (100, 999999)) false = false ∧
    isResourceModified exampleIfRangeDate none (some (101, 0)) false = true := by decide

/-- An `If-Range` header without a `Range` header is ignored. -/
theorem if_range_without_range_ignored (r : CondReq) (etag : Option Str) (lm : Option (Int × Nat))
    (hr : r.range = none) :
    isResourceModified r etag lm false = isResourceModified r etag lm true := by
  simp [isResourceModified, hr]

/-! ## status decision of make_conditional -/

/-- shape of the status decision (64fcb6a: preconditions first): for GET/HEAD a not-modified
resource gives 412 / 304 before the `Range` header is looked at -/
theorem status_not_modified (method : Str) (q : CondReq) (r : RespIn) (cl : Option Int) (ar : Bool)
    (hm : method = "GET".toList ∨ method = "HEAD".toList)
    (hnm : isResourceModified q r.etag (lmOf r) true = false) :
    makeConditionalStatus method q r cl ar =
      some (if (parseEtags q.im).truthy then 412 else 304, .notRange) := by
  have hm' : (method == ['G', 'E', 'T'] || method == ['H', 'E', 'A', 'D']) = true := by
    rcases hm with rfl | rfl <;> decide
  simp [makeConditionalStatus, hm', hnm]

/-- ... and a modified one is handed to the range logic -/
theorem status_modified (method : Str) (q : CondReq) (r : RespIn) (cl : Option Int) (ar : Bool)
    (hm : method = "GET".toList ∨ method = "HEAD".toList)
    (hmod : isResourceModified q r.etag (lmOf r) true = true) :
    makeConditionalStatus method q r cl ar =
      match processRangeRequest q r cl ar with
      | .unsatisfiable => none
      | .partialContent a b => some (206, .partialContent a b)
      | .notRange => some (200, .notRange) := by
  have hm' : (method == ['G', 'E', 'T'] || method == ['H', 'E', 'A', 'D']) = true := by
    rcases hm with rfl | rfl <;> decide
  unfold makeConditionalStatus
  simp only [hm', hmod, ↓reduceIte, Bool.not_true, Bool.false_eq_true]
  cases processRangeRequest q r cl ar <;> rfl

/-- a request without validators (no If-None-Match / If-Match / If-Modified-Since) always counts as
modified -/
theorem no_validators_modified (range : Option Str) (etag : Option Str) (lm : Option (Int × Nat)) :
    isResourceModified { range := range } etag lm true = true := by
  unfold isResourceModified
  cases etag with
  | none => simp [dateUnmodified]
  | some et => cases hu : unquoteEtag et <;> simp [hu, dateUnmodified, parseEtags, ETags.empty, ETags.truthy]

theorem status_cases (method : Str) (q : CondReq) (r : RespIn) (cl : Option Int) (ar : Bool)
    (st : Nat) (o : RangeOutcome) (h : makeConditionalStatus method q r cl ar = some (st, o)) :
    (st = 200 ∧ o = .notRange) ∨ (∃ a b, st = 206 ∧ o = .partialContent a b ∧
        processRangeRequest q r cl ar = .partialContent a b) ∨
    ((method = "GET".toList ∨ method = "HEAD".toList) ∧
      isResourceModified q r.etag (lmOf r) true = false ∧ o = .notRange ∧
      st = if (parseEtags q.im).truthy then 412 else 304) := by
  have e1 : "GET".toList = ['G', 'E', 'T'] := by decide
  have e2 : "HEAD".toList = ['H', 'E', 'A', 'D'] := by decide
  rw [e1, e2]
  unfold makeConditionalStatus at h
  split at h
  · rename_i hm
    split at h
    · rename_i hnm
      simp only [Option.some.injEq, Prod.mk.injEq] at h
      right; right
      exact ⟨by simpa using hm, by simpa using hnm, h.2.symm, h.1.symm⟩
    · cases hp : processRangeRequest q r cl ar with
      | unsatisfiable => rw [hp] at h; cases h
      | partialContent a b =>
        rw [hp] at h
        simp only [Option.some.injEq, Prod.mk.injEq] at h
        right; left
        exact ⟨a, b, h.1.symm, h.2.symm, rfl⟩
      | notRange =>
        rw [hp] at h
        simp only [Option.some.injEq, Prod.mk.injEq] at h
        left; exact ⟨h.1.symm, h.2.symm⟩
  · simp only [Option.some.injEq, Prod.mk.injEq] at h
    left; exact ⟨h.1.symm, h.2.symm⟩

/-- A 412 is produced only for GET/HEAD, only when an `If-Match` header with at least one tag was
sent, and — when the response carries an ETag — only when `If-Match` does not admit it (strong
comparison, `*` admits everything). -/
theorem status_412_only_if (method : Str) (q : CondReq) (r : RespIn) (cl : Option Int) (ar : Bool)
    (o : RangeOutcome) (h : makeConditionalStatus method q r cl ar = some (412, o)) :
    (parseEtags q.im).truthy = true ∧
    ∀ e w, r.etag.bind unquoteEtag = some (e, w) → (parseEtags q.im).contains e = false := by
  rcases status_cases method q r cl ar 412 o h with ⟨h1, _⟩ | ⟨a, b, h1, _⟩ | ⟨_, hnm, _, hst⟩
  · cases h1
  · cases h1
  · have him : (parseEtags q.im).truthy = true := by
      by_cases hc : (parseEtags q.im).truthy = true
      · exact hc
      · simp [hc] at hst
    refine ⟨him, ?_⟩
    intro e w he
    have := (not_modified_iff q r.etag (lmOf r)).mp hnm
    unfold NotModifiedSpec at this
    rw [he] at this
    simp only [him, ↓reduceIte] at this
    simpa using this

example : makeConditionalStatus "GET".toList { im := some "\"b\"".toList } { etag := some "\"a\"".toList }
    none false = some (412, .notRange) := by decide

/-- A 304 is produced only for GET/HEAD, only without `If-Match` tags, and only under the documented
not-modified condition. -/
theorem status_304_sound (method : Str) (q : CondReq) (r : RespIn) (cl : Option Int) (ar : Bool)
    (o : RangeOutcome) (h : makeConditionalStatus method q r cl ar = some (304, o)) :
    (method = "GET".toList ∨ method = "HEAD".toList) ∧ (parseEtags q.im).truthy = false ∧
    NotModifiedSpec q r.etag (lmOf r) := by
  rcases status_cases method q r cl ar 304 o h with ⟨h1, _⟩ | ⟨a, b, h1, _⟩ | ⟨hm, hnm, _, hst⟩
  · cases h1
  · cases h1
  · refine ⟨hm, ?_, (not_modified_iff q r.etag (lmOf r)).mp hnm⟩
    by_cases hc : (parseEtags q.im).truthy = true
    · simp [hc] at hst
    · simpa using hc

example : makeConditionalStatus "HEAD".toList { inm := some "W/\"a\"".toList }
    { etag := some "\"a\"".toList } none false = some (304, .notRange) := by decide

/-- "A 304 always when the validators match, for GET/HEAD" — at full strength since 64fcb6a
(F11c): whatever `Range` / `If-Range` headers the request carries, whether or not ranges are
accepted and whatever the length, a GET/HEAD whose validators match (documented condition, no
`If-Match` tags) is answered 304. -/
theorem status_304_complete (method : Str) (q : CondReq) (r : RespIn) (cl : Option Int) (ar : Bool)
    (hm : method = "GET".toList ∨ method = "HEAD".toList)
    (him : (parseEtags q.im).truthy = false) (hnm : NotModifiedSpec q r.etag (lmOf r)) :
    makeConditionalStatus method q r cl ar = some (304, .notRange) := by
  rw [status_not_modified method q r cl ar hm ((not_modified_iff q r.etag (lmOf r)).mpr hnm)]
  simp [him]

/-- regression input of F11c: matching If-None-Match together with a Range header -/
theorem status_304_with_range :
    makeConditionalStatus "GET".toList
      { range := some "bytes=0-1".toList, inm := some "\"abc\"".toList }
      { etag := some "\"abc\"".toList } (some 10) true = some (304, .notRange) ∧
    makeConditionalStatus "GET".toList
      { range := some "bogus".toList, inm := some "\"abc\"".toList }
      { etag := some "\"abc\"".toList } (some 10) true = some (304, .notRange) := by decide

/-- A failing `If-Match` (the response's tag is not admitted) is answered 412 for GET/HEAD, also
when a `Range` header is present. -/
theorem status_412_complete (method : Str) (q : CondReq) (r : RespIn) (cl : Option Int) (ar : Bool)
    (hm : method = "GET".toList ∨ method = "HEAD".toList)
    (him : (parseEtags q.im).truthy = true) (hnm : NotModifiedSpec q r.etag (lmOf r)) :
    makeConditionalStatus method q r cl ar = some (412, .notRange) := by
  rw [status_not_modified method q r cl ar hm ((not_modified_iff q r.etag (lmOf r)).mpr hnm)]
  simp [him]

example : NotModifiedSpec { range := some "bytes=0-1".toList, im := some "\"b\"".toList }
    (some "\"a\"".toList) none := (not_modified_iff _ _ _).mp (by decide)

/-- Other methods are never made conditional. -/
theorem other_methods_untouched (method : Str) (q : CondReq) (r : RespIn) (cl : Option Int)
    (ar : Bool) (h1 : method ≠ "GET".toList) (h2 : method ≠ "HEAD".toList) :
    makeConditionalStatus method q r cl ar = some (200, .notRange) := by
  have e1 : "GET".toList = ['G', 'E', 'T'] := by decide
  have e2 : "HEAD".toList = ['H', 'E', 'A', 'D'] := by decide
  rw [e1] at h1; rw [e2] at h2
  simp [makeConditionalStatus, h1, h2]

/-! ## ranges -/

/-- `range_for_length` is sound: a result `(a, b)` is a non-empty interval inside the resource, and
inside the single requested range: `a = begin`, `b = min(end, length)` for `begin-end`;
`[begin, length)` for an open range; the last `-begin` bytes for a suffix range. -/
theorem rangeForLength_sound (r : Range) (l a b : Int) (h : rangeForLength r (some l) = some (a, b)) :
    0 ≤ a ∧ a < b ∧ b ≤ l ∧ r.units = bytesUnit ∧
    ∃ s e, r.ranges = [(s, e)] ∧
      (∀ e', e = some e' → a = s ∧ b = min e' l) ∧
      (e = none → 0 ≤ s → a = s ∧ b = l) ∧
      (e = none → s < 0 → a = l + s ∧ b = l) := by
  unfold rangeForLength at h
  split at h
  · rename_i l' start end_ hl hr
    simp only [Option.some.injEq] at hl
    subst hl
    split at h
    · cases h
    · rename_i hu
      have hu' : r.units = bytesUnit := by simpa using hu
      cases end_ with
      | some e =>
        simp only [isByteRangeValid] at h
        by_cases hse : start ≥ e
        · simp [hse] at h
        · simp only [hse, ↓reduceIte, Bool.and_eq_true, decide_eq_true_eq] at h
          split at h
          · rename_i hv
            simp only [Option.some.injEq, Prod.mk.injEq] at h
            obtain ⟨rfl, rfl⟩ := h
            refine ⟨hv.1, by omega, by omega, hu', start, some e, hr, ?_, by simp, by simp⟩
            intro e' he'
            cases he'
            exact ⟨rfl, rfl⟩
          · cases h
      | none =>
        simp only [isByteRangeValid] at h
        by_cases hneg : start < 0
        · simp only [hneg, ↓reduceIte] at h
          by_cases hse : start + l ≥ l
          · simp [hse] at h
          · simp only [hse, ↓reduceIte, Bool.and_eq_true, decide_eq_true_eq] at h
            split at h
            · rename_i hv
              simp only [Option.some.injEq, Prod.mk.injEq] at h
              obtain ⟨rfl, rfl⟩ := h
              refine ⟨hv.1, by omega, by omega, hu', start, none, hr, by simp, ?_, ?_⟩
              · intro _ hs; omega
              · intro _ _; exact ⟨by omega, by omega⟩
            · cases h
        · simp only [hneg, ↓reduceIte] at h
          by_cases hse : start ≥ l
          · simp [hse] at h
          · simp only [hse, ↓reduceIte, Bool.and_eq_true, decide_eq_true_eq] at h
            split at h
            · rename_i hv
              simp only [Option.some.injEq, Prod.mk.injEq] at h
              obtain ⟨rfl, rfl⟩ := h
              refine ⟨hv.1, by omega, by omega, hu', start, none, hr, by simp, ?_, ?_⟩
              · intro _ _; exact ⟨rfl, by omega⟩
              · intro _ hs; omega
            · cases h
  · cases h

example : rangeForLength ⟨bytesUnit, [(-3, none)]⟩ (some 10) = some (7, 10) ∧
    rangeForLength ⟨bytesUnit, [(2, some 100)]⟩ (some 10) = some (2, 10) := by decide

/-- multi-range and foreign-unit headers are instances of `hbad` -/
theorem multi_or_foreign_unit_unsatisfiable (pr : Range) (l : Option Int)
    (h : pr.ranges.length ≠ 1 ∨ pr.units ≠ bytesUnit) : rangeForLength pr l = none := by
  unfold rangeForLength
  split
  · rename_i l' s e _ hr
    rcases h with h | h
    · rw [hr] at h; simp at h
    · simp [h]
  · rfl

/-! ### Range header text → requested range -/

/-- `bytes=<first>-<last>` (decimal digit strings, first ≤ last) parses to the half-open range
`[first, last+1)`. -/
theorem parse_range_first_last (d1 d2 : Str) (h1 : IsDigits d1) (h2 : IsDigits d2)
    (hle : digitsVal d1 ≤ digitsVal d2) :
    parseRangeHeader (some (bytesEq ++ (d1 ++ '-' :: d2))) =
      some ⟨bytesUnit, [((digitsVal d1 : Int), some ((digitsVal d2 : Int) + 1))]⟩ := by
  have hnc : ∀ c ∈ d1 ++ '-' :: d2, c ≠ ',' := by
    intro c hc
    rcases List.mem_append.mp hc with hc | hc
    · exact digits_no_comma h1.2 c hc
    · rcases List.mem_cons.mp hc with rfl | hc
      · decide
      · exact digits_no_comma h2.2 c hc
  rw [parseRangeHeader_bytes, splitOnChar_none _ _ _ hnc]
  simp only [List.reverse_nil, List.nil_append]
  rw [item_first_last d1 d2 h1 h2 hle 0 (by omega) (by omega)]
  simp [parseRangeItems]

/-- `bytes=<first>-` parses to the open range starting at `first`. -/
theorem parse_range_open (d1 : Str) (h1 : IsDigits d1) :
    parseRangeHeader (some (bytesEq ++ (d1 ++ ['-']))) =
      some ⟨bytesUnit, [((digitsVal d1 : Int), none)]⟩ := by
  have hnc : ∀ c ∈ d1 ++ ['-'], c ≠ ',' := by
    intro c hc
    rcases List.mem_append.mp hc with hc | hc
    · exact digits_no_comma h1.2 c hc
    · simp only [List.mem_singleton] at hc; subst hc; decide
  rw [parseRangeHeader_bytes, splitOnChar_none _ _ _ hnc]
  simp only [List.reverse_nil, List.nil_append]
  rw [item_open d1 h1 0 (by omega) (by omega)]
  simp [parseRangeItems]

/-- `bytes=-<n>` with `n > 0` parses to the suffix range of length `n` (stored as begin `-n`). -/
theorem parse_range_suffix (d : Str) (h : IsDigits d) (hpos : 0 < digitsVal d) :
    parseRangeHeader (some (bytesEq ++ ('-' :: d))) =
      some ⟨bytesUnit, [(-(digitsVal d : Int), none)]⟩ := by
  have hnc : ∀ c ∈ '-' :: d, c ≠ ',' := by
    intro c hc
    rcases List.mem_cons.mp hc with rfl | hc
    · decide
    · exact digits_no_comma h.2 c hc
  rw [parseRangeHeader_bytes, splitOnChar_none _ _ _ hnc]
  simp only [List.reverse_nil, List.nil_append]
  rw [item_suffix d h hpos 0 (by omega)]
  simp [parseRangeItems]

/-- Two well-formed ascending specs `a-b,c-d` parse to two ranges — and therefore (multi-range)
are answered with 416 by `range_416_partial`. -/
theorem parse_range_two (d1 d2 d3 d4 : Str) (h1 : IsDigits d1) (h2 : IsDigits d2) (h3 : IsDigits d3)
    (h4 : IsDigits d4) (h12 : digitsVal d1 ≤ digitsVal d2) (h23 : digitsVal d2 < digitsVal d3)
    (h34 : digitsVal d3 ≤ digitsVal d4) (l : Option Int) :
    (parseRangeHeader (some (bytesEq ++ ((d1 ++ '-' :: d2) ++ ',' :: (d3 ++ '-' :: d4))))).bind
      (fun pr => rangeForLength pr l) = none := by
  have hnc1 : ∀ c ∈ d1 ++ '-' :: d2, c ≠ ',' := by
    intro c hc
    rcases List.mem_append.mp hc with hc | hc
    · exact digits_no_comma h1.2 c hc
    · rcases List.mem_cons.mp hc with rfl | hc
      · decide
      · exact digits_no_comma h2.2 c hc
  have hnc2 : ∀ c ∈ d3 ++ '-' :: d4, c ≠ ',' := by
    intro c hc
    rcases List.mem_append.mp hc with hc | hc
    · exact digits_no_comma h3.2 c hc
    · rcases List.mem_cons.mp hc with rfl | hc
      · decide
      · exact digits_no_comma h4.2 c hc
  rw [parseRangeHeader_bytes, splitOnChar_cons _ _ _ _ hnc1, splitOnChar_none _ _ _ hnc2]
  simp only [List.reverse_nil, List.nil_append]
  rw [item_first_last d1 d2 h1 h2 h12 0 (by omega) (by omega),
    item_first_last d3 d4 h3 h4 h34 _ (by omega) (by omega)]
  simp only [parseRangeItems, List.reverse_cons, List.reverse_nil, List.nil_append, List.cons_append,
    Option.map_some, Option.bind_some]
  exact multi_or_foreign_unit_unsatisfiable _ l (Or.inl (by simp))

/-- A 206 lies inside what the header text asked for: for `bytes=<first>-<last>` and a resource of
length `l` the selected range is `[first, min(last+1, l))`; for `bytes=<first>-` it is
`[first, l)`; for `bytes=-<n>` with `n > 0` it is the last `n` bytes. -/
theorem range_text_sound (d1 d2 : Str) (h1 : IsDigits d1) (h2 : IsDigits d2) (l a b : Int) :
    (digitsVal d1 ≤ digitsVal d2 →
      (parseRangeHeader (some (bytesEq ++ (d1 ++ '-' :: d2)))).bind (fun pr => rangeForLength pr (some l))
        = some (a, b) → a = digitsVal d1 ∧ b = min ((digitsVal d2 : Int) + 1) l ∧ b ≤ l) ∧
    ((parseRangeHeader (some (bytesEq ++ (d1 ++ ['-'])))).bind (fun pr => rangeForLength pr (some l))
        = some (a, b) → a = digitsVal d1 ∧ b = l) ∧
    (0 < digitsVal d1 →
      (parseRangeHeader (some (bytesEq ++ ('-' :: d1)))).bind (fun pr => rangeForLength pr (some l))
        = some (a, b) → a = l - digitsVal d1 ∧ b = l ∧ 0 ≤ a) := by
  refine ⟨?_, ?_, ?_⟩
  · intro hle h
    rw [parse_range_first_last d1 d2 h1 h2 hle] at h
    simp only [Option.bind_some] at h
    obtain ⟨_, _, hbl, _, s, e, hr, hfl, _, _⟩ := rangeForLength_sound _ l a b h
    simp only [List.cons.injEq, Prod.mk.injEq, and_true] at hr
    obtain ⟨rfl, rfl⟩ := hr
    obtain ⟨ha, hb⟩ := hfl _ rfl
    exact ⟨ha, hb, hbl⟩
  · intro h
    rw [parse_range_open d1 h1] at h
    simp only [Option.bind_some] at h
    obtain ⟨_, _, _, _, s, e, hr, _, hop, _⟩ := rangeForLength_sound _ l a b h
    simp only [List.cons.injEq, Prod.mk.injEq, and_true] at hr
    obtain ⟨rfl, rfl⟩ := hr
    exact hop rfl (by omega)
  · intro hpos h
    rw [parse_range_suffix d1 h1 hpos] at h
    simp only [Option.bind_some] at h
    obtain ⟨h0, _, _, _, s, e, hr, _, _, hsf⟩ := rangeForLength_sound _ l a b h
    simp only [List.cons.injEq, Prod.mk.injEq, and_true] at hr
    obtain ⟨rfl, rfl⟩ := hr
    obtain ⟨ha, hb⟩ := hsf rfl (by omega)
    exact ⟨by omega, hb, h0⟩

example : IsDigits "12".toList ∧ digitsVal "12".toList = 12 := by
  refine ⟨⟨by decide, ?_⟩, by decide⟩
  intro c hc
  have : c = '1' ∨ c = '2' := by simpa using hc
  rcases this with rfl | rfl <;> decide

/-- `bytes=-0` (any spelling of a zero suffix length: `-0`, `-00`, …) selects nothing: the header
is rejected (F11d, repaired by 84dd3fe), which `range_416_partial` turns into 416. -/
theorem suffix_zero_unsatisfiable (d : Str) (h : IsDigits d) (hz : digitsVal d = 0) (l : Option Int) :
    (parseRangeHeader (some (bytesEq ++ ('-' :: d)))).bind (fun r => rangeForLength r l) = none := by
  have hnc : ∀ c ∈ '-' :: d, c ≠ ',' := by
    intro c hc
    rcases List.mem_cons.mp hc with rfl | hc
    · decide
    · exact digits_no_comma h.2 c hc
  rw [parseRangeHeader_bytes, splitOnChar_none _ _ _ hnc]
  simp only [List.reverse_nil, List.nil_append]
  rw [item_suffix_zero d h hz]
  rfl

example : IsDigits "0".toList ∧ digitsVal "0".toList = 0 ∧
    parseRangeHeader (some "bytes=-0".toList) = none := by
  refine ⟨⟨by decide, ?_⟩, by decide, by decide⟩
  intro c hc
  have : c = '0' := by simpa using hc
  subst this; decide

/-- KEY THEOREM (`rangeWrapper_exact`, iterator path). For every chunking of the body — any number
of chunks of any sizes, empty chunks included — and every `start`, `len`, the chunks emitted by
`_RangeWrapper` concatenate to exactly `body[start : start + len]`, and none of them is empty. -/
theorem rangeWrapper_exact_iter (chunks : List Bytes) (start len : Nat) :
    (rangeWrapIter chunks start len).flatten = (chunks.flatten.drop start).take len ∧
    AllNonEmpty (rangeWrapIter chunks start len) := by
  unfold rangeWrapIter
  cases hf : rwFirst start chunks 0 with
  | none =>
    have := rwFirst_none start chunks 0 (Nat.zero_le _) hf
    refine ⟨?_, by intro c hc; simp at hc⟩
    rw [List.drop_of_length_le (by omega)]
    simp
  | some p =>
    obtain ⟨c, cs, rl⟩ := p
    obtain ⟨h1, h2, h3⟩ := rwFirst_some start chunks 0 (Nat.zero_le _) c cs rl hf
    simp only [Nat.sub_zero] at h1
    simp only
    rw [← h1]
    split
    · rename_i hge
      have hle : len ≤ c.length := by omega
      rw [List.take_append_of_le_length hle]
      split
      · rename_i he
        have : List.take len c = [] := by simpa using he
        refine ⟨by simp [this], by intro x hx; simp at hx⟩
      · rename_i hne
        refine ⟨by simp, ?_⟩
        intro x hx
        simp only [List.mem_singleton] at hx
        subst hx
        exact isEmpty_false_ne (by simpa using hne)
    · rename_i hlt
      have hc : c.isEmpty = false := by
        cases c with
        | nil => exact absurd rfl h3
        | cons _ _ => rfl
      simp only [hc, Bool.false_eq_true, ↓reduceIte]
      refine ⟨?_, ?_⟩
      · rw [List.flatten_append, rwRest_flatten _ _ _ (by omega), List.take_append,
          List.take_of_length_le (by omega : c.length ≤ len)]
        have : start + len - rl = len - c.length := by omega
        simp [this]
      · intro x hx
        rcases List.mem_append.mp hx with hx | hx
        · simp only [List.mem_singleton] at hx
          subst hx; exact h3
        · exact rwRest_nonEmpty _ _ _ x hx

example : rangeWrapIter [[1, 2, 3], [], [4, 5, 6]] 0 6 = [[1, 2, 3], [4, 5, 6]] ∧
    rangeWrapIter [[], [1], [], [2, 3, 4], [5]] 1 3 = [[2, 3, 4]] := by decide

/-- KEY THEOREM (`rangeWrapper_exact`, seekable path). For a seekable file of content `data` read
through a `FileWrapper` with any block size `b ≥ 1`, the emitted chunks concatenate to exactly
`data[start : start + len]` and none is empty. -/
theorem rangeWrapper_exact_seek (data : Bytes) (b : Nat) (hb : 0 < b) (start len : Nat) :
    (rangeWrapSeek data b start len).flatten = (data.drop start).take len ∧
    AllNonEmpty (rangeWrapSeek data b start len) := by
  unfold rangeWrapSeek
  refine ⟨?_, rwRest_nonEmpty _ _ _⟩
  rw [rwRest_flatten _ _ _ (by omega),
    blocks_flatten b hb _ _ (by rw [List.length_drop]; omega)]
  congr 1
  omega

example : rangeWrapSeek [1, 2, 3, 4, 5, 6, 7] 2 1 4 = [[2, 3], [4, 5]] := by decide

/-- Both paths deliver the same bytes. -/
theorem rangeWrapper_paths_agree (chunks : List Bytes) (b : Nat) (hb : 0 < b) (start len : Nat) :
    (rangeWrapIter chunks start len).flatten = (rangeWrapSeek chunks.flatten b start len).flatten := by
  rw [(rangeWrapper_exact_iter chunks start len).1, (rangeWrapper_exact_seek chunks.flatten b hb start len).1]

/-- `FileWrapper` loses nothing on short reads: for every short-read schedule of the underlying
file object (read(n) returning 1..n bytes although more follows), the items `FileWrapper` yields
are non-empty and concatenate to exactly the file's remaining bytes — a short block is *not* the
last one, only an empty read is (seeded change C11-f1). -/
theorem file_wrapper_yields_all (b : Nat) (hb : 0 < b) (fuel : Nat) (sched : List Nat) (d : Bytes)
    (h : d.length < fuel) :
    (fileWrapperItems b fuel sched d).flatten = d ∧ AllNonEmpty (fileWrapperItems b fuel sched d) := by
  induction fuel generalizing sched d with
  | zero => omega
  | succ n ih =>
    simp only [fileWrapperItems]
    have hb' : (b == 0) = false := by simp; omega
    cases hd : d.isEmpty with
    | true =>
      have : d = [] := by simpa using hd
      subst this
      exact ⟨by simp, by intro c hc; simp at hc⟩
    | false =>
      simp only [hb', Bool.or_self, Bool.false_eq_true, ↓reduceIte]
      have hne : d ≠ [] := by intro e; subst e; simp at hd
      have hlen : 0 < d.length := List.length_pos_iff.mpr hne
      have hk : 0 < max 1 (min b (sched.headD b)) := by omega
      generalize max 1 (min b (sched.headD b)) = k at hk ⊢
      obtain ⟨h1, h2⟩ := ih sched.tail (d.drop k) (by rw [List.length_drop]; omega)
      refine ⟨by rw [List.flatten_cons, h1]; exact List.take_append_drop _ d, ?_⟩
      intro c hc
      rcases List.mem_cons.mp hc with rfl | hc
      · intro e
        have := congrArg List.length e
        rw [List.length_take, List.length_nil] at this
        omega
      · exact h2 c hc

/-- … so a range over a short-reading, non-seekable file is still exact: `_RangeWrapper` over the
items of `FileWrapper` delivers `data[start : start+len]` for every read schedule. -/
theorem range_over_short_reads_exact (b : Nat) (hb : 0 < b) (sched : List Nat) (data : Bytes)
    (start len : Nat) :
    (rangeWrapIter (fileWrapperItems b (data.length + 1) sched data) start len).flatten
      = (data.drop start).take len := by
  rw [(rangeWrapper_exact_iter _ start len).1, (file_wrapper_yields_all b hb _ sched data (by omega)).1]

example : fileWrapperItems 4 11 [2, 3] [1, 2, 3, 4, 5, 6, 7, 8, 9, 10] = [[1, 2], [3, 4, 5], [6, 7, 8, 9], [10]] ∧
    rangeWrapIter (fileWrapperItems 4 11 [2, 3] [1, 2, 3, 4, 5, 6, 7, 8, 9, 10]) 3 5 = [[4, 5], [6, 7, 8]] := by
  decide


/-! ## the whole response -/

/-- `range_response`, the 206 case: a 206 comes with `Content-Range: bytes a-(b-1)/length`,
`Content-Length: b-a`, `0 ≤ a < b ≤ length`, and (for GET, whatever the chunking and whether or
not the body is a seekable file) a body that is exactly bytes `[a, b)` of the full body. -/
theorem range_response_206 (method : Str) (q : CondReq) (r : RespIn) (l : Int) (ar : Bool)
    (chunks : List Bytes) (seek : Option Nat) (kind : Nat) (o : WsgiOut)
    (hseek : ∀ bs, seek = some bs → 0 < bs)
    (h : respond method q r (some l) ar chunks seek kind = some o) (hs : o.status = 206) :
    ∃ a b : Int, 0 ≤ a ∧ a < b ∧ b ≤ l ∧
      o.contentRange = some (a, b - 1, l) ∧ o.contentLength = some (b - a) ∧
      (method ≠ "HEAD".toList →
        o.body.flatten = (chunks.flatten.drop a.toNat).take (b - a).toNat) ∧
      (method = "HEAD".toList → o.body = []) := by
  have e2 : "HEAD".toList = ['H', 'E', 'A', 'D'] := by decide
  rw [e2]
  unfold respond at h
  simp only at h
  cases hmc : makeConditionalStatus method q r (some l) ar with
  | none => rw [hmc] at h; cases h
  | some p =>
    obtain ⟨st, oc⟩ := p
    rw [hmc] at h
    -- which statuses can makeConditionalStatus produce together with which outcome?
    have hshape : (st = 206 ∧ ∃ a b, oc = .partialContent a b ∧
        processRangeRequest q r (some l) ar = .partialContent a b) ∨ (st ≠ 206 ∧ oc = .notRange) := by
      rcases status_cases method q r (some l) ar st oc hmc with ⟨h1, h2⟩ | ⟨a, b, h1, h2, h3⟩ | ⟨_, _, h2, h3⟩
      · exact Or.inr ⟨by omega, h2⟩
      · exact Or.inl ⟨h1, a, b, h2, h3⟩
      · refine Or.inr ⟨?_, h2⟩
        rw [h3]; split <;> decide
    rcases hshape with ⟨rfl, a, b, rfl, hp⟩ | ⟨hne, rfl⟩
    · simp only [Option.some.injEq] at h
      -- the range comes from rangeForLength
      have hr : ∃ pr, rangeForLength pr (some l) = some (a, b) := by
        unfold processRangeRequest at hp
        simp only at hp
        split at hp
        · cases hp
        · split at hp
          · cases hp
          · rename_i pr _
            split at hp
            · cases hp
            · rename_i a' b' hrf
              simp only [RangeOutcome.partialContent.injEq] at hp
              exact ⟨pr, by rw [hrf, hp.1, hp.2]⟩
      obtain ⟨pr, hrf⟩ := hr
      obtain ⟨h0, hab, hbl, _, _⟩ := rangeForLength_sound pr l a b hrf
      subst h
      refine ⟨a, b, h0, hab, hbl, by simp, rfl, ?_, ?_⟩
      · intro hm
        have hm' : (method == ['H', 'E', 'A', 'D']) = false := by simpa using hm
        simp only [hm', Bool.false_eq_true, ↓reduceIte]
        cases seek with
        | none => exact (rangeWrapper_exact_iter chunks a.toNat (b - a).toNat).1
        | some bs => exact (rangeWrapper_exact_seek chunks.flatten bs (hseek bs rfl) a.toNat (b - a).toNat).1
      · intro hm
        simp [hm]
    · exfalso
      -- a non-206 status from makeConditionalStatus never yields o.status = 206
      simp only at h
      split at h
      · simp only [Option.some.injEq] at h
        subst h
        simp at hs
      · simp only [Option.some.injEq] at h
        subst h
        exact hne hs

example : (respond "GET".toList { range := some "bytes=2-4".toList } {} (some 6) true
    [[65, 66, 67], [], [68, 69, 70]] none 0).map (·.body) = some [[67], [68, 69]] := by decide

/-- End to end for the commonest request: `GET` with `Range: bytes=<first>-<last>` (first ≤ last,
first inside a resource of length `n > 0`, no `If-Range`) is answered 206 with
`Content-Range: bytes first-(b-1)/n`, `Content-Length: b - first` where `b = min(last+1, n)`, and
a body that is exactly `body[first:b]` — for every chunking of the body. -/
theorem satisfiable_range_206 (d1 d2 : Str) (h1 : IsDigits d1) (h2 : IsDigits d2)
    (hle : digitsVal d1 ≤ digitsVal d2) (chunks : List Bytes) (r : RespIn) (n : Nat)
    (ha : digitsVal d1 < n) (kind : Nat) :
    let a : Nat := digitsVal d1
    let b : Nat := min (digitsVal d2 + 1) n
    ∃ o, respond "GET".toList { range := some (bytesEq ++ (d1 ++ '-' :: d2)) } r
        (some (n : Int)) true chunks none kind = some o ∧
      o.status = 206 ∧ o.contentRange = some ((a : Int), (b : Int) - 1, (n : Int)) ∧
      o.contentLength = some ((b : Int) - a) ∧
      o.body.flatten = (chunks.flatten.drop a).take (b - a) := by
  intro a b
  have hp := parse_range_first_last d1 d2 h1 h2 hle
  have hrf : rangeForLength ⟨bytesUnit, [((digitsVal d1 : Int), some ((digitsVal d2 : Int) + 1))]⟩
      (some (n : Int)) = some ((a : Int), (b : Int)) := by
    unfold rangeForLength isByteRangeValid
    have c1 : ¬ ((digitsVal d1 : Int) ≥ (digitsVal d2 : Int) + 1) := by omega
    have c2 : (digitsVal d1 : Int) < (n : Int) := by omega
    simp [c1, c2, a, b]
    omega
  have hmc : makeConditionalStatus "GET".toList { range := some (bytesEq ++ (d1 ++ '-' :: d2)) } r
      (some (n : Int)) true = some (206, .partialContent a b) := by
    have hz : n ≠ 0 := by omega
    rw [status_modified _ _ _ _ _ (Or.inl rfl) (no_validators_modified _ _ _)]
    simp [processRangeRequest, rangeProcessable, hp, hrf, hz]
  have e1 : ("GET".toList == ['H', 'E', 'A', 'D']) = false := by decide
  have e : ((b : Int) - (a : Int)).toNat = b - a := by omega
  have hr : respond "GET".toList { range := some (bytesEq ++ (d1 ++ '-' :: d2)) } r
      (some (n : Int)) true chunks none kind =
      some ⟨206, some ((a : Int), (b : Int) - 1, (n : Int)), some ((b : Int) - a),
        rangeWrapIter chunks a (b - a), true⟩ := by
    simp only [respond, hmc, e1, Bool.false_eq_true, ↓reduceIte, Option.getD_some, Int.toNat_natCast, e]
  exact ⟨_, hr, rfl, rfl, rfl, (rangeWrapper_exact_iter chunks a (b - a)).1⟩

example : (respond "GET".toList { range := some (bytesEq ++ "1-3".toList) } {} (some 6) true
    [[65], [], [66, 67, 68, 69], [70]] none 0).map (fun o => (o.status, o.body)) =
    some (206, [[66, 67, 68]]) := by decide

/-- the full-strength reading of "unparsable, unsatisfiable and multi-range requests yield 416"
(for GET with ranges accepted and a known length) -/
def Range416Full : Prop :=
  ∀ (q : CondReq) (r : RespIn) (l : Int), 0 ≤ l → q.ifRange = none → q.range.isSome = true →
    isResourceModified q r.etag (lmOf r) true = true →
    (parseRangeHeader q.range).bind (fun pr => rangeForLength pr (some l)) = none →
    makeConditionalStatus "GET".toList q r (some l) true = none

/-- Known finding F11f: false for the empty resource — range handling is skipped when the length
is 0 and the request is answered with the (empty) complete body. -/
theorem range_416_full_false : ¬ Range416Full := by
  intro h
  have := h { range := some "bytes=0-1".toList } {} 0 (by decide) rfl rfl (by decide) (by decide)
  revert this
  decide

/-- `_partial` (`range_response`, the 416 case): for GET/HEAD, ranges accepted, a known non-zero
length, a resource that counts as modified (otherwise the answer is 304 / 412) and a processable
range request (no `If-Range`, or one that validates), a `Range` header that
cannot be parsed, names another unit, lists several ranges or is not satisfiable for the length
yields 416. Excluded: length 0 (F11f). -/
theorem range_416_partial (method : Str) (q : CondReq) (r : RespIn) (l : Int) (hl : l ≠ 0)
    (hm : method = "GET".toList ∨ method = "HEAD".toList)
    (hmod : isResourceModified q r.etag (lmOf r) true = true)
    (hproc : rangeProcessable q r = true)
    (hbad : (parseRangeHeader q.range).bind (fun pr => rangeForLength pr (some l)) = none) :
    makeConditionalStatus method q r (some l) true = none := by
  have hp : processRangeRequest q r (some l) true = .unsatisfiable := by
    unfold processRangeRequest
    have : (l == 0) = false := by simpa using hl
    simp only [Bool.not_true, Bool.false_or, this, hproc, Bool.false_eq_true, ↓reduceIte]
    cases hpr : parseRangeHeader q.range with
    | none => rfl
    | some pr =>
      rw [hpr] at hbad
      simp only [Option.bind_some] at hbad
      simp [hbad]
  rw [status_modified method q r (some l) true hm hmod, hp]

example : isResourceModified { range := some "bytes=0-0,2-3".toList } none none true = true ∧
    rangeProcessable { range := some "bytes=0-0,2-3".toList } {} = true ∧
    (parseRangeHeader (some "bytes=0-0,2-3".toList)).bind (fun pr => rangeForLength pr (some 6)) = none := by
  decide

/-- `range_response`, the ignored case: when the request is not treated as a range request (other
method; no `Range`; ranges not accepted; failed `If-Range`) and the resource counts as modified,
the answer is the complete body with status 200. -/
theorem ignored_range_full_body (method : Str) (q : CondReq) (r : RespIn) (cl : Option Int)
    (ar : Bool) (chunks : List Bytes) (seek : Option Nat) (kind : Nat)
    (h : makeConditionalStatus method q r cl ar = some (200, .notRange)) :
    ∃ o, respond method q r cl ar chunks seek kind = some o ∧ o.status = 200 ∧
      o.contentRange = none ∧
      (method ≠ "HEAD".toList → o.body.flatten = chunks.flatten) := by
  have e2 : "HEAD".toList = ['H', 'E', 'A', 'D'] := by decide
  rw [e2]
  unfold respond
  simp only [h]
  refine ⟨_, rfl, rfl, rfl, ?_⟩
  intro hm
  have hm' : (method == ['H', 'E', 'A', 'D']) = false := by simpa using hm
  simp only [hm', Bool.false_eq_true, ↓reduceIte]
  induction chunks with
  | nil => rfl
  | cons c cs ih =>
    simp only [List.filter_cons, List.flatten_cons]
    cases hc : c.isEmpty with
    | true =>
      have : c = [] := by simpa using hc
      simp [this, ih]
    | false => simp [ih]

example : makeConditionalStatus "POST".toList { range := some "bytes=0-1".toList } {} (some 6) true
    = some (200, .notRange) := by decide

/-- a failed `If-Range` (the validator does not match: the resource counts as modified) switches
range handling off -/
theorem failed_if_range_not_range (q : CondReq) (r : RespIn) (cl : Option Int) (ar : Bool)
    (hir : q.ifRange.isSome = true) (hmod : isResourceModified q r.etag (lmOf r) false = true) :
    processRangeRequest q r cl ar = .notRange := by
  unfold processRangeRequest
  cases cl with
  | none => rfl
  | some l =>
    have : rangeProcessable q r = false := by
      unfold rangeProcessable
      cases hq : q.ifRange with
      | none => rw [hq] at hir; cases hir
      | some v => simp [hmod]
    simp [this]

example : isResourceModified { range := some "bytes=0-1".toList, ifRange := some "\"old\"".toList }
    (some "\"abc\"".toList) none false = true := by decide



/-! ## dates as header text (IMF-fixdate, C06's date model): nothing opaque -/

/-- End to end on header text, one-second resolution: a request carrying
`If-Modified-Since: <http_date(t')>` (no entity-tag validators) against a resource last modified at
instant `s` seconds + `m` microseconds is "not modified" exactly when `s ≤ t'` — the sub-second
part `m` plays no role, whatever ETag the response has and whatever `Range` / `If-Range` it carries.
The date text is parsed by C06's model (`date_roundtrip`), nothing is opaque. -/
theorem ims_text_iff (t' : Nat) (ht : InDateRange t') (etag : Option Str) (s : Int) (m : Nat)
    (range ifRange : Option Str) :
    isResourceModified (mkReqText range ifRange (some (Date.httpDate t')) none none) etag (some (s, m)) true
      = false ↔ s ≤ t' := by
  unfold mkReqText
  rw [dateOfText_httpDate t' ht]
  unfold isResourceModified
  cases etag with
  | none => simp [dateUnmodified]
  | some et =>
    cases hu : unquoteEtag et <;> simp [hu, dateUnmodified, parseEtags, ETags.empty, ETags.truthy]

example : InDateRange 63902822400 ∧
    Date.httpDate 63902822400 = "Thu, 01 Jan 2026 00:00:00 GMT".toList := by
  refine ⟨⟨by decide, by decide⟩, by decide⟩

/-- The status on header text: with `Last-Modified: <http_date(s)>` on the response (what werkzeug
writes for any instant in second `s`) and `If-Modified-Since: <http_date(t')>` on a GET/HEAD
request, the answer is 304 exactly when `s ≤ t'` — also when a `Range` header is present. -/
theorem status_304_text_iff (method : Str) (hm : method = "GET".toList ∨ method = "HEAD".toList)
    (s t' : Nat) (hs : InDateRange s) (ht : InDateRange t') (etag range ifRange : Option Str)
    (cl : Option Int) (ar : Bool) :
    makeConditionalStatus method (mkReqText range ifRange (some (Date.httpDate t')) none none)
        (mkRespText etag (some (Date.httpDate s))) cl ar = some (304, .notRange) ↔ s ≤ t' := by
  have hlm : lmOf (mkRespText etag (some (Date.httpDate s))) = some ((s : Int), 0) := by
    simp [lmOf, mkRespText, dateOfText_httpDate s hs]
  have hetag : (mkRespText etag (some (Date.httpDate s))).etag = etag := rfl
  have key := ims_text_iff t' ht etag (s : Int) 0 range ifRange
  have him : (parseEtags (mkReqText range ifRange (some (Date.httpDate t')) none none).im).truthy = false := by
    simp [mkReqText, parseEtags, ETags.empty, ETags.truthy]
  constructor
  · intro h
    have := (status_304_sound method _ _ cl ar _ h).2.2
    have hnm := (not_modified_iff _ _ _).mpr this
    rw [hetag, hlm] at hnm
    exact Int.ofNat_le.mp (key.mp hnm)
  · intro hle
    have hnm : isResourceModified (mkReqText range ifRange (some (Date.httpDate t')) none none)
        (mkRespText etag (some (Date.httpDate s))).etag (lmOf (mkRespText etag (some (Date.httpDate s)))) true = false := by
      rw [hetag, hlm]; exact key.mpr (Int.ofNat_le.mpr hle)
    rw [status_not_modified method _ _ cl ar hm hnm]
    simp [him]




/-- `If-Range: <http_date(d)>` with a `Range` header: the range request is processable exactly when
the resource's Last-Modified second `s` is not later than `d` (whatever `If-Modified-Since` says,
whatever ETag the response has). -/
theorem if_range_date_text (rng : Str) (s d : Nat) (hs : InDateRange s) (hd : InDateRange d)
    (etag ims : Option Str) :
    rangeProcessable (mkReqText (some rng) (some (Date.httpDate d)) ims none none)
      (mkRespText etag (some (Date.httpDate s))) = decide (s ≤ d) := by
  have hlm : lmOf (mkRespText etag (some (Date.httpDate s))) = some ((s : Int), 0) := by
    simp [lmOf, mkRespText, dateOfText_httpDate s hs]
  have hne : (Date.httpDate d).isEmpty = false := by
    cases h : Date.httpDate d with
    | nil => exact absurd h (httpDate_ne_nil d hd)
    | cons _ _ => rfl
  unfold rangeProcessable
  rw [hlm]
  simp only [mkReqText, mkRespText, dateOfText_httpDate d hd, Option.isNone_some, Bool.false_or,
    Option.isSome_some, Bool.and_true]
  unfold isResourceModified
  simp only [Bool.not_false, Option.isSome_some, Bool.and_self, ↓reduceIte, parseIfRangeHeader,
    Option.map_some, Option.getD_some, httpDate_not_etag_like d hd, parseIfRange, hne, Bool.false_eq_true]
  cases etag with
  | none => simp [dateUnmodified]
  | some et =>
    cases hu : unquoteEtag et <;> simp [hu, dateUnmodified, parseEtags, ETags.empty, ETags.truthy]

/-- every answer of the response model has one of three shapes -/
theorem respond_cases (method : Str) (q : CondReq) (r : RespIn) (cl : Option Int) (ar : Bool)
    (chunks : List Bytes) (seek : Option Nat) (kind : Nat) (o : WsgiOut)
    (h : respond method q r cl ar chunks seek kind = some o) :
    (∃ a b, makeConditionalStatus method q r cl ar = some (206, .partialContent a b) ∧
      o.status = 206 ∧ o.acceptRanges = true ∧ o.contentLength = some (b - a)) ∨
    (makeConditionalStatus method q r cl ar = some (304, .notRange) ∧
      o = ⟨304, none, none, [], false⟩) ∨
    (∃ st, (st = 200 ∨ st = 412) ∧ makeConditionalStatus method q r cl ar = some (st, .notRange) ∧
      o.status = st ∧ o.contentRange = none ∧ o.acceptRanges = false ∧
      o.body = (if method == ['H', 'E', 'A', 'D'] then [] else chunks.filter (!·.isEmpty)) ∧
      o.contentLength = (if kind == 0 || (kind == 1 && (method == ['G', 'E', 'T'] || method == ['H', 'E', 'A', 'D']))
        then some ((chunks.flatten.length : Nat) : Int) else none)) := by
  unfold respond at h
  simp only at h
  cases hmc : makeConditionalStatus method q r cl ar with
  | none => rw [hmc] at h; cases h
  | some p =>
    obtain ⟨st, oc⟩ := p
    rw [hmc] at h
    rcases status_cases method q r cl ar st oc hmc with ⟨h1, h2⟩ | ⟨a, b, h1, h2, _⟩ | ⟨_, _, h2, h3⟩
    · subst h1; subst h2
      have e : ((200 : Nat) == 304) = false := by decide
      simp only [e, Bool.false_eq_true, ↓reduceIte, Option.some.injEq] at h
      right; right
      refine ⟨200, Or.inl rfl, rfl, ?_⟩
      subst h
      simp
    · subst h1; subst h2
      simp only [Option.some.injEq] at h
      left
      refine ⟨a, b, rfl, ?_⟩
      subst h
      simp
    · subst h2
      by_cases him : (parseEtags q.im).truthy = true
      · simp only [him, ↓reduceIte] at h3
        subst h3
        have e : ((412 : Nat) == 304) = false := by decide
        simp only [e, Bool.false_eq_true, ↓reduceIte, Option.some.injEq] at h
        right; right
        refine ⟨412, Or.inr rfl, rfl, ?_⟩
        subst h
        simp
      · simp only [him, Bool.false_eq_true, ↓reduceIte] at h3
        subst h3
        simp only [BEq.rfl, ↓reduceIte, Option.some.injEq] at h
        right; left
        refine ⟨rfl, ?_⟩
        subst h
        simp

/-- Content-Length equals the number of body bytes actually produced: for a GET on a response
built from a list (sequence) of chunks whose total length is the declared `complete_length`, every
200, 206 and 412 answer carries `Content-Length = |body|` — whatever the chunking. -/
theorem content_length_matches_body (q : CondReq) (r : RespIn) (ar : Bool) (chunks : List Bytes)
    (o : WsgiOut)
    (h : respond "GET".toList q r (some ((chunks.flatten.length : Nat) : Int)) ar chunks none 0 = some o)
    (hst : o.status ≠ 304) :
    o.contentLength = some ((o.body.flatten.length : Nat) : Int) := by
  rcases respond_cases _ _ _ _ _ _ _ _ o h with ⟨a, b, _, h206, _, _⟩ | ⟨_, ho⟩ | ⟨st, _, _, _, _, _, hbody, hcl⟩
  · obtain ⟨a', b', h0, hab, hbl, _, hcl, hbody, _⟩ :=
      range_response_206 "GET".toList q r _ ar chunks none 0 o (by intro bs hb; cases hb) h h206
    have hb := hbody (by decide)
    rw [hcl, hb]
    simp only [List.length_take, List.length_drop, Option.some.injEq]
    omega
  · rw [ho] at hst; exact absurd rfl hst
  · rw [hcl, hbody]
    simp [filter_nonEmpty_flatten]

example : (respond "GET".toList { range := some "bytes=1-3".toList } {} (some 6) true
    [[65], [], [66, 67, 68, 69], [70]] none 0).map (fun o => (o.status, o.contentLength, o.body.flatten.length))
    = some (206, some 3, 3) := by decide

/-- A 304 carries no body, no Content-Length, no Content-Range and no Accept-Ranges. -/
theorem not_modified_no_body (method : Str) (q : CondReq) (r : RespIn) (cl : Option Int) (ar : Bool)
    (chunks : List Bytes) (seek : Option Nat) (kind : Nat) (o : WsgiOut)
    (h : respond method q r cl ar chunks seek kind = some o) (hs : o.status = 304) :
    o.body = [] ∧ o.contentLength = none ∧ o.contentRange = none ∧ o.acceptRanges = false := by
  rcases respond_cases _ _ _ _ _ _ _ _ o h with ⟨a, b, _, h206, _, _⟩ | ⟨_, ho⟩ | ⟨st, hst, _, hs', _⟩
  · rw [h206] at hs; cases hs
  · rw [ho]; exact ⟨rfl, rfl, rfl, rfl⟩
  · rw [hs] at hs'; rcases hst with rfl | rfl <;> cases hs'

/-- `Accept-Ranges: bytes` is sent exactly with a 206 (`_process_range_request` sets it only on
success). -/
theorem accept_ranges_iff_206 (method : Str) (q : CondReq) (r : RespIn) (cl : Option Int) (ar : Bool)
    (chunks : List Bytes) (seek : Option Nat) (kind : Nat) (o : WsgiOut)
    (h : respond method q r cl ar chunks seek kind = some o) :
    o.acceptRanges = true ↔ o.status = 206 := by
  rcases respond_cases _ _ _ _ _ _ _ _ o h with ⟨a, b, _, h206, har, _⟩ | ⟨_, ho⟩ | ⟨st, hst, _, hs', _, har, _⟩
  · simp [h206, har]
  · rw [ho]; simp
  · rw [har, hs']; rcases hst with rfl | rfl <;> simp

/-- A 412 (as werkzeug produces it) keeps the complete body and a matching Content-Length; only the
status changes. HEAD answers never carry a body. -/
theorem precondition_failed_keeps_body (method : Str) (q : CondReq) (r : RespIn) (cl : Option Int)
    (ar : Bool) (chunks : List Bytes) (seek : Option Nat) (kind : Nat) (o : WsgiOut)
    (h : respond method q r cl ar chunks seek kind = some o) (hs : o.status = 412) :
    o.contentRange = none ∧
    (method ≠ "HEAD".toList → o.body.flatten = chunks.flatten) ∧
    (method = "HEAD".toList → o.body = []) := by
  have e2 : "HEAD".toList = ['H', 'E', 'A', 'D'] := by decide
  rw [e2]
  rcases respond_cases _ _ _ _ _ _ _ _ o h with ⟨a, b, _, h206, _, _⟩ | ⟨_, ho⟩ | ⟨st, _, _, _, hcr, _, hbody, _⟩
  · rw [h206] at hs; cases hs
  · rw [ho] at hs; cases hs
  · refine ⟨hcr, ?_, ?_⟩
    · intro hm
      have : (method == ['H', 'E', 'A', 'D']) = false := by simpa using hm
      rw [hbody]; simp [this, filter_nonEmpty_flatten]
    · intro hm
      rw [hbody]; simp [hm]



theorem no_validators_modified_general (q : CondReq) (h1 : q.ims = none) (h2 : q.inm = none) (h3 : q.im = none)
    (etag : Option Str) (lm : Option (Int × Nat)) : isResourceModified q etag lm true = true := by
  unfold isResourceModified
  cases etag with
  | none => simp [dateUnmodified, h1]
  | some et =>
    cases hu : unquoteEtag et <;> simp [hu, dateUnmodified, parseEtags, ETags.empty, ETags.truthy, h1, h2, h3]

/-- General form of `satisfiable_range_206`: any GET whose resource counts as modified, whose range
request is processable (no `If-Range`, or one that validates) and whose `Range` header is
`bytes=<first>-<last>` with `first ≤ last`, `first < n`, is answered 206 with exactly
`body[first : min(last+1, n)]`, for every chunking. -/
theorem satisfiable_range_206_general (d1 d2 : Str) (h1 : IsDigits d1) (h2 : IsDigits d2)
    (hle : digitsVal d1 ≤ digitsVal d2) (chunks : List Bytes) (q : CondReq) (r : RespIn) (n : Nat)
    (ha : digitsVal d1 < n) (kind : Nat)
    (hq : q.range = some (bytesEq ++ (d1 ++ '-' :: d2)))
    (hmod : isResourceModified q r.etag (lmOf r) true = true) (hproc : rangeProcessable q r = true) :
    let a : Nat := digitsVal d1
    let b : Nat := min (digitsVal d2 + 1) n
    ∃ o, respond "GET".toList q r (some (n : Int)) true chunks none kind = some o ∧
      o.status = 206 ∧ o.contentRange = some ((a : Int), (b : Int) - 1, (n : Int)) ∧
      o.contentLength = some ((b : Int) - a) ∧
      o.body.flatten = (chunks.flatten.drop a).take (b - a) := by
  intro a b
  have hp := parse_range_first_last d1 d2 h1 h2 hle
  have hrf : rangeForLength ⟨bytesUnit, [((digitsVal d1 : Int), some ((digitsVal d2 : Int) + 1))]⟩
      (some (n : Int)) = some ((a : Int), (b : Int)) := by
    unfold rangeForLength isByteRangeValid
    have c1 : ¬ ((digitsVal d1 : Int) ≥ (digitsVal d2 : Int) + 1) := by omega
    have c2 : (digitsVal d1 : Int) < (n : Int) := by omega
    simp [c1, c2, a, b]
    omega
  have hmc : makeConditionalStatus "GET".toList q r (some (n : Int)) true
      = some (206, .partialContent a b) := by
    have hz : n ≠ 0 := by omega
    rw [status_modified _ _ _ _ _ (Or.inl rfl) hmod]
    simp [processRangeRequest, hproc, hq, hp, hrf, hz]
  have e1 : ("GET".toList == ['H', 'E', 'A', 'D']) = false := by decide
  have e : ((b : Int) - (a : Int)).toNat = b - a := by omega
  have hr : respond "GET".toList q r (some (n : Int)) true chunks none kind =
      some ⟨206, some ((a : Int), (b : Int) - 1, (n : Int)), some ((b : Int) - a),
        rangeWrapIter chunks a (b - a), true⟩ := by
    simp only [respond, hmc, e1, Bool.false_eq_true, ↓reduceIte, Option.getD_some, Int.toNat_natCast, e]
  exact ⟨_, hr, rfl, rfl, rfl, (rangeWrapper_exact_iter chunks a (b - a)).1⟩

/-- End to end on header text: `Range: bytes=<first>-<last>` with `If-Range: <http_date(d)>` against
a response whose `Last-Modified` header is `http_date(s)`: when `s ≤ d` the answer is the 206 with
exactly the requested bytes … -/
theorem if_range_date_pass_206 (d1 d2 : Str) (h1 : IsDigits d1) (h2 : IsDigits d2)
    (hle : digitsVal d1 ≤ digitsVal d2) (chunks : List Bytes) (n : Nat) (ha : digitsVal d1 < n)
    (kind : Nat) (s d : Nat) (hs : InDateRange s) (hd : InDateRange d) (etag : Option Str)
    (hsd : s ≤ d) :
    ∃ o, respond "GET".toList
        (mkReqText (some (bytesEq ++ (d1 ++ '-' :: d2))) (some (Date.httpDate d)) none none none)
        (mkRespText etag (some (Date.httpDate s))) (some (n : Int)) true chunks none kind = some o ∧
      o.status = 206 ∧
      o.body.flatten = (chunks.flatten.drop (digitsVal d1)).take (min (digitsVal d2 + 1) n - digitsVal d1) := by
  obtain ⟨o, ho, hst, _, _, hb⟩ := satisfiable_range_206_general d1 d2 h1 h2 hle chunks
    (mkReqText (some (bytesEq ++ (d1 ++ '-' :: d2))) (some (Date.httpDate d)) none none none)
    (mkRespText etag (some (Date.httpDate s))) n ha kind rfl
    (no_validators_modified_general _ rfl rfl rfl _ _)
    (by rw [if_range_date_text _ s d hs hd]; simpa using hsd)
  exact ⟨o, ho, hst, hb⟩

/-- … and when the resource is newer (`d < s`, the `If-Range` fails) the `Range` header is ignored:
status 200 with the complete body. -/
theorem if_range_date_fail_full_body (rng : Str) (chunks : List Bytes) (cl : Option Int) (kind : Nat)
    (s d : Nat) (hs : InDateRange s) (hd : InDateRange d) (etag : Option Str) (hsd : d < s) :
    ∃ o, respond "GET".toList (mkReqText (some rng) (some (Date.httpDate d)) none none none)
        (mkRespText etag (some (Date.httpDate s))) cl true chunks none kind = some o ∧
      o.status = 200 ∧ o.contentRange = none ∧ o.body.flatten = chunks.flatten := by
  have hproc : rangeProcessable (mkReqText (some rng) (some (Date.httpDate d)) none none none)
      (mkRespText etag (some (Date.httpDate s))) = false := by
    rw [if_range_date_text _ s d hs hd]; simp; omega
  have hnr : processRangeRequest (mkReqText (some rng) (some (Date.httpDate d)) none none none)
      (mkRespText etag (some (Date.httpDate s))) cl true = .notRange := by
    unfold processRangeRequest
    cases cl with
    | none => rfl
    | some l => simp [hproc]
  have hmc : makeConditionalStatus "GET".toList (mkReqText (some rng) (some (Date.httpDate d)) none none none)
      (mkRespText etag (some (Date.httpDate s))) cl true = some (200, .notRange) := by
    rw [status_modified _ _ _ _ _ (Or.inl rfl) (no_validators_modified_general _ rfl rfl rfl _ _), hnr]
  obtain ⟨o, ho, hst, hcr, hb⟩ := ignored_range_full_body "GET".toList _ _ cl true chunks none kind hmc
  exact ⟨o, ho, hst, hcr, hb (by decide)⟩

/-! ## constants of the glue, regenerated from the source -/

/-- What the model hard-codes about the glue, read from the current source on every run (AST /
live objects): `http.is_resource_modified` feeds each argument of the sans-io function from the
environ key of the same name (a swapped pair — e.g. `If-Match` read as `If-None-Match` — changes the
table); `make_conditional` acts for exactly `GET` and `HEAD`, sets 412 / 304, calls
`is_resource_modified(environ, ETag header, None, Last-Modified header)` (If-Range ignored) while
`_is_range_request_processable` calls it with `ignore_if_range=False`; `_process_range_request`
sets 206; `send_file` calls `make_conditional(environ, accept_ranges=True, complete_length=size)`
and generates the tag `{mtime}-{size}-{check}`; `wrap_file` / `FileWrapper` read blocks of
`fileBufferSize` bytes. -/
theorem cond_constants_pinned :
    Gen.CondConsts.envKeys =
      [("http_range".toList, "HTTP_RANGE".toList), ("http_if_range".toList, "HTTP_IF_RANGE".toList),
       ("http_if_modified_since".toList, "HTTP_IF_MODIFIED_SINCE".toList),
       ("http_if_none_match".toList, "HTTP_IF_NONE_MATCH".toList),
       ("http_if_match".toList, "HTTP_IF_MATCH".toList)] ∧
    Gen.CondConsts.condMethods = ["GET".toList, "HEAD".toList] ∧
    Gen.CondConsts.condStatuses = [412, 304] ∧ Gen.CondConsts.rangeStatuses = [206] ∧
    Gen.CondConsts.condCallArgs =
      ["environ".toList, "self.headers.get('etag')".toList, "None".toList,
       "self.headers.get('last-modified')".toList] ∧
    Gen.CondConsts.ifRangeCallArgs =
      ["environ".toList, "self.headers.get('etag')".toList, "None".toList,
       "self.headers.get('last-modified')".toList, "ignore_if_range=False".toList] ∧
    Gen.CondConsts.sendFileCallArgs =
      ["environ".toList, "accept_ranges=True".toList, "complete_length=size".toList] ∧
    Gen.CondConsts.sendFileEtagFormat =
      ["{mtime}".toList, "-".toList, "{size}".toList, "-".toList, "{check}".toList] ∧
    Gen.CondConsts.bufferDefaults = (fileBufferSize, fileBufferSize) := by decide


/-! ## entity tags as header text: quoted tags whose text looks like syntax -/

/-- The model of `_etag_re` is written for exactly this pattern and these flags (`re.UNICODE` only):
`([Ww]/)?(?:"(.*?)"|(.*?))(?:\s*,\s*|$)`. -/
theorem etag_re_pinned :
    Gen.EtagTbl.etagRe = ("([Ww]/)?(?:\"(.*?)\"|(.*?))(?:\\s*,\\s*|$)".toList, 32) := by decide

/-- set equality of a model tag list with the sorted tag list of a table row -/
def sameTagSet (a : List (Option Str)) (b : List Str) : Bool :=
  a.all (fun x => (b.map some).contains x) && b.all (fun x => a.contains (some x))

/-- one row of `Gen.EtagTbl`: the model's `parse_etags` has the same strong set, weak set and
`star_tag` as the live function returned -/
def etagRowAgrees (r : Gen.EtagTbl.Row) : Bool :=
  let e := parseEtags (some r.1)
  e.star == r.2.2.2 && sameTagSet e.strong r.2.1 && sameTagSet e.weak r.2.2.1

/-- The live `parse_etags` and the model agree on every header text of length ≤ 3 over the alphabet
`"*W/, a`, on a pool of 22 entity tags / garbage tokens whose text looks like syntax (`*`, `"*"`,
`W/"*"`, `W/*`, `""`, `"W/"`, `","`, `"a,b"`, `"*`, `*"` …), on every ordered pair of them with the
separators `,` / `, ` / ` , ` and on every triple of the first six (≈ 2 100 rows, `decide` over the
regenerated table). In particular the wildcard is recognised only *unquoted*: a change that reads
the entity tag `"*"` as `*` (seeded change C11-c1) changes rows of the table. -/
theorem etag_table_agrees : Gen.EtagTbl.blocks.all (fun b => b.all etagRowAgrees) = true := by
  decide +kernel

/-- `parse_etags` on header text, for every list of quoted entity tags (strong or `W/`-prefixed,
any `\s*,\s*` separator, any tag text free of `"` and line feeds — `*`, `W/`, `,`, the empty text
included): the parsed object holds exactly the listed tags and is **not** the wildcard. -/
theorem parse_etags_text (sep : Str) (hs : IsSep sep) (ts : List (Str × Bool)) (hne : ts ≠ [])
    (hc : ∀ t ∈ ts, CleanTag t.1) :
    parseEtags (some (renderTags sep ts)) = ⟨strongOf ts, weakOf ts, false⟩ :=
  parseEtags_render sep hs ts hne hc

example : IsSep ", ".toList ∧ IsSep " ,".toList ∧ IsSep ",".toList :=
  ⟨⟨[], [' '], rfl, by simp, by intro c hc; simp at hc; subst hc; decide⟩,
   ⟨[' '], [], rfl, by intro c hc; simp at hc; subst hc; decide, by simp⟩,
   ⟨[], [], rfl, by simp, by simp⟩⟩

example : renderTags ", ".toList [("*".toList, false), ("W/".toList, true), (",".toList, false)] =
      "\"*\", W/\"W/\", \",\"".toList ∧
    parseEtags (some "\"*\", W/\"W/\", \",\"".toList) =
      ⟨[some "*".toList, some ",".toList], [some "W/".toList], false⟩ ∧
    parseEtags (some "*".toList) = ⟨[], [], true⟩ := by decide

/-- "A 304 only when the validators really match / always when they do", on header TEXT through the
tokenisation of `_etag_re`: `If-None-Match: <list of quoted tags>` against `ETag: "e"` or
`ETag: W/"e"` is "not modified" exactly when `e` is one of the listed tag texts (weak comparison:
the `W/` marks on either side are ignored) — whatever the dates say, and also when a listed tag's
text is `*`: the quoted `"*"` is an ordinary entity tag, only the bare `*` is the wildcard. -/
theorem inm_list_text_iff (sep : Str) (hs : IsSep sep) (ts : List (Str × Bool)) (hne : ts ≠ [])
    (hc : ∀ t ∈ ts, CleanTag t.1) (e : Str) (w : Bool) (range ifRange : Option Str)
    (ims : Option Int) (lm : Option (Int × Nat)) :
    isResourceModified { range := range, ifRange := ifRange, ims := ims, inm := some (renderTags sep ts) }
        (some (renderTag (e, w))) lm true = false ↔ ∃ t ∈ ts, t.1 = e := by
  rw [if_none_match_precedence _ (renderTag (e, w)) e w (unquoteEtag_render (e, w))]
  · simp only [parse_etags_text sep hs ts hne hc, ETags.containsWeak, ETags.contains, Bool.false_or,
      Bool.not_eq_eq_eq_not, Bool.not_false, Bool.or_eq_true, mem_strongOf, mem_weakOf]
    constructor
    · rintro (h | h)
      · exact ⟨_, h, rfl⟩
      · exact ⟨_, h, rfl⟩
    · rintro ⟨⟨a, b⟩, hm, rfl⟩
      cases b
      · right; exact hm
      · left; exact hm
  · simp only [parse_etags_text sep hs ts hne hc]; exact truthy_render ts hne
  · simp [parseEtags, ETags.empty, ETags.truthy]

example : isResourceModified { inm := some "\"*\"".toList } (some "\"v2\"".toList) none true = true ∧
    isResourceModified { inm := some "\"v1\", \"*\"".toList } (some "\"v2\"".toList) none true = true ∧
    isResourceModified { inm := some "\"*\"".toList } (some "\"*\"".toList) none true = false ∧
    isResourceModified { inm := some "*".toList } (some "\"v2\"".toList) none true = false := by decide

/-- … and the status: GET/HEAD with `If-None-Match: <quoted tag list>` against a response carrying
`ETag: "e"` / `W/"e"` is answered 304 exactly when `e` is listed — with any `Range`, `If-Range`,
`If-Modified-Since`, `Last-Modified`, whether or not ranges are accepted. -/
theorem status_304_inm_text_iff (method : Str) (hm : method = "GET".toList ∨ method = "HEAD".toList)
    (sep : Str) (hs : IsSep sep) (ts : List (Str × Bool)) (hne : ts ≠ [])
    (hc : ∀ t ∈ ts, CleanTag t.1) (e : Str) (w : Bool) (range ifRange : Option Str)
    (ims lm : Option Int) (cl : Option Int) (ar : Bool) :
    makeConditionalStatus method
        { range := range, ifRange := ifRange, ims := ims, inm := some (renderTags sep ts) }
        { etag := some (renderTag (e, w)), lastModified := lm } cl ar = some (304, .notRange)
      ↔ ∃ t ∈ ts, t.1 = e := by
  have key := inm_list_text_iff sep hs ts hne hc e w range ifRange ims
    (lmOf { etag := some (renderTag (e, w)), lastModified := lm })
  have him : (parseEtags (CondReq.im
      { range := range, ifRange := ifRange, ims := ims, inm := some (renderTags sep ts) })).truthy = false := by
    simp [parseEtags, ETags.empty, ETags.truthy]
  constructor
  · intro h
    have := (status_304_sound method _ _ cl ar _ h).2.2
    exact key.mp ((not_modified_iff _ _ _).mpr this)
  · intro hex
    rw [status_not_modified method _ _ cl ar hm (key.mpr hex)]
    simp [him]

/-- "A 412 only when If-Match does not admit the current ETag", on header text: GET/HEAD with
`If-Match: <quoted tag list>` against `ETag: "e"` / `W/"e"` is answered 412 exactly when `e` is not
among the *strong* listed tags (strong comparison: a `W/` entry never admits) — a quoted `"*"`
admits only the tag whose text is `*`. -/
theorem status_412_im_text_iff (method : Str) (hm : method = "GET".toList ∨ method = "HEAD".toList)
    (sep : Str) (hs : IsSep sep) (ts : List (Str × Bool)) (hne : ts ≠ [])
    (hc : ∀ t ∈ ts, CleanTag t.1) (e : Str) (w : Bool) (range ifRange inm : Option Str)
    (ims lm : Option Int) (cl : Option Int) (ar : Bool) :
    makeConditionalStatus method
        { range := range, ifRange := ifRange, ims := ims, inm := inm, im := some (renderTags sep ts) }
        { etag := some (renderTag (e, w)), lastModified := lm } cl ar = some (412, .notRange)
      ↔ (e, false) ∉ ts := by
  have hp := parse_etags_text sep hs ts hne hc
  have htr := truthy_render ts hne
  have hnm : isResourceModified
      { range := range, ifRange := ifRange, ims := ims, inm := inm, im := some (renderTags sep ts) }
      (some (renderTag (e, w))) (lmOf { etag := some (renderTag (e, w)), lastModified := lm }) true = false
      ↔ (e, false) ∉ ts := by
    unfold isResourceModified
    simp only [Bool.not_true, Bool.false_and, Bool.false_eq_true, ↓reduceIte, unquoteEtag_render, hp,
      htr, ETags.contains, Bool.false_or, Bool.not_eq_eq_eq_not, Bool.not_false]
    rw [← Bool.not_eq_true, mem_strongOf]
  constructor
  · intro h
    obtain ⟨_, hadm⟩ := status_412_only_if method _ _ cl ar _ h
    have := hadm e w (by simp [unquoteEtag_render])
    simp only [hp, ETags.contains, Bool.false_or] at this
    rw [← Bool.not_eq_true, mem_strongOf] at this
    exact this
  · intro hnot
    rw [status_not_modified method _ _ cl ar hm (hnm.mpr hnot)]
    simp [hp, htr]

example : makeConditionalStatus "GET".toList { im := some "\"*\"".toList }
      { etag := some "\"v2\"".toList } none false = some (412, .notRange) ∧
    makeConditionalStatus "GET".toList { im := some "*".toList }
      { etag := some "\"v2\"".toList } none false = some (200, .notRange) := by decide

/-- The bare wildcard: `If-None-Match: *` against any response that carries an ETag is 304 for
GET/HEAD, `If-Match: *` never 412. -/
theorem inm_star_text (method : Str) (hm : method = "GET".toList ∨ method = "HEAD".toList)
    (t : Str × Bool) (range ifRange : Option Str) (ims lm : Option Int) (cl : Option Int) (ar : Bool) :
    makeConditionalStatus method { range := range, ifRange := ifRange, ims := ims, inm := some ['*'] }
        { etag := some (renderTag t), lastModified := lm } cl ar = some (304, .notRange) := by
  have hp : parseEtags (some ['*']) = ⟨[], [], true⟩ := by decide
  have hnm : isResourceModified { range := range, ifRange := ifRange, ims := ims, inm := some ['*'] }
      (some (renderTag t)) (lmOf { etag := some (renderTag t), lastModified := lm }) true = false := by
    have hn : parseEtags none = ETags.empty := rfl
    unfold isResourceModified
    simp only [Bool.not_true, Bool.false_and, Bool.false_eq_true, ↓reduceIte, unquoteEtag_render, hp, hn]
    simp [ETags.truthy, ETags.containsWeak, ETags.contains, ETags.empty]
  rw [status_not_modified method _ _ cl ar hm hnm]
  simp [parseEtags, ETags.empty, ETags.truthy]


/-! ## If-Range with an entity tag, on header text (F11g, repaired by 9be10e4) -/

/-- the full-strength reading of "a failed If-Range … yields the complete 200 body" for entity
tags: `If-Range: "ie"` validates against `ETag: "e"` exactly when `ie = e` -/
def IfRangeEtagFull : Prop :=
  ∀ (ie e : Str), CleanTag ie → CleanTag e → ie ≠ [] →
    (rangeProcessable { range := some "bytes=0-1".toList, ifRange := some (quoteTag ie) }
        { etag := some (quoteTag e) } = true ↔ ie = e)

/-- Full strength, on header text, for **every** tag text (no hypothesis: `*`, `a, b`, `W/x`, the
empty tag included): `If-Range: "ie"` (or `W/"ie"`) with a `Range` header validates against
`ETag: "e"` / `W/"e"` exactly when `ie = e`; otherwise the range request is not processable
(complete 200 body, `failed_if_range_not_range`) — whatever `If-Modified-Since` / `If-None-Match` /
`If-Match` / `Last-Modified` say. (Before 9be10e4 the unquoted tag was handed to `parse_etags`,
which re-read `*` as the wildcard and `a, b` as a list: former known finding F11g.) -/
theorem if_range_etag_text_iff (q : CondReq) (ie : Str) (wi : Bool) (e : Str) (w : Bool)
    (hr : q.range.isSome = true) (hv : q.ifRange = some (renderTag (ie, wi))) (lm : Option Int) :
    rangeProcessable q { etag := some (renderTag (e, w)), lastModified := lm } = true ↔ ie = e := by
  have hl : looksLikeEtag (renderTag (ie, wi)) = true := by
    cases wi <;> simp [renderTag, quoteTag, looksLikeEtag, Py.isSpace]
  have hne : (renderTag (ie, wi)).isEmpty = false := by
    cases wi <;> simp [renderTag, quoteTag]
  unfold rangeProcessable
  simp only [hv, hr, Option.isNone_some, Bool.false_or, Bool.and_true,
    Bool.not_eq_eq_eq_not, Bool.not_true]
  unfold isResourceModified
  simp only [Bool.not_false, hr, Bool.and_self, ↓reduceIte, parseIfRangeHeader, hv,
    Option.map_some, Option.getD_some, hl, parseIfRange, hne, Bool.false_eq_true, unquoteEtag_render]
  simp

/-- … in particular the full-strength statement that F11g refuted now holds. -/
theorem if_range_etag_full : IfRangeEtagFull := by
  intro ie e _ _ _
  exact if_range_etag_text_iff { range := some "bytes=0-1".toList, ifRange := some (quoteTag ie) }
    ie false e false rfl rfl none

/-- regression inputs of F11g: `If-Range: "*"` no longer validates against `ETag: "v2"`,
`If-Range: "a, b"` no longer against `ETag: "a"`, `If-Range: "W/*"` not against `ETag: "abc"` — and
each still validates against the tag with that very text. -/
theorem if_range_star_regression :
    rangeProcessable { range := some "bytes=0-1".toList, ifRange := some "\"*\"".toList }
      { etag := some "\"v2\"".toList } = false ∧
    rangeProcessable { range := some "bytes=0-1".toList, ifRange := some "\"a, b\"".toList }
      { etag := some "\"a\"".toList } = false ∧
    rangeProcessable { range := some "bytes=0-1".toList, ifRange := some "\"W/*\"".toList }
      { etag := some "\"abc\"".toList } = false ∧
    rangeProcessable { range := some "bytes=0-1".toList, ifRange := some "\"*\"".toList }
      { etag := some "\"*\"".toList } = true ∧
    rangeProcessable { range := some "bytes=0-1".toList, ifRange := some "\"a, b\"".toList }
      { etag := some "\"a, b\"".toList } = true := by decide

/-- the regression on the whole response: `Range: bytes=0-1` with `If-Range: "*"` against
`ETag: "abc"` is answered with the complete 200 body -/
theorem if_range_star_full_body :
    (respond "GET".toList { range := some "bytes=0-1".toList, ifRange := some "\"*\"".toList }
        { etag := some "\"abc\"".toList } (some 6) true [[65, 66, 67], [68, 69, 70]] none 0).map
      (fun o => (o.status, o.contentRange, o.body)) = some (200, none, [[65, 66, 67], [68, 69, 70]]) := by
  decide

/-! ## the argument forms of `make_conditional` -/

/-- Without a known `complete_length` the `Range` header is ignored: never 206, never 416. -/
theorem unknown_length_ignores_range (method : Str) (q : CondReq) (r : RespIn) (ar : Bool) :
    ∃ st, makeConditionalStatus method q r none ar = some (st, .notRange) ∧
      (st = 200 ∨ st = 304 ∨ st = 412) := by
  unfold makeConditionalStatus
  split
  · split
    · split
      · exact ⟨412, rfl, Or.inr (Or.inr rfl)⟩
      · exact ⟨304, rfl, Or.inr (Or.inl rfl)⟩
    · exact ⟨200, by simp [processRangeRequest], Or.inl rfl⟩
  · exact ⟨200, rfl, Or.inl rfl⟩

/-- `accept_ranges=False` (or the empty string): the `Range` header is ignored — never 206, never
416, no `Accept-Ranges` header. -/
theorem accept_ranges_falsy_ignores_range (method : Str) (q : CondReq) (r : RespIn) (cl : Option Int)
    (acc : AcceptArg) (hacc : acc.truthy = false) (chunks : List Bytes) (seek : Option Nat) (kind : Nat) :
    ∃ o, makeConditionalFull method q r cl acc chunks seek kind = some (o, none) ∧ o.status ≠ 206 := by
  have hst : ∃ st, makeConditionalStatus method q r cl false = some (st, .notRange) ∧
      (st = 200 ∨ st = 304 ∨ st = 412) := by
    unfold makeConditionalStatus
    split
    · split
      · split
        · exact ⟨412, rfl, Or.inr (Or.inr rfl)⟩
        · exact ⟨304, rfl, Or.inr (Or.inl rfl)⟩
      · refine ⟨200, ?_, Or.inl rfl⟩
        cases cl <;> simp [processRangeRequest]
    · exact ⟨200, rfl, Or.inl rfl⟩
  obtain ⟨st, hmc, hs⟩ := hst
  unfold makeConditionalFull
  rw [hacc]
  unfold respond
  simp only [hmc]
  rcases hs with rfl | rfl | rfl <;> simp

example : (AcceptArg.no).truthy = false ∧ (AcceptArg.unit []).truthy = false ∧
    (AcceptArg.unit "none".toList).truthy = true := by decide

/-- The `Accept-Ranges` header is written exactly on a 206 and carries the argument's unit
(`True` ⇒ `bytes`, a string ⇒ that string). -/
theorem accept_ranges_header_value (method : Str) (q : CondReq) (r : RespIn) (cl : Option Int)
    (acc : AcceptArg) (chunks : List Bytes) (seek : Option Nat) (kind : Nat) (o : WsgiOut) (h : Option Str)
    (hres : makeConditionalFull method q r cl acc chunks seek kind = some (o, h)) :
    (o.status = 206 → h = some acc.header) ∧ (o.status ≠ 206 → h = none) := by
  unfold makeConditionalFull at hres
  cases hr : respond method q r cl acc.truthy chunks seek kind with
  | none => rw [hr] at hres; cases hres
  | some o' =>
    rw [hr] at hres
    simp only [Option.map_some, Option.some.injEq, Prod.mk.injEq] at hres
    obtain ⟨rfl, rfl⟩ := hres
    have := accept_ranges_iff_206 method q r cl acc.truthy chunks seek kind o' hr
    constructor
    · intro h206; simp [this.mpr h206]
    · intro hne
      have : o'.acceptRanges = false := by
        cases hb : o'.acceptRanges with
        | false => rfl
        | true => exact absurd (this.mp hb) hne
      simp [this]

/-- The unit named by a string argument is only advertised: `accept_ranges='none'` still serves
byte ranges (`Accept-Ranges: none` on a 206 for `Range: bytes=0-1`). Recorded as behaviour of the
code, not as a requirement of the property. -/
theorem accept_unit_string_serves_bytes :
    (makeConditionalFull "GET".toList { range := some "bytes=0-1".toList } {} (some 6)
        (.unit "none".toList) [[65, 66, 67], [68, 69, 70]] none 0).map
      (fun p => (p.1.status, p.1.body, p.2)) = some (206, [[65, 66]], some "none".toList) := by decide

/-- `satisfiable_range_206_general` for every kind of body: a list / generator of chunks *or* a
seekable file read in blocks of any size. -/
theorem satisfiable_range_206_any_body (d1 d2 : Str) (h1 : IsDigits d1) (h2 : IsDigits d2)
    (hle : digitsVal d1 ≤ digitsVal d2) (chunks : List Bytes) (q : CondReq) (r : RespIn) (n : Nat)
    (ha : digitsVal d1 < n) (kind : Nat) (seek : Option Nat) (hseek : ∀ bs, seek = some bs → 0 < bs)
    (hq : q.range = some (bytesEq ++ (d1 ++ '-' :: d2)))
    (hmod : isResourceModified q r.etag (lmOf r) true = true) (hproc : rangeProcessable q r = true) :
    let a : Nat := digitsVal d1
    let b : Nat := min (digitsVal d2 + 1) n
    ∃ o, respond "GET".toList q r (some (n : Int)) true chunks seek kind = some o ∧
      o.status = 206 ∧ o.contentRange = some ((a : Int), (b : Int) - 1, (n : Int)) ∧
      o.contentLength = some ((b : Int) - a) ∧
      o.body.flatten = (chunks.flatten.drop a).take (b - a) := by
  intro a b
  have hp := parse_range_first_last d1 d2 h1 h2 hle
  have hrf : rangeForLength ⟨bytesUnit, [((digitsVal d1 : Int), some ((digitsVal d2 : Int) + 1))]⟩
      (some (n : Int)) = some ((a : Int), (b : Int)) := by
    unfold rangeForLength isByteRangeValid
    have c1 : ¬ ((digitsVal d1 : Int) ≥ (digitsVal d2 : Int) + 1) := by omega
    have c2 : (digitsVal d1 : Int) < (n : Int) := by omega
    simp [c1, c2, a, b]
    omega
  have hmc : makeConditionalStatus "GET".toList q r (some (n : Int)) true
      = some (206, .partialContent a b) := by
    have hz : n ≠ 0 := by omega
    rw [status_modified _ _ _ _ _ (Or.inl rfl) hmod]
    simp [processRangeRequest, hproc, hq, hp, hrf, hz]
  have e1 : ("GET".toList == ['H', 'E', 'A', 'D']) = false := by decide
  have e : ((b : Int) - (a : Int)).toNat = b - a := by omega
  cases seek with
  | none =>
    refine ⟨⟨206, some ((a : Int), (b : Int) - 1, (n : Int)), some ((b : Int) - a),
        rangeWrapIter chunks a (b - a), true⟩, ?_, rfl, rfl, rfl, (rangeWrapper_exact_iter chunks a (b - a)).1⟩
    simp only [respond, hmc, e1, Bool.false_eq_true, ↓reduceIte, Option.getD_some, Int.toNat_natCast, e]
  | some bs =>
    refine ⟨⟨206, some ((a : Int), (b : Int) - 1, (n : Int)), some ((b : Int) - a),
        rangeWrapSeek chunks.flatten bs a (b - a), true⟩, ?_, rfl, rfl, rfl,
        (rangeWrapper_exact_seek chunks.flatten bs (hseek bs rfl) a (b - a)).1⟩
    simp only [respond, hmc, e1, Bool.false_eq_true, ↓reduceIte, Option.getD_some, Int.toNat_natCast, e]

/-! ## satisfiable ranges are always served (every spelling, every body) -/

/-- "A 206 always when the range is satisfiable": for a GET whose resource counts as modified, whose
range request is processable and whose `Range` header parses to a range that `range_for_length`
accepts as `[a, b)` for the (non-zero) length `n`, the answer *is* the 206 with
`Content-Range: bytes a-(b-1)/n`, `Content-Length: b-a` and exactly the bytes `[a, b)` of the body —
for every chunking, for generator / list / file bodies, seekable or not. Together with
`range_416_partial` (no such range ⇒ 416) and `ignored_range_full_body` this decides every GET. -/
theorem range_206_complete (q : CondReq) (r : RespIn) (n : Nat) (hn : n ≠ 0) (pr : Range) (a b : Int)
    (hp : parseRangeHeader q.range = some pr) (hrf : rangeForLength pr (some (n : Int)) = some (a, b))
    (hmod : isResourceModified q r.etag (lmOf r) true = true) (hproc : rangeProcessable q r = true)
    (chunks : List Bytes) (seek : Option Nat) (hseek : ∀ bs, seek = some bs → 0 < bs) (kind : Nat) :
    ∃ o, respond "GET".toList q r (some (n : Int)) true chunks seek kind = some o ∧
      o.status = 206 ∧ o.contentRange = some (a, b - 1, (n : Int)) ∧ o.contentLength = some (b - a) ∧
      0 ≤ a ∧ a < b ∧ b ≤ n ∧
      o.body.flatten = (chunks.flatten.drop a.toNat).take (b - a).toNat := by
  obtain ⟨h0, hab, hbl, _⟩ := rangeForLength_sound pr n a b hrf
  have hmc : makeConditionalStatus "GET".toList q r (some (n : Int)) true
      = some (206, .partialContent a b) := by
    rw [status_modified _ _ _ _ _ (Or.inl rfl) hmod]
    have hz : ((n : Int) == 0) = false := by simpa using hn
    simp [processRangeRequest, hproc, hp, hrf, hz]
  have e1 : ("GET".toList == ['H', 'E', 'A', 'D']) = false := by decide
  cases seek with
  | none =>
    refine ⟨⟨206, some (a, b - 1, (n : Int)), some (b - a), rangeWrapIter chunks a.toNat (b - a).toNat, true⟩,
      ?_, rfl, rfl, rfl, h0, hab, hbl, (rangeWrapper_exact_iter chunks _ _).1⟩
    simp only [respond, hmc, e1, Bool.false_eq_true, ↓reduceIte, Option.getD_some]
  | some bs =>
    refine ⟨⟨206, some (a, b - 1, (n : Int)), some (b - a), rangeWrapSeek chunks.flatten bs a.toNat (b - a).toNat, true⟩,
      ?_, rfl, rfl, rfl, h0, hab, hbl, (rangeWrapper_exact_seek chunks.flatten bs (hseek bs rfl) _ _).1⟩
    simp only [respond, hmc, e1, Bool.false_eq_true, ↓reduceIte, Option.getD_some]

/-- `Range: bytes=<first>-` (open ended, `first` inside the resource): 206 with exactly
`body[first:]`, `Content-Range: bytes first-(n-1)/n`. -/
theorem satisfiable_open_206 (d1 : Str) (h1 : IsDigits d1) (q : CondReq) (r : RespIn) (n : Nat)
    (ha : digitsVal d1 < n) (hq : q.range = some (bytesEq ++ (d1 ++ ['-'])))
    (hmod : isResourceModified q r.etag (lmOf r) true = true) (hproc : rangeProcessable q r = true)
    (chunks : List Bytes) (seek : Option Nat) (hseek : ∀ bs, seek = some bs → 0 < bs) (kind : Nat) :
    ∃ o, respond "GET".toList q r (some (n : Int)) true chunks seek kind = some o ∧
      o.status = 206 ∧ o.contentRange = some ((digitsVal d1 : Int), (n : Int) - 1, (n : Int)) ∧
      o.contentLength = some ((n : Int) - digitsVal d1) ∧
      o.body.flatten = (chunks.flatten.drop (digitsVal d1)).take (n - digitsVal d1) := by
  have hrf : rangeForLength ⟨bytesUnit, [((digitsVal d1 : Int), none)]⟩ (some (n : Int))
      = some ((digitsVal d1 : Int), (n : Int)) := by
    unfold rangeForLength isByteRangeValid
    have c1 : ¬ ((digitsVal d1 : Int) < 0) := by omega
    have c2 : ¬ ((digitsVal d1 : Int) ≥ (n : Int)) := by omega
    have c3 : (digitsVal d1 : Int) < (n : Int) := by omega
    simp [c1, c3]
    exact ha
  obtain ⟨o, ho, hst, hcr, hcl, _, _, _, hb⟩ := range_206_complete q r n (by omega) _ _ _
    (by rw [hq]; exact parse_range_open d1 h1) hrf hmod hproc chunks seek hseek kind
  refine ⟨o, ho, hst, hcr, hcl, ?_⟩
  rw [hb]
  have e : ((n : Int) - (digitsVal d1 : Int)).toNat = n - digitsVal d1 := by omega
  simp [e]

/-- `Range: bytes=-<k>` (the last `k` bytes, `0 < k ≤ n`): 206 with exactly `body[n-k:]`. -/
theorem satisfiable_suffix_206 (d : Str) (h : IsDigits d) (hpos : 0 < digitsVal d) (q : CondReq)
    (r : RespIn) (n : Nat) (hk : digitsVal d ≤ n) (hq : q.range = some (bytesEq ++ ('-' :: d)))
    (hmod : isResourceModified q r.etag (lmOf r) true = true) (hproc : rangeProcessable q r = true)
    (chunks : List Bytes) (seek : Option Nat) (hseek : ∀ bs, seek = some bs → 0 < bs) (kind : Nat) :
    ∃ o, respond "GET".toList q r (some (n : Int)) true chunks seek kind = some o ∧
      o.status = 206 ∧ o.contentRange = some ((n : Int) - digitsVal d, (n : Int) - 1, (n : Int)) ∧
      o.contentLength = some (digitsVal d : Int) ∧
      o.body.flatten = (chunks.flatten.drop (n - digitsVal d)).take (digitsVal d) := by
  have hrf : rangeForLength ⟨bytesUnit, [(-(digitsVal d : Int), none)]⟩ (some (n : Int))
      = some ((n : Int) - digitsVal d, (n : Int)) := by
    unfold rangeForLength isByteRangeValid
    have c1 : (-(digitsVal d : Int)) < 0 := by omega
    have c2 : ¬ (-(digitsVal d : Int) + (n : Int) ≥ (n : Int)) := by omega
    have c3 : (0 : Int) ≤ -(digitsVal d : Int) + (n : Int) := by omega
    have c4 : -(digitsVal d : Int) + (n : Int) < (n : Int) := by omega
    simp [c1, c3, c4]
    omega
  obtain ⟨o, ho, hst, hcr, hcl, _, _, _, hb⟩ := range_206_complete q r n (by omega) _ _ _
    (by rw [hq]; exact parse_range_suffix d h hpos) hrf hmod hproc chunks seek hseek kind
  refine ⟨o, ho, hst, hcr, ?_, ?_⟩
  · rw [hcl]; congr 1; omega
  · rw [hb]
    have e1 : ((n : Int) - (digitsVal d : Int)).toNat = n - digitsVal d := by omega
    have e2 : ((n : Int) - ((n : Int) - (digitsVal d : Int))).toNat = digitsVal d := by omega
    rw [e1, e2]

example : (respond "GET".toList { range := some "bytes=-2".toList } {} (some 6) true
    [[65, 66, 67], [], [68, 69, 70]] (some 4) 2).map (fun o => (o.status, o.contentRange, o.body)) =
    some (206, some (4, 5, 6), [[69, 70]]) := by decide

/-- Unparsable spellings, as text: a header without `=`, and `bytes=<first>-<last>` with
`first > last`, do not parse — `range_416_partial` answers them with 416. -/
theorem unparsable_range_text (d1 d2 : Str) (h1 : IsDigits d1) (h2 : IsDigits d2)
    (hgt : digitsVal d2 < digitsVal d1) (v : Str) (hv : v.contains '=' = false) :
    parseRangeHeader (some v) = none ∧ parseRangeHeader (some (bytesEq ++ (d1 ++ '-' :: d2))) = none := by
  constructor
  · have hv' : ¬ ('=' ∈ v) := by simpa using hv
    simp [parseRangeHeader, hv']
  · have hnc : ∀ c ∈ d1 ++ '-' :: d2, c ≠ ',' := by
      intro c hc
      rcases List.mem_append.mp hc with hc | hc
      · exact digits_no_comma h1.2 c hc
      · rcases List.mem_cons.mp hc with rfl | hc
        · decide
        · exact digits_no_comma h2.2 c hc
    rw [parseRangeHeader_bytes, splitOnChar_none _ _ _ hnc]
    simp only [List.reverse_nil, List.nil_append]
    -- the single item: begin parses, end parses, begin >= end + 1 -> None
    have hsp : ∀ c ∈ d1 ++ '-' :: d2, Py.isSpace c = false := by
      intro c hc
      rcases List.mem_append.mp hc with hc | hc
      · exact digit_not_space (h1.2 c hc)
      · rcases List.mem_cons.mp hc with rfl | hc
        · decide
        · exact digit_not_space (h2.2 c hc)
    have htd := takeWhile_digits_dash d1 d2 h1.2
    have hhead : ((d1 ++ '-' :: d2).head? == some '-') = false := by
      cases d1 with
      | nil => exact absurd rfl h1.1
      | cons c t =>
        have hc : c ≠ '-' := digit_ne (h1.2 c (by simp)) (by decide)
        simpa using hc
    have hcont : (d1 ++ '-' :: d2).contains '-' = true := by simp
    have hs1 := strip_noSpace d1 (fun c hc => digit_not_space (h1.2 c hc))
    have hs2 := strip_noSpace d2 (fun c hc => digit_not_space (h2.2 c hc))
    have he2 : d2.isEmpty = false := by
      cases d2 with
      | nil => exact absurd rfl h2.1
      | cons _ _ => rfl
    rw [parseRangeItems]
    simp only [strip_noSpace _ hsp, hcont, Bool.not_true, Bool.false_eq_true, ↓reduceIte, htd.1, htd.2,
      List.drop_succ_cons, List.drop_zero, hs1, hs2, plainInt_digits d1 h1, plainInt_digits d2 h2, he2, hhead]
    have c2 : (decide ((digitsVal d1 : Int) < 0) || decide ((0 : Int) < 0)) = false := by
      simp
    simp only [c2, Bool.false_eq_true, ↓reduceIte]
    have c3 : (digitsVal d1 : Int) ≥ (digitsVal d2 : Int) + 1 := by omega
    simp [c3]


example : parseRangeHeader (some "bytes".toList) = none ∧ parseRangeHeader (some "bytes=5-2".toList) = none := by
  decide


/-! ## `utils.send_file` -/

/-- the blocks a `FileWrapper` yields concatenate to the file's content -/
theorem file_blocks_flatten (data : Bytes) :
    (blocks fileBufferSize (data.length + 1) data).flatten = data :=
  blocks_flatten fileBufferSize (by decide) _ _ (by omega)

/-- `send_file` *is* `make_conditional(environ, accept_ranges=True, complete_length=size)` on a
`direct_passthrough` response over a `FileWrapper` whose validators are the generated (or given)
ETag and the file's Last-Modified — so every theorem above about `respond` applies to file
responses. -/
theorem send_file_is_make_conditional (a : SendFile) (hc : a.conditional = true) (et : Option Str)
    (het : a.etagHeader = .ok et) (method : Str) (q : CondReq) (data : Bytes) (seekable : Bool) :
    sendFile a method q data seekable =
      .ok ((respond method q { etag := et, lastModified := a.lastMod } a.clen true
          (blocks fileBufferSize (data.length + 1) data)
          (if seekable then some fileBufferSize else none) 2).map
        fun o => if o.status == 200 || o.status == 412
          then { o with contentLength := a.clen } else o) := by
  simp [sendFile, het, hc]

/-- Revalidation: a GET/HEAD that sends back, as `If-None-Match`, the entity tag `send_file`
generated for the file as it is now (same mtime text, size and path checksum) is answered 304 —
whatever else the request carries (`Range`, `If-Range`, dates). -/
theorem send_file_revalidate_304 (a : SendFile) (hc : a.conditional = true) (hp : a.isPath = true)
    (he : a.etag = .auto) (hclean : CleanTag a.autoTag)
    (method : Str) (hm : method = "GET".toList ∨ method = "HEAD".toList)
    (range ifRange : Option Str) (ims : Option Int) (data : Bytes) (seekable : Bool) :
    sendFile a method { range := range, ifRange := ifRange, ims := ims, inm := some (quoteTag a.autoTag) }
        data seekable = .ok (some ⟨304, none, none, [], false⟩) := by
  have het : a.etagHeader = .ok (some (quoteTag a.autoTag)) := by
    simp [SendFile.etagHeader, he, hp, quoteTag]
  rw [send_file_is_make_conditional a hc _ het]
  have hsep : IsSep [','] := ⟨[], [], rfl, by simp, by simp⟩
  have h304 := (status_304_inm_text_iff method hm [','] hsep [(a.autoTag, false)] (by simp)
    (by intro t ht; simp at ht; subst ht; exact hclean) a.autoTag false range ifRange ims a.lastMod
    a.clen true).mpr ⟨(a.autoTag, false), by simp, rfl⟩
  have e1 : renderTags [','] [(a.autoTag, false)] = quoteTag a.autoTag := by simp [renderTags, renderTag]
  have e2 : renderTag (a.autoTag, false) = quoteTag a.autoTag := by simp [renderTag]
  rw [e1, e2] at h304
  simp [respond, h304]

/-- Staleness: after the file changed so that the generated tag text differs (another mtime text or
another size), the old tag in `If-None-Match` no longer gives 304. -/
theorem send_file_changed_not_304 (a : SendFile) (hc : a.conditional = true) (hp : a.isPath = true)
    (he : a.etag = .auto) (old : Str) (hold : CleanTag old)
    (hne : old ≠ a.autoTag) (method : Str) (range ifRange : Option Str) (ims : Option Int)
    (data : Bytes) (seekable : Bool) (o : WsgiOut)
    (h : sendFile a method { range := range, ifRange := ifRange, ims := ims, inm := some (quoteTag old) }
        data seekable = .ok (some o)) : o.status ≠ 304 := by
  have het : a.etagHeader = .ok (some (quoteTag a.autoTag)) := by
    simp [SendFile.etagHeader, he, hp, quoteTag]
  rw [send_file_is_make_conditional a hc _ het] at h
  simp only [Except.ok.injEq] at h
  intro h304
  cases hr : respond method { range := range, ifRange := ifRange, ims := ims, inm := some (quoteTag old) }
      { etag := some (quoteTag a.autoTag), lastModified := a.lastMod } a.clen true
      (blocks fileBufferSize (data.length + 1) data) (if seekable then some fileBufferSize else none) 2 with
  | none => rw [hr] at h; cases h
  | some o' =>
    rw [hr] at h
    simp only [Option.map_some, Option.some.injEq] at h
    have ho' : o'.status = 304 := by
      subst h
      by_cases hx : (o'.status == 200 || o'.status == 412) = true
      · simp only [hx, ↓reduceIte] at h304
        simp only [Bool.or_eq_true, beq_iff_eq] at hx
        omega
      · simpa [hx] using h304
    rcases respond_cases _ _ _ _ _ _ _ _ o' hr with ⟨_, _, _, h206, _⟩ | ⟨hmc, _⟩ | ⟨st, hst, _, hs', _⟩
    · omega
    · have hsep : IsSep [','] := ⟨[], [], rfl, by simp, by simp⟩
      have hm := (status_304_sound method _ _ _ true _ hmc).1
      have key := (status_304_inm_text_iff method hm [','] hsep [(old, false)] (by simp)
        (by intro t ht; simp at ht; subst ht; exact hold) a.autoTag false range ifRange ims a.lastMod
        a.clen true).mp
      have e1 : renderTags [','] [(old, false)] = quoteTag old := by simp [renderTags, renderTag]
      have e2 : renderTag (a.autoTag, false) = quoteTag a.autoTag := by simp [renderTag]
      rw [e1, e2] at key
      obtain ⟨t, ht, hte⟩ := key hmc
      simp at ht
      subst ht
      exact hne hte
    · rcases hst with rfl | rfl <;> omega

/-- Revalidation by date: `send_file` with a Last-Modified instant `t` (from the file's mtime or the
`last_modified` argument; no ETag on the response, e.g. `etag=False`) answers a GET/HEAD carrying
`If-Modified-Since: <http_date(t')>` with 304 exactly when `t ≤ t'` — one-second resolution, the
sub-second part of the mtime plays no role. -/
theorem send_file_ims_text_iff (a : SendFile) (hc : a.conditional = true) (he : a.etagHeader = .ok none)
    (t t' : Nat) (hlm : a.lastMod = some (t : Int)) (ht' : InDateRange t')
    (method : Str) (hm : method = "GET".toList ∨ method = "HEAD".toList)
    (range ifRange : Option Str) (data : Bytes) (seekable : Bool) :
    sendFile a method (mkReqText range ifRange (some (Date.httpDate t')) none none) data seekable
      = .ok (some ⟨304, none, none, [], false⟩) ↔ t ≤ t' := by
  rw [send_file_is_make_conditional a hc none he, hlm]
  have key := ims_text_iff t' ht' none (t : Int) 0 range ifRange
  have hlm' : lmOf { etag := none, lastModified := some (t : Int) } = some ((t : Int), 0) := rfl
  have him : (parseEtags (mkReqText range ifRange (some (Date.httpDate t')) none none).im).truthy = false := by
    simp [mkReqText, parseEtags, ETags.empty, ETags.truthy]
  constructor
  · intro h
    simp only [Except.ok.injEq] at h
    cases hr : respond method (mkReqText range ifRange (some (Date.httpDate t')) none none)
        { etag := none, lastModified := some (t : Int) } a.clen true
        (blocks fileBufferSize (data.length + 1) data) (if seekable then some fileBufferSize else none) 2 with
    | none => rw [hr] at h; cases h
    | some o' =>
      rw [hr] at h
      simp only [Option.map_some, Option.some.injEq] at h
      have ho' : o'.status = 304 := by
        by_cases hx : (o'.status == 200 || o'.status == 412) = true
        · simp only [hx, ↓reduceIte] at h
          have := congrArg WsgiOut.status h
          simp only [Bool.or_eq_true, beq_iff_eq] at hx
          simp at this
          omega
        · simp only [hx] at h
          simp at h
          rw [h]
      rcases respond_cases _ _ _ _ _ _ _ _ o' hr with ⟨_, _, _, h206, _⟩ | ⟨hmc, _⟩ | ⟨st, hst, _, hs', _⟩
      · omega
      · have := (status_304_sound method _ _ _ true _ hmc).2.2
        have hnm := (not_modified_iff _ _ _).mpr this
        rw [hlm'] at hnm
        exact Int.ofNat_le.mp (key.mp hnm)
      · rcases hst with rfl | rfl <;> omega
  · intro hle
    have hnm : isResourceModified (mkReqText range ifRange (some (Date.httpDate t')) none none)
        (RespIn.etag { etag := none, lastModified := some (t : Int) })
        (lmOf { etag := none, lastModified := some (t : Int) }) true = false := by
      rw [hlm']; exact key.mpr (Int.ofNat_le.mpr hle)
    have hmc := status_not_modified method _ _ a.clen true hm hnm
    simp only [him, Bool.false_eq_true, ↓reduceIte] at hmc
    simp [respond, hmc]


/-- Ranges over files: `send_file` of a path (or `BytesIO`) holding `data`, answered to a GET with
`Range: bytes=<first>-<last>` (first ≤ last, first inside the file, no validators): 206 with
`Content-Range: bytes first-(b-1)/n`, `Content-Length: b - first`, `b = min(last+1, n)`, and a body
that is exactly `data[first:b]` — whether the file object is seekable (seek + block reads of 8192
bytes) or not (blocks skipped up to the start). -/
theorem send_file_range_exact (a : SendFile) (hc : a.conditional = true) (data : Bytes)
    (hs : a.size = some data.length) (et : Option Str) (het : a.etagHeader = .ok et)
    (d1 d2 : Str) (h1 : IsDigits d1) (h2 : IsDigits d2) (hle : digitsVal d1 ≤ digitsVal d2)
    (hlt : digitsVal d1 < data.length) (seekable : Bool) :
    let lo : Nat := digitsVal d1
    let hi : Nat := min (digitsVal d2 + 1) data.length
    ∃ o, sendFile a "GET".toList { range := some (bytesEq ++ (d1 ++ '-' :: d2)) } data seekable = .ok (some o) ∧
      o.status = 206 ∧ o.contentRange = some ((lo : Int), (hi : Int) - 1, (data.length : Int)) ∧
      o.contentLength = some ((hi : Int) - lo) ∧ o.body.flatten = (data.drop lo).take (hi - lo) := by
  intro lo hi
  rw [send_file_is_make_conditional a hc et het]
  obtain ⟨o, ho, hst, hcr, hcl, hb⟩ := satisfiable_range_206_any_body d1 d2 h1 h2 hle
    (blocks fileBufferSize (data.length + 1) data) { range := some (bytesEq ++ (d1 ++ '-' :: d2)) }
    { etag := et, lastModified := a.lastMod } data.length hlt 2
    (if seekable then some fileBufferSize else none)
    (by intro bs hbs; cases seekable <;> simp at hbs; subst hbs; decide) rfl
    (no_validators_modified_general _ rfl rfl rfl _ _) (by simp [rangeProcessable])
  refine ⟨o, ?_, hst, hcr, hcl, ?_⟩
  · have e : a.clen = some (data.length : Int) := by simp [SendFile.clen, hs]
    rw [e, ho]
    simp [hst]
  · rw [hb, file_blocks_flatten]

/-- A file object of unknown size (neither a path nor a `BytesIO`): `complete_length` is `None`, the
`Range` header is ignored — the answer is never 206 and never 416. -/
theorem send_file_unknown_size_no_range (a : SendFile) (hs : a.size = none) (method : Str) (q : CondReq)
    (data : Bytes) (seekable : Bool) (et : Option Str) (het : a.etagHeader = .ok et) :
    ∃ o, sendFile a method q data seekable = .ok (some o) ∧ o.status ≠ 206 := by
  by_cases hc : a.conditional = true
  · rw [send_file_is_make_conditional a hc et het]
    obtain ⟨st, hmc, hst⟩ := unknown_length_ignores_range method q { etag := et, lastModified := a.lastMod } true
    have e : a.clen = none := by simp [SendFile.clen, hs]
    rw [e]
    unfold respond
    simp only [hmc]
    rcases hst with rfl | rfl | rfl <;> simp
  · have hc' : a.conditional = false := by simpa using hc
    simp [sendFile, het, hc']

/-- `conditional=False`: always the complete 200 response, whatever the request says. -/
theorem send_file_unconditional (a : SendFile) (hc : a.conditional = false) (et : Option Str)
    (het : a.etagHeader = .ok et) (q : CondReq) (data : Bytes) (seekable : Bool) :
    ∃ o, sendFile a "GET".toList q data seekable = .ok (some o) ∧ o.status = 200 ∧
      o.contentRange = none ∧ o.body.flatten = data := by
  refine ⟨_, by simp [sendFile, het, hc]; rfl, rfl, rfl, ?_⟩
  simp [file_blocks_flatten]

/-- The cache headers `send_file` sets next to the validators: without `max_age` the response is
`no-cache` and has no `Expires` (every reuse must revalidate — which the theorems above decide);
a positive `max_age` gives `public, max-age=n` and `Expires = now + n`; zero or negative values keep
`no-cache`. -/
theorem send_file_cache_headers (n : Int) (now : Int) :
    sendFileCacheControl none = "no-cache".toList ∧ sendFileExpires none now = none ∧
    (0 < n → sendFileCacheControl (some n) = "public, max-age=".toList ++ (toString n).toList) ∧
    (n ≤ 0 → sendFileCacheControl (some n) = "no-cache, max-age=".toList ++ (toString n).toList) ∧
    sendFileExpires (some n) now = some (now + n) := by
  refine ⟨rfl, rfl, ?_, ?_, rfl⟩
  · intro h
    show (if n > 0 then _ else _) = _
    rw [if_pos h]
  · intro h
    have : ¬ (n > 0) := by omega
    show (if n > 0 then _ else _) = _
    rw [if_neg this]


/-- a given entity tag containing `"` is refused (`quote_etag` raises ValueError) -/
theorem send_file_bad_given_etag (a : SendFile) (s : Str) (he : a.etag = .given s) (hq : '"' ∈ s)
    (method : Str) (q : CondReq) (data : Bytes) (seekable : Bool) :
    sendFile a method q data seekable = .error "ValueError" := by
  simp [sendFile, SendFile.etagHeader, he, hq]

/-- a path of 10 bytes, mtime 1767225600.25, checksum 7 -/
def exampleFile : SendFile := ⟨true, some 10, some (1767225600, 250000), "1767225600.25".toList, 7, .auto, none, true⟩

example : exampleFile.autoTag = "1767225600.25-10-7".toList ∧
    (match sendFile exampleFile "GET".toList { inm := some "\"1767225600.25-10-7\"".toList }
        [1, 2, 3, 4, 5, 6, 7, 8, 9, 10] true with
      | .ok (some o) => o.status
      | _ => 0) = 304 ∧
    (match sendFile exampleFile "GET".toList { inm := some "\"1767225599.25-10-7\"".toList }
        [1, 2, 3, 4, 5, 6, 7, 8, 9, 10] true with
      | .ok (some o) => o.status
      | _ => 0) = 200 ∧
    (match sendFile exampleFile "GET".toList { range := some "bytes=2-4".toList }
        [1, 2, 3, 4, 5, 6, 7, 8, 9, 10] true with
      | .ok (some o) => (o.status, o.body)
      | _ => (0, [])) = (206, [[3, 4, 5]]) := by decide


example : (⟨true, some 10, some (1767225600, 250000), "1767225600.25".toList, 7, .auto, none, true⟩ : SendFile).autoTag
    = "1767225600.25-10-7".toList := by decide

end Wz.Props.C11
