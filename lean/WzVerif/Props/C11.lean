/- C11 property theorems (not written yet) -/
namespace Wz.Props.C11
end Wz.Props.C11
