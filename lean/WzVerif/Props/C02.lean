/- C02 property theorems (not written yet) -/
namespace Wz.Props.C02
end Wz.Props.C02
