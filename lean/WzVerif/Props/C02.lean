/-
C02 — form data survives encode → parse unchanged (multipart and urlencoded).
Property theorems only (helper lemmas: Lemmas/Urlencode.lean, Lemmas/FormOptions.lean,
Lemmas/Multipart.lean).

Models: Model/Urlencode.lean (`quote_plus`, `urlencode`, `unquote` with the `werkzeug.url_quote`
handler, `parse_qsl` — stdlib, validated by stream `urlencode-kernels`), Model/FormOptions.lean
(`parse_options_header`), Model/Multipart.lean (`MultipartEncoder.send_event`, the decoder).
-/
import WzVerif.Gen.FormOptions
import WzVerif.Lemmas.Urlencode
import WzVerif.Lemmas.FormOptions
import WzVerif.Lemmas.Multipart
import WzVerif.Lemmas.MultipartCodec
import WzVerif.Lemmas.MultipartChunks
import WzVerif.Lemmas.MultipartClient
import WzVerif.Lemmas.FormLimitsRequest
namespace Wz.Props.C02
open Wz

/-! ### URL-encoded forms and query strings -/

/-- The `safe=` literal of the single `urlencode(...)` call in `werkzeug.urls._urlencode` (found by
AST on every run) keeps `%`, `+`, `&` and `=` escaped, and the model's notion of "left alone"
agrees with the live function on every ASCII character. -/
theorem urlencode_safe_literal :
    Gen.Urlencode.urlencodeSafeSites = 1 ∧
    Urlencode.SafeOk Gen.Urlencode.urlencodeSafe ∧
    ∀ n, n < 128 →
      Gen.Urlencode.liveUnescaped.getD n false = Urlencode.kept Gen.Urlencode.urlencodeSafe (UInt8.ofNat n) := by
  refine ⟨by decide, by decide +kernel, ?_⟩
  decide +kernel

/-- **unquote_quotePlus (bytes).** For every `safe` set that keeps `%` and `+` escaped and every
byte string: percent-decoding the `quote_plus` output (after `+` → space) returns the bytes. -/
theorem unquote_quotePlus {safe : Bytes} (hs : Urlencode.SafeOk safe) (bs : Bytes) :
    Urlencode.unquoteBytes ((Urlencode.quotePlus safe bs).map Urlencode.p2s) = bs :=
  Urlencode.unquoteBytes_quotePlus hs bs

/-- ... in particular for the literal werkzeug uses -/
theorem unquote_quotePlus_werkzeug (bs : Bytes) :
    Urlencode.unquoteBytes ((Urlencode.quotePlus Gen.Urlencode.urlencodeSafe bs).map Urlencode.p2s) = bs :=
  unquote_quotePlus urlencode_safe_literal.2.1 bs

example : Urlencode.quotePlus Gen.Urlencode.urlencodeSafe [97, 32, 43, 37, 38, 61, 195, 169] =
    "a+%2B%25%26%3D%C3%A9".toUTF8.toList := by decide +kernel

/-- **unquote_quotePlus (text).** For every Unicode string `s`:
`unquote(quote_plus(s, safe).replace('+', ' '), errors="werkzeug.url_quote") == s`. -/
theorem unquote_quotePlus_text {safe : Bytes} (hs : Urlencode.SafeOk safe) (s : List Char) :
    Urlencode.unquote (Urlencode.plusToSpace (Urlencode.asciiStr (Urlencode.quotePlusStr safe s))) = s :=
  Urlencode.unquote_quotePlusStr hs s

/-- **parseQsl_urlencode.** For every list of (key, value) pairs over Unicode scalar values —
repeated keys, empty keys, empty values, `&`, `=`, `+`, `%` inside keys and values included —
`parse_qsl(_urlencode(items), keep_blank_values=True, errors="werkzeug.url_quote") == items`
(what `Request.form` for url-encoded bodies and `Request.args` compute). -/
theorem parseQsl_urlencode (items : List (List Char × List Char)) :
    Urlencode.parseQsl true (Urlencode.asciiStr (Urlencode.wzUrlencode items)) = items :=
  Urlencode.parseQsl_urlencode_lemma urlencode_safe_literal.2.1 items

/-- the caveat of the empty list: it encodes to the empty string, which parses to the empty list -/
theorem parseQsl_urlencode_nil :
    Urlencode.wzUrlencode [] = [] ∧ Urlencode.parseQsl true [] = [] := by
  constructor <;> rfl

example : Urlencode.parseQsl true (Urlencode.asciiStr (Urlencode.wzUrlencode
    [(['a', ' '], ['&', '=']), (['a', ' '], []), ([], ['é'])])) =
    [(['a', ' '], ['&', '=']), (['a', ' '], []), ([], ['é'])] := by
  decide +kernel

/-- without `keep_blank_values` the round trip is false (empty values are dropped): the flag
werkzeug passes matters -/
theorem parseQsl_urlencode_keepBlank_needed :
    ¬ (∀ items : List (List Char × List Char),
        Urlencode.parseQsl false (Urlencode.asciiStr (Urlencode.wzUrlencode items)) = items) := by
  intro h
  have := h [(['a'], [])]
  revert this
  decide +kernel

/-- **urlencoded_body_roundtrip.** What `EnvironBuilder` writes for a form without files
(`_urlencode(items)`) is read back by `FormDataParser._parse_urlencoded` as exactly the items, for every
list of Unicode (key, value) pairs, every declared length and every short-read schedule of the input. -/
theorem urlencoded_body_roundtrip (items : List (List Char × List Char)) (cl : Option Nat) (sched : List Nat) :
    Urlencode.parseUrlencoded none cl sched (Urlencode.wzUrlencode items) = .ok items :=
  Urlencode.parseUrlencoded_urlencode urlencode_safe_literal.2.1 items cl sched

/-- **urlencoded_request_roundtrip.** … and at the request level: a `Request` whose body is
`_urlencode(items)` with content type `application/x-www-form-urlencoded` and a truthful
`Content-Length` shows exactly the items as `.form` / `.values` (Model/FormLimitsRequest.lean:
`Request.stream`, `_load_form_data`, `FormDataParser.parse` dispatch), with no limits configured or with
`max_form_memory_size` at least the body length. -/
theorem urlencoded_request_roundtrip (items : List (List Char × List Char)) (mcl mm mp : Option Nat)
    (hmcl : ∀ m, mcl = some m → (Urlencode.wzUrlencode items).length ≤ m)
    (hmm : ∀ m, mm = some m → (Urlencode.wzUrlencode items).length ≤ m) :
    (FormReq.run ⟨mcl, mm, mp, .urlencoded, some (Urlencode.wzUrlencode items).length, false⟩
      (FormReq.fresh (Urlencode.wzUrlencode items)) [.form]).1 =
      [.fields (items.map fun kv => (some kv.1, kv.2))] := by
  let body := Urlencode.wzUrlencode items
  let c : FormReq.Cfg := ⟨mcl, mm, mp, .urlencoded, some body.length, false⟩
  have hc : FormReq.chooseStream c = some (.limited body.length 0 false) := by
    cases mcl with
    | none => simp [FormReq.chooseStream, c]
    | some m =>
      have := hmcl m rfl
      have hle : ¬ (m < body.length) := by show ¬ (m < (Urlencode.wzUrlencode items).length); omega
      simp [FormReq.chooseStream, c, hle]
  have he : FormReq.endErr (.limited body.length 0 false) body = none := by simp [FormReq.endErr]
  have hav : FormReq.avail (.limited body.length 0 false) body = body := by simp [FormReq.avail]
  have hne : c.mime ≠ .absent := by simp [c]
  show (FormReq.run c (FormReq.fresh body) [.form]).1 = _
  simp only [FormReq.run]
  rw [FormReq.formAccess_fresh c body hc hne rfl]
  unfold FormReq.parseFrom
  have hm : c.mime = .urlencoded := rfl
  rw [hm, FormReq.parseDispatch_urlencoded_fst, FormReq.parseUrlencodedS_clean c.mm c.declared he, hav]
  have hpg : Urlencode.parseUrlencoded c.mm c.declared [] body = .ok items := by
    cases hmm' : mm with
    | none =>
      show Urlencode.parseUrlencoded mm _ [] body = _
      rw [hmm']; exact urlencoded_body_roundtrip items _ []
    | some m =>
      have hle := hmm m hmm'
      show Urlencode.parseUrlencoded mm (some body.length) [] body = _
      rw [hmm']
      have hfree := urlencoded_body_roundtrip items (some body.length) []
      have hd : Urlencode.declaredTooLarge m (some body.length) = false := by
        simp [Urlencode.declaredTooLarge]; exact hle
      unfold Urlencode.parseUrlencoded at hfree ⊢
      simp only [Urlencode.urlencodedRead, hd, Bool.false_eq_true, if_false] at hfree ⊢
      rw [Urlencode.boundedLoop_result (m + 2) (m + 1) [] body [] (by omega)]
      have : body.length < m + 1 := by show (Urlencode.wzUrlencode items).length < m + 1; omega
      simp only [this, if_true, List.nil_append]
      exact hfree
  rw [hpg]
  simp [FormReq.urlForm, FormReq.silence, FormReq.obsOf]

example :
    (FormReq.run ⟨none, some 500000, some 1000, .urlencoded, some 21, false⟩
      (FormReq.fresh (Urlencode.wzUrlencode [(['a', ' '], ['&', '=']), (['a', ' '], []), ([], ['é'])])) [.form]).1 =
      [.fields [(some ['a', ' '], ['&', '=']), (some ['a', ' '], []), (some [], ['é'])]] ∧
    (Urlencode.wzUrlencode [(['a', ' '], ['&', '=']), (['a', ' '], []), ([], ['é'])]).length = 21 := by
  decide +kernel

/-! ### multipart: Content-Disposition -/

/-- **What `parse_options_header` does to a quoted value is what the model does** (regenerated from the
source by AST on every run). The "remove quotes" block `if pv[0] == pv[-1] == '"':` consists of one
assignment `pv = pv[1:-1].replace(…)…` whose `str.replace` steps are exactly (backslash backslash → backslash), (backslash quote → quote),
`%22 → "` in this order; nothing else in the function rewrites a value with `replace` / `translate` /
`re.sub`; the closing-quote scanner skips exactly those two escape pairs; and the model's `unquoteValue` is the
fold of those steps over the text between the quotes. An additional decoding step (say `%0A` → LF)
changes the generated list and breaks this obligation. -/
theorem options_quoted_value_as_modelled :
    Gen.FormOptions.quotedBlockRecognised = true ∧
    Gen.FormOptions.quotedBases = ["pv[1:-1]"] ∧
    Gen.FormOptions.quotedReplaces.map (fun (a, b) => (a.toList, b.toList)) =
      FormOptions.quotedReplaceSteps ∧
    Gen.FormOptions.scanEscapes = ["\\\"", "\\\\"] ∧
    ∀ pv, FormOptions.unquoteValue pv =
      if pv.head? == some '"' && pv.getLast? == some '"' then
        FormOptions.quotedReplaceSteps.foldl (fun s st => FormOptions.replace st.1 st.2 s) (pv.drop 1).dropLast
      else pv := by
  refine ⟨by decide, by decide +kernel, by decide +kernel, by decide +kernel, fun pv => ?_⟩
  simp [FormOptions.unquoteValue, FormOptions.quotedReplaceSteps]

/-- The key / token character class of the live compiled `_parameter_key_re` and
`_parameter_token_value_re` (probed on all of Latin-1 and on letters / digits outside it) is the
model's `isTokenCh`, the patterns and their `re.ASCII` flag are the ones the scanner was written for. -/
theorem options_token_classes :
    Gen.FormOptions.keyPattern = "([\\w!#$%&'*+\\-.^`|~]+)=" ∧
    Gen.FormOptions.tokenPattern = "[\\w!#$%&'*+\\-.^`|~]+" ∧
    Gen.FormOptions.continuationPattern = "\\*(\\d+)$" ∧
    Gen.FormOptions.patternFlags = [256, 256, 256] ∧
    Gen.FormOptions.classesAsciiOnly = true ∧
    Gen.FormOptions.keyClass = Gen.FormOptions.tokenClass ∧
    ∀ n, n < 256 → Gen.FormOptions.tokenClass.getD n false = FormOptions.isTokenCh (Char.ofNat n) := by
  refine ⟨by decide +kernel, by decide +kernel, by decide +kernel, by decide, by decide, by decide +kernel, ?_⟩
  decide +kernel

/-- **parseOptions_disposition.** For every name and optional filename free of `"`, `\` and the
substring `%22` (CR / LF are excluded one level up, by the header line syntax):
`parse_options_header('form-data; name="n"; filename="f"')` returns exactly `n` and `f`
(`;`, `=`, spaces, quotes' neighbours, non-ASCII … inside the names do not matter). -/
theorem parseOptions_disposition (n : List Char) (f : Option (List Char)) (hn : FormOptions.NameOk n)
    (hf : ∀ x, f = some x → FormOptions.NameOk x) :
    FormOptions.parseOptionsHeader (FormOptions.dispositionValue n f) =
      .ok ("form-data".toList, ("name".toList, n) :: FormOptions.filenameOpt f) :=
  FormOptions.parseOptions_disposition_lemma n f hn hf

/-- `filenameOpt f` is the pair `("filename", f)` when there is a filename and nothing otherwise -/
theorem filenameOpt_eq :
    FormOptions.filenameOpt none = [] ∧
    ∀ x, FormOptions.filenameOpt (some x) = [("filename".toList, x)] := ⟨rfl, fun _ => rfl⟩

example : FormOptions.NameOk "a;b=\"".toList = False ∧ FormOptions.NameOk "a; b=c é%2".toList := by
  constructor
  · simp [FormOptions.NameOk]
  · decide

/-- the excluded sequence really is excluded for a reason: `%22` comes back as a double quote -/
theorem parseOptions_disposition_pct22_false :
    ¬ (∀ n : List Char, '"' ∉ n → '\\' ∉ n →
        (FormOptions.parseOptionsHeader (FormOptions.dispositionValue n none)).toOption =
          some ("form-data".toList, [("name".toList, n)])) := by
  intro h
  have := h ['%', '2', '2'] (by decide) (by decide)
  revert this
  decide +kernel

/-- The header line `MultipartEncoder.send_event` writes for a Field / File event is
`Content-Disposition: ` followed by the UTF-8 of `dispositionValue name filename`. -/
theorem encoder_writes_disposition (bnd : Bytes) (n : List Char) (hs : Multipart.Headers) :
    Multipart.sendEvent bnd .part (.field (some n) hs) =
      .ok (Multipart.crlf ++ 45 :: 45 :: bnd ++ Multipart.crlf ++
            (Multipart.str "Content-Disposition: " ++ utf8Enc (FormOptions.dispositionValue n none)) ++
            Multipart.crlf ++
            ((hs.filter fun (k, _) => Multipart.lowerAscii k != "content-disposition".toList).map
              fun (k, v) => utf8Enc (k ++ ':' :: ' ' :: v) ++ Multipart.crlf).flatten,
          .dataStart) := by
  have e : Multipart.str "Content-Disposition: " ++ utf8Enc (FormOptions.dispositionValue n none) =
      Multipart.str "Content-Disposition: form-data; name=\"" ++ utf8Enc n ++ [34] := by
    have h1 : Multipart.str "Content-Disposition: form-data; name=\"" =
        Multipart.str "Content-Disposition: " ++ utf8Enc (FormOptions.kFormData ++ ';' :: ' ' :: (FormOptions.kName ++ ['=', '"'])) := by
      decide +kernel
    have h2 : utf8Enc ['"'] = [34] := by decide +kernel
    rw [h1, ← h2]
    simp [FormOptions.dispositionValue, utf8Enc, List.flatMap_append]
  simp only [Multipart.sendEvent]
  rw [e]
  simp [List.append_assoc]

/-! ### multipart: payload framing -/

/-- **decode_encode (DATA phase), every chunking.** The encoder frames a non-empty payload as
`CRLF payload CRLF --boundary…`. For every boundary without CR/LF, every payload none of whose
lines starts with `--boundary` (`PayloadOk`: CR/LF runs, `--`, near-copies of the boundary, binary
are all allowed) and every way the framed bytes are split into chunks, the decoder's DATA loop
returns exactly the payload, recognises the right kind of delimiter and leaves what follows it
(up to the split-CRLF LF of C01). -/
theorem decode_encode_data {bnd : Bytes} (hb : Multipart.BoundaryOk bnd) (payload tail : Bytes) {f : Bool}
    {rest : Bytes} (hp : Multipart.PayloadOk bnd payload) (ht : Multipart.AfterDelim tail f rest)
    (buf : Bytes) (chunks : List Bytes) (hbuf : 0 < Multipart.lbLen buf)
    (hjoin : buf ++ chunks.flatten = 13 :: 10 :: payload ++ 13 :: 10 :: (Multipart.delim bnd ++ tail)) :
    ∃ R', Multipart.dataPhase bnd true buf [] chunks = .ok (payload, some (f, R')) ∧
      (f = false → R' = rest ∨ R' = 10 :: rest) := by
  have hspec := Multipart.dataSpec_encoded hb payload tail hp ht
  rw [← hjoin] at hspec
  rcases Multipart.dataPhase_true_sound hb chunks buf [] payload f rest hbuf hspec with ⟨R', h1, h2⟩
  exact ⟨R', by simpa using h1, h2⟩

/-- the body-less form the encoder uses for an empty payload (`headers CRLF CRLF--boundary`) -/
theorem decode_encode_data_empty {bnd : Bytes} (hb : Multipart.BoundaryOk bnd) (tail : Bytes) {f : Bool}
    {rest : Bytes} (ht : Multipart.AfterDelim tail f rest)
    (buf : Bytes) (chunks : List Bytes) (hbuf : 0 < Multipart.lbLen buf)
    (hjoin : buf ++ chunks.flatten = 13 :: 10 :: (Multipart.delim bnd ++ tail)) :
    ∃ R', Multipart.dataPhase bnd true buf [] chunks = .ok ([], some (f, R')) ∧
      (f = false → R' = rest ∨ R' = 10 :: rest) := by
  have hspec := Multipart.dataSpec_encoded_empty (bnd := bnd) tail ht
  rw [← hjoin] at hspec
  rcases Multipart.dataPhase_true_sound hb chunks buf [] [] f rest hbuf hspec with ⟨R', h1, h2⟩
  exact ⟨R', by simpa using h1, h2⟩

/-- **decode_encode (DATA phase), every chunking, every line-break convention**: the same for bodies
framed with bare LF or bare CR (`nl`), under the side condition `PayloadOkNl` (no line of the payload
starts with `--boundary`; with bare LF the payload has no CR, with bare CR no LF). -/
theorem decode_encode_data_nl {nl : Multipart.Nl} {bnd : Bytes} (hb : Multipart.BoundaryOk bnd)
    (payload tail : Bytes) {f : Bool} {rest : Bytes} (hp : Multipart.PayloadOkNl nl bnd payload)
    (ht : Multipart.AfterDelimNl nl tail f rest)
    (buf : Bytes) (chunks : List Bytes) (hbuf : 0 < Multipart.lbLen buf)
    (hjoin : buf ++ chunks.flatten = nl.bytes ++ payload ++ (nl.bytes ++ (Multipart.delim bnd ++ tail))) :
    ∃ R', Multipart.dataPhase bnd true buf [] chunks = .ok (payload, some (f, R')) ∧
      (f = false → R' = rest ∨ R' = 10 :: rest) := by
  have hspec := Multipart.dataSpec_encoded_nl hb payload tail hp ht
  rw [← hjoin] at hspec
  rcases Multipart.dataPhase_true_sound hb chunks buf [] payload f rest hbuf hspec with ⟨R', h1, h2⟩
  exact ⟨R', by simpa using h1, h2⟩

/-- non-vacuity: CRLF runs, a trailing CR, a leading LF, `--` and a one-byte-off copy of the
boundary are admissible payload -/
example : Multipart.PayloadOk (Multipart.str "bound")
    (Multipart.str "\n\r\n\r\n--boun\r\n--bounX--\r\n--\r") ∧
    ¬ Multipart.PayloadOk (Multipart.str "bound") (Multipart.str "x\r\n--bound\r\ny") := by
  decide +kernel

/-- **decode_encode.** For every boundary without CR / LF and every list of parts satisfying the
decidable predicate `ValidPart .crlf` (the encoder writes CRLF line breaks; a name; names / filenames free of `"`, `\`, `%22`, CR, LF — any
other Unicode text; `isFile` iff there is a filename; extra headers that fit on a header line and
are not Content-Disposition; a payload none of whose lines starts with `--boundary` — CR/LF runs,
`--`, near-copies of the boundary, arbitrary binary are all allowed; any mix and order of fields
and files, repeated names, empty payloads):
encoding the parts with `MultipartEncoder` the way `stream_encode_multipart` does (Preamble(b""), per
part Field/File + Data, Epilogue(b"")) succeeds, and decoding the result with `MultipartDecoder`
raises nothing and returns exactly the parts, in order, with byte-exact payloads — each part's headers
being the Content-Disposition header the encoder wrote followed by the part's own headers. -/
theorem decode_encode {bnd : Bytes} (hb : Multipart.BoundaryOk bnd) (parts : List Multipart.Part)
    (hv : ∀ p ∈ parts, Multipart.ValidPart .crlf bnd p) :
    ∃ body, Multipart.encodeAll bnd parts = .ok body ∧
      (Multipart.decodeChunks bnd none none [body]).err = none ∧
      Multipart.partsOf (Multipart.decodeChunks bnd none none [body]).events =
        parts.map Multipart.decodedPart :=
  ⟨Multipart.encBody .crlf bnd Multipart.stdEp parts, Multipart.encodeAll_eq parts hv,
    Multipart.decode_encode_lemma (nl := .crlf) hb parts hv⟩

/-- `decodedPart` only adds the Content-Disposition header in front -/
theorem decodedPart_eq (p : Multipart.Part) :
    (Multipart.decodedPart p).isFile = p.isFile ∧ (Multipart.decodedPart p).name = p.name ∧
    (Multipart.decodedPart p).filename = p.filename ∧ (Multipart.decodedPart p).payload = p.payload ∧
    (Multipart.decodedPart p).headers =
      ("Content-Disposition".toList, FormOptions.dispositionValue (p.name.getD []) p.filename) :: p.headers :=
  ⟨rfl, rfl, rfl, rfl, rfl⟩

/-- non-vacuity: a field with a Unicode name and CRLF / dash / near-boundary payload, and a file with
a `;` in its filename, an extra header and a binary payload, are valid for boundary `bound` -/
example :
    Multipart.BoundaryOk (Multipart.str "bound") ∧
    Multipart.ValidPart .crlf (Multipart.str "bound")
      ⟨false, some "é name".toList, none, [], Multipart.str "\r\n\r\n--boun\r\n--bounX\r"⟩ ∧
    Multipart.ValidPart .crlf (Multipart.str "bound")
      ⟨true, some "f".toList, some "a;b.png".toList, [("Content-Type".toList, "image/png".toList)],
        [0, 255, 13, 10, 45, 45]⟩ ∧
    ¬ Multipart.ValidPart .crlf (Multipart.str "bound")
      ⟨false, some "q\"q".toList, none, [], []⟩ := by
  decide +kernel

/-- **decode_encode, every chunking.** The same, however the encoded body reaches the decoder: for
every list of chunks whose concatenation is the encoder's output, decoding chunk by chunk returns
exactly the encoded parts (together with C01: the result does not depend on the chunking). -/
theorem decode_encode_chunked {bnd : Bytes} (hb : Multipart.BoundaryOk bnd) (parts : List Multipart.Part)
    (hv : ∀ p ∈ parts, Multipart.ValidPart .crlf bnd p) (chunks : List Bytes) :
    ∃ body, Multipart.encodeAll bnd parts = .ok body ∧
      (chunks.flatten = body →
        (Multipart.decodeChunks bnd none none chunks).err = none ∧
        Multipart.partsOf (Multipart.decodeChunks bnd none none chunks).events =
          parts.map Multipart.decodedPart) :=
  ⟨Multipart.encBody .crlf bnd Multipart.stdEp parts, Multipart.encodeAll_eq parts hv,
    fun hj => Multipart.decode_chunks_full_lemma (nl := .crlf) (ep := Multipart.stdEp) hb parts (Multipart.preFree_trivial .crlf bnd _ parts) hv chunks
      (by rw [hj]; simp [Multipart.bodyOf])⟩

/-- **decode_encode_events** (F02a, repaired by d57c0c6). The payload of a part may reach the encoder
in any number of Data events — `more_data` on all but the last, empty chunks anywhere, in particular
an empty first chunk: the encoder writes the same bytes as for one Data event per part, so for every
chunking on the encoder side *and* every chunking on the decoder side the parts come back exactly. -/
theorem decode_encode_events {bnd : Bytes} (hb : Multipart.BoundaryOk bnd)
    (cs : List Multipart.ChunkedPart)
    (hv : ∀ c ∈ cs, Multipart.ValidPart .crlf bnd c.1 ∧ c.2.1.flatten ++ c.2.2 = c.1.payload)
    (chunks : List Bytes) :
    ∃ body,
      Multipart.encodeEvents bnd .preamble
        (.preamble [] :: (cs.flatMap Multipart.chunkedEvents ++ [.epilogue []])) = .ok body ∧
      (chunks.flatten = body →
        (Multipart.decodeChunks bnd none none chunks).err = none ∧
        Multipart.partsOf (Multipart.decodeChunks bnd none none chunks).events =
          (cs.map (·.1)).map Multipart.decodedPart) := by
  refine ⟨Multipart.encBody .crlf bnd Multipart.stdEp (cs.map (·.1)), Multipart.encodeEvents_chunked cs hv, fun hj => ?_⟩
  exact Multipart.decode_chunks_full_lemma (nl := .crlf) (ep := Multipart.stdEp) hb _ (Multipart.preFree_trivial .crlf bnd _ _)
    (by intro p hp; rcases List.mem_map.1 hp with ⟨c, hc, rfl⟩; exact (hv c hc).1) chunks
    (by rw [hj]; simp [Multipart.bodyOf])

/-- regression for F02a: the formerly failing event sequence (empty first Data event with
`more_data`, then data) now encodes with the blank line and decodes -/
example :
    (Multipart.encodeEvents [98] .preamble
      [.preamble [], .field (some ['a']) [], .data [] true, .data [97, 98, 99] false, .epilogue []]).toOption =
      some (Multipart.str "\r\n--b\r\nContent-Disposition: form-data; name=\"a\"\r\n\r\nabc\r\n--b--\r\n") ∧
    (Multipart.decodeChunks [98] none none
      [Multipart.str "\r\n--b\r\nContent-Disposition: form-data; name=\"a\"\r\n\r\nabc\r\n--b--\r\n"]).err = none := by
  decide +kernel

/-! ### the test client / environ builder side: `stream_encode_multipart` -/

/-- The constants of `stream_encode_multipart` the client model uses, regenerated from the source by
AST: file contents are read with `reader(16384)`, the content type falls back to
`application/octet-stream`, and the only events it ever sends are Preamble(b""), Epilogue(b""),
Field + Data(value.encode(), more_data=False) for text, Field / File with the value's headers +
Data(chunk, more_data=True) … Data(chunk, more_data=False) for files. -/
theorem client_constants_as_modelled :
    Gen.FormOptions.clientReadSizes = [Multipart.clientChunkSize] ∧
    Gen.FormOptions.clientFallbackTypes.map String.toList = [Multipart.octetStream] ∧
    Gen.FormOptions.clientSendEvents =
      ["Preamble(data=b'')", "Epilogue(data=b'')", "Field(name=key, headers=Headers())",
       "Data(data=value.encode(), more_data=False)", "Field(name=key, headers=headers)",
       "File(name=key, filename=filename, headers=headers)", "Data(data=chunk, more_data=True)",
       "Data(data=chunk, more_data=False)"] :=
  ⟨rfl, rfl, rfl⟩

/-- **client_events_accepted.** The event sequence `stream_encode_multipart` (hence `encode_multipart`
and `EnvironBuilder` with files) sends — Preamble(b""), per pair a Field/File event followed by its
Data events (one for a text value; one per 16 KiB read plus a final empty one for a file value),
Epilogue(b"") — is one the encoder accepts, for every list of pairs whose parts are valid, and the
bytes written are the standard body `encBody` of those parts: everything proved about encoder output
(C01's chunk independence, `decode_encode_chunked`) applies to what the test client sends. -/
theorem client_events_accepted {bnd : Bytes} (guess : Multipart.Str → Option Multipart.Str)
    (items : List (Multipart.Str × Multipart.ClientValue))
    (hv : ∀ p ∈ Multipart.clientParts guess items, Multipart.ValidPart .crlf bnd p) :
    Multipart.clientEncode guess bnd items =
      .ok (Multipart.encBody .crlf bnd Multipart.stdEp (Multipart.clientParts guess items)) ∧
    Multipart.encodeAll bnd (Multipart.clientParts guess items) = Multipart.clientEncode guess bnd items := by
  have h := Multipart.clientEncode_eq guess items hv
  exact ⟨h, by rw [h, Multipart.encodeAll_eq _ hv]⟩

/-- **client_roundtrip.** For every boundary without CR / LF, every content-type guesser
(`mimetypes.guess_type` is opaque) and every list of (key, value) pairs — text values over all of
Unicode, file values with arbitrary bytes, a file name and any headers of their own, any mix and
order, repeated keys, empty values — whose parts satisfy the decidable `ValidPart` (keys / file names
free of `"`, `\`, CR, LF, `%22`; header lines that fit on a line; no payload line starting with
`--boundary`): what `stream_encode_multipart` writes, read by `MultiPartParser.parse` with **any**
`buffer_size` over **any** short-read schedule, comes back as exactly the expected fields and files
(`clientExpected`): every text value as a field `(key, value)` — decoded as UTF-8, identical to the
text sent —, every file as `(key, file name, headers, byte-exact content)`, all in order; and at the
decoder level every chunking yields exactly the parts sent. -/
theorem client_roundtrip {bnd : Bytes} (hb : Multipart.BoundaryOk bnd)
    (guess : Multipart.Str → Option Multipart.Str) (items : List (Multipart.Str × Multipart.ClientValue))
    (hv : ∀ p ∈ Multipart.clientParts guess items, Multipart.ValidPart .crlf bnd p)
    (hn : Multipart.filesNamed items = true) (bufSize : Nat) (sched : List Nat) :
    ∃ body, Multipart.clientEncode guess bnd items = .ok body ∧
      Multipart.formParse bnd none none bufSize sched body = .ok (Multipart.clientExpected guess items) ∧
      ∀ chunks : List Bytes, chunks.flatten = body →
        (Multipart.decodeChunks bnd none none chunks).err = none ∧
        Multipart.partsOf (Multipart.decodeChunks bnd none none chunks).events =
          (Multipart.clientParts guess items).map Multipart.decodedPart := by
  refine ⟨_, Multipart.clientEncode_eq guess items hv, ?_, fun chunks hj => ?_⟩
  · have h := Multipart.formParse_lemma (nl := .crlf) (ep := Multipart.stdEp) (pr := []) (lead := true) hb
      (Multipart.clientParts guess items) (Multipart.preFree_trivial .crlf bnd _ _) hv bufSize sched
    have hbody : Multipart.bodyOf .crlf bnd Multipart.stdEp [] true (Multipart.clientParts guess items) =
        Multipart.encBody .crlf bnd Multipart.stdEp (Multipart.clientParts guess items) := by
      simp [Multipart.bodyOf]
    rw [hbody] at h
    rw [h, Multipart.formOfParts_client guess items hn ([], [])]
    simp
  · exact Multipart.decode_chunks_full_lemma (nl := .crlf) (ep := Multipart.stdEp) hb _
      (Multipart.preFree_trivial .crlf bnd _ _) hv chunks (by rw [hj]; simp [Multipart.bodyOf])

/-- **client_file_content_type.** The content type of an upload comes back: the `Content-Type` header
of the file the parser returns (what `FileStorage.content_type` reads) is the value's own content type
when it has one, otherwise the type guessed from the file name, otherwise
`application/octet-stream`. -/
theorem client_file_content_type (guess : Multipart.Str → Option Multipart.Str) (key : Multipart.Str)
    (fn : Option Multipart.Str) (headers : Multipart.Headers) :
    Multipart.headerGet "content-type".toList
      (Multipart.cdHeader key fn ::
        Multipart.hdrSet "Content-Type".toList (Multipart.clientContentType guess fn headers) headers) =
      some (Multipart.clientContentType guess fn headers) ∧
    (∀ ct, Multipart.headerGet "content-type".toList headers = some ct →
      Multipart.clientContentType guess fn headers = ct) ∧
    (Multipart.headerGet "content-type".toList headers = none → ∀ f g, fn = some f → f ≠ [] →
      guess f = some g → g ≠ [] → Multipart.clientContentType guess fn headers = g) ∧
    (Multipart.headerGet "content-type".toList headers = none → (fn = none ∨ ∀ f, fn = some f → guess f = none) →
      Multipart.clientContentType guess fn headers = Multipart.octetStream) := by
  refine ⟨?_, ?_, ?_, ?_⟩
  · rw [Multipart.headerGet_cd_contentType]
    have h := Multipart.headerGet_hdrSet "Content-Type".toList (Multipart.clientContentType guess fn headers) headers
    have hl : Multipart.lowerAscii "Content-Type".toList = "content-type".toList := by decide +kernel
    rw [hl] at h
    exact h
  · intro ct h; unfold Multipart.clientContentType; rw [h]
  · intro h f g hf hne hg hg'
    subst hf
    have h1 : f.isEmpty = false := by cases f <;> simp at hne ⊢
    have h2 : g.isEmpty = false := by cases g <;> simp at hg' ⊢
    unfold Multipart.clientContentType; rw [h]
    simp [h1, hg, h2]
  · intro h hcase
    unfold Multipart.clientContentType; rw [h]
    rcases hcase with hnone | hg
    · subst hnone; rfl
    · cases fn with
      | none => rfl
      | some f =>
        have := hg f rfl
        simp only [this]
        split <;> rfl

/-- non-vacuity: a Unicode text value, a repeated key, an empty value and two uploads (binary content
with CRLF and dashes and a `<…>` file name; a file with its own content type) are valid for boundary
`bound`, every upload has a file name, and the expected result lists them in order -/
example :
    let g : Multipart.Str → Option Multipart.Str := fun f => if f == "a b.png".toList then some "image/png".toList else none
    let items : List (Multipart.Str × Multipart.ClientValue) :=
      [("é".toList, .text "ü € \r\n--boun".toList), ("k".toList, .text []), ("k".toList, .text "2".toList),
       ("up".toList, .file [0, 255, 13, 10, 45, 45] (some "a b.png".toList) []),
       ("up".toList, .file (Multipart.str "x") (some "<x>".toList) [("content-type".toList, "text/plain".toList)])]
    (∀ p ∈ Multipart.clientParts g items, Multipart.ValidPart .crlf (Multipart.str "bound") p) ∧
    Multipart.filesNamed items = true ∧
    Multipart.clientExpected g items =
      ([(some "é".toList, "ü € \r\n--boun".toList), (some "k".toList, []), (some "k".toList, "2".toList)],
       [⟨some "up".toList, "a b.png".toList,
          [("Content-Disposition".toList, "form-data; name=\"up\"; filename=\"a b.png\"".toList),
           ("Content-Type".toList, "image/png".toList)], [0, 255, 13, 10, 45, 45]⟩,
        ⟨some "up".toList, "<x>".toList,
          [("Content-Disposition".toList, "form-data; name=\"up\"; filename=\"<x>\"".toList),
           ("Content-Type".toList, "text/plain".toList)], Multipart.str "x"⟩]) := by
  decide +kernel

end Wz.Props.C02
