/-
C02 — form data survives encode → parse unchanged (multipart and urlencoded).
Property theorems only (helper lemmas: Lemmas/Urlencode.lean, Lemmas/FormOptions.lean,
Lemmas/Multipart.lean).

Models: Model/Urlencode.lean (`quote_plus`, `urlencode`, `unquote` with the `werkzeug.url_quote`
handler, `parse_qsl` — stdlib, validated by stream `urlencode-kernels`), Model/FormOptions.lean
(`parse_options_header`), Model/Multipart.lean (`MultipartEncoder.send_event`, the decoder).
-/
import WzVerif.Lemmas.Urlencode
import WzVerif.Lemmas.FormOptions
import WzVerif.Lemmas.Multipart
import WzVerif.Lemmas.MultipartCodec
import WzVerif.Lemmas.MultipartChunks
namespace Wz.Props.C02
open Wz

/-! ### URL-encoded forms and query strings -/

/-- The `safe=` literal of the single `urlencode(...)` call in `werkzeug.urls._urlencode` (found by
AST on every run) keeps `%`, `+`, `&` and `=` escaped, and the model's notion of "left alone"
agrees with the live function on every ASCII character. -/
theorem urlencode_safe_literal :
    Gen.Urlencode.urlencodeSafeSites = 1 ∧
    Urlencode.SafeOk Gen.Urlencode.urlencodeSafe ∧
    ∀ n, n < 128 →
      Gen.Urlencode.liveUnescaped.getD n false = Urlencode.kept Gen.Urlencode.urlencodeSafe (UInt8.ofNat n) := by
  refine ⟨by decide, by decide +kernel, ?_⟩
  decide +kernel

/-- **unquote_quotePlus (bytes).** For every `safe` set that keeps `%` and `+` escaped and every
byte string: percent-decoding the `quote_plus` output (after `+` → space) returns the bytes. -/
theorem unquote_quotePlus {safe : Bytes} (hs : Urlencode.SafeOk safe) (bs : Bytes) :
    Urlencode.unquoteBytes ((Urlencode.quotePlus safe bs).map Urlencode.p2s) = bs :=
  Urlencode.unquoteBytes_quotePlus hs bs

/-- ... in particular for the literal werkzeug uses -/
theorem unquote_quotePlus_werkzeug (bs : Bytes) :
    Urlencode.unquoteBytes ((Urlencode.quotePlus Gen.Urlencode.urlencodeSafe bs).map Urlencode.p2s) = bs :=
  unquote_quotePlus urlencode_safe_literal.2.1 bs

example : Urlencode.quotePlus Gen.Urlencode.urlencodeSafe [97, 32, 43, 37, 38, 61, 195, 169] =
    "a+%2B%25%26%3D%C3%A9".toUTF8.toList := by decide +kernel

/-- **unquote_quotePlus (text).** For every Unicode string `s`:
`unquote(quote_plus(s, safe).replace('+', ' '), errors="werkzeug.url_quote") == s`. -/
theorem unquote_quotePlus_text {safe : Bytes} (hs : Urlencode.SafeOk safe) (s : List Char) :
    Urlencode.unquote (Urlencode.plusToSpace (Urlencode.asciiStr (Urlencode.quotePlusStr safe s))) = s :=
  Urlencode.unquote_quotePlusStr hs s

/-- **parseQsl_urlencode.** For every list of (key, value) pairs over Unicode scalar values —
repeated keys, empty keys, empty values, `&`, `=`, `+`, `%` inside keys and values included —
`parse_qsl(_urlencode(items), keep_blank_values=True, errors="werkzeug.url_quote") == items`
(what `Request.form` for url-encoded bodies and `Request.args` compute). -/
theorem parseQsl_urlencode (items : List (List Char × List Char)) :
    Urlencode.parseQsl true (Urlencode.asciiStr (Urlencode.wzUrlencode items)) = items :=
  Urlencode.parseQsl_urlencode_lemma urlencode_safe_literal.2.1 items

/-- the caveat of the empty list: it encodes to the empty string, which parses to the empty list -/
theorem parseQsl_urlencode_nil :
    Urlencode.wzUrlencode [] = [] ∧ Urlencode.parseQsl true [] = [] := by
  constructor <;> rfl

example : Urlencode.parseQsl true (Urlencode.asciiStr (Urlencode.wzUrlencode
    [(['a', ' '], ['&', '=']), (['a', ' '], []), ([], ['é'])])) =
    [(['a', ' '], ['&', '=']), (['a', ' '], []), ([], ['é'])] := by
  decide +kernel

/-- without `keep_blank_values` the round trip is false (empty values are dropped): the flag
werkzeug passes matters -/
theorem parseQsl_urlencode_keepBlank_needed :
    ¬ (∀ items : List (List Char × List Char),
        Urlencode.parseQsl false (Urlencode.asciiStr (Urlencode.wzUrlencode items)) = items) := by
  intro h
  have := h [(['a'], [])]
  revert this
  decide +kernel

/-! ### multipart: Content-Disposition -/

/-- **parseOptions_disposition.** For every name and optional filename free of `"`, `\` and the
substring `%22` (CR / LF are excluded one level up, by the header line syntax):
`parse_options_header('form-data; name="n"; filename="f"')` returns exactly `n` and `f`
(`;`, `=`, spaces, quotes' neighbours, non-ASCII … inside the names do not matter). -/
theorem parseOptions_disposition (n : List Char) (f : Option (List Char)) (hn : FormOptions.NameOk n)
    (hf : ∀ x, f = some x → FormOptions.NameOk x) :
    FormOptions.parseOptionsHeader (FormOptions.dispositionValue n f) =
      .ok ("form-data".toList, ("name".toList, n) :: FormOptions.filenameOpt f) :=
  FormOptions.parseOptions_disposition_lemma n f hn hf

/-- `filenameOpt f` is the pair `("filename", f)` when there is a filename and nothing otherwise -/
theorem filenameOpt_eq :
    FormOptions.filenameOpt none = [] ∧
    ∀ x, FormOptions.filenameOpt (some x) = [("filename".toList, x)] := ⟨rfl, fun _ => rfl⟩

example : FormOptions.NameOk "a;b=\"".toList = False ∧ FormOptions.NameOk "a; b=c é%2".toList := by
  constructor
  · simp [FormOptions.NameOk]
  · decide

/-- the excluded sequence really is excluded for a reason: `%22` comes back as a double quote -/
theorem parseOptions_disposition_pct22_false :
    ¬ (∀ n : List Char, '"' ∉ n → '\\' ∉ n →
        (FormOptions.parseOptionsHeader (FormOptions.dispositionValue n none)).toOption =
          some ("form-data".toList, [("name".toList, n)])) := by
  intro h
  have := h ['%', '2', '2'] (by decide) (by decide)
  revert this
  decide +kernel

/-- The header line `MultipartEncoder.send_event` writes for a Field / File event is
`Content-Disposition: ` followed by the UTF-8 of `dispositionValue name filename`. -/
theorem encoder_writes_disposition (bnd : Bytes) (n : List Char) (hs : Multipart.Headers) :
    Multipart.sendEvent bnd .part (.field (some n) hs) =
      .ok (Multipart.crlf ++ 45 :: 45 :: bnd ++ Multipart.crlf ++
            (Multipart.str "Content-Disposition: " ++ utf8Enc (FormOptions.dispositionValue n none)) ++
            Multipart.crlf ++
            ((hs.filter fun (k, _) => Multipart.lowerAscii k != "content-disposition".toList).map
              fun (k, v) => utf8Enc (k ++ ':' :: ' ' :: v) ++ Multipart.crlf).flatten,
          .dataStart) := by
  have e : Multipart.str "Content-Disposition: " ++ utf8Enc (FormOptions.dispositionValue n none) =
      Multipart.str "Content-Disposition: form-data; name=\"" ++ utf8Enc n ++ [34] := by
    have h1 : Multipart.str "Content-Disposition: form-data; name=\"" =
        Multipart.str "Content-Disposition: " ++ utf8Enc (FormOptions.kFormData ++ ';' :: ' ' :: (FormOptions.kName ++ ['=', '"'])) := by
      decide +kernel
    have h2 : utf8Enc ['"'] = [34] := by decide +kernel
    rw [h1, ← h2]
    simp [FormOptions.dispositionValue, utf8Enc, List.flatMap_append]
  simp only [Multipart.sendEvent]
  rw [e]
  simp [List.append_assoc]

/-! ### multipart: payload framing -/

/-- **decode_encode (DATA phase), every chunking.** The encoder frames a non-empty payload as
`CRLF payload CRLF --boundary…`. For every boundary without CR/LF, every payload none of whose
lines starts with `--boundary` (`PayloadOk`: CR/LF runs, `--`, near-copies of the boundary, binary
are all allowed) and every way the framed bytes are split into chunks, the decoder's DATA loop
returns exactly the payload, recognises the right kind of delimiter and leaves what follows it
(up to the split-CRLF LF of C01). -/
theorem decode_encode_data {bnd : Bytes} (hb : Multipart.BoundaryOk bnd) (payload tail : Bytes) {f : Bool}
    {rest : Bytes} (hp : Multipart.PayloadOk bnd payload) (ht : Multipart.AfterDelim tail f rest)
    (buf : Bytes) (chunks : List Bytes) (hbuf : 0 < Multipart.lbLen buf)
    (hjoin : buf ++ chunks.flatten = 13 :: 10 :: payload ++ 13 :: 10 :: (Multipart.delim bnd ++ tail)) :
    ∃ R', Multipart.dataPhase bnd true buf [] chunks = .ok (payload, some (f, R')) ∧
      (f = false → R' = rest ∨ R' = 10 :: rest) := by
  have hspec := Multipart.dataSpec_encoded hb payload tail hp ht
  rw [← hjoin] at hspec
  rcases Multipart.dataPhase_true_sound hb chunks buf [] payload f rest hbuf hspec with ⟨R', h1, h2⟩
  exact ⟨R', by simpa using h1, h2⟩

/-- the body-less form the encoder uses for an empty payload (`headers CRLF CRLF--boundary`) -/
theorem decode_encode_data_empty {bnd : Bytes} (hb : Multipart.BoundaryOk bnd) (tail : Bytes) {f : Bool}
    {rest : Bytes} (ht : Multipart.AfterDelim tail f rest)
    (buf : Bytes) (chunks : List Bytes) (hbuf : 0 < Multipart.lbLen buf)
    (hjoin : buf ++ chunks.flatten = 13 :: 10 :: (Multipart.delim bnd ++ tail)) :
    ∃ R', Multipart.dataPhase bnd true buf [] chunks = .ok ([], some (f, R')) ∧
      (f = false → R' = rest ∨ R' = 10 :: rest) := by
  have hspec := Multipart.dataSpec_encoded_empty (bnd := bnd) tail ht
  rw [← hjoin] at hspec
  rcases Multipart.dataPhase_true_sound hb chunks buf [] [] f rest hbuf hspec with ⟨R', h1, h2⟩
  exact ⟨R', by simpa using h1, h2⟩

/-- **decode_encode (DATA phase), every chunking, every line-break convention**: the same for bodies
framed with bare LF or bare CR (`nl`), under the side condition `PayloadOkNl` (no line of the payload
starts with `--boundary`; with bare LF the payload has no CR, with bare CR no LF). -/
theorem decode_encode_data_nl {nl : Multipart.Nl} {bnd : Bytes} (hb : Multipart.BoundaryOk bnd)
    (payload tail : Bytes) {f : Bool} {rest : Bytes} (hp : Multipart.PayloadOkNl nl bnd payload)
    (ht : Multipart.AfterDelimNl nl tail f rest)
    (buf : Bytes) (chunks : List Bytes) (hbuf : 0 < Multipart.lbLen buf)
    (hjoin : buf ++ chunks.flatten = nl.bytes ++ payload ++ (nl.bytes ++ (Multipart.delim bnd ++ tail))) :
    ∃ R', Multipart.dataPhase bnd true buf [] chunks = .ok (payload, some (f, R')) ∧
      (f = false → R' = rest ∨ R' = 10 :: rest) := by
  have hspec := Multipart.dataSpec_encoded_nl hb payload tail hp ht
  rw [← hjoin] at hspec
  rcases Multipart.dataPhase_true_sound hb chunks buf [] payload f rest hbuf hspec with ⟨R', h1, h2⟩
  exact ⟨R', by simpa using h1, h2⟩

/-- non-vacuity: CRLF runs, a trailing CR, a leading LF, `--` and a one-byte-off copy of the
boundary are admissible payload -/
example : Multipart.PayloadOk (Multipart.str "bound")
    (Multipart.str "\n\r\n\r\n--boun\r\n--bounX--\r\n--\r") ∧
    ¬ Multipart.PayloadOk (Multipart.str "bound") (Multipart.str "x\r\n--bound\r\ny") := by
  decide +kernel

/-- **decode_encode.** For every boundary without CR / LF and every list of parts satisfying the
decidable predicate `ValidPart .crlf` (the encoder writes CRLF line breaks; a name; names / filenames free of `"`, `\`, `%22`, CR, LF — any
other Unicode text; `isFile` iff there is a filename; extra headers that fit on a header line and
are not Content-Disposition; a payload none of whose lines starts with `--boundary` — CR/LF runs,
`--`, near-copies of the boundary, arbitrary binary are all allowed; any mix and order of fields
and files, repeated names, empty payloads):
encoding the parts with `MultipartEncoder` the way `stream_encode_multipart` does (Preamble(b""), per
part Field/File + Data, Epilogue(b"")) succeeds, and decoding the result with `MultipartDecoder`
raises nothing and returns exactly the parts, in order, with byte-exact payloads — each part's headers
being the Content-Disposition header the encoder wrote followed by the part's own headers. -/
theorem decode_encode {bnd : Bytes} (hb : Multipart.BoundaryOk bnd) (parts : List Multipart.Part)
    (hv : ∀ p ∈ parts, Multipart.ValidPart .crlf bnd p) :
    ∃ body, Multipart.encodeAll bnd parts = .ok body ∧
      (Multipart.decodeChunks bnd none none [body]).err = none ∧
      Multipart.partsOf (Multipart.decodeChunks bnd none none [body]).events =
        parts.map Multipart.decodedPart :=
  ⟨Multipart.encBody .crlf bnd Multipart.stdEp parts, Multipart.encodeAll_eq parts hv,
    Multipart.decode_encode_lemma (nl := .crlf) hb parts hv⟩

/-- `decodedPart` only adds the Content-Disposition header in front -/
theorem decodedPart_eq (p : Multipart.Part) :
    (Multipart.decodedPart p).isFile = p.isFile ∧ (Multipart.decodedPart p).name = p.name ∧
    (Multipart.decodedPart p).filename = p.filename ∧ (Multipart.decodedPart p).payload = p.payload ∧
    (Multipart.decodedPart p).headers =
      ("Content-Disposition".toList, FormOptions.dispositionValue (p.name.getD []) p.filename) :: p.headers :=
  ⟨rfl, rfl, rfl, rfl, rfl⟩

/-- non-vacuity: a field with a Unicode name and CRLF / dash / near-boundary payload, and a file with
a `;` in its filename, an extra header and a binary payload, are valid for boundary `bound` -/
example :
    Multipart.BoundaryOk (Multipart.str "bound") ∧
    Multipart.ValidPart .crlf (Multipart.str "bound")
      ⟨false, some "é name".toList, none, [], Multipart.str "\r\n\r\n--boun\r\n--bounX\r"⟩ ∧
    Multipart.ValidPart .crlf (Multipart.str "bound")
      ⟨true, some "f".toList, some "a;b.png".toList, [("Content-Type".toList, "image/png".toList)],
        [0, 255, 13, 10, 45, 45]⟩ ∧
    ¬ Multipart.ValidPart .crlf (Multipart.str "bound")
      ⟨false, some "q\"q".toList, none, [], []⟩ := by
  decide +kernel

/-- **decode_encode, every chunking.** The same, however the encoded body reaches the decoder: for
every list of chunks whose concatenation is the encoder's output, decoding chunk by chunk returns
exactly the encoded parts (together with C01: the result does not depend on the chunking). -/
theorem decode_encode_chunked {bnd : Bytes} (hb : Multipart.BoundaryOk bnd) (parts : List Multipart.Part)
    (hv : ∀ p ∈ parts, Multipart.ValidPart .crlf bnd p) (chunks : List Bytes) :
    ∃ body, Multipart.encodeAll bnd parts = .ok body ∧
      (chunks.flatten = body →
        (Multipart.decodeChunks bnd none none chunks).err = none ∧
        Multipart.partsOf (Multipart.decodeChunks bnd none none chunks).events =
          parts.map Multipart.decodedPart) :=
  ⟨Multipart.encBody .crlf bnd Multipart.stdEp parts, Multipart.encodeAll_eq parts hv,
    fun hj => Multipart.decode_chunks_full_lemma (nl := .crlf) (ep := Multipart.stdEp) hb parts (Multipart.preFree_trivial .crlf bnd _ parts) hv chunks
      (by rw [hj]; simp [Multipart.bodyOf])⟩

/-- **decode_encode_events** (F02a, repaired by d57c0c6). The payload of a part may reach the encoder
in any number of Data events — `more_data` on all but the last, empty chunks anywhere, in particular
an empty first chunk: the encoder writes the same bytes as for one Data event per part, so for every
chunking on the encoder side *and* every chunking on the decoder side the parts come back exactly. -/
theorem decode_encode_events {bnd : Bytes} (hb : Multipart.BoundaryOk bnd)
    (cs : List Multipart.ChunkedPart)
    (hv : ∀ c ∈ cs, Multipart.ValidPart .crlf bnd c.1 ∧ c.2.1.flatten ++ c.2.2 = c.1.payload)
    (chunks : List Bytes) :
    ∃ body,
      Multipart.encodeEvents bnd .preamble
        (.preamble [] :: (cs.flatMap Multipart.chunkedEvents ++ [.epilogue []])) = .ok body ∧
      (chunks.flatten = body →
        (Multipart.decodeChunks bnd none none chunks).err = none ∧
        Multipart.partsOf (Multipart.decodeChunks bnd none none chunks).events =
          (cs.map (·.1)).map Multipart.decodedPart) := by
  refine ⟨Multipart.encBody .crlf bnd Multipart.stdEp (cs.map (·.1)), Multipart.encodeEvents_chunked cs hv, fun hj => ?_⟩
  exact Multipart.decode_chunks_full_lemma (nl := .crlf) (ep := Multipart.stdEp) hb _ (Multipart.preFree_trivial .crlf bnd _ _)
    (by intro p hp; rcases List.mem_map.1 hp with ⟨c, hc, rfl⟩; exact (hv c hc).1) chunks
    (by rw [hj]; simp [Multipart.bodyOf])

/-- regression for F02a: the formerly failing event sequence (empty first Data event with
`more_data`, then data) now encodes with the blank line and decodes -/
example :
    (Multipart.encodeEvents [98] .preamble
      [.preamble [], .field (some ['a']) [], .data [] true, .data [97, 98, 99] false, .epilogue []]).toOption =
      some (Multipart.str "\r\n--b\r\nContent-Disposition: form-data; name=\"a\"\r\n\r\nabc\r\n--b--\r\n") ∧
    (Multipart.decodeChunks [98] none none
      [Multipart.str "\r\n--b\r\nContent-Disposition: form-data; name=\"a\"\r\n\r\nabc\r\n--b--\r\n"]).err = none := by
  decide +kernel

/-
The composition with FileStorage construction, charset decoding of field values and the test client
is exercised on the real code by streams `encoder-events` and `client-roundtrip`.
-/

end Wz.Props.C02
