/-
C20 — host trust and the debugger's gates cannot be bypassed.
Property theorems only (helper lemmas live in Lemmas/Debugger.lean).
-/
import WzVerif.Model.Debugger
import WzVerif.Lemmas.Debugger
import WzVerif.Gen.Debugger
import WzVerif.Gen.DebuggerWide
import WzVerif.Lemmas.DebuggerWide
namespace Wz.Props.C20
open Wz Wz.Dbg Wz.Gen.Debugger

/-! ### the live dispatch table (regenerated on every run by driving the real DebuggedApplication)

A point of the table is addressed as (`idx`, `j`): `idx < nRows` enumerates command × secret × Host,
`j < rowLen` enumerates PIN cookie × frame × evalex × pin; `pointAt idx j` decodes the coordinates and
`outcomeAt idx j` is what the real application did there. -/

/-- The table is the complete product of its dimensions, and no point produced an answer the rig
could not classify (`f`) or a missing resource. -/
theorem table_complete :
    rows.length = nRows ∧ nRows = nCmd * nSec * nHost ∧ rowLen = nCookie * nFrame * 2 * 2 ∧
    dims = [nCmd, nSec, nHost, nCookie, nFrame, 2, 2] ∧
    hosts.length = nHost ∧ hostClasses = hosts.map (·.2.1) ∧ hostVerdicts = hosts.map (·.2.2) ∧
    checkTable (fun _ _ o => o != 15 && o != 2) = true := by
  decide +kernel

theorem rows_length : rows.length = nRows := table_complete.1

/-- The model's `dispatch` (fed with the live Host verdict) predicts the observed outcome of the real
`DebuggedApplication.__call__` at every point of the product. -/
theorem table_matches_model :
    ∀ idx j, idx < nRows → j < rowLen → outcomeAt idx j = modelOutcome (pointAt idx j) := by
  have hA : checkRows (fun idx j o => o == modelOutcome (pointAt idx j)) nRows (rows.take 168) nRows = true := by
    decide +kernel
  have hB : checkRows (fun idx j o => o == modelOutcome (pointAt idx j)) nRows ((rows.drop 168).take (336 - 168))
      (nRows - 168) = true := by decide +kernel
  have hC : checkRows (fun idx j o => o == modelOutcome (pointAt idx j)) nRows (rows.drop 336) (nRows - 336) = true := by
    decide +kernel
  have key := checkTable_thirds _ 168 336 (by decide) (by decide) rows_length hA hB hC
  intro idx j hi hj
  simpa using checkTable_get key rows_length idx j hi hj

/-- The live `host_is_trusted` never raised on the listed Hosts, accepted no Host of the
"must never be accepted" class (look-alikes, unrelated names, absent/empty, IPv6 literals, empty or
over-long labels) and accepted every Host of the "listed name or true subdomain" class. -/
theorem table_host_verdicts :
    ∀ r ∈ hosts, r.2.2 ≠ 2 ∧ (r.2.1 = 1 → r.2.2 = 0) ∧ (r.2.1 = 0 → r.2.2 = 1) := by
  decide +kernel

/-- ... and for the pure-ASCII Hosts of the table the model's `hostIsTrusted` (with CPython's
ASCII fast path as the idna function) gives the live verdict. -/
theorem table_host_model :
    ∀ r ∈ hosts, (match r.1 with | some h => h.all (fun c => c.toNat < 128) | none => true) = true →
      (hostIsTrusted asciiIdna r.1 defaultTrusted = (r.2.2 == 1)) := by
  decide +kernel

def evalGateOk (idx j o : Nat) : Bool :=
  let p := pointAt idx j
  o != 4 || (p.cmd == 0 && p.evalex && hostClass p != 1 && p.sec == 0 && p.frame == 0 &&
    (!p.pinOn || p.cookie == 0))

/-- **eval gate, live table**: wherever the spy frame's `eval` ran, the request was an eval command
with evalex on, a Host that is not in the never-accept class, the right secret, a known frame and
(pin off or a valid unexpired cookie). -/
theorem eval_gate_table :
    ∀ idx j, idx < nRows → j < rowLen → outcomeAt idx j = 4 →
      (pointAt idx j).cmd = 0 ∧ (pointAt idx j).evalex = true ∧ hostClass (pointAt idx j) ≠ 1 ∧
      (pointAt idx j).sec = 0 ∧ (pointAt idx j).frame = 0 ∧
      ((pointAt idx j).pinOn = false ∨ (pointAt idx j).cookie = 0) := by
  have key : checkTable evalGateOk = true := by decide +kernel
  intro idx j hi hj ho
  have := checkTable_get key rows_length idx j hi hj
  simp only [evalGateOk, ho] at this
  simpa [and_assoc] using this

/-- the gate is not vacuous: the first point of the table (eval, right secret, localhost, valid
cookie, known frame, evalex on, pin on) did evaluate -/
example : outcomeAt 0 0 = 4 := by decide +kernel

def consoleGateOk (idx j o : Nat) : Bool :=
  let p := pointAt idx j
  o != 5 || (p.cmd == 1 && p.evalex && hostClass p != 1)

/-- **console gate, live table**: the console page was rendered only for the console path with
evalex on and a Host outside the never-accept class. -/
theorem console_gate_table :
    ∀ idx j, idx < nRows → j < rowLen → outcomeAt idx j = 5 →
      (pointAt idx j).cmd = 1 ∧ (pointAt idx j).evalex = true ∧ hostClass (pointAt idx j) ≠ 1 := by
  have key : checkTable consoleGateOk = true := by decide +kernel
  intro idx j hi hj ho
  have := checkTable_get key rows_length idx j hi hj
  simp only [consoleGateOk, ho] at this
  simpa [and_assoc] using this

def pinauthGateOk (idx j o : Nat) : Bool :=
  let p := pointAt idx j
  (!(8 ≤ o && o ≤ 11) || ((p.cmd == 2 || p.cmd == 3) && p.sec == 0 && hostClass p != 1)) &&
  -- authenticated only through a valid cookie, the right PIN, or with the PIN switched off
  (!(o == 10 || o == 11) || (!p.pinOn || p.cookie == 0 || p.cmd == 2))

/-- **pinauth gate, live table**: the PIN endpoint answered (JSON body) only for its own command
with the right secret and a Host outside the never-accept class; `auth` was granted only with pin
off, a valid cookie, or the right PIN. -/
theorem pinauth_gate_table :
    ∀ idx j, idx < nRows → j < rowLen →
      ((8 ≤ outcomeAt idx j ∧ outcomeAt idx j ≤ 11) →
        ((pointAt idx j).cmd = 2 ∨ (pointAt idx j).cmd = 3) ∧ (pointAt idx j).sec = 0 ∧
        hostClass (pointAt idx j) ≠ 1) ∧
      ((outcomeAt idx j = 10 ∨ outcomeAt idx j = 11) →
        (pointAt idx j).pinOn = false ∨ (pointAt idx j).cookie = 0 ∨ (pointAt idx j).cmd = 2) := by
  have key : checkTable pinauthGateOk = true := by decide +kernel
  intro idx j hi hj
  have := checkTable_get key rows_length idx j hi hj
  generalize outcomeAt idx j = o at this ⊢
  simp only [pinauthGateOk, Bool.and_eq_true, Bool.or_eq_true, Bool.not_eq_true', decide_eq_true_eq,
    beq_iff_eq, bne_iff_ne, ne_eq, Bool.and_eq_false_imp, decide_eq_false_iff_not,
    Bool.or_eq_false_iff, beq_eq_false_iff_ne] at this
  obtain ⟨h1, h2⟩ := this
  refine ⟨fun ⟨ha, hb⟩ => ?_, fun ho => ?_⟩
  · rcases h1 with h1 | h1
    · exact absurd hb (h1 ha)
    · exact ⟨h1.1.1, h1.1.2, h1.2⟩
  · rcases h2 with h2 | h2
    · rcases ho with ho | ho
      · exact absurd ho h2.1
      · exact absurd ho h2.2
    · rcases h2 with (h2 | h2) | h2
      · exact Or.inl h2
      · exact Or.inr (Or.inl h2)
      · exact Or.inr (Or.inr h2)

def printpinGateOk (idx j o : Nat) : Bool :=
  let p := pointAt idx j
  !(o == 6 || o == 7) || (p.cmd == 4 && p.sec == 0 && hostClass p != 1)

/-- **printpin gate, live table**: the PIN was logged / the endpoint answered only for its own
command with the right secret and a Host outside the never-accept class. -/
theorem printpin_gate_table :
    ∀ idx j, idx < nRows → j < rowLen → (outcomeAt idx j = 6 ∨ outcomeAt idx j = 7) →
      (pointAt idx j).cmd = 4 ∧ (pointAt idx j).sec = 0 ∧ hostClass (pointAt idx j) ≠ 1 := by
  have key : checkTable printpinGateOk = true := by decide +kernel
  intro idx j hi hj ho
  have := checkTable_get key rows_length idx j hi hj
  generalize outcomeAt idx j = o at this ho
  simp only [printpinGateOk] at this
  rcases ho with rfl | rfl <;> simpa [and_assoc] using this

def untrustedOk (idx j o : Nat) : Bool :=
  let p := pointAt idx j
  hostClass p != 1 || (o == 0 || o == 1 || o == 3)

/-- **untrusted Host, live table**: a Host of the never-accept class gets the wrapped application,
a static resource, or a 400 SecurityError — never a debugger answer and never another failure. -/
theorem untrusted_host_table :
    ∀ idx j, idx < nRows → j < rowLen → hostClass (pointAt idx j) = 1 →
      outcomeAt idx j = 0 ∨ outcomeAt idx j = 1 ∨ outcomeAt idx j = 3 := by
  have key : checkTable untrustedOk = true := by decide +kernel
  intro idx j hi hj hc
  have := checkTable_get key rows_length idx j hi hj
  simp only [untrustedOk, hc] at this
  simpa [or_assoc] using this

/-! ### the same gates on the model, for every configuration, request and counter value -/

/-- **eval gate, model**: `frame.eval` is reached only with evalex on, a trusted Host, the right
secret, a known frame and (pin off or a valid unexpired cookie), on a `__debugger__=yes` request that
carries a command. -/
theorem eval_gate (cfg : Config) (failed : UInt8) (r : Req) (h : respond cfg failed r = .evalRan) :
    cfg.evalex = true ∧ r.hostTrusted = true ∧ r.secret = .right ∧ r.frameKnown = true ∧
    (cfg.pinOn = false ∨ r.cookie = .valid) ∧ r.debugger = true ∧ r.cmd ≠ .none := by
  have key : evalCond cfg r = true ∧ r.hostTrusted = true ∧ r.debugger = true := by
    unfold respond at h
    split at h
    · split at h
      · cases h
      · simp only [hostGate] at h; split at h <;> cases h
      · simp only [hostGate] at h; split at h <;> cases h
      · split at h
        · simp only [hostGate] at h
          split at h
          · exact ⟨by assumption, by assumption, by assumption⟩
          · cases h
        · cases h
    · split at h
      · simp only [hostGate] at h; split at h <;> cases h
      · cases h
  obtain ⟨hc, hh, hd⟩ := key
  simp only [evalCond, Bool.and_eq_true] at hc
  obtain ⟨⟨⟨⟨h1, h2⟩, h3⟩, h4⟩, h5⟩ := hc
  refine ⟨h1, hh, ?_, h3, ?_, hd, ?_⟩
  · cases hs : r.secret <;> simp [hs, Secret.isRight] at h4 ⊢
  · cases hp : cfg.pinOn <;> cases hk : r.cookie <;> simp [checkPinTrust, hp, hk, Trust.isYes] at h5 ⊢
  · cases hm : r.cmd <;> simp [hm, Cmd.isSome] at h2 ⊢

example : respond { evalex := true, pinOn := true } 0
    { debugger := true, cmd := .other, hasArg := false, secret := .right, frameKnown := true,
      hostTrusted := true, cookie := .valid, pinRight := false, atConsole := false } = .evalRan := by decide

/-- **console gate, model**: the console page is rendered only with evalex on, at the console path
and for a trusted Host. -/
theorem console_gate (cfg : Config) (failed : UInt8) (r : Req) (h : respond cfg failed r = .console) :
    cfg.evalex = true ∧ r.hostTrusted = true ∧ r.atConsole = true ∧ r.debugger = false := by
  unfold respond at h
  split at h
  · split at h
    · cases h
    · simp only [hostGate] at h; split at h <;> cases h
    · simp only [hostGate] at h; split at h <;> cases h
    · split at h
      · simp only [hostGate] at h; split at h <;> cases h
      · cases h
  · split at h
    · rename_i hd hc
      simp only [hostGate] at h
      split at h
      · simp only [Bool.and_eq_true] at hc
        exact ⟨hc.1.1, by assumption, hc.2, by simpa using hd⟩
      · cases h
    · cases h

example : respond { evalex := true, pinOn := true } 0
    { debugger := false, cmd := .none, hasArg := false, secret := .absent, frameKnown := false,
      hostTrusted := true, cookie := .absent, pinRight := false, atConsole := true } = .console := by decide

/-- **pinauth gate, model**: the PIN endpoint answers only a trusted Host that knows the secret, and
grants `auth` only with pin off, a valid cookie, or the right PIN while not locked out. -/
theorem pinauth_gate (cfg : Config) (failed : UInt8) (r : Req) (res : PinResult)
    (h : respond cfg failed r = .pinauth res) :
    r.hostTrusted = true ∧ r.secret = .right ∧ r.cmd = .pinauth ∧ r.debugger = true ∧
    (res.auth = true → cfg.pinOn = false ∨ r.cookie = .valid ∨ (r.pinRight = true ∧ ¬ failed > 10)) := by
  unfold respond at h
  split at h
  · split at h
    · cases h
    · rename_i hd _ _ _ hcmd hsec
      simp only [hostGate] at h
      split at h
      · simp only [Outcome.pinauth.injEq] at h
        refine ⟨by assumption, ?_, hcmd, hd, ?_⟩
        · cases hs : r.secret <;> simp [hs, Secret.isRight] at hsec ⊢
        · intro ha
          subst h
          cases hp : cfg.pinOn <;> cases hk : r.cookie <;>
            simp [pinAuth, pinAuthWith, checkPinTrust, hp, hk] at ha ⊢ <;>
            (split at ha <;> try split at ha) <;> simp_all
      · cases h
    · simp only [hostGate] at h; split at h <;> cases h
    · split at h
      · simp only [hostGate] at h; split at h <;> cases h
      · cases h
  · split at h
    · simp only [hostGate] at h; split at h <;> cases h
    · cases h

example : respond { evalex := false, pinOn := true } 3
    { debugger := true, cmd := .pinauth, hasArg := false, secret := .right, frameKnown := false,
      hostTrusted := true, cookie := .absent, pinRight := true, atConsole := false }
    = .pinauth ⟨true, false⟩ := by decide

/-- **printpin gate, model**: the PIN is logged / the endpoint answers only for a trusted Host that
knows the secret. -/
theorem printpin_gate (cfg : Config) (failed : UInt8) (r : Req) (b : Bool)
    (h : respond cfg failed r = .printpin b) :
    r.hostTrusted = true ∧ r.secret = .right ∧ r.cmd = .printpin ∧ r.debugger = true := by
  unfold respond at h
  split at h
  · split at h
    · cases h
    · simp only [hostGate] at h; split at h <;> cases h
    · rename_i hd _ _ _ hcmd hsec
      simp only [hostGate] at h
      split at h
      · refine ⟨by assumption, ?_, hcmd, hd⟩
        cases hs : r.secret <;> simp [hs, Secret.isRight] at hsec ⊢
      · cases h
    · split at h
      · simp only [hostGate] at h; split at h <;> cases h
      · cases h
  · split at h
    · simp only [hostGate] at h; split at h <;> cases h
    · cases h

example : respond { evalex := false, pinOn := true } 0
    { debugger := true, cmd := .printpin, hasArg := false, secret := .right, frameKnown := false,
      hostTrusted := true, cookie := .absent, pinRight := false, atConsole := false }
    = .printpin true := by decide

/-- **untrusted Host, model**: whatever else the request carries, an untrusted Host gets the wrapped
application, a static resource or SecurityError, and the failure counter is not touched. -/
theorem untrusted_host (cfg : Config) (failed : UInt8) (r : Req) (h : r.hostTrusted = false) :
    (respond cfg failed r = .app ∨ respond cfg failed r = .resource ∨
      respond cfg failed r = .securityError) ∧ nextCounter cfg failed r = failed := by
  have key : respond cfg failed r = .app ∨ respond cfg failed r = .resource ∨
      respond cfg failed r = .securityError := by
    unfold respond
    split
    · split
      · exact Or.inr (Or.inl rfl)
      · simp [hostGate, h]
      · simp [hostGate, h]
      · split
        · simp [hostGate, h]
        · exact Or.inl rfl
    · split
      · simp [hostGate, h]
      · exact Or.inl rfl
  refine ⟨key, ?_⟩
  unfold nextCounter
  rcases key with k | k | k <;> rw [k]

/-! ### host_is_trusted -/

/-- **Soundness of `host_is_trusted`** for every Host, trusted list and IDNA function: an accepted
Host is non-empty, its port-stripped name (`_strip_port`) encodes, and some listed entry either encodes to the same
name or is dot-prefixed and the name ends with `"." ++ entry`. Look-alike suffixes
(`evillocalhost`, `localhost.evil.com`) therefore cannot be accepted. -/
theorem host_trusted_sound (idna : Idna) (host : Option (List Char)) (trusted : List (List Char))
    (h : hostIsTrusted idna host trusted = true) :
    ∃ hst hn, host = some hst ∧ hst ≠ [] ∧ idna (stripPort hst) = .ok hn ∧
      ∃ ref ∈ trusted, RefMatches idna hn ref := by
  unfold hostIsTrusted at h
  split at h
  · cases h
  · cases h
  · rename_i hst hne
    cases hi : idna (stripPort hst) with
    | error e => simp [hi] at h
    | ok hn =>
      simp only [hi] at h
      exact ⟨hst, hn, rfl, fun he => hne (by rw [he]), hi, matchRefs_sound idna hn trusted h⟩

/-- **`host_is_trusted` decides exactly the documented relation** when every entry of the trusted
list can be IDNA-encoded (a sane configuration; an unencodable entry makes the code answer False
for everything that is not matched by an earlier entry). -/
theorem host_trusted_iff (idna : Idna) (hst : List Char) (trusted : List (List Char))
    (henc : ∀ ref ∈ trusted, ∃ rn, idna (stripPort (refParts ref).2) = .ok rn) :
    hostIsTrusted idna (some hst) trusted = true ↔
      hst ≠ [] ∧ ∃ hn, idna (stripPort hst) = .ok hn ∧ ∃ ref ∈ trusted, RefMatches idna hn ref := by
  constructor
  · intro h
    obtain ⟨h', hn, he, hne, hi, hm⟩ := host_trusted_sound idna (some hst) trusted h
    cases he
    exact ⟨hne, hn, hi, hm⟩
  · intro ⟨hne, hn, hi, hm⟩
    unfold hostIsTrusted
    cases hst with
    | nil => exact absurd rfl hne
    | cons c t =>
      simp only [hi]
      exact matchRefs_complete idna hn trusted henc hm

example : hostIsTrusted asciiIdna (some "sub.localhost:5000".toList) [".localhost".toList] = true := by decide
example : hostIsTrusted asciiIdna (some "evillocalhost".toList) [".localhost".toList, "localhost".toList] = false := by
  decide
example : hostIsTrusted asciiIdna (some "localhost.evil.com".toList) [".localhost".toList, "localhost".toList] = false := by
  decide
example : hostIsTrusted asciiIdna (some "a..localhost".toList) [".localhost".toList] = false := by decide

/-- **True subdomain**: when the codec never yields a name that starts with a dot (CPython's
rejects empty labels), a name that ends with `"." ++ entry` is `prefix ++ "." ++ entry` with a
non-empty prefix: acceptance through the suffix rule means a true subdomain. -/
theorem true_subdomain (hn rn : List Char) (hdot : hn.head? ≠ some '.')
    (h : ('.' :: rn) <:+ hn) : ∃ p, p ≠ [] ∧ hn = p ++ '.' :: rn := by
  obtain ⟨p, hp⟩ := h
  refine ⟨p, ?_, hp.symm⟩
  intro he
  subst he
  simp only [List.nil_append] at hp
  rw [← hp] at hdot
  simp at hdot

example : "sub.localhost".toList.head? ≠ some '.' ∧ ('.' :: "localhost".toList) <:+ "sub.localhost".toList := by
  decide

/-- **`get_host` / `Request.host` with a trusted list: a value or SecurityError, nothing else** — for
every scheme, Host header (or server fallback), trusted list and IDNA function: the call returns the
host (default port stripped) exactly when no list is configured or `host_is_trusted` accepts it, and
otherwise raises `SecurityError`; a configured but *empty* list therefore refuses every Host (it is
not "no validation"), and so does an absent Host header when the fallback is not listed. -/
theorem get_host_value_or_security_error (idna : Idna) (scheme : List Char) (hostHeader : Option (List Char))
    (server : Option (List Char × Option Nat)) (trusted : Option (List (List Char))) :
    (∀ e, getHost idna scheme hostHeader server trusted = .error e → e = "SecurityError" ∧ trusted ≠ none) ∧
    (∀ h, getHost idna scheme hostHeader server trusted = .ok h →
      ∀ tl, trusted = some tl → hostIsTrusted idna (some h) tl = true) ∧
    (trusted = some [] → getHost idna scheme hostHeader server trusted = .error "SecurityError") := by
  have hempty : ∀ h : Option (List Char), hostIsTrusted idna h [] = false := by
    intro h
    unfold hostIsTrusted
    cases h with
    | none => rfl
    | some v =>
      cases v with
      | nil => rfl
      | cons c t =>
        simp only
        cases idna (stripPort (c :: t)) <;> simp [matchRefs]
  cases trusted with
  | none => simp [getHost]
  | some tl =>
    simp only [getHost]
    generalize stripDefaultPort scheme _ = host
    cases hb : hostIsTrusted idna (some host) tl with
    | true =>
      refine ⟨by simp, ?_, ?_⟩
      · intro h hh tl' ht
        simp only [if_true, Except.ok.injEq] at hh
        simp only [Option.some.injEq] at ht
        subst hh ht
        exact hb
      · intro ht
        simp only [Option.some.injEq] at ht
        subst ht
        rw [hempty] at hb
        cases hb
    | false => simp

example : getHost asciiIdna "http".toList (some "evil.example".toList) none (some []) = .error "SecurityError" := by
  rfl

/-! ### bracketed IPv6 literals (F20c, repaired by ede13ce) -/

/-- **What `_strip_port` removes**: from `[body]rest` (no `]` inside `body`) only a `:port` directly
after the closing bracket is removed; when anything else follows the bracket — or the bracket is
never closed — the text is kept whole, so garbage after `]` is never stripped; any host that does not
start with `[` is cut at its first `:`. -/
theorem strip_port_spec (body rest : List Char) (hb : ']' ∉ body) :
    stripPort ('[' :: body ++ ']' :: rest) =
      (if rest = [] ∨ rest.head? = some ':' then '[' :: body ++ [']'] else '[' :: body ++ ']' :: rest) ∧
    stripPort ('[' :: body) = '[' :: body ∧
    (∀ s : List Char, s.head? ≠ some '[' → stripPort s = beforeColon s) := by
  refine ⟨?_, ?_, ?_⟩
  · cases rest with
    | nil =>
      have h1 := takeWhile_ne_append ']' body [] hb
      simp [stripPort, h1.2]
    | cons c t =>
      have h1 := takeWhile_ne_append ']' body (c :: t) hb
      by_cases hc : c = ':'
      · subst hc
        simp [stripPort, h1.1, h1.2]
      · simp only [List.cons_append, stripPort, h1.1, h1.2, List.head?_cons, Option.some.injEq, hc, or_false,
          reduceCtorEq, if_false]
        split
        · rename_i heq; cases heq
        · rename_i heq; simp only [List.cons.injEq] at heq; exact absurd heq.1 hc
        · rfl
  · simp [stripPort, takeWhile_ne_all ']' body hb]
  · intro s hs
    unfold stripPort
    split
    · rename_i r; simp at hs
    · rfl

/-- a non-dot-prefixed entry accepts a Host only if both reduce to the same text
(CPython's codec on ASCII input returns it unchanged) -/
theorem ascii_exact_match (hst ref : List Char) (hnd : ref.head? ≠ some '.')
    (h : hostIsTrusted asciiIdna (some hst) [ref] = true) : stripPort hst = stripPort ref := by
  obtain ⟨h', hn, he, _, hi, r, hmem, rn, hr, hm⟩ := host_trusted_sound asciiIdna (some hst) [ref] h
  cases he
  simp only [List.mem_singleton] at hmem
  subst hmem
  have hp : refParts r = (false, r) := by
    cases r with
    | nil => rfl
    | cons c t =>
      have : c ≠ '.' := by simpa using hnd
      unfold refParts
      split
      · rename_i heq; simp only [List.cons.injEq] at heq; exact absurd heq.1 this
      · rfl
  rw [hp] at hr hm
  have e1 := asciiIdna_ok hi
  have e2 := asciiIdna_ok hr
  rcases hm with hm | ⟨hm, _⟩
  · rw [← e1, ← e2, hm]
  · cases hm

/-- **A different address literal is never accepted**: `[a]` (with or without a port) is accepted by
the entry `[b]` (with or without a port) only if `a = b`. (Before ede13ce every `[…` host matched
every `[…` entry.) -/
theorem different_literal_rejected (a b p q : List Char) (ha : ']' ∉ a) (hb : ']' ∉ b)
    (hp : p = [] ∨ p.head? = some ':') (hq : q = [] ∨ q.head? = some ':')
    (h : hostIsTrusted asciiIdna (some ('[' :: a ++ ']' :: p)) ['[' :: b ++ ']' :: q] = true) : a = b := by
  have := ascii_exact_match _ _ (by simp) h
  rw [(strip_port_spec a p ha).1, (strip_port_spec b q hb).1] at this
  simp only [hp, hq, if_true] at this
  have := List.append_cancel_right this
  simpa using this

example : hostIsTrusted asciiIdna (some "[::1]:8080".toList) ["[::1]".toList] = true := by decide
example : hostIsTrusted asciiIdna (some "[::2]".toList) ["[::1]".toList] = false := by decide
example : hostIsTrusted asciiIdna (some "[".toList) ["[::1]".toList] = false := by decide

/-- **Garbage after `]` is never stripped**: `[a]` followed by anything that is not `:port` is not
accepted by the entry `[a]` (nor by `[a]:port`). -/
theorem garbage_after_bracket_rejected (a g q : List Char) (ha : ']' ∉ a) (hg : g ≠ [])
    (hg' : g.head? ≠ some ':') (hq : q = [] ∨ q.head? = some ':') :
    hostIsTrusted asciiIdna (some ('[' :: a ++ ']' :: g)) ['[' :: a ++ ']' :: q] = false := by
  cases hres : hostIsTrusted asciiIdna (some ('[' :: a ++ ']' :: g)) ['[' :: a ++ ']' :: q] with
  | false => rfl
  | true =>
    exfalso
    have := ascii_exact_match _ _ (by simp) hres
    rw [(strip_port_spec a g ha).1, (strip_port_spec a q ha).1] at this
    have hgc : ¬ (g = [] ∨ g.head? = some ':') := by
      intro h; rcases h with h | h
      · exact hg h
      · exact hg' h
    simp only [hgc, hq, if_false, if_true] at this
    have := List.append_cancel_left this
    simp only [List.cons.injEq, true_and] at this
    exact hg this

example : hostIsTrusted asciiIdna (some "[::1]evil".toList) ["[::1]".toList] = false := by decide
example : hostIsTrusted asciiIdna (some "[::1".toList) ["[::1]".toList] = false := by decide

/-! ### PIN lock-out -/

/-- **The byte counter is observationally an unbounded counter**: for every history of attempts
(right PIN, wrong PIN, stale cookie), of any length, the answers of `pin_auth` with the saturating
`Value("B")` counter are exactly those of the same procedure with an unbounded failure count. -/
theorem counter_saturation_exact (hist : List Attempt) :
    (runHistory failPinAuth 0 hist).1 = (runIdeal 0 hist).1 :=
  (runHistory_tracks hist 0 0 Tracks.zero).1

/-- **Lock-out is permanent**: for every history `pre` after which more than ten attempts have
failed since the last success (unbounded count), every later attempt of every continuation `rest`
— in particular every attempt with the right PIN — is refused by the real (byte-counter) procedure,
and the procedure stays locked. No bound on the length of either history. -/
theorem lockout_permanent (pre rest : List Attempt) (hlocked : (runIdeal 0 pre).2 > 10) :
    (∀ r ∈ (runHistory failPinAuth (runHistory failPinAuth 0 pre).2 rest).1, r.auth = false) ∧
    (runHistory failPinAuth (runHistory failPinAuth 0 pre).2 rest).2 > 10 := by
  have h1 := runHistory_tracks pre 0 0 Tracks.zero
  have h2 := runHistory_tracks rest _ _ h1.2
  have h3 := runIdeal_locked rest _ hlocked
  rw [h2.1]
  exact ⟨h3.1, h2.2.gt_ten.mpr h3.2⟩

/-- eleven wrong PINs lock; the hypothesis of `lockout_permanent` is satisfiable -/
example : (runIdeal 0 (List.replicate 11 Attempt.wrong)).2 > 10 := by decide
example : (runHistory failPinAuth 0 (List.replicate 11 Attempt.wrong ++ [.right])).1.getLast?
    = some ⟨false, true⟩ := by decide

/-- **Contrast (the defect repaired by 3932b31)**: with a wrapping 8-bit counter the lock-out is not
permanent — 256 stale-cookie attempts wrap the counter to 0 and the right PIN authenticates again;
with the saturating counter the same history ends refused. -/
theorem wrapping_counter_unlocks :
    (runHistory failPinAuthWrapping 0 (List.replicate 256 Attempt.stale ++ [.right])).1.getLast?
      = some ⟨true, false⟩ ∧
    (runHistory failPinAuth 0 (List.replicate 256 Attempt.stale ++ [.right])).1.getLast?
      = some ⟨false, true⟩ := by
  decide +kernel

/-! ### structure of the counting code (what the sequential model cannot see) -/

/-- **A failure is counted before its penalty delay starts, under the lock, and the gate guards the
only PIN comparison** — read off the AST of the live source on every run.
`_fail_pin_auth` is straight-line code whose assignments to `_failed_pin_auth.value` all lie inside
`with ….get_lock():` and all precede every `time.sleep` call; in `pin_auth` the single comparison with
the entered PIN sits in the `else` of `elif self._failed_pin_auth.value > 10`, its wrong branch (and
the stale-cookie branch) calls `_fail_pin_auth()`, its right branch resets the counter.
The model (`pinAuth`, `lockout_permanent`) describes attempts one after the other. This obligation
rules out the schedule in which overlapping requests (threaded development server) are each parked
in their 0.5–5 s delay *before* being counted: then any number of concurrent wrong guesses would be
compared against the PIN and the right PIN would still be accepted after more than ten rejections,
although every sequential history behaves as the model says. -/
theorem fail_counted_before_delay :
    failHasUpdate = true ∧ failCountedInsideLock = true ∧ failCountedBeforeSleep = true ∧
    compareGuardedByGate = true ∧ gateThreshold = 10 ∧ wrongBranchCallsFail = true ∧
    staleBranchCallsFail = true ∧ rightBranchResets = true := by
  decide

/-! ### PIN changes at run time -/

/-- **eval needs a cookie for the current PIN**: in a session an eval attempt (everything else
right) runs only if the client's cookie was issued for the PIN that is current now. -/
theorem session_eval_gate (s : Session) (h : (actStep s .eval).1 = .evalRan true) : s.held = some s.gen := by
  simp only [actStep, Obs.evalRan.injEq] at h
  unfold heldTrust at h
  cases hh : s.held with
  | none => simp [hh, Trust.isYes] at h
  | some g =>
    simp only [hh] at h
    by_cases hg : (g == s.gen) = true
    · have : g = s.gen := by simpa using hg
      rw [this]
    · simp [hg, Trust.isYes] at h

/-- **Changing the PIN invalidates every cookie issued before**: after any session `pre`, once the
application's PIN is changed, no later step evaluates code and no pinauth answers `auth` — whatever
cookies are reused, however often — until the *new* PIN itself is entered. No bound on either history. -/
theorem pin_change_invalidates (pre rest : List Act) (hno : ∀ a ∈ rest, a ≠ .right) :
    ∀ o ∈ (runSession (actStep (runSession {} pre).2 .change).2 rest).1,
      o ≠ .evalRan true ∧ ∀ r, o = .pin r → r.auth = false := by
  have hle : HeldLe (runSession {} pre).2 := runSession_heldLe pre {} (by intro g hg; cases hg)
  have hst : HeldStale (actStep (runSession {} pre).2 .change).2 := by
    intro g hg
    have := hle g hg
    simp only [actStep]; omega
  exact runSession_stale rest _ hno hst

example : (runSession {} [.right, .eval, .change, .eval, .reuse, .right, .eval]).1
    = [.pin ⟨true, false⟩, .evalRan true, .changed, .evalRan false, .pin ⟨false, false⟩, .pin ⟨true, false⟩,
       .evalRan true] := by decide

/-- on attempts that present no issued cookie, sessions are exactly the attempt histories of
`lockout_permanent` (so the lock-out theorems carry over) -/
theorem session_extends_history (hist : List Attempt) :
    (runSession {} (hist.map Attempt.toAct)).1 = (runHistory failPinAuth 0 hist).1.map Obs.pin :=
  (runSession_history hist {}).1

/-! ### the PIN cookie on its raw value, for every clock -/

/-- **A cookie older than PIN_TIME never authorises — for every clock value**, every timestamp
parser, every cookie text and every PIN hash: with the PIN switched on, `check_pin_trust` answers
`True` only for a value `ts_text|hash` whose hash is the current PIN's and whose timestamp satisfies
`now - PIN_TIME < ts`. So once `now ≥ ts + PIN_TIME` the answer is never `True` again, however the
cookie is spelled. (`now` is `floor(time.time())`: for an integer `ts` the float comparison of the
code is this integer comparison.) -/
theorem cookie_expiry_every_clock (intOf : IntOf) (pinTime : Int) (hp : List Char)
    (cookie : Option (List Char)) (now : Int)
    (h : checkPinTrustRaw intOf pinTime (some hp) cookie now = .yes) :
    ∃ val ts, cookie = some val ∧ val ≠ [] ∧ '|' ∈ val ∧ intOf (splitBar val).1 = some ts ∧
      (splitBar val).2 = hp ∧ now - pinTime < ts := by
  unfold checkPinTrustRaw at h
  cases cookie with
  | none => simp at h
  | some val =>
    simp only at h
    split at h
    · cases h
    · rename_i h1
      simp only [Bool.or_eq_true, Bool.not_eq_true', not_or, Bool.not_eq_true, Bool.not_eq_false] at h1
      cases hi : intOf (splitBar val).1 with
      | none => simp [hi] at h
      | some ts =>
        simp only [hi] at h
        split at h
        · cases h
        · rename_i h2
          split at h
          · rename_i h3
            refine ⟨val, ts, rfl, ?_, ?_, hi, by simpa using h2, h3⟩
            · intro he; simp [he] at h1
            · simpa using h1.2
          · cases h

/-- ... in particular: fix any cookie and any clock `now` at which it is old (`now - PIN_TIME ≥ ts`
for the timestamp it carries): it does not authorise, and it does not at any later clock either. -/
theorem cookie_expired_stays_expired (intOf : IntOf) (pinTime : Int) (hp val : List Char) (ts now later : Int)
    (hts : intOf (splitBar val).1 = some ts) (hold : now - pinTime ≥ ts) (hl : now ≤ later) :
    checkPinTrustRaw intOf pinTime (some hp) (some val) later ≠ .yes := by
  intro h
  obtain ⟨v, t, hv, _, _, ht, _, hlt⟩ := cookie_expiry_every_clock intOf pinTime hp (some val) later h
  simp only [Option.some.injEq] at hv
  subst hv
  rw [hts] at ht
  simp only [Option.some.injEq] at ht
  omega

/-- **The cookie `pin_auth` issues is good for exactly PIN_TIME seconds**: issued at `t0` for the
PIN whose hash is `hp` (the hash text contains no `|`… it is 12 hex digits; the rendered timestamp
none either), it authorises at clock `now` iff `now < t0 + PIN_TIME` — as long as the PIN is unchanged. -/
theorem issued_cookie_window (intOf : IntOf) (render : Int → List Char) (pinTime t0 now : Int) (hp : List Char)
    (hr : '|' ∉ render t0) (hparse : intOf (render t0) = some t0) :
    checkPinTrustRaw intOf pinTime (some hp) (some (issuedCookie render t0 hp)) now = .yes ↔
      now < t0 + pinTime := by
  have hs : splitBar (issuedCookie render t0 hp) = (render t0, hp) := by
    unfold splitBar issuedCookie
    have h1 : (render t0 ++ '|' :: hp).takeWhile (· != '|') = render t0 := by
      rw [List.takeWhile_append_of_pos (by intro c hc; have : c ≠ '|' := fun e => hr (e ▸ hc); simpa using this)]
      simp
    have h2 : (render t0 ++ '|' :: hp).dropWhile (· != '|') = '|' :: hp := by
      rw [List.dropWhile_append_of_pos (by intro c hc; have : c ≠ '|' := fun e => hr (e ▸ hc); simpa using this)]
      simp
    rw [h1, h2]; rfl
  have hne : ((issuedCookie render t0 hp).isEmpty || !(issuedCookie render t0 hp).contains '|') = false := by
    simp [issuedCookie]
  unfold checkPinTrustRaw
  simp only [hne, Bool.false_eq_true, if_false, hs, hparse, bne_self_eq_false]
  by_cases h : now - pinTime < t0
  · simp only [h, if_true, true_iff]; omega
  · simp only [h, if_false, reduceCtorEq, false_iff]; omega

example : checkPinTrustRaw decimalInt 604800 (some ['R']) (some "1999395201|R".toList) 2000000000 = .yes := by decide
example : checkPinTrustRaw decimalInt 604800 (some ['R']) (some "1999395200|R".toList) 2000000000 = .no := by decide
example : checkPinTrustRaw decimalInt 604800 (some ['R']) (some "1999395201|W".toList) 2000000000 = .bad := by decide

/-- the raw check is the abstract check of the dispatch model on the cookie's class; with the PIN
switched off it is `True` whatever the cookie is -/
theorem raw_check_is_abstract_check (intOf : IntOf) (pinTime : Int) (hp : List Char)
    (cookie : Option (List Char)) (now : Int) :
    checkPinTrustRaw intOf pinTime (some hp) cookie now
      = checkPinTrust true (classifyCookie intOf pinTime hp cookie now) ∧
    checkPinTrustRaw intOf pinTime none cookie now = .yes :=
  ⟨DbgW.checkPinTrustRaw_classify intOf pinTime hp cookie now, rfl⟩

/-! ### the widened live table: secret spellings × cookie edge cases × frame-id spellings × Hosts -/

open Wz.DbgW Wz.Gen.DebuggerWide in
/-- The widened table is the complete product of its dimensions (7 commands × 6 secret spellings ×
6 Hosts × 8 cookies × 4 frame ids × evalex × pin), `PIN_TIME` is one week, the rig's cookie classes
are what the names say under the rig's clock (valid, *just* valid, *just* expired, wrong hash, three
malformed spellings, absent), and no point produced an unclassifiable answer or a missing resource. -/
theorem wide_table_complete :
    Gen.DebuggerWide.rows.length = Gen.DebuggerWide.nRows ∧
    Gen.DebuggerWide.nRows = Gen.DebuggerWide.nCmd * Gen.DebuggerWide.nSec * Gen.DebuggerWide.nHost ∧
    Gen.DebuggerWide.rowLen = Gen.DebuggerWide.nCookie * Gen.DebuggerWide.nFrame * 2 * 2 ∧
    pinTime = 60 * 60 * 24 * 7 ∧
    (List.range 8).map cookieOf = cookieLit ∧
    Gen.DebuggerWide.hostTexts.map (fun h => hostIsTrusted asciiIdna h Gen.DebuggerWide.defaultTrusted) = hostLit ∧
    Gen.DebuggerWide.hostClasses.length = Gen.DebuggerWide.nHost ∧
    Gen.DebuggerWide.hostTexts.length = Gen.DebuggerWide.nHost ∧
    DbgW.checkTable (fun _ _ o => o != 15 && o != 2) = true := by
  decide +kernel

open Wz.DbgW in
/-- The model's `dispatch` — with the *model's* `hostIsTrusted` for the Host and the *raw* cookie check
under the rig's clock for the cookie — predicts the observed outcome of the real
`DebuggedApplication.__call__` at every point of the widened product. -/
theorem wide_table_matches_model :
    ∀ idx j, idx < Gen.DebuggerWide.nRows → j < Gen.DebuggerWide.rowLen →
      DbgW.outcomeAt idx j = DbgW.modelOutcome (DbgW.pointAt idx j) := by
  have hA : DbgW.checkRows (fun idx j o => o == DbgW.modelOutcome (DbgW.pointAt idx j)) Gen.DebuggerWide.nRows
      (Gen.DebuggerWide.rows.take 84) Gen.DebuggerWide.nRows = true := by decide +kernel
  have hB : DbgW.checkRows (fun idx j o => o == DbgW.modelOutcome (DbgW.pointAt idx j)) Gen.DebuggerWide.nRows
      ((Gen.DebuggerWide.rows.drop 84).take (168 - 84)) (Gen.DebuggerWide.nRows - 84) = true := by decide +kernel
  have hC : DbgW.checkRows (fun idx j o => o == DbgW.modelOutcome (DbgW.pointAt idx j)) Gen.DebuggerWide.nRows
      (Gen.DebuggerWide.rows.drop 168) (Gen.DebuggerWide.nRows - 168) = true := by decide +kernel
  have key := DbgW.checkTable_thirds _ 84 168 (by decide) (by decide) wide_table_complete.1 hA hB hC
  intro idx j hi hj
  simpa using DbgW.checkTable_get key wide_table_complete.1 idx j hi hj

def wideGatesOk (idx j o : Nat) : Bool :=
  let p := DbgW.pointAt idx j
  -- eval: its own command, evalex, acceptable Host, the right secret spelled exactly, the registered
  -- frame id, pin off or a cookie inside PIN_TIME
  (o != 4 || (p.cmd == 0 && p.evalex && DbgW.hostClass p != 1 && p.sec == 0 && p.frame == 0 &&
    (!p.pinOn || p.cookie == 0 || p.cookie == 1))) &&
  -- console page
  (o != 5 || (p.cmd == 1 && p.evalex && DbgW.hostClass p != 1)) &&
  -- pinauth answers; auth only with pin off, a cookie inside PIN_TIME, or the right PIN
  (!(8 ≤ o && o ≤ 11) || ((p.cmd == 2 || p.cmd == 3) && p.sec == 0 && DbgW.hostClass p != 1)) &&
  (!(o == 10 || o == 11) || (!p.pinOn || p.cookie == 0 || p.cookie == 1 || p.cmd == 2)) &&
  -- printpin
  (!(o == 6 || o == 7) || (p.cmd == 4 && p.sec == 0 && DbgW.hostClass p != 1)) &&
  -- a Host that must never be accepted
  (DbgW.hostClass p != 1 || (o == 0 || o == 1 || o == 3))

/-- **All gates on the widened live table**: wherever the spy frame's `eval` ran the request was an
eval command with evalex on, an acceptable Host, the secret spelled *exactly* (not case-swapped, not
truncated, not empty, not absent), the registered frame id (not unknown, missing or non-numeric) and
— with the PIN on — a cookie whose timestamp is inside PIN_TIME (the one-second-too-old cookie, the
wrong-hash cookie and all malformed spellings never evaluate); the console page, `pinauth` and
`printpin` answered only acceptable Hosts (and only the exact secret); `auth` was granted only with pin
off, an unexpired cookie or the right PIN; a never-acceptable Host got the application, a static
resource or 400. -/
theorem wide_gates_table :
    ∀ idx j, idx < Gen.DebuggerWide.nRows → j < Gen.DebuggerWide.rowLen →
      wideGatesOk idx j (DbgW.outcomeAt idx j) = true := by
  have hA : DbgW.checkRows wideGatesOk Gen.DebuggerWide.nRows (Gen.DebuggerWide.rows.take 126)
      Gen.DebuggerWide.nRows = true := by decide +kernel
  have hB : DbgW.checkRows wideGatesOk Gen.DebuggerWide.nRows ((Gen.DebuggerWide.rows.drop 126).take (126 - 126))
      (Gen.DebuggerWide.nRows - 126) = true := by decide +kernel
  have hC : DbgW.checkRows wideGatesOk Gen.DebuggerWide.nRows (Gen.DebuggerWide.rows.drop 126)
      (Gen.DebuggerWide.nRows - 126) = true := by decide +kernel
  have key := DbgW.checkTable_thirds _ 126 126 (by decide) (by decide) wide_table_complete.1 hA hB hC
  intro idx j hi hj
  exact DbgW.checkTable_get key wide_table_complete.1 idx j hi hj

/-- the eval gate read off `wide_gates_table` -/
theorem wide_eval_gate (idx j : Nat) (hi : idx < Gen.DebuggerWide.nRows) (hj : j < Gen.DebuggerWide.rowLen)
    (ho : DbgW.outcomeAt idx j = 4) :
    (DbgW.pointAt idx j).cmd = 0 ∧ (DbgW.pointAt idx j).evalex = true ∧ DbgW.hostClass (DbgW.pointAt idx j) ≠ 1 ∧
    (DbgW.pointAt idx j).sec = 0 ∧ (DbgW.pointAt idx j).frame = 0 ∧
    ((DbgW.pointAt idx j).pinOn = false ∨ (DbgW.pointAt idx j).cookie = 0 ∨ (DbgW.pointAt idx j).cookie = 1) := by
  have := wide_gates_table idx j hi hj
  simp only [wideGatesOk, ho, Bool.and_eq_true] at this
  obtain ⟨⟨⟨⟨⟨h1, _⟩, _⟩, _⟩, _⟩, _⟩ := this
  simpa [and_assoc, or_assoc] using h1

/-- not vacuous: eval, right secret, `localhost:5000`, the *just valid* cookie, known frame, evalex on,
pin on — evaluated; the same with the one-second-older cookie did not -/
example : DbgW.outcomeAt 0 16 = 4 ∧ DbgW.outcomeAt 0 32 ≠ 4 := by decide +kernel

open Wz.DbgW Wz.Gen.DebuggerWide in
/-- **`trusted_hosts` customised, request method**: for every command × Host (`localhost`,
`[::1]:5000`, `sub.example.com`, `evil.com`, absent, `Example.COM:80`) × `trusted_hosts` (default,
`["[::1]", ".example.com"]`, `[]`) × method (GET, POST) × pin on/off — everything else passing the
gates — the real application did what the model's dispatch says with the model's `hostIsTrusted` on
that Host and that list: the gate follows the configured list (an IPv6 literal entry admits exactly
that literal, the empty list admits nobody), and the request method does not matter. -/
theorem trust_table_matches_model :
    trustRows.length = 7 * 6 * 3 * 2 * 2 ∧ ∀ r ∈ trustRows, r.2.2.2.2.2 = trustModel r := by
  decide +kernel

/-! ### structure of the debugger's source that the model transcribes (AST facts, every run) -/

open Wz.Gen.DebuggerWide in
/-- **The model's gates are the code's**: `PIN_TIME` is written `60 * 60 * 24 * 7`; `hash_pin` is the
first 12 hex digits of a salted SHA-1; `check_pin_trust` splits the cookie at the first `|`, reads the
timestamp with `int`, compares the hash with `hash_pin(self.pin)` and finally tests
`time.time() - PIN_TIME < ts` (`checkPinTrustRaw`); `pin_auth` compares the entered PIN modulo dashes and
surrounding white space, issues `f"{int(time.time())}|{hash_pin(pin)}"` as an HttpOnly, SameSite=Strict
cookie; `_fail_pin_auth` sleeps `5.0 if count > 5 else 0.5` (`failDelayTenths`); `__call__`'s chain is
`__debugger__ == "yes"` → resource / pinauth ∧ secret / printpin ∧ secret / the eval conjunction
(evalex ∧ cmd ∧ frame ∧ secret ∧ check_pin_trust), else the console test; every comparison with the
secret is an exact `==`; `execute_command`, `display_console`, `pin_auth` and `log_pin_request` all start
with the Host gate, which is `host_is_trusted(environ.get("HTTP_HOST"), self.trusted_hosts)`. -/
theorem debugger_source_structure :
    pinTimeExpr = "60 * 60 * 24 * 7" ∧
    hashPinExpr = "hashlib.sha1(f'{pin} added salt'.encode('utf-8', 'replace')).hexdigest()[:12]" ∧
    cookieSplit = "ts_str, pin_hash = val.split('|', 1)" ∧ tsParse = "ts = int(ts_str)" ∧
    hashTest = "pin_hash != hash_pin(self.pin)" ∧ expiryTest = "time.time() - PIN_TIME < ts" ∧
    pinCompare = "entered_pin.strip().replace('-', '') == pin.replace('-', '')" ∧
    Gen.DebuggerWide.issuedCookie = "f'{int(time.time())}|{hash_pin(pin)}'" ∧
    cookieFlags = ["httponly=True", "samesite='Strict'", "secure=request.is_secure"] ∧
    delayExpr = "5.0 if count > 5 else 0.5" ∧
    callTests = ["request.args.get('__debugger__') == 'yes'", "cmd == 'resource' and arg",
      "self.evalex and self.console_path is not None and (request.path == self.console_path)",
      "cmd == 'pinauth' and secret == self.secret", "cmd == 'printpin' and secret == self.secret",
      "self.evalex and cmd is not None and (frame is not None) and (self.secret == secret) and self.check_pin_trust(environ)"] ∧
    secretTests = ["secret == self.secret", "secret == self.secret", "self.secret == secret"] ∧
    hostGateFirst = ["execute_command", "display_console", "pin_auth", "log_pin_request"] ∧
    hostTrustExpr = "host_is_trusted(environ.get('HTTP_HOST'), self.trusted_hosts)" := by
  decide +kernel

/-- the penalty delay never shrinks as failures accumulate -/
theorem fail_delay_monotone (a b : UInt8) (h : a ≤ b) : failDelayTenths a ≤ failDelayTenths b := by
  unfold failDelayTenths
  by_cases ha : a > 5
  · have hb : b > 5 := Nat.lt_of_lt_of_le ha h
    simp [ha, hb]
  · simp only [ha, if_false]
    split <;> omega

end Wz.Props.C20
