/- C20 property theorems (not written yet) -/
namespace Wz.Props.C20
end Wz.Props.C20
