/-
C20 — host trust and the debugger's gates cannot be bypassed.
Property theorems only (helper lemmas live in Lemmas/Debugger.lean).
-/
import WzVerif.Model.Debugger
import WzVerif.Lemmas.Debugger
import WzVerif.Gen.Debugger
namespace Wz.Props.C20
open Wz Wz.Dbg Wz.Gen.Debugger

/-! ### the live dispatch table (regenerated on every run by driving the real DebuggedApplication) -/

/-- The table is the complete product of its dimensions, and no point produced an answer the
rig could not classify (`f`). -/
theorem table_complete :
    outcomes.length = dims.foldl (· * ·) 1 ∧ dims.length = 7 ∧ hosts.length = dim 2 ∧
    checkAll (fun _ o => o != 15 && o != 2) 0 outcomes = true := by
  decide +kernel

/-- The model's `dispatch` (fed with the live Host verdict) predicts the observed outcome of the real
`DebuggedApplication.__call__` at every point of the product. -/
theorem table_matches_model :
    ∀ i (h : i < outcomes.length), outcomes[i] = modelOutcome (pointOf i) := by
  have key : checkAll (fun i o => o == modelOutcome (pointOf i)) 0 outcomes = true := by decide +kernel
  intro i h
  simpa using checkAll_outcomes key i h

/-- The live `host_is_trusted` never raised on the listed Hosts, accepted no Host of the
"must never be accepted" class (look-alikes, unrelated names, absent/empty, IPv6 literals, empty or
over-long labels) and accepted every Host of the "listed name or true subdomain" class. -/
theorem table_host_verdicts :
    ∀ r ∈ hosts, r.2.2 ≠ 2 ∧ (r.2.1 = 1 → r.2.2 = 0) ∧ (r.2.1 = 0 → r.2.2 = 1) := by
  decide +kernel

/-- ... and for the pure-ASCII Hosts of the table the model's `hostIsTrusted` (with CPython's
ASCII fast path as the idna function) gives the live verdict. -/
theorem table_host_model :
    ∀ r ∈ hosts, (match r.1 with | some h => h.all (fun c => c.toNat < 128) | none => true) = true →
      (hostIsTrusted asciiIdna r.1 defaultTrusted = (r.2.2 == 1)) := by
  decide +kernel

def evalGateOk (i o : Nat) : Bool :=
  let p := pointOf i
  o != 4 || (p.cmd == 0 && p.evalex && hostClass p != 1 && p.sec == 0 && p.frame == 0 &&
    (!p.pinOn || p.cookie == 0))

/-- **eval gate, live table**: wherever the spy frame's `eval` ran, the request was an eval command
with evalex on, a Host that is not in the never-accept class, the right secret, a known frame and
(pin off or a valid unexpired cookie). -/
theorem eval_gate_table :
    ∀ i (h : i < outcomes.length), outcomes[i] = 4 →
      (pointOf i).cmd = 0 ∧ (pointOf i).evalex = true ∧ hostClass (pointOf i) ≠ 1 ∧
      (pointOf i).sec = 0 ∧ (pointOf i).frame = 0 ∧
      ((pointOf i).pinOn = false ∨ (pointOf i).cookie = 0) := by
  have key : checkAll evalGateOk 0 outcomes = true := by decide +kernel
  intro i h ho
  have := checkAll_outcomes key i h
  simp only [evalGateOk, ho] at this
  simpa using this

/-- the gate is not vacuous: the first point of the table (eval, right secret, localhost, valid
cookie, known frame, evalex on, pin on) did evaluate -/
example : outcomes[0]? = some 4 := by decide +kernel

def consoleGateOk (i o : Nat) : Bool :=
  let p := pointOf i
  o != 5 || (p.cmd == 1 && p.evalex && hostClass p != 1)

/-- **console gate, live table**: the console page was rendered only for the console path with
evalex on and a Host outside the never-accept class. -/
theorem console_gate_table :
    ∀ i (h : i < outcomes.length), outcomes[i] = 5 →
      (pointOf i).cmd = 1 ∧ (pointOf i).evalex = true ∧ hostClass (pointOf i) ≠ 1 := by
  have key : checkAll consoleGateOk 0 outcomes = true := by decide +kernel
  intro i h ho
  have := checkAll_outcomes key i h
  simp only [consoleGateOk, ho] at this
  simpa using this

def pinGateOk (i o : Nat) : Bool :=
  let p := pointOf i
  (!(8 ≤ o && o ≤ 11) || ((p.cmd == 2 || p.cmd == 3) && p.sec == 0 && hostClass p != 1)) &&
  (!(o == 6 || o == 7) || (p.cmd == 4 && p.sec == 0 && hostClass p != 1)) &&
  -- authenticated only through a valid cookie, the right PIN, or with the PIN switched off
  (!(o == 10 || o == 11) || (!p.pinOn || p.cookie == 0 || p.cmd == 2))

/-- **pinauth / printpin gates, live table**: the PIN endpoints answered (JSON body / empty 200,
log line) only for their own command with the right secret and a Host outside the never-accept
class; `auth` was granted only with pin off, a valid cookie, or the right PIN. -/
theorem pin_gates_table :
    ∀ i (h : i < outcomes.length),
      ((8 ≤ outcomes[i] ∧ outcomes[i] ≤ 11) →
        ((pointOf i).cmd = 2 ∨ (pointOf i).cmd = 3) ∧ (pointOf i).sec = 0 ∧ hostClass (pointOf i) ≠ 1) ∧
      ((outcomes[i] = 6 ∨ outcomes[i] = 7) →
        (pointOf i).cmd = 4 ∧ (pointOf i).sec = 0 ∧ hostClass (pointOf i) ≠ 1) ∧
      ((outcomes[i] = 10 ∨ outcomes[i] = 11) →
        (pointOf i).pinOn = false ∨ (pointOf i).cookie = 0 ∨ (pointOf i).cmd = 2) := by
  have key : checkAll pinGateOk 0 outcomes = true := by decide +kernel
  intro i h
  have := checkAll_outcomes key i h
  simp only [pinGateOk, Bool.and_eq_true, Bool.or_eq_true, Bool.not_eq_true', Bool.and_eq_false_imp,
    decide_eq_true_eq, beq_iff_eq, bne_iff_ne, ne_eq, Bool.not_eq_eq_eq_not, Bool.not_true,
    decide_eq_false_iff_not, Bool.or_eq_false_iff, beq_eq_false_iff_ne] at this
  obtain ⟨⟨h1, h2⟩, h3⟩ := this
  refine ⟨?_, ?_, ?_⟩
  · intro ⟨ha, hb⟩
    rcases h1 with h1 | h1
    · exact absurd hb (h1 ha)
    · exact ⟨h1.1.1, h1.1.2, h1.2⟩
  · intro ho
    rcases h2 with h2 | h2
    · rcases ho with ho | ho
      · exact absurd ho h2.1
      · exact absurd ho h2.2
    · exact ⟨h2.1.1, h2.1.2, h2.2⟩
  · intro ho
    rcases h3 with h3 | h3
    · rcases ho with ho | ho
      · exact absurd ho h3.1
      · exact absurd ho h3.2
    · rcases h3 with (h3 | h3) | h3
      · exact Or.inl h3
      · exact Or.inr (Or.inl h3)
      · exact Or.inr (Or.inr h3)

def untrustedOk (i o : Nat) : Bool :=
  let p := pointOf i
  hostClass p != 1 || (o == 0 || o == 1 || o == 3)

/-- **untrusted Host, live table**: a Host of the never-accept class gets the wrapped application,
a static resource, or a 400 SecurityError — never a debugger answer and never another failure. -/
theorem untrusted_host_table :
    ∀ i (h : i < outcomes.length), hostClass (pointOf i) = 1 →
      outcomes[i] = 0 ∨ outcomes[i] = 1 ∨ outcomes[i] = 3 := by
  have key : checkAll untrustedOk 0 outcomes = true := by decide +kernel
  intro i h hc
  have := checkAll_outcomes key i h
  simp only [untrustedOk, hc] at this
  simpa using this

end Wz.Props.C20
