/-
C20 — host trust and the debugger's gates cannot be bypassed.
Property theorems only (helper lemmas live in Lemmas/Debugger.lean).
-/
import WzVerif.Model.Debugger
import WzVerif.Lemmas.Debugger
import WzVerif.Gen.Debugger
namespace Wz.Props.C20
open Wz Wz.Dbg Wz.Gen.Debugger

/-! ### the live dispatch table (regenerated on every run by driving the real DebuggedApplication)

A point of the table is addressed as (`idx`, `j`): `idx < nRows` enumerates command × secret × Host,
`j < rowLen` enumerates PIN cookie × frame × evalex × pin; `pointAt idx j` decodes the coordinates and
`outcomeAt idx j` is what the real application did there. -/

/-- The table is the complete product of its dimensions, and no point produced an answer the rig
could not classify (`f`) or a missing resource. -/
theorem table_complete :
    rows.length = nRows ∧ nRows = nCmd * nSec * nHost ∧ rowLen = nCookie * nFrame * 2 * 2 ∧
    dims = [nCmd, nSec, nHost, nCookie, nFrame, 2, 2] ∧
    hosts.length = nHost ∧ hostClasses = hosts.map (·.2.1) ∧ hostVerdicts = hosts.map (·.2.2) ∧
    checkTable (fun _ _ o => o != 15 && o != 2) = true := by
  decide +kernel

theorem rows_length : rows.length = nRows := table_complete.1

/-- The model's `dispatch` (fed with the live Host verdict) predicts the observed outcome of the real
`DebuggedApplication.__call__` at every point of the product. -/
theorem table_matches_model :
    ∀ idx j, idx < nRows → j < rowLen → outcomeAt idx j = modelOutcome (pointAt idx j) := by
  have key : checkTable (fun idx j o => o == modelOutcome (pointAt idx j)) = true := by decide +kernel
  intro idx j hi hj
  simpa using checkTable_get key rows_length idx j hi hj

/-- The live `host_is_trusted` never raised on the listed Hosts, accepted no Host of the
"must never be accepted" class (look-alikes, unrelated names, absent/empty, IPv6 literals, empty or
over-long labels) and accepted every Host of the "listed name or true subdomain" class. -/
theorem table_host_verdicts :
    ∀ r ∈ hosts, r.2.2 ≠ 2 ∧ (r.2.1 = 1 → r.2.2 = 0) ∧ (r.2.1 = 0 → r.2.2 = 1) := by
  decide +kernel

/-- ... and for the pure-ASCII Hosts of the table the model's `hostIsTrusted` (with CPython's
ASCII fast path as the idna function) gives the live verdict. -/
theorem table_host_model :
    ∀ r ∈ hosts, (match r.1 with | some h => h.all (fun c => c.toNat < 128) | none => true) = true →
      (hostIsTrusted asciiIdna r.1 defaultTrusted = (r.2.2 == 1)) := by
  decide +kernel

def evalGateOk (idx j o : Nat) : Bool :=
  let p := pointAt idx j
  o != 4 || (p.cmd == 0 && p.evalex && hostClass p != 1 && p.sec == 0 && p.frame == 0 &&
    (!p.pinOn || p.cookie == 0))

/-- **eval gate, live table**: wherever the spy frame's `eval` ran, the request was an eval command
with evalex on, a Host that is not in the never-accept class, the right secret, a known frame and
(pin off or a valid unexpired cookie). -/
theorem eval_gate_table :
    ∀ idx j, idx < nRows → j < rowLen → outcomeAt idx j = 4 →
      (pointAt idx j).cmd = 0 ∧ (pointAt idx j).evalex = true ∧ hostClass (pointAt idx j) ≠ 1 ∧
      (pointAt idx j).sec = 0 ∧ (pointAt idx j).frame = 0 ∧
      ((pointAt idx j).pinOn = false ∨ (pointAt idx j).cookie = 0) := by
  have key : checkTable evalGateOk = true := by decide +kernel
  intro idx j hi hj ho
  have := checkTable_get key rows_length idx j hi hj
  simp only [evalGateOk, ho] at this
  simpa [and_assoc] using this

/-- the gate is not vacuous: the first point of the table (eval, right secret, localhost, valid
cookie, known frame, evalex on, pin on) did evaluate -/
example : outcomeAt 0 0 = 4 := by decide +kernel

def consoleGateOk (idx j o : Nat) : Bool :=
  let p := pointAt idx j
  o != 5 || (p.cmd == 1 && p.evalex && hostClass p != 1)

/-- **console gate, live table**: the console page was rendered only for the console path with
evalex on and a Host outside the never-accept class. -/
theorem console_gate_table :
    ∀ idx j, idx < nRows → j < rowLen → outcomeAt idx j = 5 →
      (pointAt idx j).cmd = 1 ∧ (pointAt idx j).evalex = true ∧ hostClass (pointAt idx j) ≠ 1 := by
  have key : checkTable consoleGateOk = true := by decide +kernel
  intro idx j hi hj ho
  have := checkTable_get key rows_length idx j hi hj
  simp only [consoleGateOk, ho] at this
  simpa [and_assoc] using this

def pinauthGateOk (idx j o : Nat) : Bool :=
  let p := pointAt idx j
  (!(8 ≤ o && o ≤ 11) || ((p.cmd == 2 || p.cmd == 3) && p.sec == 0 && hostClass p != 1)) &&
  -- authenticated only through a valid cookie, the right PIN, or with the PIN switched off
  (!(o == 10 || o == 11) || (!p.pinOn || p.cookie == 0 || p.cmd == 2))

/-- **pinauth gate, live table**: the PIN endpoint answered (JSON body) only for its own command
with the right secret and a Host outside the never-accept class; `auth` was granted only with pin
off, a valid cookie, or the right PIN. -/
theorem pinauth_gate_table :
    ∀ idx j, idx < nRows → j < rowLen →
      ((8 ≤ outcomeAt idx j ∧ outcomeAt idx j ≤ 11) →
        ((pointAt idx j).cmd = 2 ∨ (pointAt idx j).cmd = 3) ∧ (pointAt idx j).sec = 0 ∧
        hostClass (pointAt idx j) ≠ 1) ∧
      ((outcomeAt idx j = 10 ∨ outcomeAt idx j = 11) →
        (pointAt idx j).pinOn = false ∨ (pointAt idx j).cookie = 0 ∨ (pointAt idx j).cmd = 2) := by
  have key : checkTable pinauthGateOk = true := by decide +kernel
  intro idx j hi hj
  have := checkTable_get key rows_length idx j hi hj
  generalize outcomeAt idx j = o at this ⊢
  simp only [pinauthGateOk, Bool.and_eq_true, Bool.or_eq_true, Bool.not_eq_true', decide_eq_true_eq,
    beq_iff_eq, bne_iff_ne, ne_eq, Bool.and_eq_false_imp, decide_eq_false_iff_not,
    Bool.or_eq_false_iff, beq_eq_false_iff_ne] at this
  obtain ⟨h1, h2⟩ := this
  refine ⟨fun ⟨ha, hb⟩ => ?_, fun ho => ?_⟩
  · rcases h1 with h1 | h1
    · exact absurd hb (h1 ha)
    · exact ⟨h1.1.1, h1.1.2, h1.2⟩
  · rcases h2 with h2 | h2
    · rcases ho with ho | ho
      · exact absurd ho h2.1
      · exact absurd ho h2.2
    · rcases h2 with (h2 | h2) | h2
      · exact Or.inl h2
      · exact Or.inr (Or.inl h2)
      · exact Or.inr (Or.inr h2)

def printpinGateOk (idx j o : Nat) : Bool :=
  let p := pointAt idx j
  !(o == 6 || o == 7) || (p.cmd == 4 && p.sec == 0 && hostClass p != 1)

/-- **printpin gate, live table**: the PIN was logged / the endpoint answered only for its own
command with the right secret and a Host outside the never-accept class. -/
theorem printpin_gate_table :
    ∀ idx j, idx < nRows → j < rowLen → (outcomeAt idx j = 6 ∨ outcomeAt idx j = 7) →
      (pointAt idx j).cmd = 4 ∧ (pointAt idx j).sec = 0 ∧ hostClass (pointAt idx j) ≠ 1 := by
  have key : checkTable printpinGateOk = true := by decide +kernel
  intro idx j hi hj ho
  have := checkTable_get key rows_length idx j hi hj
  generalize outcomeAt idx j = o at this ho
  simp only [printpinGateOk] at this
  rcases ho with rfl | rfl <;> simpa [and_assoc] using this

def untrustedOk (idx j o : Nat) : Bool :=
  let p := pointAt idx j
  hostClass p != 1 || (o == 0 || o == 1 || o == 3)

/-- **untrusted Host, live table**: a Host of the never-accept class gets the wrapped application,
a static resource, or a 400 SecurityError — never a debugger answer and never another failure. -/
theorem untrusted_host_table :
    ∀ idx j, idx < nRows → j < rowLen → hostClass (pointAt idx j) = 1 →
      outcomeAt idx j = 0 ∨ outcomeAt idx j = 1 ∨ outcomeAt idx j = 3 := by
  have key : checkTable untrustedOk = true := by decide +kernel
  intro idx j hi hj hc
  have := checkTable_get key rows_length idx j hi hj
  simp only [untrustedOk, hc] at this
  simpa [or_assoc] using this

end Wz.Props.C20
