/-
C15T2 — C15T continued: `werkzeug.middleware.proxy_fix.ProxyFix._get_real_value` and `ProxyFix.__call__`
(up to the call of the wrapped application) *as regenerated from the source* by `tools/py2lean.py`
(`Gen/PyFns_ProxyFix.lean`, rewritten on every check run) against the hand-written model the C15
theorems are about (`Model/UrlProxyFix.lean`). `_get_real_value` calls the translated
`parse_list_header`; the environ is a dict of texts (the bookkeeping entry `werkzeug.proxy_fix.orig`
is left out). For every trust configuration and every environ: the translated `__call__` never raises,
the environ it hands on reads (`readEnv`) as the model's `proxyFix` of what the given environ reads as,
only the six keys REMOTE_ADDR, wsgi.url_scheme, HTTP_HOST, SERVER_NAME, SERVER_PORT, SCRIPT_NAME are
written (in particular PATH_INFO and the X-Forwarded-* headers are untouched), no key disappears.
Property theorems only: the proofs live in Lemmas/PyFnsEq_ProxyFix.lean.
-/
import WzVerif.Lemmas.PyFnsEq_ProxyFix
namespace Wz.Props.C15T2
open Wz Wz.Pre Gen.PyFns_ProxyFix Wz.PyFnsEq.ProxyFix

/-- the key constants are the environ keys of the Python source -/
theorem keys_spelled :
    kRemoteAddr = "REMOTE_ADDR".toList ∧ kScheme = "wsgi.url_scheme".toList ∧ kHost = "HTTP_HOST".toList ∧
    kServerName = "SERVER_NAME".toList ∧ kServerPort = "SERVER_PORT".toList ∧
    kScriptName = "SCRIPT_NAME".toList ∧ kPathInfo = "PATH_INFO".toList ∧
    kXFor = "HTTP_X_FORWARDED_FOR".toList ∧ kXProto = "HTTP_X_FORWARDED_PROTO".toList ∧
    kXHost = "HTTP_X_FORWARDED_HOST".toList ∧ kXPort = "HTTP_X_FORWARDED_PORT".toList ∧
    kXPrefix = "HTTP_X_FORWARDED_PREFIX".toList := by
  apply PyFnsEq.ProxyFix.keys_spelled <;> assumption

/-- **the dict handed to the app agrees with the incoming environ on every key other than the six
written ones** (REMOTE_ADDR, wsgi.url_scheme, HTTP_HOST, SERVER_NAME, SERVER_PORT, SCRIPT_NAME): in
particular on PATH_INFO, QUERY_STRING and the `X-Forwarded-*` headers themselves -/
theorem fixDict_frame (c : Url.PFConfig) (d : Env) : Frame (fixDict c d) d := by
  apply PyFnsEq.ProxyFix.fixDict_frame <;> assumption

/-- no key of the incoming environ is missing in the dict handed to the app -/
theorem fixDict_keeps (c : Url.PFConfig) (d : Env) : Keeps (fixDict c d) d := by
  apply PyFnsEq.ProxyFix.fixDict_keeps <;> assumption

/-- the dict handed to the app has distinct keys when the incoming environ has -/
theorem fixDict_nodup (c : Url.PFConfig) (d : Env) (hn : (d.map (·.1)).Nodup) :
    ((fixDict c d).map (·.1)).Nodup := by
  apply PyFnsEq.ProxyFix.fixDict_nodup <;> assumption

/-- **the dict-level stages read as the model**: the record of the dict handed to the app is the
model's `proxyFix` of the record and the parsed headers of the incoming environ - for every environ
(no uniqueness of keys needed) and all trust counts. Each stage reads its `X-Forwarded-*` header from
the dict the previous stages have already written to; that makes no difference because the header
keys are not among the written keys. -/
theorem readEnv_fixDict (c : Url.PFConfig) (d : Env) :
    readEnv (fixDict c d) = Url.proxyFix c (hdrsOf d) (readEnv d) := by
  apply PyFnsEq.ProxyFix.readEnv_fixDict <;> assumption

/-- **`ProxyFix._get_real_value(trusted, value)` for `trusted ≥ 0`**, as translated from the current
source (`if not (trusted and value)`, `parse_list_header` - itself translated, see C06T -,
`len(values) >= trusted`, `values[-trusted]`), never raises (the IndexError of `values[-trusted]` is
unreachable behind the length test) and returns exactly the model's `realValue` of the parsed header,
for every trust count and every header value (absent, empty or any text). -/
theorem proxy_get_real_value_eq (trusted : Nat) (value : Option Str) :
    proxy_get_real_value (trusted : Int) value = .ok (Url.realValue trusted (hdr value)) := by
  apply PyFnsEq.ProxyFix.proxy_get_real_value_eq <;> assumption

/-- **`_get_real_value` for a negative trust count** `trusted = -(n+1)` (outside the model, whose
counts are naturals; the constructor does not refuse it): `len(values) >= trusted` always holds and
`values[-trusted]` is `values[n+1]`, counted from the FRONT - the value after the first `n+1` ones -
and raises IndexError when the header has at most `n+1` values. An absent or empty header gives
`None` as before. -/
theorem proxy_get_real_value_neg (n : Nat) (value : Option Str) :
    proxy_get_real_value (-((n + 1 : Nat) : Int)) value =
      match hdr value with
      | none => .ok none
      | some vs =>
        match vs[n + 1]? with
        | some x => .ok (some x)
        | none => .error "IndexError" := by
  apply PyFnsEq.ProxyFix.proxy_get_real_value_neg <;> assumption

/-- **`ProxyFix.__call__` never raises before it calls the app and hands it `fixDict c d`**: the
translated function (the five `_get_real_value` calls, the `if x_…:` blocks with their environ
assignments, `x_host.rsplit(":", 1)` unpacked into two names, `host.rsplit(":", 1)[0]`) returns, for
every environ dict and all trust counts, the dict the five dict-level stages produce. In particular
the ValueError of the two-name unpacking and the IndexError of `[0]` are unreachable behind the
`":" in …` tests. -/
theorem proxy_fix_environ_run (c : Url.PFConfig) (d : Env) :
    proxy_fix_environ c.xFor c.xProto c.xHost c.xPort c.xPrefix d () = .ok (fixDict c d) := by
  apply PyFnsEq.ProxyFix.proxy_fix_environ_run <;> assumption

/-- **`ProxyFix.__call__`, as translated from the current source, is the model's `proxyFix`**: for
every config (the five trust counts) and every environ dict `d` - no hypothesis, not even distinct
keys - the translated function does not raise and hands the app a dict `d'` such that
* the record of `d'` (REMOTE_ADDR, wsgi.url_scheme, HTTP_HOST, SERVER_NAME, SERVER_PORT, SCRIPT_NAME,
  PATH_INFO) is the model's `proxyFix` applied to the record of `d` and the parsed `X-Forwarded-*`
  headers of `d`;
* every key other than the six written ones has the same value in `d'` as in `d` (PATH_INFO, the
  `X-Forwarded-*` headers, everything else): C15's "ProxyFix does not disturb PATH_INFO";
* no key of `d` is missing in `d'`, and `d'` has distinct keys when `d` has. -/
theorem proxy_fix_environ_eq (c : Url.PFConfig) (d : Env) :
    ∃ d', proxy_fix_environ c.xFor c.xProto c.xHost c.xPort c.xPrefix d () = .ok d' ∧
      readEnv d' = Url.proxyFix c (hdrsOf d) (readEnv d) ∧
      (∀ k, k ∉ writtenKeys → dictGet? d' k = dictGet? d k) ∧
      (∀ k, (dictGet? d k).isSome = true → (dictGet? d' k).isSome = true) ∧
      ((d.map (·.1)).Nodup → (d'.map (·.1)).Nodup) := by
  apply PyFnsEq.ProxyFix.proxy_fix_environ_eq <;> assumption

/-- `ProxyFix.__call__` never raises on its way to the wrapped app -/
theorem proxy_fix_environ_never_raises (c : Url.PFConfig) (d : Env) (e : String) :
    proxy_fix_environ c.xFor c.xProto c.xHost c.xPort c.xPrefix d () ≠ .error e := by
  apply PyFnsEq.ProxyFix.proxy_fix_environ_never_raises <;> assumption

/-- **C15 `proxyfix_preserves_path_info` on the translated `__call__`**: the environ handed to the app
has the PATH_INFO entry of the incoming environ (same value, or absent in both), whatever the trust
counts and the forwarded headers - and likewise every `X-Forwarded-*` header. -/
theorem proxy_fix_environ_preserves_path_info (c : Url.PFConfig) (d d' : Env)
    (h : proxy_fix_environ c.xFor c.xProto c.xHost c.xPort c.xPrefix d () = .ok d') :
    dictGet? d' kPathInfo = dictGet? d kPathInfo ∧ (readEnv d').pathInfo = (readEnv d).pathInfo ∧
    hdrsOf d' = hdrsOf d := by
  apply PyFnsEq.ProxyFix.proxy_fix_environ_preserves_path_info <;> assumption

/-- **C15 `proxyfix_prefix_replaces_script_name` on the translated `__call__`**: SCRIPT_NAME of the
environ handed to the app is the trusted non-empty `X-Forwarded-Prefix` value when there is one (it
REPLACES the old SCRIPT_NAME), otherwise the entry is the incoming one. -/
theorem proxy_fix_environ_prefix_replaces_script_name (c : Url.PFConfig) (d d' : Env)
    (h : proxy_fix_environ c.xFor c.xProto c.xHost c.xPort c.xPrefix d () = .ok d') :
    (readEnv d').scriptName =
      (match Url.truthyV (Url.realValue c.xPrefix (hdr (dictGet? d kXPrefix))) with
        | some v => v
        | none => (readEnv d).scriptName) := by
  apply PyFnsEq.ProxyFix.proxy_fix_environ_prefix_replaces_script_name <;> assumption

/-- **C15 `proxyfix_scheme` on the translated `__call__`**: wsgi.url_scheme of the environ handed to
the app is the trusted non-empty `X-Forwarded-Proto` value when there is one, otherwise the incoming
one. -/
theorem proxy_fix_environ_scheme (c : Url.PFConfig) (d d' : Env)
    (h : proxy_fix_environ c.xFor c.xProto c.xHost c.xPort c.xPrefix d () = .ok d') :
    (readEnv d').urlScheme =
      (match Url.truthyV (Url.realValue c.xProto (hdr (dictGet? d kXProto))) with
        | some v => v
        | none => (readEnv d).urlScheme) := by
  apply PyFnsEq.ProxyFix.proxy_fix_environ_scheme <;> assumption


end Wz.Props.C15T2
