/-
C11T — the range functions of C11 *as regenerated from werkzeug's source* by `tools/py2lean.py`
(`Gen/PyFns_Range.lean`, rewritten on every check run) are equal, for all inputs, to the
hand-written model functions of `Model/Conditional.lean` that the C11 theorems are about.
A change of the Python source changes the generated definition and breaks these obligations.
Property theorems only (helper lemmas live in Lemmas/PyFns_Range.lean, Lemmas/PyFns_Prelude.lean).
-/
import WzVerif.Gen.PyFns_Range
import WzVerif.Model.Conditional
import WzVerif.Lemmas.PyFns_Range
namespace Wz.Props.C11T
open Wz Wz.Pre Wz.PyFnsRange

/-- `werkzeug.http.is_byte_range_valid`, as translated from the current source, computes exactly the
model's `isByteRangeValid` for every `start`, `stop`, `length` (each an unbounded int or `None`).
In particular no argument combination reaches a comparison with `None` (the translation would not
type-check otherwise). -/
theorem is_byte_range_valid_eq (start stop length : Option Int) :
    Gen.PyFns_Range.is_byte_range_valid start stop length
      = Cond.isByteRangeValid start stop length := by
  cases start <;> cases stop <;> cases length <;>
    simp only [Gen.PyFns_Range.is_byte_range_valid, Cond.isByteRangeValid] <;> grind

/-- `Range.range_for_length`, as translated from the current source of
`werkzeug/datastructures/range.py` (the unit / `None` / single-range guard, `self.ranges[0]`, the
open-ended and suffix adjustments, the call of `is_byte_range_valid`, `min(end, length)`), never
raises (`self.ranges[0]` is only reached for a one-element list) and returns exactly the model's
`rangeForLength`, for every unit text, every list of `(begin, end)` pairs and every length. -/
theorem range_for_length_eq (units : List Char) (ranges : List (Int × Option Int))
    (length : Option Int) :
    Gen.PyFns_Range.range_for_length units ranges length
      = .ok (Cond.rangeForLength ⟨units, ranges⟩ length) := by
  unfold Gen.PyFns_Range.range_for_length Cond.rangeForLength
  cases length with
  | none => rfl
  | some l =>
    simp only [is_byte_range_valid_eq]
    match ranges with
    | [] => simp
    | [(s, e)] => cases e <;> simp [Pre.getItem, Cond.bytesUnit] <;> grind
    | _ :: _ :: _ => simp <;> grind

example : (Gen.PyFns_Range.range_for_length "bytes".toList [(-3, none)] (some 10)).toOption
    = some (some (7, 10)) := by decide

/-- The translation maps `_plain_int_re.fullmatch` to the prelude's hand-written matcher for
`-?\d+` under `re.ASCII`; this pins the pattern source and flags of the live regex object. -/
theorem plain_int_re_pinned : Gen.PyFns_Internal.plainIntRe = ("-?\\d+", 256) := by decide

/-- `_plain_int`, as translated from the current source, equals the prelude's `plainInt` for every
text (see Props/C09T): the only exception is `ValueError`, and `int()` is only reached with a text of
the form `-?[0-9]+`. -/
theorem plain_int_eq (v : List Char) : Gen.PyFns_Internal.plain_int v = Pre.plainInt v := by
  unfold Gen.PyFns_Internal.plain_int Pre.plainInt Pre.plainIntReFullmatch Pre.pyIntPlain Pre.strip
  cases h : isPlainIntText (Py.strip v) <;> simp [h]

/-- The validation loop of `Range.__init__`, as translated from the current source, runs to its end
exactly when every pair is open-ended or satisfies `0 ≤ begin < end` (`validB`), and raises
`ValueError` otherwise. -/
theorem range_init_loop_eq (rs : List (Int × Option Int)) :
    Gen.PyFns_Range.range_init.loop1 rs
      = if rs.all validB then .fall () else .ret (.error "ValueError") := by
  induction rs with
  | nil => rfl
  | cons p t ih =>
    unfold Gen.PyFns_Range.range_init.loop1
    obtain ⟨b, e⟩ := p
    cases e with
    | none => simp only [ih, List.all_cons, validB, Bool.true_and]
    | some e =>
      by_cases h : (b < 0 ∨ b ≥ e)
      · have h2 : ¬ (0 ≤ b ∧ b < e) := by omega
        simp [h, validB, h2]
      · have h2 : (0 ≤ b ∧ b < e) := by omega
        have h3 : (decide (b < 0) || decide (b ≥ e)) = false := by
          simp only [Bool.or_eq_false_iff, decide_eq_false_iff_not]; omega
        have h4 : (decide (0 ≤ b) && decide (b < e)) = true := by
          simp only [Bool.and_eq_true, decide_eq_true_eq]; exact h2
        simp only [h3, h4, ih, List.all_cons, validB, Bool.true_and, Bool.false_eq_true, if_false]

/-- `Range(units, ranges)`, as translated from the current source (`Range.__init__`: the two
attribute stores and the validation loop), returns the object - the pair of its attributes - for a
valid list and raises `ValueError` for any other. -/
theorem range_init_eq (u : List Char) (rs : List (Int × Option Int)) :
    Gen.PyFns_Range.range_init u rs = if rs.all validB then .ok (u, rs) else .error "ValueError" := by
  unfold Gen.PyFns_Range.range_init
  rw [range_init_loop_eq]
  cases rs.all validB <;> simp

/-- in particular every valid list is accepted -/
theorem range_init_ok (u : List Char) (rs : List (Int × Option Int)) (h : AllValid rs) :
    Gen.PyFns_Range.range_init u rs = .ok (u, rs) := by
  rw [range_init_eq, (all_validB_iff rs).mpr h]; rfl

example : AllValid [(0, some 2), (5, none), (-3, none)] := by
  intro p hp
  simp only [List.mem_cons, List.not_mem_nil, or_false] at hp
  rcases hp with rfl | rfl | rfl <;> simp [ValidPair]

/-- The `for item in rng.split(",")` loop of `parse_range_header`, as translated from the current
source (strip, the `-` tests, the suffix / `first-last` / `first-` forms with their `_plain_int`
calls and `try … except ValueError: return None`, the ordering checks against `last_end`, the append),
does what the model's `parseRangeItems` does, for every list of items and every loop state:
`summ` reads off "returned None" / "fell through with these ranges" (an exception or any other
return value has no summary). -/
theorem parse_range_header_loop_eq (items : List (List Char)) : ∀ (le : Int) (ranges : R),
    summ (Gen.PyFns_Range.parse_range_header.loop1 items le ranges)
      = some (Cond.parseRangeItems items le ranges.reverse) := by
  induction items with
  | nil => intro le ranges; simp [Gen.PyFns_Range.parse_range_header.loop1, Cond.parseRangeItems, summ]
  | cons item rest ih =>
    intro le ranges
    unfold Gen.PyFns_Range.parse_range_header.loop1 Cond.parseRangeItems
    simp only [Pre.strip, contains_singleton, startswith_singleton_head, plain_int_eq, cond_plainInt_eq]
    generalize Py.strip item = it
    have summ_ite : ∀ (c : Prop) [Decidable c] (a b : Pre.Loop (Except String (Option (List Char × R))) (Int × R)),
        summ (if c then a else b) = if c then summ a else summ b := by
      intro c _ a b; split <;> rfl
    by_cases hm : '-' ∈ it
    · have hc : it.contains '-' = true := by simpa using hm
      simp only [hc, Bool.not_true, Bool.false_eq_true, if_false, splitOnce_singleton_mem it '-' hm]
      by_cases hh : it.head? = some '-'
      · simp only [hh, beq_self_eq_true, if_true]
        by_cases hl : le < 0
        · simp [hl, summ]
        · simp only [hl, decide_false, Bool.false_eq_true, if_false]
          cases plainInt it with
          | error e => simp [summ, Except.toOption]
          | ok b =>
            by_cases hb : b = 0
            · simp [hb, summ, Except.toOption]
            · simp [hb, summ_ite, ih, Except.toOption]
      · have hh' : (it.head? == some '-') = false := by simpa using hh
        simp only [hh', Bool.false_eq_true, if_false]
        cases plainInt (Py.strip (List.takeWhile (fun x => x != '-') it)) with
        | error e => simp [summ, Except.toOption]
        | ok b =>
          by_cases hl : (b < le ∨ le < 0)
          · simp [hl, summ, Except.toOption]
          · by_cases he : Py.strip (List.dropWhile (fun x => x != '-') it).tail = []
            · simp [hl, he, summ_ite, ih, Except.toOption]
            · cases hp : plainInt (Py.strip (List.dropWhile (fun x => x != '-') it).tail) with
              | error e => simp [hl, he, hp, summ, Except.toOption]
              | ok e =>
                by_cases hbe : e + 1 ≤ b
                · simp [hl, he, hp, hbe, summ, Except.toOption]
                · simp [hl, he, hp, hbe, summ_ite, ih, Except.toOption]
    · simp [hm, summ]

/-- `parse_range_header(value)`, as translated from the current source, never raises (the
two-way unpacking of `value.split("=", 1)` happens only when `=` occurs; every range list the loop
builds passes the validation of `Range.__init__`) and returns exactly the model's
`parseRangeHeader` (`None`, or the units and the list of half-open ranges), for every header value
including `None`. -/
theorem parse_range_header_eq (value : Option (List Char)) (mi : Bool) :
    Gen.PyFns_Range.parse_range_header value mi
      = .ok ((Cond.parseRangeHeader value).map fun r => (r.units, r.ranges)) := by
  unfold Gen.PyFns_Range.parse_range_header Cond.parseRangeHeader
  cases value with
  | none => rfl
  | some v =>
    simp only [contains_singleton]
    by_cases hm : '=' ∈ v
    · have hc : v.contains '=' = true := by simpa using hm
      by_cases he : v.isEmpty = true
      · simp [he]
      · simp only [he, hc, Bool.not_true, Bool.or_false, Bool.false_eq_true, if_false,
          splitOnce_singleton_mem v '=' hm, splitOn_singleton]
        have hl := parse_range_header_loop_eq (Cond.splitOnChar ',' (List.drop 1 (List.dropWhile (fun x => x != '=') v)) []) 0 []
        simp only [List.reverse_nil] at hl
        cases hp : Cond.parseRangeItems (Cond.splitOnChar ',' (List.drop 1 (List.dropWhile (fun x => x != '=') v)) []) 0 [] with
        | none =>
          rw [hp] at hl
          cases hL : Gen.PyFns_Range.parse_range_header.loop1 (Cond.splitOnChar ',' (List.drop 1 (List.dropWhile (fun x => x != '=') v)) []) 0 [] with
          | ret r =>
            rw [hL] at hl
            match r, hl with
            | .ok none, _ => simp
          | fall st => rw [hL] at hl; obtain ⟨a, b⟩ := st; simp [summ] at hl
        | some rs =>
          rw [hp] at hl
          have hv : AllValid rs := parseRangeItems_valid _ _ _ _ hp (by intro p hp; simp at hp)
          cases hL : Gen.PyFns_Range.parse_range_header.loop1 (Cond.splitOnChar ',' (List.drop 1 (List.dropWhile (fun x => x != '=') v)) []) 0 [] with
          | ret r =>
            rw [hL] at hl
            match r, hl with
            | .ok none, h => simp [summ] at h
          | fall st =>
            rw [hL] at hl; obtain ⟨a, b⟩ := st
            simp only [summ, Option.some.injEq] at hl
            subst hl
            simp [range_init_ok _ _ hv, Pre.lower, Pre.strip, Cond.lowerA]
    · simp [hm]

/-- `unquote_etag(etag)`, as translated from the current source (falsy input, `strip`, the
`W/` / `w/` prefix through `startswith` with a tuple, the slices `etag[:1] == etag[-1:] == '"'` and
`etag[1:-1]`), returns exactly what the model's `unquoteEtag` returns - `(None, None)` for the
model's `none` - for every text and for `None`. -/
theorem unquote_etag_eq (etag : Option (List Char)) :
    Gen.PyFns_Range.unquote_etag etag =
      match etag with
      | none => (none, none)
      | some s =>
        match Cond.unquoteEtag s with
        | none => (none, none)
        | some (e, w) => (some e, some w) := by
  cases etag with
  | none => rfl
  | some s =>
    show Gen.PyFns_Range.unquote_etag (some s) = match Cond.unquoteEtag s with
      | none => (none, none)
      | some (e, w) => (some e, some w)
    rw [unquoteEtag_spec]
    unfold Gen.PyFns_Range.unquote_etag
    by_cases he : s.isEmpty = true
    · simp [he]
    · have h2 : ∀ l : List Char, slice l (some 2) none = l.drop 2 := fun l => slice_nat_none l 2
      have h1 : ∀ l : List Char, slice l none (some 1) = l.take 1 := fun l => slice_none_nat l 1
      simp only [he, Bool.false_eq_true, if_false, Pre.strip, h2, h1, slice_neg_one_none,
        slice_one_neg_one', quoted_test]
      by_cases hw : (startswith (Py.strip s) ['W', '/'] || startswith (Py.strip s) ['w', '/']) = true
      · simp [hw]
      · simp [hw]

/-- `parse_if_range_header(value)`, as translated from the current source (`IfRange.__init__` is
translated too; `parse_date` stays an opaque function), builds the `IfRange` the model's
`parseIfRange` builds **when the model is given no date for a value spelled like an entity tag**
(`quotedLike`: after `lstrip`, a leading `"`, `W/"` or `w/"` - the test added by 31f8ea0), for every
`parse_date` and every value including `None`. -/
theorem parse_if_range_header_eq (pd : List Char → Option Int) (value : Option (List Char)) :
    Gen.PyFns_Range.parse_if_range_header pd value
      = ifRangeOf (Cond.parseIfRange value
          (value.bind fun v => if quotedLike v then none else pd v)) := by
  unfold Gen.PyFns_Range.parse_if_range_header Cond.parseIfRange
  cases value with
  | none => rfl
  | some v =>
    by_cases he : v.isEmpty = true
    · simp [he, ifRangeOf, Gen.PyFns_Range.if_range_init]
    · have hu := unquote_etag_eq (some v)
      simp only at hu
      simp only [he, Bool.false_eq_true, if_false, Option.bind_some, Gen.PyFns_Range.if_range_init, hu]
      by_cases hq : quotedLike v = true
      · have hq' := hq
        unfold quotedLike at hq'
        simp only [hq', Bool.not_true, Bool.false_eq_true, if_false, hq, if_true]
        cases Cond.unquoteEtag v with
        | none => rfl
        | some p => obtain ⟨e, w⟩ := p; rfl
      · have hq0 : quotedLike v = false := by simpa using hq
        have hq' := hq0
        unfold quotedLike at hq'
        simp only [hq', Bool.not_false, if_true, hq0, Bool.false_eq_true, if_false]
        cases pd v with
        | some d => rfl
        | none =>
          cases Cond.unquoteEtag v with
          | none => rfl
          | some p => obtain ⟨e, w⟩ := p; rfl

/-- `parse_if_range_header(value)`, as translated from the current source, builds exactly the `IfRange`
of the model's `parseIfRangeHeader` (the entry point `isResourceModified` uses; it consults
`parse_date(value)` only for a value that is not spelled like an entity tag), for every `parse_date`
and every value including `None`. -/
theorem parse_if_range_header_eq_model (pd : List Char → Option Int) (value : Option (List Char)) :
    Gen.PyFns_Range.parse_if_range_header pd value
      = ifRangeOf (Cond.parseIfRangeHeader value (value.bind pd)) := by
  rw [parse_if_range_header_eq]
  unfold Cond.parseIfRangeHeader
  cases value with
  | none => rfl
  | some v =>
    simp only [Option.map_some, Option.getD_some, Option.bind_some, looksLikeEtag_eq]

/-- The restriction above is needed: handing the model the raw `parse_date(value)` (as the harness
does for its `cond` / `resp` commands) disagrees with the code as soon as `parse_date` accepts a
quoted text - CPython's does, e.g. `"Wed, 21 Oct 2015 07:28:00 GMT"` with the quotes. Witness with an
abstract date parser that accepts everything: the code reads `"x"` as the entity tag `x`, the model
as a date. (This was a model/code difference of C11's hand model - the code is right; `isResourceModified` now
goes through `parseIfRangeHeader`, see `parse_if_range_header_eq_model`.) -/
theorem parse_if_range_model_needs_unquoted_date :
    Gen.PyFns_Range.parse_if_range_header (fun _ => some 0) (some ['"', 'x', '"'])
      ≠ ifRangeOf (Cond.parseIfRange (some ['"', 'x', '"']) (some 0)) := by decide

example : (Gen.PyFns_Range.parse_range_header (some "Bytes = 0-1, 5-".toList) true).toOption
    = some (some ("bytes ".toList.dropLast, [(0, some 2), (5, none)])) := by decide

end Wz.Props.C11T
