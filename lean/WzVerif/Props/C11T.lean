/-
C11T — the range functions of C11 *as regenerated from werkzeug's source* by `tools/py2lean.py`
(`Gen/PyFns_Range.lean`, rewritten on every check run) are equal, for all inputs, to the
hand-written model functions of `Model/Conditional.lean` that the C11 theorems are about.
A change of the Python source changes the generated definition and breaks these obligations.
Property theorems only (helper lemmas live in Lemmas/PyFns_Range.lean).
-/
import WzVerif.Gen.PyFns_Range
import WzVerif.Model.Conditional
namespace Wz.Props.C11T
open Wz

/-- `werkzeug.http.is_byte_range_valid`, as translated from the current source, computes exactly the
model's `isByteRangeValid` for every `start`, `stop`, `length` (each an unbounded int or `None`).
In particular no argument combination reaches a comparison with `None` (the translation would not
type-check otherwise). -/
theorem is_byte_range_valid_eq (start stop length : Option Int) :
    Gen.PyFns_Range.is_byte_range_valid start stop length
      = Cond.isByteRangeValid start stop length := by
  cases start <;> cases stop <;> cases length <;>
    simp only [Gen.PyFns_Range.is_byte_range_valid, Cond.isByteRangeValid] <;> grind

end Wz.Props.C11T
