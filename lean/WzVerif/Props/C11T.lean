/-
C11T — the range functions of C11 *as regenerated from werkzeug's source* by `tools/py2lean.py`
(`Gen/PyFns_Range.lean`, rewritten on every check run) are equal, for all inputs, to the
hand-written model functions of `Model/Conditional.lean` that the C11 theorems are about.
A change of the Python source changes the generated definition and breaks these obligations.
Property theorems only (helper lemmas live in Lemmas/PyFns_Range.lean).
-/
import WzVerif.Gen.PyFns_Range
import WzVerif.Model.Conditional
namespace Wz.Props.C11T
open Wz

/-- `werkzeug.http.is_byte_range_valid`, as translated from the current source, computes exactly the
model's `isByteRangeValid` for every `start`, `stop`, `length` (each an unbounded int or `None`).
In particular no argument combination reaches a comparison with `None` (the translation would not
type-check otherwise). -/
theorem is_byte_range_valid_eq (start stop length : Option Int) :
    Gen.PyFns_Range.is_byte_range_valid start stop length
      = Cond.isByteRangeValid start stop length := by
  cases start <;> cases stop <;> cases length <;>
    simp only [Gen.PyFns_Range.is_byte_range_valid, Cond.isByteRangeValid] <;> grind

/-- `Range.range_for_length`, as translated from the current source of
`werkzeug/datastructures/range.py` (the unit / `None` / single-range guard, `self.ranges[0]`, the
open-ended and suffix adjustments, the call of `is_byte_range_valid`, `min(end, length)`), never
raises (`self.ranges[0]` is only reached for a one-element list) and returns exactly the model's
`rangeForLength`, for every unit text, every list of `(begin, end)` pairs and every length. -/
theorem range_for_length_eq (units : List Char) (ranges : List (Int × Option Int))
    (length : Option Int) :
    Gen.PyFns_Range.range_for_length units ranges length
      = .ok (Cond.rangeForLength ⟨units, ranges⟩ length) := by
  unfold Gen.PyFns_Range.range_for_length Cond.rangeForLength
  cases length with
  | none => rfl
  | some l =>
    simp only [is_byte_range_valid_eq]
    match ranges with
    | [] => simp
    | [(s, e)] => cases e <;> simp [Pre.getItem, Cond.bytesUnit] <;> grind
    | _ :: _ :: _ => simp <;> grind

example : (Gen.PyFns_Range.range_for_length "bytes".toList [(-3, none)] (some 10)).toOption
    = some (some (7, 10)) := by decide

end Wz.Props.C11T
