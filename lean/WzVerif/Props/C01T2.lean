/-
C01T2 — C01T continued: `MultipartDecoder._parse_data`, `_parse_headers` and `next_event` *as regenerated
from the source* by `tools/py2lean.py` (`Gen/PyFns_Decoder.lean`, rewritten on every check run) equal the
hand-written model the C01 (and C10) theorems are about (`Model/Multipart.lean`: `parseData`,
`parseHeaders`, `nextEvent`), for every decoder state and buffer. The regex calls go through the
model's hand-written matchers (`lbLen`, `searchDelim`, `searchDelimFrom`, `searchBlankFrom`: glue at the
top of the generated file; compared with the live regexes by stream regex-kernels), `parse_options_header`
is a parameter instantiated with `FormOptions.parseOptionsHeader`. `next_event_eq` is one equality for
every decoder: the returned event / exception is the model's, the four attributes the method assigns
(`buffer`, `state`, `_search_position`, `_parts_decoded`) are the model's after a return, and after a
raise the values assigned before the `raise` (`raisedSt`, replayed on the real code).
Property theorems only: the proofs live in Lemmas/PyFnsEq_Decoder.lean.
-/
import WzVerif.Lemmas.PyFnsEq_Decoder
namespace Wz.Props.C01T2
open Wz Wz.Multipart Wz.Gen.PyFns_Decoder Wz.PyFnsEq.Decoder

/-- the model's `nextEvent` changes nothing but buffer, state, search position and part counter:
boundary, `complete` and the two limits of the returned decoder are those of the given one -/
theorem nextEvent_frame {d d' : Decoder} {ev : Event} (h : nextEvent d = .ok (ev, d')) :
    d'.boundary = d.boundary ∧ d'.complete = d.complete ∧ d'.maxMem = d.maxMem ∧ d'.maxParts = d.maxParts := by
  apply PyFnsEq.Decoder.nextEvent_frame <;> assumption

/-- `MultipartDecoder._parse_data(data, start=…)` as translated from the current source, for any
`data` and any `self.buffer`: `AttributeError` when `start` and `data` does not begin with a line
break (`LINE_BREAK_RE.match` returned `None`); otherwise the payload is `data[data_start:data_end]`,
`del_index` and `more_data` are as `dataCutG` computes them (`self.buffer` is only asked whether it
contains `--boundary`), and `self.state` becomes EPILOGUE / PART exactly when `boundary_re` matched
(closing / not closing delimiter) and is left alone otherwise. -/
theorem parse_data_general (st : State) (bnd data buf : Bytes) (start : Bool) :
    parse_data st data start bnd buf =
      if start && lbLen data == 0 then (st, .error "AttributeError")
      else
        ((match (dataCutG bnd data buf).2.2 with | some f => afterDelim f | none => st),
          .ok (((data.take (dataCutG bnd data buf).1).drop (if start then lbLen data else 0)),
            ((dataCutG bnd data buf).2.1 : Int), (dataCutG bnd data buf).2.2.isNone)) := by
  apply PyFnsEq.Decoder.parse_data_general <;> assumption

/-- `MultipartDecoder._parse_data(self.buffer, start=…)` as translated from the current source (the
way `next_event` calls it: `data` is `self.buffer`) is the model's `parseData`: the same exception,
or the same payload, `del_index` and `more_data` (`more_data` = no delimiter recognised), and
`self.state` is assigned EPILOGUE / PART exactly when the model reports a closing / non-closing
delimiter and keeps its value otherwise. -/
theorem parse_data_eq (st : State) (bnd buf : Bytes) (start : Bool) :
    parse_data st buf start bnd buf =
      match parseData bnd buf start with
      | .error e => (st, .error e)
      | .ok r => ((match r.next with | some f => afterDelim f | none => st),
                  .ok (r.payload, (r.delIndex : Int), r.next.isNone)) := by
  apply PyFnsEq.Decoder.parse_data_eq <;> assumption

/-- the `for line in data.splitlines():` loop of `_parse_headers`, started with the headers `acc`
collected so far: it returns from inside the loop with `UnicodeDecodeError` exactly when the model's
fold over the stripped non-empty lines fails, and otherwise runs to its end having appended the
model's `(name, value)` pairs to `acc` in order -/
theorem parse_headers_loop_eq (L : List Bytes) (acc : Headers) :
    parse_headers.loop1 L acc =
      match ((L.map stripBytes).filter (!·.isEmpty)).foldr hdrStep (.ok []) with
      | .error _ => .ret (.error "UnicodeDecodeError")
      | .ok hs => .fall (acc ++ hs) := by
  apply PyFnsEq.Decoder.parse_headers_loop_eq <;> assumption

/-- `MultipartDecoder._parse_headers(data)` as translated from the current source is the model's
`parseHeaders data` for every byte string: the continuation lines are folded, every line is stripped,
empty lines are skipped, a line that is not UTF-8 raises `UnicodeDecodeError`, and otherwise the
headers are the stripped texts before and after the first `:` of every line, in order. -/
theorem parse_headers_eq (data : Bytes) : parse_headers data = parseHeaders data := by
  apply PyFnsEq.Decoder.parse_headers_eq <;> assumption

/-- `next_event()` in state PREAMBLE: when `preamble_re` matches from `_search_position` on, the
Preamble event, the deletion up to the end of the match, the new state and `_search_position = 0`
are the model's; when it does not match, `_search_position` becomes the model's `nextSearchPos`
(the `max` / `rfind` / `min` computation) and the call returns NEED_DATA, or raises `ValueError`
when the input is complete. -/
theorem next_event_preamble (d : Decoder) (hs : d.state = .preamble) :
    nextEventT d = view d (nextEvent d) := by
  apply PyFnsEq.Decoder.next_event_preamble <;> assumption

/-- `next_event()` in state PART: without a blank line only `_search_position` moves; with one, the
exceptions come in the model's order (`_parse_headers`, missing Content-Disposition,
`parse_options_header`, `RequestEntityTooLarge` for too many parts), and otherwise the Field / File
event, the deletion of the header block, state DATA_START, `_search_position = 0` and the part
counter are the model's. -/
theorem next_event_part (d : Decoder) (hs : d.state = .part) :
    nextEventT d = view d (nextEvent d) := by
  apply PyFnsEq.Decoder.next_event_part <;> assumption

/-- `next_event()` in state DATA_START: `_parse_data(self.buffer, start=True)`; nothing is consumed
and NEED_DATA is answered while `del_index == 0` (then no delimiter was recognised, so `self.state`
is untouched); otherwise the Data event, the deletion and the new state (DATA, or the state
`_parse_data` assigned) are the model's. -/
theorem next_event_dataStart (d : Decoder) (hs : d.state = .dataStart) :
    nextEventT d = view d (nextEvent d) := by
  apply PyFnsEq.Decoder.next_event_dataStart <;> assumption

/-- `next_event()` in state DATA: `_parse_data(self.buffer, start=False)`, the deletion of
`del_index` bytes, a Data event unless the payload is empty and more data is expected, and the state
`_parse_data` assigned (or DATA) - all as in the model. -/
theorem next_event_data (d : Decoder) (hs : d.state = .data) :
    nextEventT d = view d (nextEvent d) := by
  apply PyFnsEq.Decoder.next_event_data <;> assumption

/-- `next_event()` in state EPILOGUE: once the input is complete the whole buffer is the Epilogue
event, the buffer is emptied and the state becomes COMPLETE; before that NEED_DATA. -/
theorem next_event_epilogue (d : Decoder) (hs : d.state = .epilogue) :
    nextEventT d = view d (nextEvent d) := by
  apply PyFnsEq.Decoder.next_event_epilogue <;> assumption

/-- `next_event()` in state COMPLETE: NEED_DATA, or `ValueError` when the input is complete; nothing
is assigned. -/
theorem next_event_complete (d : Decoder) (hs : d.state = .complete) :
    nextEventT d = view d (nextEvent d) := by
  apply PyFnsEq.Decoder.next_event_complete <;> assumption

/-- **`MultipartDecoder.next_event()` as translated from the current source is the model's
`nextEvent`**, for every decoder: the same event on a normal return, the same exception class
otherwise (with several possible exceptions raised in the same order), and the four attributes the
method assigns (`buffer`, `state`, `_search_position`, `_parts_decoded`) are afterwards those of the
decoder the model returns - or, when the call raises, those described by `raisedSt`. -/
theorem next_event_eq (d : Decoder) : nextEventT d = view d (nextEvent d) := by
  apply PyFnsEq.Decoder.next_event_eq <;> assumption

/-- what the translated `next_event` returns or raises is, for every decoder, what the model's
`nextEvent` returns (its event) or raises -/
theorem next_event_result_eq (d : Decoder) :
    (nextEventT d).2 = (nextEvent d).map (·.1) := by
  apply PyFnsEq.Decoder.next_event_result_eq <;> assumption

/-- when the model's `nextEvent` returns normally with the decoder `d'`, the translated `next_event`
leaves `buffer`, `state`, `_search_position` and `_parts_decoded` as in `d'` (`nextEvent_frame`: the
other fields of `d'` are those of `d`) -/
theorem next_event_state_eq {d d' : Decoder} {ev : Event} (h : nextEvent d = .ok (ev, d')) :
    (nextEventT d).1 = toSt d' := by
  apply PyFnsEq.Decoder.next_event_state_eq <;> assumption

/-- when the model's `nextEvent` raises, the translated `next_event` leaves the four attributes as
`raisedSt` describes (the assignments made before the `raise` are kept) -/
theorem next_event_raised_state_eq {d : Decoder} {e : String} (h : nextEvent d = .error e) :
    (nextEventT d).1 = raisedSt d := by
  apply PyFnsEq.Decoder.next_event_raised_state_eq <;> assumption


end Wz.Props.C01T2
