/- C03 property theorems (not written yet) -/
namespace Wz.Props.C03
end Wz.Props.C03
