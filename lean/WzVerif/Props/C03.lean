/-
C03 — URL matching agrees with the declarative meaning of the rules.

Model: `Model/Routing*.lean` (rule compilation, the state machine matcher with exactly the code's
control flow, `MapAdapter.match`). Reference: `Model/RoutingSpec.lean` — `walkVia` / `admits`, a
recogniser for one rule at a time, independent of every other rule, and the specificity order.
All theorems are about arbitrary rule lists, paths, methods: no bound anywhere.
Helper lemmas: `Lemmas/Routing*.lean`.
-/
import WzVerif.Lemmas.RoutingTop
import WzVerif.Lemmas.RoutingPriority
import WzVerif.Lemmas.RoutingRedirect
import WzVerif.Gen.RoutingSamples
import WzVerif.Gen.RoutingParts
import WzVerif.Gen.RoutingGlue
import WzVerif.Model.RoutingParts
namespace Wz.Props.C03
open Wz Wz.Routing

/-! ### generated tables -/

/-- class-level `weight` / `part_isolating` of the model, by registered name -/
def classWeight : String → Nat
  | "path" => 200
  | "int" => 50
  | "float" => 50
  | _ => 100

def classIsolating : String → Bool
  | "path" => false
  | _ => true

/-- The live `DEFAULT_CONVERTERS` table (name, class regex, weight, part_isolating; regenerated on
every run) is the table the model uses. -/
theorem conv_table_matches_model :
    Gen.Routing.convTable.all (fun (n, re, w, pi) => classRegex n == re && classWeight n == w && classIsolating n == pi) = true ∧
    Gen.Routing.convTable.map (·.1) = ["default", "string", "any", "path", "int", "float", "uuid"] := by
  decide +kernel

/-- ... and the model's per-instance weight / part_isolating are the class-level ones. -/
theorem conv_weight_by_class (c : Conv) :
    c.weight = classWeight c.className ∧ c.partIsolating = classIsolating c.className := by
  cases c <;> exact ⟨rfl, rfl⟩

/-- Instantiated live converters (string with length options, int/float with signed, fixed_digits,
min/max, any with special characters, uuid, path): the regex text, weight and part_isolating the
model computes are the live ones. -/
theorem conv_samples_match_model :
    Gen.RoutingSamples.samples.all (fun (c, re, w, pi) => c.regexText == re && c.weight == w && c.partIsolating == pi) = true := by
  decide +kernel

/-- **part_anchor_matches_model.** The live compiled part regexes of `Rule('/<conv:v>' + post)` (from
`_parse_rule`, for every sample converter, with and without a literal suffix) are anchored at the very
end exactly as the model's `matchDyn` is: on a valid value they match; with LF / CR / VT appended,
LF inserted or LF in front they match exactly when the model says so — in particular a trailing
newline is never swallowed by the anchor (`\Z`, not `$`). -/
theorem part_anchor_matches_model :
    Gen.RoutingSamples.anchorProbes.all (fun (c, post, target, live) =>
      (matchDyn [] c.kind post.toList false target.toList).isSome == live) = true := by
  decide +kernel

/-- the regex text of a part depends on the converter through its `RKind` only -/
theorem kind_regex_text (c : Conv) : c.kind.regexText = c.regexText := by
  cases c with
  | string mn mx ln => cases ln <;> rfl
  | _ => rfl

/-- **part_table_matches_model.** `Rule._parse_rule` / `compile` of the current source, run on sample rules
covering the property's grammar (literal and decorated variable segments, every converter class, path
converter final / with tail / branch, doubled slashes with merge_slashes on), yields exactly the parts
the model's `parseRule` computes: same number of parts, same `content` regex text (escaping, group
name, `(?<!/)(/?)` suffix, `\Z` anchor), same `final` / `static` / `suffixed` flags and the same `Weighting`
(number and list of static weights, number and list of argument weights). -/
theorem part_table_matches_model :
    Gen.RoutingParts.parts.all (fun (mg, toks, rows) =>
      (parseRule (if mg then mergeSlashToks toks else toks)).map (fun r => r.1.map Part.row) == some rows) = true := by
  decide +kernel

/-- **merge_regex_matches_model.** Every slash-merging `re.sub` of the routing sources uses the literal
`/{2,}?` (lazy: pairs of slashes, left to right), and on the sample paths the live `re.sub` gives what
the model's `mergeSlashes` computes. -/
theorem merge_regex_matches_model :
    Gen.RoutingParts.merges.all (fun (lit, s, out) =>
      lit == "/{2,}?" && String.ofList (mergeSlashes s.toList) == out) = true ∧
    Gen.RoutingParts.merges.length = 12 := by
  decide +kernel

/-- **match_skeleton_pinned.** The control skeleton of the inner `_match` of `StateMachineMatcher.match` in the
current source — every branching condition, loop header, `raise` and `return`, in order — is the one the
model's `dfs` / `scanRules` / `slashCheck` transcribe: the exact-match loop tests the method set, then the
websocket flag; the "would match with an additional slash" probe requires the websocket flag AND the
method set (`ruleOK`) before `strict_slashes` decides between `SlashRequired` and a match; static
transitions before dynamic ones; the `parts == [""]` fallback skips strict rules. -/
theorem match_skeleton_pinned :
    Gen.RoutingGlue.matchSkeleton =
      ["if parts == []",
       "for rule in state.rules",
       "if rule.methods is not None and method not in rule.methods",
       "if rule.websocket != websocket",
       "return (rule, values)",
       "if '' in state.static",
       "for rule in state.static[''].rules",
       "if websocket == rule.websocket and (rule.methods is None or method in rule.methods)",
       "if rule.strict_slashes",
       "raise SlashRequired()",
       "return (rule, values)",
       "return None",
       "if part in state.static",
       "if rv is not None",
       "return rv",
       "for (test_part, new_state) in state.dynamic",
       "if test_part.final",
       "if match is not None",
       "if test_part.suffixed",
       "if suffix == '/'",
       "if rv is not None",
       "return rv",
       "if parts == ['']",
       "for rule in state.rules",
       "if rule.strict_slashes",
       "if rule.methods is not None and method not in rule.methods",
       "if rule.websocket != websocket",
       "return (rule, values)",
       "return None"] := by
  decide +kernel

/-- `.` (the path converter's `.*?`) rejects exactly LF in the live `re`. -/
theorem dot_rejects_lf : Gen.Routing.dotRejects = [10] := by decide

/-! ### conversions: regex acceptance implies `to_python` success (outside the F03 family) -/

/-- For string, any, uuid, path, float without min/max and int without fixed_digits/min/max,
`to_python` succeeds on every text (in particular on every text the regex accepts). -/
theorem toPython_total (c : Conv) (h : c.total = true) (s : Str) (_ : regexAccepts c s = true) :
    (toPython c s).isSome = true :=
  Conv.total_ok h s

example : (Conv.int 0 true none none).total = true ∧ regexAccepts (.int 0 true none none) "-12".toList = true := by
  decide +kernel

/-- The complement is real: `int(fixed_digits=3)` and `int(max=5)` reject text their regex accepts. -/
theorem toPython_partial_witness :
    regexAccepts (.int 3 false none none) "12".toList = true ∧ toPython (.int 3 false none none) "12".toList = none ∧
    regexAccepts (.int 0 false none (some 5)) "12".toList = true ∧ toPython (.int 0 false none (some 5)) "12".toList = none := by
  decide +kernel

/-! ### soundness -/

/-- **match_sound.** Whatever `MapAdapter.match` returns — a rule with converted values — that rule
is one of the map's (non-`build_only`) rules and, taken alone, admits the request path for the
request method with exactly those values. -/
theorem match_sound {cfg : MapCfg} {specs : List RuleSpec} {m : RMap} (hm : mkMap cfg specs = some m)
    (a : Adapter) (pathInfo : Str) (method : Option Str) (qa : QueryArgs) (ws : Option Bool)
    {r : Rule} {vals : List (Str × Value)}
    (h : matchAdapter m a pathInfo method qa ws = .matched r vals) :
    r ∈ m.rules ∧ r.spec.buildOnly = false ∧
      admits r (reqOf a method ws) (domainPartOf m.cfg a) (pathPart pathInfo) = some vals := by
  have hb := mkMap_built hm
  obtain ⟨vs, hfound, res, hres, hvals⟩ := matchSM_ok_inv (matchAdapter_matched_inv h)
  have hs := dfs_sound (reqOf a method ws) m.root (segments (domainPartOf m.cfg a) (pathPart pathInfo)) []
  rw [hfound] at hs
  obtain ⟨hok, ps, vs', via, hi, hv, hw, ha⟩ := hs
  rw [hb.root_eq, inTrie_buildRoot] at hi
  obtain ⟨hmem, hbo, rfl⟩ := hi
  refine ⟨hmem, hbo, ?_⟩
  simp only [List.nil_append] at hv
  subst hv
  simp [admits, hok, admitsGroups_of_walkVia hw ha, hres, hvals]

/-- the adapter of the examples: `map.bind("example.org")` -/
def adapter0 : Adapter :=
  { serverName := "example.org".toList, scriptName := "/".toList, subdomain := some [], urlScheme := "http".toList,
    defaultMethod := "GET".toList, queryArgs := .none }

/-- outcome of `Map(specs, **cfg).bind("example.org").match(path, method)` -/
def run (cfg : MapCfg) (specs : List RuleSpec) (path : String) (method : String) : Outcome :=
  match mkMap cfg specs with
  | some m => matchAdapter m adapter0 path.toList (some method.toList) .none none
  | none => .error "unsupported"

def specsF03 : List RuleSpec :=
  [ { toks := [.slash, .var (.int 3 false none none) "x".toList], endpoint := "a".toList },
    { toks := [.slash, .var (.string 1 none none) "y".toList], endpoint := "b".toList } ]

-- non-vacuity: `/123` is matched on the F03 map
example : (run {} specsF03 "/123" "GET").isMatched = true := by decide +kernel

/-! ### NotFound -/

/-- **match_notfound_only_if_partial.** When `MapAdapter.match` raises `NotFound`, no rule of the map
admits the path — directly or through an extra final slash — for ANY method or protocol; no rule
admits it in any way for the request method; and no strict branch rule fit for the request would admit
it with a final slash added (no redirect was due).
Hypotheses: `ConvOK` — every converter's `to_python` accepts what its regex accepts (proved for all
converters without fixed_digits/min/max, `convOK_of_total`; the complement is finding F03) — and
method sets are non-empty when given. -/
theorem match_notfound_only_if_partial {cfg : MapCfg} {specs : List RuleSpec} {m : RMap}
    (hm : mkMap cfg specs = some m) (hconv : ConvOK m.rules) (hmeth : ∀ r ∈ m.rules, r.methodsOK = true)
    (a : Adapter) (pathInfo : Str) (method : Option Str) (qa : QueryArgs) (ws : Option Bool)
    (h : matchAdapter m a pathInfo method qa ws = .notFound) :
    ∀ r ∈ m.rules, r.spec.buildOnly = false →
      NotAdmitted r (reqOf a method ws) (domainPartOf m.cfg a) (pathPart pathInfo) := by
  have hb := mkMap_built hm
  obtain ⟨hres, hrest⟩ := first_search_none hb hconv (matchAdapter_notFound_inv h)
  apply notAdmitted_of_none hb hmeth hres
  · rcases hrest with ⟨_, h2, _⟩ | ⟨_, h2, _⟩
    · exact h2.symm
    · exact (List.append_eq_nil_iff.1 h2.symm).1
  · rcases hrest with ⟨_, _, h3⟩ | ⟨_, _, h3⟩
    · exact h3.symm
    · have := h3.symm; simp only [Bool.or_eq_false_iff] at this; exact this.1

def specsPlain : List RuleSpec :=
  [ { toks := [.slash, .var (.int 0 false none none) "x".toList], endpoint := "a".toList },
    { toks := [.slash, .lit "a".toList, .slash], endpoint := "b".toList, methods := some ["POST".toList] } ]

-- non-vacuity: a map with total converters and non-empty method sets, and a path that is NotFound
example : (run {} specsPlain "/zz/y" "GET").isNotFound = true ∧
    (match mkMap {} specsPlain with
     | some m => m.rules.all (fun r => r.convTotal && r.methodsOK)
     | none => false) = true := by decide +kernel

/-- **F03 (negation witness).** Without the conversion hypothesis the statement is false on the
unchanged code: `Map([Rule('/<int(fixed_digits=3):x>'), Rule('/<string:y>')])`, `/12` raises
`NotFound` although the string rule admits the path (the int rule is selected first, its `to_python`
rejects `12`, and the search does not backtrack). -/
theorem match_notfound_only_if_full_false :
    ¬ (∀ (cfg : MapCfg) (specs : List RuleSpec) (m : RMap) (a : Adapter) (p : Str),
        mkMap cfg specs = some m → (∀ r ∈ m.rules, r.methodsOK = true) →
        matchAdapter m a p none .none none = .notFound →
        ∀ r ∈ m.rules, admitsPath r (domainPartOf m.cfg a) (pathPart p) = false) := by
  intro H
  have hw : (match mkMap {} specsF03 with
      | some m => (matchAdapter m adapter0 "/12".toList none .none none).isNotFound &&
          m.rules.all (fun r => r.methodsOK) &&
          m.rules.any (fun r => admitsPath r (domainPartOf m.cfg adapter0) (pathPart "/12".toList))
      | none => false) = true := by decide +kernel
  cases hmk : mkMap {} specsF03 with
  | none => simp [hmk] at hw
  | some m =>
    simp only [hmk, Bool.and_eq_true, List.all_eq_true, List.any_eq_true] at hw
    obtain ⟨⟨h1, h2⟩, r, hr, h3⟩ := hw
    have := H {} specsF03 m adapter0 "/12".toList hmk h2 (Outcome.eq_notFound h1) r hr
    rw [this] at h3; cases h3

def specsF03b : List RuleSpec :=
  [ { toks := [.slash, .lit "a".toList, .slash], endpoint := "a".toList, methods := some ["POST".toList] } ]

/-- **F03b (negation witness).** `NotFound` does not exclude that a rule admits the path for another
method in the `noslash` way: `Map([Rule('/a/', methods=['POST'])], strict_slashes=False)`: `POST /a`
is matched by the rule, `GET /a` raises `NotFound` (not `MethodNotAllowed`). Hence the theorem above
speaks of direct / extra-slash admission for any method and of every admission for the request method. -/
theorem match_notfound_any_method_full_false :
    ¬ (∀ (cfg : MapCfg) (specs : List RuleSpec) (m : RMap) (a : Adapter) (p : Str) (q' : Req),
        mkMap cfg specs = some m → ConvOK m.rules → (∀ r ∈ m.rules, r.methodsOK = true) →
        matchAdapter m a p none .none none = .notFound →
        ∀ r ∈ m.rules, admits r q' (domainPartOf m.cfg a) (pathPart p) = none) := by
  intro H
  have hw : (match mkMap { strictSlashes := false } specsF03b with
      | some m => (matchAdapter m adapter0 "/a".toList none .none none).isNotFound &&
          m.rules.all (fun r => r.methodsOK && r.convTotal) &&
          m.rules.any (fun r => (admits r ⟨"POST".toList, false⟩ (domainPartOf m.cfg adapter0) (pathPart "/a".toList)).isSome)
      | none => false) = true := by decide +kernel
  cases hmk : mkMap { strictSlashes := false } specsF03b with
  | none => simp [hmk] at hw
  | some m =>
    simp only [hmk, Bool.and_eq_true, List.all_eq_true, List.any_eq_true] at hw
    obtain ⟨⟨h1, h2⟩, r, hr, h3⟩ := hw
    have := H _ specsF03b m adapter0 "/a".toList ⟨"POST".toList, false⟩ hmk
      (convOK_of_total (fun r hr => (h2 r hr).2)) (fun r hr => (h2 r hr).1) (Outcome.eq_notFound h1) r hr
    rw [this] at h3; cases h3


/-! ### MethodNotAllowed -/

/-- **match_405_iff_partial.** `MapAdapter.match` raises `MethodNotAllowed` exactly when no rule admits
the path for the request (in any way, and no slash redirect is due) while some rule admits it
— directly or through an extra final slash — for another method.
Hypotheses: `ConvOK` (F03), non-empty method sets, and the path is not subject to slash merging
(`NoMerge`: with merging the second pass adds the methods of rules admitting the merged path).
The `noslash` admissions of non-strict branch rules are not counted by the code: finding F03b,
`match_405_full_false` below. -/
theorem match_405_iff_partial {cfg : MapCfg} {specs : List RuleSpec} {m : RMap}
    (hm : mkMap cfg specs = some m) (hconv : ConvOK m.rules) (hmeth : ∀ r ∈ m.rules, r.methodsOK = true)
    (a : Adapter) (pathInfo : Str) (method : Option Str) (qa : QueryArgs) (ws : Option Bool)
    (hnm : NoMerge m (pathPart pathInfo)) :
    (∃ ms, matchAdapter m a pathInfo method qa ws = .methodNotAllowed ms) ↔
      ((∀ r ∈ m.rules, r.spec.buildOnly = false →
          admits r (reqOf a method ws) (domainPartOf m.cfg a) (pathPart pathInfo) = none ∧
          (ruleOK (reqOf a method ws) r = true → wantsSlash r (domainPartOf m.cfg a) (pathPart pathInfo) = false)) ∧
       ∃ r ∈ m.rules, r.spec.buildOnly = false ∧
          AdmitsOtherMethod r (reqOf a method ws) (domainPartOf m.cfg a) (pathPart pathInfo)) := by
  have hb := mkMap_built hm
  have hwf : WF m.root := by rw [hb.root_eq]; exact WF.buildRoot _
  constructor
  · rintro ⟨ms, h⟩
    obtain ⟨ms0, wsm, hsm, hne, _⟩ := matchAdapter_405_inv h
    obtain ⟨hres, hrest⟩ := first_search_none hb hconv hsm
    constructor
    · intro r hr hbo
      have hi : InTrie m.root r.parts r := by rw [hb.root_eq, inTrie_buildRoot]; exact ⟨hr, hbo, rfl⟩
      have hcomp := dfs_complete (reqOf a method ws) m.root hwf _ _ hres r.parts r
      constructor
      · simp only [admits]
        split
        · rename_i hok
          have h1 := hcomp .direct hi hok (by intro h; cases h)
          have h3 := hcomp .noslash hi hok (by intro h; cases h)
          simp only [admitsGroups, h1]
          cases hs : r.strict with
          | true => simp
          | false => simp [hcomp .trailing hi hok (fun _ => hs), h3]
        · rfl
      · intro hok
        simp [wantsSlash, hcomp .noslash hi hok (by intro h; cases h)]
    · -- some method was recorded by the first search
      have hms1 : (dfs (reqOf a method ws) m.root (segments (domainPartOf m.cfg a) (pathPart pathInfo)) []).ms ≠ [] := by
        rcases hrest with ⟨_, h2, _⟩ | ⟨_, h2, _⟩
        · rw [← h2]; exact hne
        · rcases hnm with h | h
          · rename_i hmg _; rw [h] at hmg; cases hmg
          · rw [h] at h2
            intro h0; rw [h0] at h2; exact hne h2
      obtain ⟨x, hx⟩ := List.exists_mem_of_ne_nil _ hms1
      obtain ⟨ps, r, via, hi, hmo, _, hc, hw⟩ := dfs_ms_sound _ _ _ _ _ hx
      rw [hb.root_eq, inTrie_buildRoot] at hi
      obtain ⟨hmem, hbo, rfl⟩ := hi
      exact ⟨r, hmem, hbo, admitsPath_iff.2 ⟨via, hc, hw⟩, hmo⟩
  · rintro ⟨hnone, r, hr, hbo, hadm, hmo⟩
    -- the first search returns None: anything else would be justified by an admitting rule
    have hres : (dfs (reqOf a method ws) m.root (segments (domainPartOf m.cfg a) (pathPart pathInfo)) []).res = .none := by
      have hs := dfs_sound (reqOf a method ws) m.root (segments (domainPartOf m.cfg a) (pathPart pathInfo)) []
      cases hr' : (dfs (reqOf a method ws) m.root (segments (domainPartOf m.cfg a) (pathPart pathInfo)) []).res with
      | none => rfl
      | found r' vs =>
        exfalso
        rw [hr'] at hs
        obtain ⟨hok, ps, vs', via, hi, hv, hw, ha⟩ := hs
        rw [hb.root_eq, inTrie_buildRoot] at hi
        obtain ⟨hmem, hbo', rfl⟩ := hi
        have hadm' := (hnone r' hmem hbo').1
        simp only [admits, hok, if_true, admitsGroups_of_walkVia hw ha] at hadm'
        have hacc := walkVia_accepts hw
        rw [hb.kinds r' hmem] at hacc
        have := convertValues_isSome hacc (hconv r' hmem)
        cases hcv : convertValues r'.convs vs' with
        | none => rw [hcv] at this; cases this
        | some res => simp [hcv] at hadm'
      | slash =>
        exfalso
        rw [hr'] at hs
        obtain ⟨r', ps, vs', hi, hok, hst, hw⟩ := hs
        rw [hb.root_eq, inTrie_buildRoot] at hi
        obtain ⟨hmem, hbo', rfl⟩ := hi
        have := (hnone r' hmem hbo').2 hok
        simp [wantsSlash, hst, hw] at this
    obtain ⟨ms0, wsm, hsm, hmem0⟩ := matchSM_of_first_none (q := reqOf a method ws) (dom := domainPartOf m.cfg a) hnm hres
    have hi : InTrie m.root r.parts r := by rw [hb.root_eq, inTrie_buildRoot]; exact ⟨hr, hbo, rfl⟩
    obtain ⟨via, hc, hw⟩ := admitsPath_iff.1 hadm
    obtain ⟨h1, _⟩ := dfs_acc_complete (reqOf a method ws) m.root hwf _ _ hres r.parts r via hi hc hw
    -- the rule's method set is non-empty
    have hmr := hmeth r hr
    simp only [Rule.methodsOK] at hmr
    have hne : ms0 ≠ [] := by
      cases hmm : r.methods with
      | none => simp [methodOK, hmm] at hmo
      | some ms =>
        simp only [hmm] at hmr
        cases ms with
        | nil => simp at hmr
        | cons x t =>
          have := (hmem0 x).2 (h1 hmo x (by simp [hmm]))
          intro h0; rw [h0] at this; cases this
    exact ⟨_, matchAdapter_of_noMatch hsm hne⟩

/-- **match_405_methods_partial.** The methods listed by `MethodNotAllowed` are exactly the union of the
method sets of the rules that admit the path for another method. -/
theorem match_405_methods_partial {cfg : MapCfg} {specs : List RuleSpec} {m : RMap}
    (hm : mkMap cfg specs = some m) (hconv : ConvOK m.rules)
    (a : Adapter) (pathInfo : Str) (method : Option Str) (qa : QueryArgs) (ws : Option Bool)
    (hnm : NoMerge m (pathPart pathInfo)) {ms : List Str}
    (h : matchAdapter m a pathInfo method qa ws = .methodNotAllowed ms) :
    ∀ x, x ∈ ms ↔ ∃ r ∈ m.rules, r.spec.buildOnly = false ∧
      AdmitsOtherMethod r (reqOf a method ws) (domainPartOf m.cfg a) (pathPart pathInfo) ∧ x ∈ r.methods.getD [] := by
  have hb := mkMap_built hm
  have hwf : WF m.root := by rw [hb.root_eq]; exact WF.buildRoot _
  obtain ⟨ms0, wsm, hsm, hne, rfl⟩ := matchAdapter_405_inv h
  obtain ⟨hres, hrest⟩ := first_search_none hb hconv hsm
  have hms : ∀ x, x ∈ ms0 ↔ x ∈ (dfs (reqOf a method ws) m.root (segments (domainPartOf m.cfg a) (pathPart pathInfo)) []).ms := by
    intro x
    rcases hrest with ⟨_, h2, _⟩ | ⟨hmg, h2, _⟩
    · rw [h2]
    · rcases hnm with h | h
      · rw [h] at hmg; cases hmg
      · rw [h2, h]; simp
  intro x
  rw [List.mem_eraseDups, hms]
  constructor
  · intro hx
    obtain ⟨ps, r, via, hi, hmo, hxm, hc, hw⟩ := dfs_ms_sound _ _ _ _ _ hx
    rw [hb.root_eq, inTrie_buildRoot] at hi
    obtain ⟨hmem, hbo, rfl⟩ := hi
    exact ⟨r, hmem, hbo, ⟨admitsPath_iff.2 ⟨via, hc, hw⟩, hmo⟩, hxm⟩
  · rintro ⟨r, hr, hbo, ⟨hadm, hmo⟩, hxm⟩
    have hi : InTrie m.root r.parts r := by rw [hb.root_eq, inTrie_buildRoot]; exact ⟨hr, hbo, rfl⟩
    obtain ⟨via, hc, hw⟩ := admitsPath_iff.1 hadm
    exact (dfs_acc_complete (reqOf a method ws) m.root hwf _ _ hres r.parts r via hi hc hw).1 hmo x hxm

def specsMerge405 : List RuleSpec :=
  [ { toks := [.slash, .lit "a".toList, .slash, .lit "b".toList], endpoint := "b".toList, methods := some ["POST".toList] } ]

/-- **`NoMerge` is necessary (negation witness).** With merge_slashes on, the second pass runs on the
merged path and adds the methods of the rules that admit THAT path: `Map([Rule('/a/b', methods=['POST'])])`,
`GET /a//b` raises `MethodNotAllowed(['POST'])` although no rule admits `/a//b` itself, for any method
(`POST /a//b` is redirected to `/a/b`). So "405 exactly when rules admit the path but none for the
method" holds for the path as requested only when it is not subject to slash merging. -/
theorem match_405_iff_nomerge_needed :
    ¬ (∀ (cfg : MapCfg) (specs : List RuleSpec) (m : RMap) (a : Adapter) (p : Str) (meth : Str),
        mkMap cfg specs = some m → ConvOK m.rules → (∀ r ∈ m.rules, r.methodsOK = true) →
        (matchAdapter m a p (some meth) .none none).is405 = true →
        ∃ r ∈ m.rules, admitsPath r (domainPartOf m.cfg a) (pathPart p) = true) := by
  intro H
  have hw : (match mkMap {} specsMerge405 with
      | some m => (matchAdapter m adapter0 "/a//b".toList (some "GET".toList) .none none).is405 &&
          m.rules.all (fun r => r.methodsOK && r.convTotal &&
            !admitsPath r (domainPartOf m.cfg adapter0) (pathPart "/a//b".toList)) &&
          (matchAdapter m adapter0 "/a//b".toList (some "POST".toList) .none none).isRedirect
      | none => false) = true := by decide +kernel
  cases hmk : mkMap {} specsMerge405 with
  | none => simp [hmk] at hw
  | some m =>
    simp only [hmk, Bool.and_eq_true, List.all_eq_true, Bool.not_eq_true'] at hw
    obtain ⟨⟨h1, h2⟩, _⟩ := hw
    obtain ⟨r, hr, hadm⟩ := H {} specsMerge405 m adapter0 "/a//b".toList "GET".toList hmk
      (convOK_of_total (fun r hr => (h2 r hr).1.2)) (fun r hr => (h2 r hr).1.1) h1
    rw [(h2 r hr).2] at hadm; cases hadm

-- non-vacuity: `PUT /a/` on a map with `Rule('/a/', methods=['POST'])` is a 405, no merging involved
example : (run {} specsPlain "/a/" "PUT").is405 = true ∧ mergeSlashes (pathPart "/a/".toList) = pathPart "/a/".toList := by
  decide +kernel

/-- **F03b (negation witness).** Counting every admission — also the `noslash` one of a non-strict
branch rule — the "exactly when" fails on the unchanged code:
`Map([Rule('/a/', methods=['POST'])], strict_slashes=False)`: the rule admits `/a` for POST (it is
matched), no rule admits it for GET, yet `GET /a` is `NotFound`, not `MethodNotAllowed`. -/
theorem match_405_full_false :
    ¬ (∀ (cfg : MapCfg) (specs : List RuleSpec) (m : RMap) (a : Adapter) (p : Str) (meth : Str) (q' : Req),
        mkMap cfg specs = some m → ConvOK m.rules → (∀ r ∈ m.rules, r.methodsOK = true) → NoMerge m (pathPart p) →
        (∀ r ∈ m.rules, admits r (reqOf a (some meth) none) (domainPartOf m.cfg a) (pathPart p) = none ∧
            wantsSlash r (domainPartOf m.cfg a) (pathPart p) = false) →
        (∃ r ∈ m.rules, (admits r q' (domainPartOf m.cfg a) (pathPart p)).isSome = true) →
        (matchAdapter m a p (some meth) .none none).is405 = true) := by
  intro H
  have hw : (match mkMap { strictSlashes := false } specsF03b with
      | some m => !(matchAdapter m adapter0 "/a".toList (some "GET".toList) .none none).is405 &&
          m.rules.all (fun r => r.methodsOK && r.convTotal &&
            (admits r (reqOf adapter0 (some "GET".toList) none) (domainPartOf m.cfg adapter0) (pathPart "/a".toList)).isNone &&
            !wantsSlash r (domainPartOf m.cfg adapter0) (pathPart "/a".toList)) &&
          m.rules.any (fun r => (admits r ⟨"POST".toList, false⟩ (domainPartOf m.cfg adapter0) (pathPart "/a".toList)).isSome) &&
          decide (mergeSlashes (pathPart "/a".toList) = pathPart "/a".toList)
      | none => false) = true := by decide +kernel
  cases hmk : mkMap { strictSlashes := false } specsF03b with
  | none => simp [hmk] at hw
  | some m =>
    simp only [hmk, Bool.and_eq_true, List.all_eq_true, List.any_eq_true, Bool.not_eq_true', decide_eq_true_eq,
      Option.isNone_iff_eq_none] at hw
    obtain ⟨⟨⟨h1, h2⟩, r, hr, h3⟩, h4⟩ := hw
    have := H _ specsF03b m adapter0 "/a".toList "GET".toList ⟨"POST".toList, false⟩ hmk
      (convOK_of_total (fun r hr => (h2 r hr).1.1.2)) (fun r hr => (h2 r hr).1.1.1) (.inr h4)
      (fun r hr => ⟨(h2 r hr).1.2, (h2 r hr).2⟩) ⟨r, hr, h3⟩
    rw [h1] at this; cases this


/-! ### the slash redirect -/

/-- **slash_redirect_sound.** The matcher asks for the trailing-slash redirect only when some strict
branch rule of the map, fit for the request method and protocol, admits the path but for its final
slash (and `MapAdapter.match` then redirects to exactly path + '/', C12.slash_redirect_on_bound_host). -/
theorem slash_redirect_sound {cfg : MapCfg} {specs : List RuleSpec} {m : RMap} (hm : mkMap cfg specs = some m)
    (q : Req) (dom path : Str) (h : (dfs q m.root (segments dom path) []).res.isSlash = true) :
    ∃ r ∈ m.rules, r.spec.buildOnly = false ∧ ruleOK q r = true ∧ wantsSlash r dom path = true := by
  have hb := mkMap_built hm
  have hs := dfs_sound q m.root (segments dom path) []
  cases hr : (dfs q m.root (segments dom path) []).res with
  | none => rw [hr] at h; cases h
  | found r vs => rw [hr] at h; cases h
  | slash =>
    rw [hr] at hs
    obtain ⟨r, ps, vs', hi, hok, hst, hw⟩ := hs
    rw [hb.root_eq, inTrie_buildRoot] at hi
    obtain ⟨hmem, hbo, rfl⟩ := hi
    exact ⟨r, hmem, hbo, hok, by simp [wantsSlash, hst, hw]⟩

def specsF03c : List RuleSpec :=
  [ { toks := [.slash, .var (.int 2 false none none) "x".toList, .slash], endpoint := "a".toList } ]

-- non-vacuity, and **F03c**: `Map([Rule('/<int(fixed_digits=2):x>/')])`, `/123` asks for the slash although
-- the redirect target `/123/` is `NotFound` — the rule's pattern admits it, its `to_python` does not
-- (the redirect is decided before conversion)
example : (match mkMap {} specsF03c with
    | some m => (dfs ⟨"GET".toList, false⟩ m.root (segments [] "/123".toList) []).res.isSlash &&
                (matchAdapter m adapter0 "/123/".toList none .none none).isNotFound
    | none => false) = true := by decide +kernel

/-! ### priority -/

/-- rule `r` admits the request directly: its pattern matches the path as it stands, for the
request method and protocol -/
def admitsDirect (r : Rule) (q : Req) (dom path : Str) : Bool :=
  ruleOK q r && (walkVia .direct r.parts (segments dom path)).isSome

/-- **match_priority.** The rule `MapAdapter.match` returns is minimal in the specificity order among
the rules that admit the request directly: no such rule is strictly more specific (`specLt`: at the
first part where the two rules differ, a literal part beats a variable one, and of two variable parts
the lighter `Weighting` wins). No hypothesis on the map: this holds for arbitrary rule lists and
whatever the insertion order was. -/
theorem match_priority {cfg : MapCfg} {specs : List RuleSpec} {m : RMap} (hm : mkMap cfg specs = some m)
    (a : Adapter) (pathInfo : Str) (method : Option Str) (qa : QueryArgs) (ws : Option Bool)
    {r : Rule} {vals : List (Str × Value)}
    (h : matchAdapter m a pathInfo method qa ws = .matched r vals) :
    ∀ r' ∈ m.rules, r'.spec.buildOnly = false →
      admitsDirect r' (reqOf a method ws) (domainPartOf m.cfg a) (pathPart pathInfo) = true →
      specLt r'.parts r.parts = false := by
  have hb := mkMap_built hm
  obtain ⟨vs, hfound, _⟩ := matchSM_ok_inv (matchAdapter_matched_inv h)
  intro r' hr' hbo' hadm
  simp only [admitsDirect, Bool.and_eq_true] at hadm
  obtain ⟨hok', hw'⟩ := hadm
  obtain ⟨w, hw⟩ := Option.isSome_iff_exists.1 hw'
  obtain ⟨ps, hi⟩ := found_inTrie hfound
  have hi0 := hi
  rw [hb.root_eq, inTrie_buildRoot] at hi0
  obtain ⟨_, _, rfl⟩ := hi0
  have hi' : InTrie m.root r'.parts r' := by rw [hb.root_eq, inTrie_buildRoot]; exact ⟨hr', hbo', rfl⟩
  have hroot : WF m.root ∧ Sorted m.root ∧ UniqPath m.root := by
    rw [hb.root_eq]; exact ⟨WF.buildRoot _, Sorted.buildRoot _, UniqPath.buildRoot _⟩
  exact dfs_priority _ m.root hroot.1 hroot.2.1 hroot.2.2 _ _ r vs hfound r.parts r'.parts r' w hi hi' hok' hw

def specsPrio : List RuleSpec :=
  [ { toks := [.slash, .var (.string 1 none none) "s".toList], endpoint := "s".toList },
    { toks := [.slash, .var .path "p".toList], endpoint := "p".toList },
    { toks := [.slash, .var (.int 0 false none none) "i".toList], endpoint := "i".toList },
    { toks := [.slash, .lit "12".toList], endpoint := "l".toList } ]

-- non-vacuity: on `/12` all four rules admit the path directly; the literal rule (index 3) is returned
example : (match mkMap {} specsPrio with
    | some m =>
      (match matchAdapter m adapter0 "/12".toList none .none none with
       | .matched r _ => r.idx == 3
       | _ => false) &&
      m.rules.all (fun r' => admitsDirect r' (reqOf adapter0 none none) (domainPartOf m.cfg adapter0) (pathPart "/12".toList))
    | none => false) = true := by decide +kernel

/-- **literal_beats_variable.** If two rules share their first parts and then one has a literal part
where the other has a variable part, the one with the literal is strictly more specific; hence
(by `match_priority`) when both admit the request directly, the variable rule is never the one returned. -/
theorem literal_beats_variable (pre : List Part) (c : Str) (p : Part) (hp : p.isDyn = true) (t1 t2 : List Part) :
    specLt (pre ++ .static c :: t1) (pre ++ p :: t2) = true := by
  induction pre with
  | nil =>
    cases p with
    | static _ => cases hp
    | dyn a k b f sf w => simp [specLt, partLt]
  | cons x xs ih => simp [specLt, ih]

theorem literal_beats_variable_match {cfg : MapCfg} {specs : List RuleSpec} {m : RMap} (hm : mkMap cfg specs = some m)
    (a : Adapter) (pathInfo : Str) (method : Option Str) (qa : QueryArgs) (ws : Option Bool)
    {r : Rule} {vals : List (Str × Value)}
    (h : matchAdapter m a pathInfo method qa ws = .matched r vals)
    {r1 : Rule} (hr1 : r1 ∈ m.rules) (hbo : r1.spec.buildOnly = false)
    (hadm : admitsDirect r1 (reqOf a method ws) (domainPartOf m.cfg a) (pathPart pathInfo) = true)
    (pre : List Part) (c : Str) (p : Part) (hp : p.isDyn = true) (t1 t2 : List Part)
    (h1 : r1.parts = pre ++ .static c :: t1) : r.parts ≠ pre ++ p :: t2 := by
  intro h2
  have := match_priority hm a pathInfo method qa ws h r1 hr1 hbo hadm
  rw [h1, h2, literal_beats_variable pre c p hp t1 t2] at this
  cases this

/-- **narrow_beats_broad.** With the live converter weights (int = float = 50 < string = any = uuid = 100
< path = 200; `conv_table_matches_model`), of two variable parts with the same literal decoration the
one with the narrower converter is strictly more specific: int/float before string before path. -/
theorem narrow_beats_broad (pre : List Part) (c1 c2 : Conv) (hw : c1.weight < c2.weight)
    (a1 b1 a2 b2 : Str) (f1 s1 f2 s2 : Bool) (n : Int) (st : List (Int × Int)) (t1 t2 : List Part) :
    specLt (pre ++ .dyn a1 c1.kind b1 f1 s1 ⟨n, st, -1, [(c1.weight : Int)]⟩ :: t1)
           (pre ++ .dyn a2 c2.kind b2 f2 s2 ⟨n, st, -1, [(c2.weight : Int)]⟩ :: t2) = true := by
  induction pre with
  | nil =>
    have hne : (c1.weight : Int) ≠ c2.weight := by omega
    have : ¬ (Part.dyn a1 c1.kind b1 f1 s1 ⟨n, st, -1, [(c1.weight : Int)]⟩ =
              Part.dyn a2 c2.kind b2 f2 s2 ⟨n, st, -1, [(c2.weight : Int)]⟩) := by
      intro h; injection h with _ _ _ _ _ hw'; injection hw' with _ _ _ hl; injection hl with hh; exact hne hh
    simp only [List.nil_append, specLt, this, if_false, partLt, weighting_lt_same_statics, decide_eq_true_eq]
    omega
  | cons x xs ih => simp [specLt, ih]

def specsF03d : List RuleSpec :=
  [ { toks := [.slash, .var .path "p".toList, .slash, .lit "edit".toList], endpoint := "p".toList },
    { toks := [.slash, .var (.string 1 none none) "s".toList, .slash, .lit "edit".toList], endpoint := "s".toList },
    { toks := [.slash, .var (.int 0 false none none) "i".toList, .slash, .lit "edit".toList], endpoint := "i".toList } ]

/-- **F03d (witness).** `narrow_beats_broad` needs "the same literal decoration": literal text after a
path converter belongs to the same slash-consuming part and counts as a static weight, so on the
unchanged code `Rule('/<path:p>/edit')` is returned for `/12/edit` although `Rule('/<string:s>/edit')`
and `Rule('/<int:i>/edit')` admit it directly — against the documented "int/float before string
before path". `match_priority` is about the Weighting order the code implements, under which the path
part (one static weight) is the lightest. -/
theorem path_with_literal_tail_beats_narrower :
    (match mkMap {} specsF03d with
     | some m =>
       (match matchAdapter m adapter0 "/12/edit".toList none .none none with
        | .matched r vals => r.idx == 0 && vals == [("p".toList, Value.str "12".toList)]
        | _ => false) &&
       m.rules.all (fun r' => admitsDirect r' (reqOf adapter0 none none) (domainPartOf m.cfg adapter0) (pathPart "/12/edit".toList)) &&
       (match m.rules with
        | [rp, rs, ri] => specLt rp.parts rs.parts && specLt rp.parts ri.parts
        | _ => false)
     | none => false) = true := by decide +kernel

/-- the class order used by `narrow_beats_broad`, from the model's table (tied to the live one above) -/
theorem conv_weight_order (fx : Nat) (sg sg' : Bool) (mn mx : Option Int) (fmn fmx : Option Dec)
    (smin : Nat) (smax slen : Option Nat) :
    (Conv.int fx sg mn mx).weight < (Conv.string smin smax slen).weight ∧
    (Conv.float sg' fmn fmx).weight < (Conv.string smin smax slen).weight ∧
    (Conv.string smin smax slen).weight < Conv.path.weight := by
  simp [Conv.weight]

/-! ### insertion order -/

/-- does rule `r` admit the input directly for the request? -/
def directly (q : Req) (input : List Str) (r : Rule) : Prop :=
  r.spec.buildOnly = false ∧ ruleOK q r = true ∧ (walkVia .direct r.parts input).isSome = true

instance (q : Req) (input : List Str) (r : Rule) : Decidable (directly q input r) := by
  unfold directly; infer_instance

/-- **search_none_insertion_order_irrelevant.** Whether the search finds nothing at all (the source of
`NotFound` / `MethodNotAllowed`) does not depend on the order in which the rules were added to the
matcher: for any two insertion orders of the same rules, one search is `None` iff the other is. -/
theorem search_none_insertion_order_irrelevant {rules rules' : List Rule} (hperm : rules.Perm rules')
    (q : Req) (input : List Str) :
    (dfs q (buildRoot rules) input []).res = .none ↔ (dfs q (buildRoot rules') input []).res = .none := by
  -- `None` is equivalent to a statement about membership only
  have key : ∀ (rs : List Rule), (dfs q (buildRoot rs) input []).res = .none ↔
      ∀ r ∈ rs, r.spec.buildOnly = false → ruleOK q r = true →
        ∀ via, (via = .trailing → r.strict = false) → walkVia via r.parts input = none := by
    intro rs
    constructor
    · intro h r hr hbo hok via hvia
      exact dfs_complete q _ (WF.buildRoot rs) input [] h r.parts r via
        ((inTrie_buildRoot rs).2 ⟨hr, hbo, rfl⟩) hok hvia
    · intro h
      have hs := dfs_sound q (buildRoot rs) input []
      cases hr : (dfs q (buildRoot rs) input []).res with
      | none => rfl
      | found r vs =>
        exfalso
        rw [hr] at hs
        obtain ⟨hok, ps, vs', via, hi, _, hw, ha⟩ := hs
        rw [inTrie_buildRoot] at hi
        obtain ⟨hmem, hbo, rfl⟩ := hi
        have := h r hmem hbo hok via (by intro hv; subst hv; simpa [viaAllowed] using ha)
        rw [hw] at this; cases this
      | slash =>
        exfalso
        rw [hr] at hs
        obtain ⟨r, ps, vs', hi, hok, _, hw⟩ := hs
        rw [inTrie_buildRoot] at hi
        obtain ⟨hmem, hbo, rfl⟩ := hi
        have := h r hmem hbo hok .noslash (by intro hv; cases hv)
        rw [hw] at this; cases this
  rw [key rules, key rules']
  constructor
  · intro h r hr; exact h r (hperm.mem_iff.2 hr)
  · intro h r hr; exact h r (hperm.mem_iff.1 hr)

/-- **insertion_order_irrelevant_partial.** For two insertion orders of the same strict rules: if the
specificity order decides between any two different rules that admit the input directly (no ties),
both searches return the same rule with the same groups. -/
theorem insertion_order_irrelevant_partial {rules rules' : List Rule} (hperm : rules.Perm rules')
    (hstrict : ∀ r ∈ rules, r.strict = true) (q : Req) (input : List Str)
    (hdecisive : ∀ r1 ∈ rules, ∀ r2 ∈ rules, r1 ≠ r2 → directly q input r1 → directly q input r2 →
      specLt r1.parts r2.parts = true ∨ specLt r2.parts r1.parts = true)
    {r r' : Rule} {vs vs' : List Str}
    (h1 : (dfs q (buildRoot rules) input []).res = .found r vs)
    (h2 : (dfs q (buildRoot rules') input []).res = .found r' vs') : r = r' ∧ vs = vs' := by
  -- both results are direct admissions by rules of the same set
  have just : ∀ (rs : List Rule) (hrs : ∀ x ∈ rs, x.strict = true) {x : Rule} {ws : List Str},
      (dfs q (buildRoot rs) input []).res = .found x ws →
      x ∈ rs ∧ directly q input x ∧ walkVia .direct x.parts input = some ws := by
    intro rs hrs x ws h
    have hs := dfs_sound q (buildRoot rs) input []
    rw [h] at hs
    obtain ⟨hok, ps, ws', via, hi, hv, hw, ha⟩ := hs
    rw [inTrie_buildRoot] at hi
    obtain ⟨hmem, hbo, rfl⟩ := hi
    have hvia : via = .direct := by
      cases via with
      | direct => rfl
      | trailing => simp [viaAllowed, hrs x hmem] at ha
      | noslash => simp [viaAllowed, hrs x hmem] at ha
    subst hvia
    simp only [List.nil_append] at hv
    subst hv
    exact ⟨hmem, ⟨hbo, hok, by rw [hw]; rfl⟩, hw⟩
  have hstrict' : ∀ x ∈ rules', x.strict = true := fun x hx => hstrict x (hperm.mem_iff.2 hx)
  obtain ⟨hm1, hd1, hw1⟩ := just rules hstrict h1
  obtain ⟨hm2, hd2, hw2⟩ := just rules' hstrict' h2
  have hm2' : r' ∈ rules := hperm.mem_iff.2 hm2
  have hm1' : r ∈ rules' := hperm.mem_iff.1 hm1
  by_cases hrr : r = r'
  · subst hrr
    rw [hw1] at hw2
    exact ⟨rfl, by injection hw2⟩
  · exfalso
    have pr : ∀ (rs : List Rule) {x y : Rule} {ws : List Str}, (dfs q (buildRoot rs) input []).res = .found x ws →
        y ∈ rs → directly q input y → specLt y.parts x.parts = false := by
      intro rs x y ws h hy hdy
      obtain ⟨ps, hi⟩ := found_inTrie h
      have hi0 := hi
      rw [inTrie_buildRoot] at hi0
      obtain ⟨_, _, rfl⟩ := hi0
      obtain ⟨w, hw⟩ := Option.isSome_iff_exists.1 hdy.2.2
      exact dfs_priority q _ (WF.buildRoot rs) (Sorted.buildRoot rs) (UniqPath.buildRoot rs) input [] x ws h
        x.parts y.parts y w hi ((inTrie_buildRoot rs).2 ⟨hy, hdy.1, rfl⟩) hdy.2.1 hw
    rcases hdecisive r hm1 r' hm2' hrr hd1 hd2 with h | h
    · have := pr rules' h2 hm1' hd1
      rw [h] at this; cases this
    · have := pr rules h1 hm2' hd2
      rw [h] at this; cases this

-- non-vacuity: the four rules of `specsPrio` (string, path, int, literal `12`) are strict and, on `/12`,
-- all admit the input directly; the specificity order decides every pair
example : (let rules := (bindRules {} specsPrio).getD []
    let q : Req := ⟨"GET".toList, false⟩
    let input := segments [] "/12".toList
    rules.length = 4 ∧ (∀ r ∈ rules, r.strict = true ∧ directly q input r) ∧
    (∀ r1 ∈ rules, ∀ r2 ∈ rules, r1 ≠ r2 → directly q input r1 → directly q input r2 →
      specLt r1.parts r2.parts = true ∨ specLt r2.parts r1.parts = true)) := by
  decide +kernel

def specsTie : List RuleSpec :=
  [ { toks := [.slash, .var (.string 1 none none) "s".toList], endpoint := "s".toList },
    { toks := [.slash, .var .uuid "u".toList], endpoint := "u".toList } ]

/-- **the tie hypothesis is necessary (negation witness).** Without `hdecisive` the statement is false on
the unchanged code: `/<string:s>` and `/<uuid:u>` have the same weight (100) and the same literal
decoration, so neither is more specific; both admit `/12345678-1234-5678-1234-567812345678`, and the
matcher returns whichever was added first. (Same for two rules with the same pattern, or `<int>` next
to `<float>` where both could match.) -/
theorem insertion_order_irrelevant_full_false :
    ¬ (∀ (rules rules' : List Rule) (q : Req) (input : List Str) (r r' : Rule) (vs vs' : List Str),
        rules.Perm rules' → (∀ x ∈ rules, x.strict = true) →
        (dfs q (buildRoot rules) input []).res = .found r vs →
        (dfs q (buildRoot rules') input []).res = .found r' vs' → r = r') := by
  intro H
  let rules := (bindRules {} specsTie).getD []
  let q : Req := ⟨"GET".toList, false⟩
  let input := segments [] "/12345678-1234-5678-1234-567812345678".toList
  have hw : (match (dfs q (buildRoot rules) input []).res, (dfs q (buildRoot rules.reverse) input []).res with
      | .found r _, .found r' _ => r.idx == 0 && r'.idx == 1 && rules.all (·.strict)
      | _, _ => false) = true := by decide +kernel
  cases h1 : (dfs q (buildRoot rules) input []).res with
  | none => simp [h1] at hw
  | slash => simp [h1] at hw
  | found r vs =>
    cases h2 : (dfs q (buildRoot rules.reverse) input []).res with
    | none => simp [h1, h2] at hw
    | slash => simp [h1, h2] at hw
    | found r' vs' =>
      simp only [h1, h2, Bool.and_eq_true, beq_iff_eq, List.all_eq_true] at hw
      have := H rules rules.reverse q input r r' vs vs' (List.reverse_perm rules).symm (fun x hx => hw.2 x hx) h1 h2
      rw [this] at hw
      omega

-- OPEN (P1): insertion_order_irrelevant at full strength — "for rule lists that are permutations of each
-- other and have pairwise distinct part keys where they overlap, `matchSM` is equal". As stated it is FALSE
-- (`insertion_order_irrelevant_full_false`: two different parts of equal weight are a genuine tie that insertion
-- order breaks). Proved above, for arbitrary permutations of the insertion order: the search is `None` for one
-- order iff for the other (hence NotFound / 405 by the characterisations, which mention membership only), and a
-- found rule and its groups are the same whenever the specificity order decides between the directly admitting
-- rules (strict rules). Still missing: that one order cannot answer `SlashRequired` where the other finds a rule
-- (needs a priority lemma for the slash probe's position in the depth-first order, the analogue of `dfs_priority`),
-- the non-strict admission forms, and the bookkeeping that `mkMap` numbers rules by position.
-- Round 3 adds the orthogonal half of "independent of insertion order": the weight sort itself is in force whenever
-- a thread reads the matcher (`Props/C03L.lean`, all interleavings of `Map.update` / `Map.add`).

end Wz.Props.C03
