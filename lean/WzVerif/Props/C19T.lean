/-
C19T — `DechunkedInput.read_chunk_len` and `DechunkedInput.readinto` of `werkzeug.serving` *as
regenerated from the source* by `tools/py2lean.py` (`Gen/PyFns_Chunked.lean`, rewritten on every
check run) agree, for all inputs, with the hand-written model of `Model/Chunked.lean` that the C19
theorems are about.
The translated methods take the object's attributes as arguments - `_done`, `_len`, and for the
collaborator `_rfile` the bytes it still holds (`readline` / `read` are the model's primitives) - and
the caller's buffer as a list of bytes, and return their final values together with `Except`.
The `while` loop is a recursion on an explicit `fuel`; every iteration that does not end the call
consumes at least one byte of the wire (measure: `len(wire)`), so `len(wire) + 1` units suffice
and the result does not depend on the fuel beyond that.
Property theorems only (helper lemmas: Lemmas/PyFns_Chunked.lean, Lemmas/Chunked.lean).
-/
import WzVerif.Gen.PyFns_Chunked
import WzVerif.Lemmas.PyFns_Chunked
import WzVerif.Props.C19
namespace Wz.Props.C19T
open Wz Wz.Chunked Wz.PyFnsChunked Wz.Gen.PyFns_Chunked

/-- `read_chunk_len()`, as translated from the current source (readline, latin-1 decode, `strip`,
`int(…, 16)`, ValueError -> OSError, negative -> OSError), is the model's `chunkLenOf` on the line
read; the line is consumed in every case. -/
theorem read_chunk_len_eq (wire : Bytes) :
    read_chunk_len wire = ((readline wire).2, (chunkLenOf (readline wire).1).map Int.ofNat) := by
  unfold read_chunk_len chunkLenOf int16 Pre.strip
  simp only [pyInt16_strip]
  cases pyInt16 (Py.latin1Dec (readline wire).1) with
  | none => rfl
  | some i =>
    by_cases h : i < 0
    · simp [h, Except.map]
    · simp [h, Except.map]; omega

/-- One iteration of the translated loop that starts inside a chunk (`_len > 0`, not done, room in
the buffer) agrees with the model's copy / terminator phase `afterHeader`, given the agreement of
the remaining iterations (`ih`). -/
theorem readinto_step_eq (buf0 : Bytes) (f g : Nat)
    (ih : ∀ (g : Nat) (st : DState) (acc : Bytes), st.wire.length < f → st.wire.length < g → acc.length ≤ buf0.length →
      Agrees buf0 (readinto.loop1 f st.done (st.len : Int) st.wire (acc ++ buf0.drop acc.length) (acc.length : Int))
        (readLoop g st buf0.length acc))
    (st : DState) (acc : Bytes) (hf : st.wire.length < f + 1) (hg : st.wire.length < g + 1)
    (hacc : acc.length < buf0.length) (hnd : st.done = false) (hlen : st.len ≠ 0) :
    Agrees buf0 (readinto.loop1 (f + 1) st.done (st.len : Int) st.wire (acc ++ buf0.drop acc.length) (acc.length : Int))
      (afterHeader (fun s a => readLoop g s buf0.length a) st buf0.length acc) := by
  have hbl : (acc ++ buf0.drop acc.length).length = buf0.length := by simp; omega
  have hc : ((!st.done) && decide ((acc.length : Int) < Int.ofNat (acc ++ buf0.drop acc.length).length)) = true := by
    simp [hnd]; omega
  have hl0 : ((st.len : Int) == 0) = false := by simp; exact hlen
  have hl1 : decide ((st.len : Int) > 0) = true := by simp; omega
  unfold readinto.loop1 afterHeader
  simp only [hc, hl0, hl1, if_true, Bool.false_eq_true, if_false]
  have hB : Int.ofNat (acc ++ buf0.drop acc.length).length = (buf0.length : Int) := by rw [hbl]; rfl
  have hn : (if decide ((acc.length : Int) + min (buf0.length : Int) (st.len : Int) > (buf0.length : Int)) = true
      then (buf0.length : Int) - (acc.length : Int) else min (buf0.length : Int) (st.len : Int))
      = ((min (buf0.length - acc.length) st.len : Nat) : Int) := by
    split <;> rename_i h <;> simp at h <;> omega
  simp only [hB, hn, rfileRead, Int.toNat_natCast]
  generalize hnn : min (buf0.length - acc.length) st.len = n
  have hn1 : 1 ≤ n := by omega
  have hn2 : n ≤ buf0.length - acc.length := by omega
  have hn3 : n ≤ st.len := by omega
  by_cases hshort : (st.wire.take n).length = n
  · have e1 : (!(Int.ofNat (st.wire.take n).length == (n : Int))) = false := by rw [hshort]; simp
    have e2 : ((st.wire.take n).length != n) = false := by rw [hshort]; simp
    simp only [e1, e2, Bool.false_eq_true, if_false]
    have hss : Pre.setSlice (acc ++ buf0.drop acc.length) (some (acc.length : Int)) (some ((acc.length : Int) + (n : Int))) (st.wire.take n)
        = (acc ++ st.wire.take n) ++ buf0.drop (acc ++ st.wire.take n).length := by
      rw [setSlice_acc acc _ _ n hshort (by simp; omega), List.drop_drop, List.length_append, hshort]
    have hrd : (acc.length : Int) + (n : Int) = ((acc ++ st.wire.take n).length : Int) := by
      rw [List.length_append, hshort]; simp
    have hln : (st.len : Int) - (n : Int) = ((st.len - n : Nat) : Int) := by omega
    have hz : (((st.len - n : Nat) : Int) == 0) = (st.len - n == 0) := by
      rw [Bool.eq_iff_iff]; simp
    have hacc' : (acc ++ st.wire.take n).length ≤ buf0.length := by rw [List.length_append, hshort]; omega
    have hdl : (st.wire.drop n).length < f := by
      have : st.wire.length = n + (st.wire.drop n).length := by
        conv => lhs; rw [← List.take_append_drop n st.wire]
        rw [List.length_append, hshort]
      omega
    have hdl' : (st.wire.drop n).length < g := by
      have : st.wire.length = n + (st.wire.drop n).length := by
        conv => lhs; rw [← List.take_append_drop n st.wire]
        rw [List.length_append, hshort]
      omega
    rw [hss, hrd, hln, hz]
    by_cases h0 : (st.len - n == 0) = true
    · simp only [h0, if_true]
      have ht : ((readline (List.drop n st.wire)).fst == [10] || (readline (List.drop n st.wire)).fst == [13, 10] ||
                (readline (List.drop n st.wire)).fst == [13]) = isTerminator (readline (List.drop n st.wire)).fst := rfl
      rw [ht]
      have hrl := readline_length (st.wire.drop n)
      cases hterm : isTerminator (readline (List.drop n st.wire)).fst
      · simp only [Bool.not_false, if_true, Bool.false_eq_true, if_false]
        exact ⟨rfl, rfl, rfl, _, rfl, rfl⟩
      · simp only [Bool.not_true, Bool.false_eq_true, if_false, if_true]
        exact ih g ⟨st.len - n, st.done, (readline (List.drop n st.wire)).snd⟩ _ (by simp only; omega) (by simp only; omega) hacc'
    · simp only [h0, Bool.false_eq_true, if_false]
      exact ih g ⟨st.len - n, st.done, st.wire.drop n⟩ _ hdl hdl' hacc'
  · have e1 : (!(Int.ofNat (st.wire.take n).length == (n : Int))) = true := by
      rw [Bool.not_eq_true', beq_eq_false_iff_ne]; intro h; apply hshort; exact Int.ofNat.inj h
    have e2 : ((st.wire.take n).length != n) = true := by simpa using hshort
    simp only [e1, e2, if_true]
    exact ⟨rfl, rfl, rfl, _, rfl, rfl⟩


/-- The translated `while not self._done and read < len(buf)` loop agrees with the model's
`readLoop`, from every state with `_len >= 0`, for every buffer and every number `len(acc)` of bytes
already copied - whenever both have more fuel than the wire has bytes. -/
theorem readinto_loop_eq (buf0 : Bytes) : ∀ (f g : Nat) (st : DState) (acc : Bytes),
    st.wire.length < f → st.wire.length < g → acc.length ≤ buf0.length →
    Agrees buf0 (readinto.loop1 f st.done (st.len : Int) st.wire (acc ++ buf0.drop acc.length) (acc.length : Int))
      (readLoop g st buf0.length acc) := by
  intro f
  induction f with
  | zero => intro g st acc h; omega
  | succ f ih =>
    intro g st acc hf hg hacc
    cases g with
    | zero => omega
    | succ g =>
    have hbl : (acc ++ buf0.drop acc.length).length = buf0.length := by simp; omega
    by_cases hstop : (st.done || decide (buf0.length ≤ acc.length)) = true
    · have hc : ((!st.done) && decide ((acc.length : Int) < Int.ofNat (acc ++ buf0.drop acc.length).length)) = false := by
        cases hd : st.done <;> simp [hd] at hstop ⊢; omega
      unfold readinto.loop1 readLoop
      simp only [hc, hstop, if_true, Bool.false_eq_true, if_false]
      exact ⟨rfl, rfl, rfl, acc, rfl, rfl, rfl, hacc⟩
    · simp only [Bool.or_eq_true, decide_eq_true_eq, not_or, Bool.not_eq_true, Nat.not_le] at hstop
      obtain ⟨hnd, hsz⟩ := hstop
      have hstop' : (st.done || decide (buf0.length ≤ acc.length)) = false := by simp [hnd]; omega
      by_cases hl : st.len = 0
      · -- a size line is read first
        obtain ⟨len, done, wire⟩ := st
        simp only at hl hnd hf hg ⊢
        subst hl hnd
        have hc : ((!false) && decide ((acc.length : Int) < Int.ofNat (acc ++ buf0.drop acc.length).length)) = true := by
          simp; omega
        have hrl := readline_length wire
        cases hcl : chunkLenOf (readline wire).1 with
        | error e =>
          unfold readinto.loop1 readLoop readHeader
          simp only [hc, hstop', if_true, Bool.false_eq_true, if_false, read_chunk_len_eq, hcl, Except.map,
            Int.ofNat_zero, beq_self_eq_true]
          exact ⟨rfl, rfl, rfl, _, rfl, rfl⟩
        | ok n =>
          have hne : (readline wire).1 ≠ [] := by
            intro he; rw [he, chunkLenOf_nil] at hcl; cases hcl
          have hpos : 0 < (readline wire).1.length := List.length_pos_iff.mpr hne
          by_cases hn0 : n = 0
          · subst hn0
            have z : Int.ofNat 0 = 0 := rfl
            have z1 : decide ((0 : Int) > 0) = false := by decide
            unfold readinto.loop1 readLoop readHeader afterHeader markDone
            simp only [hc, hstop', if_true, Bool.false_eq_true, if_false, read_chunk_len_eq, hcl, Except.map,
              Int.ofNat_zero, beq_self_eq_true, z, z1, Nat.min_zero, List.take_zero, List.drop_zero,
              List.length_nil, bne_self_eq_false, Nat.sub_zero, List.append_nil]
            have ht : ((readline (readline wire).2).fst == [10] || (readline (readline wire).2).fst == [13, 10] ||
                (readline (readline wire).2).fst == [13]) = isTerminator (readline (readline wire).2).fst := rfl
            rw [ht]
            have hrl2 := readline_length (readline wire).2
            cases hterm : isTerminator (readline (readline wire).2).fst
            · simp only [Bool.not_false, if_true, Bool.false_eq_true, if_false]
              exact ⟨rfl, rfl, rfl, _, rfl, rfl⟩
            · simp only [Bool.not_true, Bool.false_eq_true, if_false, if_true]
              exact ih g ⟨0, true, (readline (readline wire).2).snd⟩ acc (by simp only; omega) (by simp only; omega) hacc
          · have key : readinto.loop1 (f + 1) false ((0 : Nat) : Int) wire (acc ++ buf0.drop acc.length) (acc.length : Int)
                = readinto.loop1 (f + 1) false (n : Int) (readline wire).2 (acc ++ buf0.drop acc.length) (acc.length : Int) := by
              have hl0 : ((n : Int) == 0) = false := by simp; exact hn0
              have hl0' : (Int.ofNat n == 0) = false := hl0
              simp only [readinto.loop1, hc, if_true, read_chunk_len_eq, hcl, Except.map, Int.natCast_zero,
                beq_self_eq_true, hl0, hl0', Bool.false_eq_true, if_false]
              rfl
            rw [key]
            have := readinto_step_eq buf0 f g ih ⟨n, false, (readline wire).2⟩ acc (by simp only; omega) (by simp only; omega) hsz rfl hn0
            conv => rhs; unfold readLoop readHeader
            have hmd : markDone ⟨n, false, (readline wire).2⟩ = ⟨n, false, (readline wire).2⟩ := by
              unfold markDone; simp [hn0]
            simp only [hstop', Bool.false_eq_true, if_false, beq_self_eq_true, if_true, hcl, hmd]
            exact this
      · have h1 : readHeader st = .ok st := by
          unfold readHeader; simp [hl]
        have h2 : markDone st = st := by unfold markDone; simp [hl]
        have := readinto_step_eq buf0 f g ih st acc hf hg hsz hnd hl
        conv => rhs; unfold readLoop
        simp only [hstop', Bool.false_eq_true, if_false, h1, h2]
        exact this

/-- **`readinto(buf)`, as translated, is the model's `readinto`** — from every state (`_len >= 0`),
every wire and every buffer, given at least `len(wire) + 1` units of fuel: the same `_done`, `_len`
and remaining wire afterwards; the same exception or none; and on a normal return of the bytes
`out`, the translated method returns `len(out)` and has written `out` over the start of the buffer,
leaving the rest of it untouched. -/
theorem readinto_eq (fuel : Nat) (st : DState) (buf : Bytes) (hf : st.wire.length < fuel) :
    let t := Gen.PyFns_Chunked.readinto fuel st.done (st.len : Int) st.wire buf
    let m := Chunked.readinto st buf.length
    t.1.1 = m.2.done ∧ t.1.2.1 = (m.2.len : Int) ∧ t.1.2.2.1 = m.2.wire ∧
    t.2 = m.1.map (fun out => (out.length : Int)) ∧
    ∀ out, m.1 = .ok out → t.1.2.2.2 = out ++ buf.drop out.length := by
  have h := readinto_loop_eq buf fuel (st.wire.length + 1) st [] hf (by omega) (by simp)
  simp only [List.length_nil, List.drop_zero, List.nil_append, Int.natCast_zero] at h
  unfold Gen.PyFns_Chunked.readinto Chunked.readinto
  simp only
  generalize readinto.loop1 fuel st.done (st.len : Int) st.wire buf 0 = r at h
  generalize readLoop (st.wire.length + 1) st buf.length [] = m at h
  obtain ⟨mr, st'⟩ := m
  cases r with
  | ret x =>
    obtain ⟨s, r⟩ := x
    obtain ⟨h1, h2, h3, e, h4, h5⟩ := h
    subst h4 h5
    exact ⟨h1, h2, h3, rfl, fun out ho => by cases ho⟩
  | fall x =>
    obtain ⟨d, l, w, b, rd⟩ := x
    obtain ⟨h1, h2, h3, acc, h4, h5, h6, _⟩ := h
    subst h4 h5
    refine ⟨h1, h2, h3, rfl, fun out ho => ?_⟩
    simp only [Except.ok.injEq] at ho
    subst ho
    exact h6

/-- The result of the translated `readinto` does not depend on the fuel once it exceeds the
length of the wire: the marker error "out of fuel" never appears. -/
theorem readinto_fuel_irrelevant (f1 f2 : Nat) (st : DState) (buf : Bytes)
    (h1 : st.wire.length < f1) (h2 : st.wire.length < f2) :
    (Gen.PyFns_Chunked.readinto f1 st.done (st.len : Int) st.wire buf).2
      = (Gen.PyFns_Chunked.readinto f2 st.done (st.len : Int) st.wire buf).2 := by
  rw [(readinto_eq f1 st buf h1).2.2.2.1, (readinto_eq f2 st buf h2).2.2.2.1]

/-- **`dechunk_safety`, for the translated method**: on *every* wire (well-formed or not), from
every state, the code as it is today raises nothing but OSError, returns at most `len(buf)`, and
returns less than `len(buf)` only once the final chunk was seen. -/
theorem dechunk_safety_translated (fuel : Nat) (st : DState) (buf : Bytes) (hf : st.wire.length < fuel) :
    let t := Gen.PyFns_Chunked.readinto fuel st.done (st.len : Int) st.wire buf
    (∀ e, t.2 = .error e → e = "OSError") ∧
    (∀ n, t.2 = .ok n → 0 ≤ n ∧ n ≤ buf.length ∧ (n < buf.length → t.1.1 = true)) := by
  obtain ⟨hd, _, _, hr, _⟩ := readinto_eq fuel st buf hf
  obtain ⟨herr, ⟨pre, _, hsub⟩, heof, _⟩ := Props.C19.dechunk_safety st buf.length
  simp only at hd hr ⊢
  rw [hr, hd]
  cases hm : (Chunked.readinto st buf.length).1 with
  | error e =>
    refine ⟨fun e' h => ?_, fun n h => by cases h⟩
    simp only [Except.map, Except.error.injEq] at h
    exact h ▸ herr e hm
  | ok out =>
    refine ⟨fun e h => (by cases h), fun n h => ?_⟩
    simp only [Except.map, Except.ok.injEq] at h
    subst h
    have := (hsub out hm).2
    refine ⟨by omega, by omega, fun hlt => heof out hm (by omega)⟩

/-- **`dechunk_roundtrip`, for the translated method** (one read on a fresh stream): for every list
of non-empty chunks, terminator styles, hex case and trailing bytes on the connection, reading into a
buffer of any size returns `min(len(buf), len(payload))` and puts exactly that prefix of the payload
at the start of the buffer. -/
theorem dechunk_roundtrip_translated (chunks : List (Bytes × Term × Bool)) (hne : ∀ c ∈ chunks, c.1 ≠ [])
    (tf : Term) (tail buf : Bytes) (fuel : Nat) (hf : (encode chunks tf ++ tail).length < fuel) :
    let t := Gen.PyFns_Chunked.readinto fuel false 0 (encode chunks tf ++ tail) buf
    let out := (payload chunks).take buf.length
    t.2 = .ok (out.length : Int) ∧ t.1.2.2.2 = out ++ buf.drop out.length := by
  have hrt := Props.C19.dechunk_roundtrip chunks hne tf tail [buf.length]
  have h1 : (Chunked.readinto { wire := encode chunks tf ++ tail } buf.length).1
      = .ok ((payload chunks).take buf.length) := by
    simp only [readMany, slices, List.map_cons, List.map_nil, List.cons.injEq, and_true] at hrt
    exact hrt
  obtain ⟨_, _, _, hr, hb⟩ := readinto_eq fuel { wire := encode chunks tf ++ tail } buf hf
  simp only at hr hb ⊢
  refine ⟨?_, hb _ h1⟩
  rw [show ((0 : Nat) : Int) = 0 from rfl] at hr
  rw [hr, h1]; rfl

end Wz.Props.C19T
