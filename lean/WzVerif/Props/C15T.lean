/-
C15T — `get_current_url` (sansio/utils.py), `_wsgi_decoding_dance` / `_wsgi_encoding_dance`
(_internal.py) and the bodies of `iri_to_uri` / `uri_to_iri` (urls.py, between `urlsplit` and
`urlunsplit`) *as regenerated from the source* by `tools/py2lean.py` (`Gen/PyFns_Url.lean`, rewritten
on every check run) are equal, for all inputs, to the hand-written model functions of `Model/Url.lean`
/ `Model/UrlEnviron.lean` that the C15 theorems are about. `urllib.parse.quote` is the model's `quote`
(its `safe=` literal is an argument of the translated call and is pinned here against the AST-collected
tables of `Gen/UrlTables.lean`); `urlsplit`, the IDNA conversions and `_make_unquote_part`'s result
stay parameters / model functions.
Property theorems only: the proofs live in Lemmas/PyFnsEq_Url.lean.
-/
import WzVerif.Gen.PyFns_Url
import WzVerif.Lemmas.PyFnsEq_Url
import WzVerif.Lemmas.PyFnsEq_Middleware
namespace Wz.Props.C15T
open Wz Wz.PyFnsEq.Url Wz.Pre Wz.Gen.PyFns_Url Wz.PyFnsEq.Middleware

/-- `_wsgi_decoding_dance`, as translated from the current source
(`s.encode("latin1").decode(errors="replace")`), is the model's `decodingDance`: it raises
`UnicodeEncodeError` exactly when the model answers `none` (a character above U+00FF) and otherwise
returns the model's text. -/
theorem wsgi_decoding_dance_eq (s : List Char) :
    Gen.PyFns_Url.wsgi_decoding_dance s =
      match Url.decodingDance s with
      | some r => .ok r
      | none => .error "UnicodeEncodeError" :=
  PyFnsEq.Url.wsgi_decoding_dance_eq s

/-- `_wsgi_encoding_dance`, as translated from the current source (`s.encode().decode("latin1")`),
is the model's `encodingDance`, for every text. -/
theorem wsgi_encoding_dance_eq (s : List Char) :
    Gen.PyFns_Url.wsgi_encoding_dance s = Url.encodingDance s :=
  PyFnsEq.Url.wsgi_encoding_dance_eq s

/-- C15 `dance_roundtrip` on the translated pair: what the regenerated `_wsgi_encoding_dance` puts
into the environ, the regenerated `_wsgi_decoding_dance` reads back unchanged and without raising,
for every text. -/
theorem dance_roundtrip_translated (s : List Char) :
    Gen.PyFns_Url.wsgi_decoding_dance (Gen.PyFns_Url.wsgi_encoding_dance s) = .ok s :=
  PyFnsEq.Url.dance_roundtrip_translated s

/-- The eight `safe=` literals of the translated calls of `quote` are the literals the C15 tables
were collected from (`Gen/UrlTables.lean`, by AST with their call sites). -/
theorem safe_literals_pinned :
    Gen.UrlTables.curRootSafe = "!$&'()*+,/:;=@".toList ∧ Gen.UrlTables.curPathSafe = "!$&'()*+,/:;=@".toList ∧
    Gen.UrlTables.curQuerySafe = "!$&'()*+,/:;=?@%".toList ∧ Gen.UrlTables.iriPathSafe = "%!$&'()*+,/:;=@".toList ∧
    Gen.UrlTables.iriQuerySafe = "%!$&'()*+,/:;=?@".toList ∧ Gen.UrlTables.iriFragmentSafe = "%!#$&'()*+,/:;=?@".toList ∧
    Gen.UrlTables.iriUserSafe = "%!$&'()*+,;=".toList ∧ Gen.UrlTables.iriPasswordSafe = "%!$&'()*+,;=".toList := by
  decide

/-- `sansio.utils.get_current_url`, as translated from the current source (the `url` list with its
`append`s, the early returns for a missing `root_path` / `path`, the truthiness test of
`query_string`, the three `safe=` literals, `rstrip("/")` / `lstrip("/")`, `"".join`), returns exactly
what the model's `getCurrentUrlOpt` returns when both use the same `uri_to_iri` - for every scheme,
host, optional root path, optional path and optional query bytes (`None` and `b""` alike mean: no
query). -/
theorem get_current_url_eq (o : Url.UrlOpaque) (scheme host : List Char)
    (root_path path : Option (List Char)) (query_string : Option Bytes) :
    Gen.PyFns_Url.get_current_url (Url.uriToIriText o) scheme host root_path path query_string
      = Url.getCurrentUrlOpt o scheme host root_path path (query_string.getD []) :=
  PyFnsEq.Url.get_current_url_eq o scheme host root_path path query_string

/-- `werkzeug.urls.iri_to_uri`, as translated from the current source, between `urlsplit` and
`urlunsplit`: for every split result `p` whose port is `None` or non-negative, every IDNA codec and
every input text, the 5-tuple handed to `urlunsplit` is the model's `iriToUri` of the components
(host = the IDNA-encoded hostname, `""` for a missing or empty hostname), and the call raises exactly
when the IDNA step raises. Covers the five `safe=` literals, the `[...]` around a host containing
`:`, `if parts.port:` (port 0 is dropped, like `None`), the truthiness tests of user name / password. -/
theorem iri_to_uri_eq (p : SplitAttrs) (hp : PortOk p) (idna : List Char → Except String (List Char))
    (iri : List Char) :
    Gen.PyFns_Url.iri_to_uri (fun _ => p) idna iri
      = (hostAfter idna p.2.1).map fun h => tuple5 (Url.iriToUri (partsOfAttrs p h)) :=
  PyFnsEq.Url.iri_to_uri_eq p hp idna iri

/-- `werkzeug.urls.uri_to_iri`, as translated from the current source, between `urlsplit` and
`urlunsplit`: for every split result `p` whose port is `None` or non-negative, every `_decode_idna`
and every input text, the call does not raise and the 5-tuple handed to `urlunsplit` is the model's
`uriToIri` of the components. -/
theorem uri_to_iri_eq (p : SplitAttrs) (hp : PortOk p) (decode_idna : List Char → List Char) (uri : List Char) :
    Gen.PyFns_Url.uri_to_iri (fun _ => p) decode_idna uri
      = .ok (tuple5 (Url.uriToIri (partsOfAttrs p (hostAfterTotal decode_idna p.2.1)))) :=
  PyFnsEq.Url.uri_to_iri_eq p hp decode_idna uri

example : PortOk ("http".toList, some "h".toList, some 8080, none, none, "/p".toList, [], []) := by
  intro k hk; simp at hk; omega

/-- The model's text-level `uri_to_iri` (`uriToIriText`, which C15's whole-URL theorems and
`get_current_url_eq` are stated with) is: the model's `urlsplit` and attribute extraction, then the
body of `uri_to_iri` *as translated from the current source*, then the model's `urlunsplit`. -/
theorem uriToIriText_via_translated (o : Url.UrlOpaque) (url : List Char) :
    Url.uriToIriText o url =
      (Url.urlsplit o url >>= Url.partsOf o.hostToUnicode) >>= fun p =>
        (Gen.PyFns_Url.uri_to_iri (fun _ => attrsOf p) id url).map fun t => Url.urlunsplit (splitOfTuple t) :=
  PyFnsEq.Url.uriToIriText_via_translated o url

/-- The model's text-level `iri_to_uri` (`iriToUriText`) is: the model's `urlsplit` and attribute
extraction, then the body of `iri_to_uri` *as translated from the current source*, then the model's
`urlunsplit`. -/
theorem iriToUriText_via_translated (o : Url.UrlOpaque) (url : List Char) :
    Url.iriToUriText o url =
      (Url.urlsplit o url >>= Url.partsOf o.hostToAscii) >>= fun p =>
        (Gen.PyFns_Url.iri_to_uri (fun _ => attrsOf p) .ok url).map fun t => Url.urlunsplit (splitOfTuple t) :=
  PyFnsEq.Url.iriToUriText_via_translated o url

/-! ### `DispatcherMiddleware.__call__` (middleware/dispatcher.py; proofs in Lemmas/PyFnsEq_Middleware.lean) -/

/-- The `while "/" in script` loop, as translated from the current source, started with
`script = reversed(r)` and any `path_info`, with more fuel than `script` has characters, followed by
the `else` clause and the two environ stores: never runs out of fuel, never raises, and produces what
the model loop `dispatchLoop` computes from the reversed text (for any amount of model fuel above the
length). Every iteration removes at least the last `/`, which is why `len(script) + 1` units suffice. -/
theorem dispatcher_loop_eq (pin sin : Str) (mounts : List (Str × α)) (app : α) (o1 o2 : Str) :
    ∀ (f1 f2 : Nat) (r pi : Str), r.length < f1 → r.length < f2 →
      finish sin mounts app (dispatcher_call.loop1 pin sin mounts o1 o2 f1 r.reverse pi)
        = (let d := Url.dispatchLoop (mounts.map (·.1)) f2 r pi
           ((sin ++ d.script, d.pathInfo), .ok (appOf mounts app d))) := by
  apply PyFnsEq.Middleware.dispatcher_loop_eq <;> assumption

/-- **`DispatcherMiddleware.__call__`**, as translated from the current source of
`werkzeug/middleware/dispatcher.py` (`script = environ.get("PATH_INFO", "")`, the
`while "/" in script` loop with its `if script in self.mounts: app = self.mounts[script]; break`,
the `script.rsplit("/", 1)` step and `path_info = f"/{last_item}{path_info}"`, the loop's `else`
clause `app = self.mounts.get(script, self.app)`, the two environ stores and the call of the app),
for **every** mount table (apps are an abstract type), default app, `SCRIPT_NAME`, `PATH_INFO` and
every amount of fuel `≥ len(PATH_INFO) + 1`: the function terminates normally (the marker error
"py2lean: out of fuel" does not occur), **never raises** - `self.mounts[script]` is guarded by
`script in self.mounts`, the two-way unpacking of `rsplit` by `"/" in script` - stores
`SCRIPT_NAME = original + d.script` and `PATH_INFO = d.pathInfo` and calls the app stored under the
mount key `d.mount` (the default app for `none`), where `d` is what C15's model `Url.dispatch`
computes from the mount keys and `PATH_INFO` alone. All C15 theorems about `Url.dispatch`
(`dispatcher_preserves_concat`, `dispatcher_longest_mount`, `dispatcher_default_unchanged`) therefore
speak about the current source. No hypothesis on the mount table is needed: "the app stored under
`k`" is `self.mounts.get(k, self.app)` (`dictGetD`, the first item with that key; for a real dict -
distinct keys - see `dispatcher_call_eq_mem`). The initial values `o1 o2` of the two recorded environ
stores are irrelevant. No input was found on which code and model differ. -/
theorem dispatcher_call_eq (fuel : Nat) (path_info_in script_name_in : Str) (mounts : List (Str × α))
    (app : α) (o1 o2 : Str) (hf : path_info_in.length + 1 ≤ fuel) :
    dispatcher_call fuel path_info_in script_name_in mounts app o1 o2 () ()
      = (let d := Url.dispatch (mounts.map (·.1)) path_info_in
         ((script_name_in ++ d.script, d.pathInfo),
          .ok (match d.mount with
               | some k => dictGetD mounts k app
               | none => app))) := by
  apply PyFnsEq.Middleware.dispatcher_call_eq <;> assumption

/-- `dispatcher_call_eq` for a real `dict` (distinct keys), without reference to the lookup
primitive: when the model selects the mount key `k`, the table has an item `(k, a)`, the function
stores `SCRIPT_NAME = original + k`, `PATH_INFO = d.pathInfo` and calls exactly that `a`; when the
model selects no mount, the default app is called. -/
theorem dispatcher_call_eq_mem (fuel : Nat) (path_info_in script_name_in : Str)
    (mounts : List (Str × α)) (app : α) (o1 o2 : Str) (hn : (mounts.map (·.1)).Nodup)
    (hf : path_info_in.length + 1 ≤ fuel) :
    let d := Url.dispatch (mounts.map (·.1)) path_info_in
    (∀ k, d.mount = some k → ∃ a, (k, a) ∈ mounts ∧
      dispatcher_call fuel path_info_in script_name_in mounts app o1 o2 () ()
        = ((script_name_in ++ k, d.pathInfo), .ok a)) ∧
    (d.mount = none →
      dispatcher_call fuel path_info_in script_name_in mounts app o1 o2 () ()
        = ((script_name_in ++ d.script, d.pathInfo), .ok app)) := by
  apply PyFnsEq.Middleware.dispatcher_call_eq_mem <;> assumption

/-- `DispatcherMiddleware.__call__`, as translated, raises nothing itself for any mount table and any
request (whatever it returns or raises is the selected app's doing). -/
theorem dispatcher_call_never_raises (fuel : Nat) (path_info_in script_name_in : Str)
    (mounts : List (Str × α)) (app : α) (o1 o2 : Str) (hf : path_info_in.length + 1 ≤ fuel) :
    ∃ st a, dispatcher_call fuel path_info_in script_name_in mounts app o1 o2 () () = (st, .ok a) := by
  apply PyFnsEq.Middleware.dispatcher_call_never_raises <;> assumption


example : "/api/v1".toList.length + 1 ≤ 8 := by decide

end Wz.Props.C15T
