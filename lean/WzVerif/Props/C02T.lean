/-
C02T — `MultipartEncoder.send_event` *as regenerated from the source* by `tools/py2lean.py`
(`Gen/PyFns_Encoder.lean`, rewritten on every check run; one translation per event class, the
`isinstance` tests being decided by the declared class of `event`) equals, for every boundary, encoder
state and event, the hand-written `Multipart.sendEvent` the C02 round-trip theorems are about
(`view`: new state and returned bytes; the state is unchanged when the call raises). Folding the
translated functions over an event list (`encodeEventsT`) is the model's `encodeEvents`, and the C02
theorems `encoder_writes_disposition` and `decode_encode` are restated on the translated definitions.
Property theorems only: the proofs live in Lemmas/PyFnsEq_Encoder.lean.
-/
import WzVerif.Lemmas.PyFnsEq_Encoder
namespace Wz.Props.C02T
open Wz Wz.Pre Wz.Multipart Wz.Gen.PyFns_Encoder Wz.PyFnsEq.Encoder

/-- The model on a Field event without a name (`Field(name=None)`, outside the declared type) in a
state that does not allow a part: the state test comes first, the call raises ValueError, not
AttributeError. -/
theorem noname_wrong_state (bnd : Bytes) (hs : Multipart.Headers) (f : List Char) :
    Multipart.sendEvent bnd .dataStart (.field none hs) = .error "ValueError" ∧
    Multipart.sendEvent bnd .dataStart (.file none f hs) = .error "ValueError" ∧
    Multipart.sendEvent bnd .part (.field none hs) = .error "AttributeError" ∧
    Multipart.sendEvent bnd .part (.file none f hs) = .error "AttributeError" := by
  apply PyFnsEq.Encoder.noname_wrong_state <;> assumption

/-- The `for name, value in event.headers:` loop of `send_event` for a Field event never returns from
inside and leaves in `data` what it started with followed by one `name: value\r\n` line (UTF-8) for
every header whose lower-cased name is not `content-disposition`, in order: the model's
`filter` / `map` / `flatten`. -/
theorem field_loop_eq (st : Multipart.State) (hs : List (Pre.Str × Pre.Str)) (acc : Bytes) :
    send_event_field.loop1 st hs acc = .fall (acc ++ headerLines hs) := by
  apply PyFnsEq.Encoder.field_loop_eq <;> assumption

/-- the same for the header loop of a File event -/
theorem file_loop_eq (st : Multipart.State) (hs : List (Pre.Str × Pre.Str)) (acc : Bytes) :
    send_event_file.loop1 st hs acc = .fall (acc ++ headerLines hs) := by
  apply PyFnsEq.Encoder.file_loop_eq <;> assumption

/-- `send_event(Preamble(d))` as translated from the source is the model, in every state: in state
PREAMBLE it returns `d` and moves to PART, in every other state it raises ValueError and leaves the
state alone. -/
theorem send_event_preamble_eq (bnd d : Bytes) (st : Multipart.State) :
    send_event_preamble bnd st d = view st (Multipart.sendEvent bnd st (.preamble d)) := by
  apply PyFnsEq.Encoder.send_event_preamble_eq <;> assumption

/-- `send_event(Field(name=n, headers=hs))` as translated from the source is the model at
`some n`, for every boundary, state, name and header list: same bytes (boundary line,
Content-Disposition line, the other headers), same new state, same ValueError in the states that do
not allow a part. -/
theorem send_event_field_eq (bnd : Bytes) (st : Multipart.State) (n : Pre.Str)
    (hs : List (Pre.Str × Pre.Str)) :
    send_event_field bnd st (n, hs) = view st (Multipart.sendEvent bnd st (.field (some n) hs)) := by
  apply PyFnsEq.Encoder.send_event_field_eq <;> assumption

/-- `send_event(File(name=n, filename=f, headers=hs))` as translated from the source is the model at
`some n`, for every boundary, state, name, file name and header list. -/
theorem send_event_file_eq (bnd : Bytes) (st : Multipart.State) (n f : Pre.Str)
    (hs : List (Pre.Str × Pre.Str)) :
    send_event_file bnd st (n, f, hs) = view st (Multipart.sendEvent bnd st (.file (some n) f hs)) := by
  apply PyFnsEq.Encoder.send_event_file_eq <;> assumption

/-- `send_event(Data(data=d, more_data=more))` as translated from the source is the model, for every
state, chunk and flag: in DATA_START a non-empty chunk is written after CRLF and moves to DATA, an
empty chunk writes nothing and moves to DATA exactly when `more_data` is false; in DATA the chunk is
written as is; in every other state ValueError. -/
theorem send_event_data_eq (bnd : Bytes) (st : Multipart.State) (d : Bytes) (more : Bool) :
    send_event_data bnd st (d, more) = view st (Multipart.sendEvent bnd st (.data d more)) := by
  apply PyFnsEq.Encoder.send_event_data_eq <;> assumption

/-- `send_event(Epilogue(d))` as translated from the source is the model, in every state: the closing
delimiter `\r\n--boundary--\r\n`, then `d`, and the state COMPLETE. -/
theorem send_event_epilogue_eq (bnd : Bytes) (st : Multipart.State) (d : Bytes) :
    send_event_epilogue bnd st d = view st (Multipart.sendEvent bnd st (.epilogue d)) := by
  apply PyFnsEq.Encoder.send_event_epilogue_eq <;> assumption

/-- For every boundary, state and event, the translated `send_event` is the model. -/
theorem sendEventT_eq (bnd : Bytes) (st : Multipart.State) (ev : Multipart.Event) :
    sendEventT bnd st ev = view st (Multipart.sendEvent bnd st ev) := by
  apply PyFnsEq.Encoder.sendEventT_eq <;> assumption

/-- Feeding any list of events through the translated `send_event`, from any state, gives what the
model's `encodeEvents` gives: the same bytes or the same first exception. -/
theorem encodeEventsT_eq (bnd : Bytes) (st : Multipart.State) (evs : List Multipart.Event) :
    encodeEventsT bnd st evs = Multipart.encodeEvents bnd st evs := by
  apply PyFnsEq.Encoder.encodeEventsT_eq <;> assumption

/-- `Props.C02.encoder_writes_disposition` on the translated code: in state PART,
`send_event(Field(name=n, headers=hs))` as translated from the source returns the boundary line, then
`Content-Disposition: ` followed by the UTF-8 of `dispositionValue n none` (the text
`parse_options_header` is proved to read back as `n`), CRLF, and the lines of the other headers; and
it moves to DATA_START. -/
theorem encoder_writes_disposition_translated (bnd : Bytes) (n : List Char) (hs : Multipart.Headers) :
    send_event_field bnd .part (n, hs) =
      (.dataStart,
       .ok (Multipart.crlf ++ 45 :: 45 :: bnd ++ Multipart.crlf ++
            (Multipart.str "Content-Disposition: " ++ utf8Enc (FormOptions.dispositionValue n none)) ++
            Multipart.crlf ++
            ((hs.filter fun (k, _) => Multipart.lowerAscii k != "content-disposition".toList).map
              fun (k, v) => utf8Enc (k ++ ':' :: ' ' :: v) ++ Multipart.crlf).flatten)) := by
  apply PyFnsEq.Encoder.encoder_writes_disposition_translated <;> assumption

/-- `Props.C02.decode_encode` on the translated code: for every boundary without CR / LF and every
list of parts satisfying `ValidPart .crlf`, sending Preamble(b""), per part Field/File + Data, and
Epilogue(b"") through `send_event` *as translated from the source* succeeds, and decoding the bytes
with `MultipartDecoder` raises nothing and returns exactly the parts, in order, with byte-exact
payloads. -/
theorem decode_encode_translated {bnd : Bytes} (hb : Multipart.BoundaryOk bnd)
    (parts : List Multipart.Part) (hv : ∀ p ∈ parts, Multipart.ValidPart .crlf bnd p) :
    ∃ body,
      encodeEventsT bnd .preamble
        (.preamble [] :: (parts.flatMap Multipart.partEvents ++ [.epilogue []])) = .ok body ∧
      (Multipart.decodeChunks bnd none none [body]).err = none ∧
      Multipart.partsOf (Multipart.decodeChunks bnd none none [body]).events =
        parts.map Multipart.decodedPart := by
  apply PyFnsEq.Encoder.decode_encode_translated <;> assumption


end Wz.Props.C02T
