/-
C10 — configured form limits are enforced and are pure guards.
Property theorems only (helper lemmas live in Lemmas/FormLimits.lean).

Model: the decoder / parser of Model/Multipart.lean with `max_form_memory_size` (`maxMem`) and
`max_parts` (`maxParts`) as parameters, and `_parse_urlencoded` of Model/Urlencode.lean.
`Reach d0 d evs` = `d` is obtained from `d0` by any sequence of non-raising `receive_data` /
`next_event` calls (the two public mutators), `evs` the events delivered on the way.
The request level (`Request._load_form_data`, `get_data`, `stream`, `make_form_data_parser`,
`FormDataParser.parse`) is Model/FormLimitsRequest.lean: an access history is a list of `Op`, `run` gives
what every access returned or raised; `LimitedStream` enters through the closed form of its reads over
a `BytesIO`-like input (C09 owns its model).

Clause → theorem map of the property text:
* "never holds more than max_form_memory_size bytes of a non-file field": `field_bounded`,
  `field_too_large_raises`; "… or of undelimited input" (header blocks, preamble, a body without
  delimiter): `receive_respects_limit`, `receive_raises_iff`, `buffer_bounded(_decodeChunks)`; urlencoded
  bodies: `urlencoded_read_bounded`, `urlencoded_accepts_iff`, `urlencoded_declared_too_large`;
* "never accepts more than max_form_parts parts": `parts_bounded(_decodeChunks)`, `part_guard_exact`, and
  for the returned fields + files `form_parts_bounded`;
* "never reads a body whose declared length exceeds max_content_length": `request_declared_too_large`;
  "nor more than that many bytes of a server-terminated stream": `request_never_overreads`;
* the request-level defaults and the way the limits reach the decoder: `limits_handed_on_unchanged`,
  `request_glue_as_modelled`, `history_parser_limits`, `request_multipart_form`,
  `request_urlencoded_form`, `form_after_get_data`;
* "limits are pure guards": `limits_pure_guard`, `limits_pure_guard_form`, `limits_pure_guard_urlencoded`,
  `request_limits_pure_guard`, and over every access history `history_limits_pure_guard`;
* excluded: `LimitedStream(is_max=True).read()` stopping at the maximum without raising (F09b / F10b).
-/
import WzVerif.Lemmas.FormLimits
import WzVerif.Lemmas.FormLimitsSim
import WzVerif.Lemmas.MultipartSafe
import WzVerif.Lemmas.FormLimitsRequest
import WzVerif.Lemmas.FormLimitsGuard
import WzVerif.Gen.FormGlue
namespace Wz.Props.C10
open Wz Wz.Multipart Wz.Urlencode

/-! ### buffer -/

/-- `receive_data` either raises or leaves at most `max_form_memory_size` bytes in the buffer. -/
theorem receive_respects_limit {d d' : Decoder} {c : Bytes} {m : Nat} (hm : d.maxMem = some m)
    (h : receive d (some c) = .ok d') : d'.buffer.length ≤ m ∧ d'.maxMem = some m := by
  simp only [receive, hm] at h
  split at h
  · simp at h
  · rename_i hle
    simp at h; subst h
    simp only [gt_iff_lt, Nat.not_lt, List.length_append] at hle ⊢
    exact And.intro hle trivial

/-- ... and it raises `RequestEntityTooLarge` exactly when the chunk does not fit. -/
theorem receive_raises_iff {d : Decoder} {c : Bytes} {m : Nat} (hm : d.maxMem = some m) :
    receive d (some c) = .error "RequestEntityTooLarge" ↔ d.buffer.length + c.length > m := by
  simp only [receive, hm]
  split <;> simp_all

/-- `next_event` never grows the buffer (and never touches the limits). -/
theorem nextEvent_never_grows {d d' : Decoder} {ev : Event} (h : nextEvent d = .ok (ev, d')) :
    d'.buffer.length ≤ d.buffer.length ∧ d'.maxMem = d.maxMem ∧ d'.maxParts = d.maxParts := by
  rcases step_ok (nextEvent_ok h) with ⟨⟨_, h2, h3⟩, hb, _⟩
  exact ⟨hb, h2, h3⟩

/-- **buffer_bounded.** For every sequence of `receive_data` / `next_event` calls on a decoder
created with `max_form_memory_size = m`, the buffer never holds more than `m` bytes. -/
theorem buffer_bounded {bnd : Bytes} {m : Nat} {mp : Option Nat} {d : Decoder} {evs : List Event}
    (h : Reach (mkDecoder bnd (some m) mp) d evs) : d.buffer.length ≤ m :=
  (reach_invariant h).2.1 m rfl (by simp [mkDecoder])

/-- the chunk loop of the model (`decodeChunks`: every chunk list) only visits reachable
configurations, so the bound holds in particular after every chunk list -/
theorem buffer_bounded_decodeChunks (bnd : Bytes) (m : Nat) (mp : Option Nat) (chunks : List Bytes) :
    (decodeChunks bnd (some m) mp chunks).dec.buffer.length ≤ m := by
  rcases reach_feedAll chunks _ [] (Reach.init (d0 := mkDecoder bnd (some m) mp)) with ⟨evs, h, _⟩
  exact buffer_bounded h

example : (receive (mkDecoder [98] (some 3) none) (some [1, 2, 3])).toOption.isSome = true ∧
    (receive (mkDecoder [98] (some 3) none) (some [1, 2, 3, 4])).toOption.isSome = false := by
  decide +kernel

/-! ### parts -/

/-- **parts_bounded.** For every operation sequence on a decoder created with `max_parts = k`, at
most `k` Field/File events are ever delivered (the counter equals the number of such events). -/
theorem parts_bounded {bnd : Bytes} {mm : Option Nat} {k : Nat} {d : Decoder} {evs : List Event}
    (h : Reach (mkDecoder bnd mm (some k)) d evs) :
    countParts evs = d.partsDecoded ∧ countParts evs ≤ k := by
  rcases reach_invariant h with ⟨_, _, hp, hq⟩
  have h0 : (mkDecoder bnd mm (some k)).partsDecoded = 0 := rfl
  rw [h0] at hp hq
  have := hq k rfl (Nat.zero_le _)
  omega

/-- for every chunk list: the run reports at most `k` parts -/
theorem parts_bounded_decodeChunks (bnd : Bytes) (mm : Option Nat) (k : Nat) (chunks : List Bytes) :
    countParts (decodeChunks bnd mm (some k) chunks).events ≤ k := by
  rcases reach_feedAll chunks _ [] (Reach.init (d0 := mkDecoder bnd mm (some k))) with ⟨evs, h, hc⟩
  have := (parts_bounded h).2
  simp [countParts] at hc
  simp only [decodeChunks]
  simp only [countParts] at this ⊢
  omega

/-- non-vacuity: two parts with `max_parts = 1` raise, with `max_parts = 2` they are delivered -/
example :
    (decodeChunks (str "b") none (some 1)
      [str "--b\r\nContent-Disposition: form-data; name=\"a\"\r\n\r\n1\r\n--b\r\nContent-Disposition: form-data; name=\"c\"\r\n\r\n2\r\n--b--\r\n"]).err
      = some "RequestEntityTooLarge" ∧
    countParts (decodeChunks (str "b") none (some 2)
      [str "--b\r\nContent-Disposition: form-data; name=\"a\"\r\n\r\n1\r\n--b\r\nContent-Disposition: form-data; name=\"c\"\r\n\r\n2\r\n--b--\r\n"]).events
      = 2 := by
  decide +kernel

/-- **form_parts_bounded.** What `MultiPartParser.parse` *returns* is bounded too: for every body, every
buffer size and every read schedule, if parsing with `max_form_parts = k` succeeds then the number of
fields plus the number of files in the result is at most `k`. (Field/File events and final Data
events alternate — a part is closed before the next one is opened — so every returned item belongs
to a different counted part.) With `request_multipart_form` this bounds `Request.form` + `Request.files`. -/
theorem form_parts_bounded {bnd : Bytes} {mm : Option Nat} {k bufSize : Nat} {sched : List Nat} {body : Bytes}
    {r : List (Option Multipart.Str × Multipart.Str) × List FileItem}
    (h : formParse bnd mm (some k) bufSize sched body = .ok r) : r.1.length + r.2.length ≤ k :=
  formParse_parts_le h

example :
    (formParse (str "b") none (some 2) 7 []
      (str "--b\r\nContent-Disposition: form-data; name=a\r\n\r\n1\r\n--b\r\nContent-Disposition: form-data; name=c; filename=f\r\n\r\n2\r\n--b--\r\n")).toOption =
      some ([(some ['a'], ['1'])], [⟨some ['c'], ['f'], [("Content-Disposition".toList, "form-data; name=c; filename=f".toList)], [50]⟩]) := by
  decide +kernel

/-- **parser_raises_only.** `MultiPartParser.parse` can only raise ValueError (malformed body),
UnicodeDecodeError (a header line that is not UTF-8) or RequestEntityTooLarge (a limit) — for every
body, limits, buffer size and read schedule. (`UNMODELLED` is the model's marker for RFC 2231
`key*=charset''…` parameters, which the options-header model does not interpret; the values the model
uses for Python's AttributeError / UnboundLocalError and for the event bound of its own drain loop are
unreachable.) So with `silent=True` the only exception a form access can show for a multipart body is
RequestEntityTooLarge: a refusal is never disguised and never replaced by another error. -/
theorem parser_raises_only {bnd : Bytes} {mm mp : Option Nat} {bufSize : Nat} {sched : List Nat} {body : Bytes}
    {e : String} (h : formParse bnd mm mp bufSize sched body = .error e) :
    e = "ValueError" ∨ e = "UnicodeDecodeError" ∨ e = "RequestEntityTooLarge" ∨ e = "UNMODELLED" :=
  formParse_raises h

/-! ### accumulated field size -/

/-- **field_bounded (invariant).** While `MultiPartParser.parse` processes events under
`max_form_memory_size = m`, the payload accumulated for the current non-file part equals the running
`field_size` and is at most `m`; every field value is therefore built from at most `m` bytes. -/
theorem field_bounded {m : Nat} (evs : List Event) {st st' : FormState}
    (h : formEvents (some m) st evs = .ok st') (hok : st.FieldOk m) : st'.FieldOk m := by
  induction evs generalizing st with
  | nil => simp [formEvents] at h; subst h; exact hok
  | cons ev t ih =>
    simp only [formEvents] at h
    cases he : formEvent (some m) st ev with
    | error e => rw [he] at h; simp at h
    | ok st2 => rw [he] at h; exact ih h (formEvent_fieldOk he hok)

/-- the initial parser state satisfies the invariant -/
theorem field_bounded_init (m : Nat) : ({} : FormState).FieldOk m := by
  intro p hp; simp at hp

/-- **field_bounded (guard).** A Data event that would take a non-file field above the limit raises
`RequestEntityTooLarge` (413), however the field was spread over earlier Data events. -/
theorem field_too_large_raises {m : Nat} {st : FormState} {p : Part} {x : Bytes} {more : Bool}
    (hok : st.FieldOk m) (hcur : st.cur = some p) (hf : p.isFile = false)
    (hbig : (p.payload ++ x).length > m) :
    formEvent (some m) st (.data x more) = .error "RequestEntityTooLarge" := by
  rcases hok p hcur hf with ⟨hsz, _⟩
  simp only [formEvent, fieldSizeStep, hsz]
  have : p.payload.length + x.length > m := by simpa using hbig
  simp [this]

example :
    (match formEvents (some 3) {} [.field (some ['a']) [], .data [1, 2] true, .data [3, 4] false] with
      | .error e => e == "RequestEntityTooLarge" | .ok _ => false) = true ∧
    (match formEvents (some 4) {} [.field (some ['a']) [], .data [1, 2] true, .data [3, 4] false] with
      | .error _ => false | .ok st => st.fields.length == 1) = true := by
  decide +kernel

/-! ### the guards are exact (both directions at the boundary) -/

/-- **field_guard_exact.** The accumulated-size guard of `MultiPartParser.parse` refuses a Data event of
a non-file field **exactly** when the field would grow above `max_form_memory_size`: a field of exactly
`m` bytes passes, `m + 1` bytes are refused — however the bytes are spread over Data events. (The other
two memory guards are exact as well: `receive_raises_iff` for the decoder buffer,
`urlencoded_accepts_iff` for url-encoded bodies.) -/
theorem field_guard_exact {m : Nat} {st : FormState} {p : Part} (x : Bytes)
    (hok : st.FieldOk m) (hcur : st.cur = some p) (hf : p.isFile = false) :
    (fieldSizeStep (some m) st.fieldSize x.length = .error "RequestEntityTooLarge" ↔ (p.payload ++ x).length > m) ∧
    (fieldSizeStep (some m) st.fieldSize x.length = .ok (some (p.payload ++ x).length) ↔ (p.payload ++ x).length ≤ m) := by
  rcases hok p hcur hf with ⟨hsz, _⟩
  rw [hsz, List.length_append]
  exact fieldSizeStep_exact m p.payload.length x.length

/-- **part_guard_exact.** The part counter refuses **exactly** the `(max_parts + 1)`-th part: whenever
`next_event` without a part limit would deliver a Field / File event, with `max_parts = k` it raises
RequestEntityTooLarge iff `k` parts were already counted, and delivers the same event otherwise. -/
theorem part_guard_exact {d d' : Decoder} {k : Nat} {ev : Event} (hk : d.maxParts = some k)
    (hfree : step { d with maxParts := none } = .ok (ev, d')) (hp : isPart ev = true) :
    (step d = .error "RequestEntityTooLarge" ↔ d.partsDecoded + 1 > k) ∧
    (step d = .ok (ev, { d' with maxParts := some k }) ↔ d.partsDecoded + 1 ≤ k) :=
  step_part_exact hk hfree hp

/-- the boundaries on concrete inputs: a field of exactly 4 bytes passes `max_form_memory_size = 4` when
it is read in small pieces (buffer_size 3: the buffer guard never trips) and 5 bytes do not; exactly two
parts pass `max_form_parts = 2`, a third does not; a url-encoded body of exactly 3 bytes passes
`max_form_memory_size = 3`, 4 bytes do not; a chunk that fills the buffer to exactly the limit is
taken, one byte more is refused -/
example :
    (formEvents (some 4) {} [.field (some ['a']) [], .data [1, 2] true, .data [3, 4] false]).toOption.isSome = true ∧
    (formEvents (some 4) {} [.field (some ['a']) [], .data [1, 2] true, .data [3, 4, 5] false]).toOption.isSome = false ∧
    (decodeChunks (str "b") none (some 2)
      [str "--b\r\nContent-Disposition: form-data; name=a\r\n\r\n1\r\n--b\r\nContent-Disposition: form-data; name=c\r\n\r\n2\r\n--b--\r\n"]).err = none ∧
    (decodeChunks (str "b") none (some 2)
      [str "--b\r\nContent-Disposition: form-data; name=a\r\n\r\n1\r\n--b\r\nContent-Disposition: form-data; name=c\r\n\r\n2\r\n--b\r\nContent-Disposition: form-data; name=d\r\n\r\n3\r\n--b--\r\n"]).err =
      some "RequestEntityTooLarge" ∧
    (parseUrlencoded (some 3) none [] (str "a=b")).toOption = some [(['a'], ['b'])] ∧
    (parseUrlencoded (some 3) none [] (str "a=bc")).toOption = none ∧
    (receive (mkDecoder [98] (some 3) none) (some [1, 2, 3])).toOption.isSome = true ∧
    (receive (mkDecoder [98] (some 3) none) (some [1, 2, 3, 4])).toOption.isSome = false := by
  decide +kernel

/-! ### limits are pure guards -/

/-- **limits_pure_guard (decoder).** For every chunk sequence: if decoding with limits does not
raise, decoding without limits delivers exactly the same events (and does not raise either). -/
theorem limits_pure_guard (bnd : Bytes) (mm mp : Option Nat) (chunks : List Bytes)
    (h : (decodeChunks bnd mm mp chunks).err = none) :
    (decodeChunks bnd none none chunks).events = (decodeChunks bnd mm mp chunks).events ∧
    (decodeChunks bnd none none chunks).err = none := by
  have hu : unl (mkDecoder bnd mm mp) = mkDecoder bnd none none := rfl
  have := feedAll_unl chunks (mkDecoder bnd mm mp) h
  rw [hu] at this
  simp only [decodeChunks]
  rw [this]
  exact ⟨rfl, h⟩

/-- **limits_pure_guard (parser).** For every body, buffer size and read schedule: if
`MultiPartParser.parse` succeeds under limits, it returns the same fields and files without limits. -/
theorem limits_pure_guard_form (bnd : Bytes) (mm mp : Option Nat) (bufSize : Nat) (sched : List Nat)
    (body : Bytes) {r : List (Option Multipart.Str × Multipart.Str) × List FileItem}
    (h : formParse bnd mm mp bufSize sched body = .ok r) :
    formParse bnd none none bufSize sched body = .ok r := by
  unfold formParse at h ⊢
  simp only at h ⊢
  cases hl : formLoop mm (mkDecoder bnd mm mp) {} ((readChunks bufSize body.length sched body).map some ++ [none]) with
  | error e => rw [hl] at h; simp at h
  | ok st =>
    rw [hl] at h
    simp at h; subst h
    rcases formLoop_unl _ hl (st' := {}) ⟨rfl, rfl, rfl⟩ with ⟨st', hl', _, hf, hg⟩
    have hu : unl (mkDecoder bnd mm mp) = mkDecoder bnd none none := rfl
    rw [hu] at hl'
    rw [hl']
    simp [hf, hg]

example :
    (decodeChunks (str "b") (some 70) (some 1)
      [str "--b\r\nContent-Disposition: form-data; name=\"a\"\r\n\r\n1\r\n--b--\r\n"]).err = none := by
  decide +kernel

/-! ### url-encoded bodies: bounded read (as repaired by ad90b07) -/

/-- **urlencoded_read_bounded.** With `max_form_memory_size = m`, `_parse_urlencoded` takes at most
`m + 1` bytes from the stream, for every body and every short-read schedule. -/
theorem urlencoded_read_bounded (m : Nat) (cl : Option Nat) (sched : List Nat) (body : Bytes) :
    (urlencodedRead (some m) cl sched body).2 ≤ m + 1 := by
  simp only [urlencodedRead]
  cases declaredTooLarge m cl with
  | true => simp
  | false =>
    have := boundedLoop_taken (m + 2) (m + 1) sched body []
    simpa using this

/-- **urlencoded_accepts_iff.** Unless the declared length already exceeds the limit, the body is
accepted iff its actual length is at most `m` (whatever was or was not declared), and what is
accepted is the whole body. -/
theorem urlencoded_accepts_iff (m : Nat) (cl : Option Nat) (sched : List Nat) (body : Bytes)
    (hcl : ∀ n, cl = some n → n ≤ m) :
    (urlencodedRead (some m) cl sched body).1 =
      if body.length ≤ m then .ok body else .error "RequestEntityTooLarge" := by
  have hc : declaredTooLarge m cl = false := by
    cases cl with
    | none => rfl
    | some n => have := hcl n rfl; simp [declaredTooLarge]; omega
  simp only [urlencodedRead, hc, Bool.false_eq_true, if_false]
  rw [boundedLoop_result (m + 2) (m + 1) sched body [] (by omega)]
  by_cases h : body.length ≤ m
  · rw [if_pos (by omega), if_pos h]; simp
  · rw [if_neg (by omega), if_neg h]

/-- a declared length above the limit is refused before anything is read -/
theorem urlencoded_declared_too_large (m n : Nat) (sched : List Nat) (body : Bytes) (h : n > m) :
    urlencodedRead (some m) (some n) sched body = (.error "RequestEntityTooLarge", 0) := by
  simp [urlencodedRead, declaredTooLarge, h]

/-- F10 regression: 5002 bytes of body, no declared length, limit 100: refused after 101 bytes -/
example : (urlencodedRead (some 100) none [] (List.replicate 5002 97)).1.toOption = none ∧
    (urlencodedRead (some 100) none [] (List.replicate 5002 97)).2 = 101 ∧
    (urlencodedRead (some 100) none [] (List.replicate 100 97)).1.toOption = some (List.replicate 100 97) := by
  decide +kernel

/-- **limits_pure_guard (url-encoded).** If parsing under the limit succeeds, parsing without limit
gives the same items. -/
theorem limits_pure_guard_urlencoded (m : Nat) (cl : Option Nat) (sched : List Nat) (body : Bytes)
    {r : List (Urlencode.Str × Urlencode.Str)}
    (h : parseUrlencoded (some m) cl sched body = .ok r) :
    parseUrlencoded none cl sched body = .ok r := by
  unfold parseUrlencoded at h ⊢
  cases hr : (urlencodedRead (some m) cl sched body).1 with
  | error e => rw [hr] at h; simp at h
  | ok data =>
    rw [hr] at h
    have hdata : data = body := by
      simp only [urlencodedRead] at hr
      cases hd : declaredTooLarge m cl with
      | true => rw [hd] at hr; simp at hr
      | false =>
        rw [hd] at hr
        simp only [Bool.false_eq_true, if_false] at hr
        rw [boundedLoop_result (m + 2) (m + 1) sched body [] (by omega)] at hr
        split at hr
        · simp at hr; exact hr.symm
        · simp at hr
    subst hdata
    simpa [urlencodedRead] using h

/-! ### the request level: `Request` → `FormDataParser` → `MultiPartParser` → `MultipartDecoder` -/

/-- **The limits are handed on unchanged** (regenerated from wrappers/request.py and formparser.py by
AST on every run). Every call in those two files that passes a keyword named after a limit passes the
attribute / parameter of the same name (`max_parts` of the decoder is fed by `max_form_parts`): the
chain `Request.max_* → make_form_data_parser → FormDataParser → MultiPartParser → MultipartDecoder` and
`Request.stream → get_input_stream`. The only assignments to a limit anywhere in the two files are the
three class defaults of `Request` (None, 500 000 bytes, 1000 parts) and the constructors storing
their parameter; there is no `setattr` / `delattr`. A change that drops, replaces or resets a limit on
the way (for instance only when the body was cached by `get_data()`) changes these tables. -/
theorem limits_handed_on_unchanged :
    (∀ r ∈ Gen.FormGlue.limitPlumbing,
      r.2.2.2 = "self." ++ r.2.2.1 ∨ r.2.2.2 = r.2.2.1 ∨
      (r.2.2.1 = "max_parts" ∧ r.2.2.2 = "self.max_form_parts")) ∧
    Gen.FormGlue.limitPlumbing.map (fun r => (r.1, r.2.1)) =
      [("request:Request.make_form_data_parser", "self.form_data_parser_class"),
       ("request:Request.make_form_data_parser", "self.form_data_parser_class"),
       ("request:Request.make_form_data_parser", "self.form_data_parser_class"),
       ("request:Request.stream", "get_input_stream"),
       ("formparser:parse_form_data", "FormDataParser"),
       ("formparser:parse_form_data", "FormDataParser"),
       ("formparser:parse_form_data", "FormDataParser"),
       ("formparser:FormDataParser.parse_from_environ", "get_input_stream"),
       ("formparser:FormDataParser._parse_multipart", "MultiPartParser"),
       ("formparser:FormDataParser._parse_multipart", "MultiPartParser"),
       ("formparser:MultiPartParser.parse", "MultipartDecoder"),
       ("formparser:MultiPartParser.parse", "MultipartDecoder")] ∧
    Gen.FormGlue.limitAssignments =
      [("request:Request", "max_content_length", "None"),
       ("request:Request", "max_form_memory_size", "500000"),
       ("request:Request", "max_form_parts", "1000"),
       ("formparser:FormDataParser.__init__", "self.max_form_memory_size", "max_form_memory_size"),
       ("formparser:FormDataParser.__init__", "self.max_content_length", "max_content_length"),
       ("formparser:FormDataParser.__init__", "self.max_form_parts", "max_form_parts"),
       ("formparser:MultiPartParser.__init__", "self.max_form_memory_size", "max_form_memory_size"),
       ("formparser:MultiPartParser.__init__", "self.max_form_parts", "max_form_parts")] := by
  refine ⟨by decide +kernel, rfl, rfl⟩

/-- **The request-level glue is the code the model was written for**: the statements (docstrings and
comments dropped, `ast.unparse` normal form) of `Request.want_form_data_parsed`,
`make_form_data_parser`, `_load_form_data`, `_get_stream_for_parsing`, `stream`, `data`, `get_data`,
`form`, `files`, of `FormDataParser.__init__ / parse / _parse_multipart / _parse_urlencoded`, of
`_chunk_iter` and of `MultiPartParser.__init__ / parse`, regenerated from the source on every run.
Model/FormLimitsRequest.lean (`loadForm`, `getData`, `parseDispatch`, …) and the parser loop of
Model/Multipart.lean (`formLoop`, `formEvent`) mirror exactly these statements. -/
theorem request_glue_as_modelled :
    Gen.FormGlue.wantFormDataParsed = [
  "return bool(self.environ.get('CONTENT_TYPE'))"] ∧
    Gen.FormGlue.makeFormDataParser = [
  "return self.form_data_parser_class(stream_factory=self._get_file_stream, max_form_memory_size=self.max_form_memory_size, max_content_length=self.max_content_length, max_form_parts=self.max_form_parts, cls=self.parameter_storage_class)"] ∧
    Gen.FormGlue.loadFormData = [
  "if 'form' in self.__dict__:\n    return",
  "if self.want_form_data_parsed:\n    parser = self.make_form_data_parser()\n    data = parser.parse(self._get_stream_for_parsing(), self.mimetype, self.content_length, self.mimetype_params)\nelse:\n    data = (self.stream, self.parameter_storage_class(), self.parameter_storage_class())",
  "d = self.__dict__",
  "d['stream'], d['form'], d['files'] = data"] ∧
    Gen.FormGlue.getStreamForParsing = [
  "cached_data = getattr(self, '_cached_data', None)",
  "if cached_data is not None:\n    return BytesIO(cached_data)",
  "return self.stream"] ∧
    Gen.FormGlue.streamProperty = [
  "if self.shallow:\n    raise RuntimeError(\"This request was created with 'shallow=True', reading from the input stream is disabled.\")",
  "return get_input_stream(self.environ, max_content_length=self.max_content_length)"] ∧
    Gen.FormGlue.dataProperty = [
  "return self.get_data(parse_form_data=True)"] ∧
    Gen.FormGlue.getData = [
  "rv = getattr(self, '_cached_data', None)",
  "if rv is None:\n    if parse_form_data:\n        self._load_form_data()\n    rv = self.stream.read()\n    if cache:\n        self._cached_data = rv",
  "if as_text:\n    rv = rv.decode(errors='replace')",
  "return rv"] ∧
    Gen.FormGlue.formProperty = [
  "self._load_form_data()",
  "return self.form"] ∧
    Gen.FormGlue.filesProperty = [
  "self._load_form_data()",
  "return self.files"] ∧
    Gen.FormGlue.formDataParserInit = [
  "if stream_factory is None:\n    stream_factory = default_stream_factory",
  "self.stream_factory = stream_factory",
  "self.max_form_memory_size = max_form_memory_size",
  "self.max_content_length = max_content_length",
  "self.max_form_parts = max_form_parts",
  "if cls is None:\n    cls = t.cast('type[MultiDict[str, t.Any]]', MultiDict)",
  "self.cls = cls",
  "self.silent = silent"] ∧
    Gen.FormGlue.formDataParserParse = [
  "if mimetype == 'multipart/form-data':\n    parse_func = self._parse_multipart\nelif mimetype == 'application/x-www-form-urlencoded':\n    parse_func = self._parse_urlencoded\nelse:\n    return (stream, self.cls(), self.cls())",
  "if options is None:\n    options = {}",
  "try:\n    return parse_func(stream, mimetype, content_length, options)\nexcept ValueError:\n    if not self.silent:\n        raise",
  "return (stream, self.cls(), self.cls())"] ∧
    Gen.FormGlue.parseMultipart = [
  "parser = MultiPartParser(stream_factory=self.stream_factory, max_form_memory_size=self.max_form_memory_size, max_form_parts=self.max_form_parts, cls=self.cls)",
  "boundary = options.get('boundary', '').encode('ascii')",
  "if not boundary:\n    raise ValueError('Missing boundary')",
  "form, files = parser.parse(stream, boundary, content_length)",
  "return (stream, form, files)"] ∧
    Gen.FormGlue.parseUrlencoded = [
  "if self.max_form_memory_size is not None and content_length is not None and (content_length > self.max_form_memory_size):\n    raise RequestEntityTooLarge()",
  "if self.max_form_memory_size is None:\n    data = stream.read()\nelse:\n    chunks = []\n    remaining = self.max_form_memory_size + 1\n    while remaining > 0 and (chunk := stream.read(remaining)):\n        chunks.append(chunk)\n        remaining -= len(chunk)\n    if remaining <= 0:\n        raise RequestEntityTooLarge()\n    data = b''.join(chunks)",
  "items = parse_qsl(data.decode(), keep_blank_values=True, errors='werkzeug.url_quote')",
  "return (stream, self.cls(items), self.cls())"] ∧
    Gen.FormGlue.chunkIter = [
  "while True:\n    data = read(size)\n    if not data:\n        break\n    yield data",
  "yield None"] ∧
    Gen.FormGlue.multiPartParserInit = [
  "self.max_form_memory_size = max_form_memory_size",
  "self.max_form_parts = max_form_parts",
  "if stream_factory is None:\n    stream_factory = default_stream_factory",
  "self.stream_factory = stream_factory",
  "if cls is None:\n    cls = t.cast('type[MultiDict[str, t.Any]]', MultiDict)",
  "self.cls = cls",
  "self.buffer_size = buffer_size"] ∧
    Gen.FormGlue.multiPartParserParse = [
  "current_part: Field | File",
  "field_size: int | None = None",
  "container: t.IO[bytes] | list[bytes]",
  "_write: t.Callable[[bytes], t.Any]",
  "parser = MultipartDecoder(boundary, max_form_memory_size=self.max_form_memory_size, max_parts=self.max_form_parts)",
  "fields = []",
  "files = []",
  "for data in _chunk_iter(stream.read, self.buffer_size):\n    parser.receive_data(data)\n    event = parser.next_event()\n    while not isinstance(event, (Epilogue, NeedData)):\n        if isinstance(event, Field):\n            current_part = event\n            field_size = 0\n            container = []\n            _write = container.append\n        elif isinstance(event, File):\n            current_part = event\n            field_size = None\n            container = self.start_file_streaming(event, content_length)\n            _write = container.write\n        elif isinstance(event, Data):\n            if self.max_form_memory_size is not None and field_size is not None:\n                field_size += len(event.data)\n                if field_size > self.max_form_memory_size:\n                    raise RequestEntityTooLarge()\n            _write(event.data)\n            if not event.more_data:\n                if isinstance(current_part, Field):\n                    value = b''.join(container).decode(self.get_part_charset(current_part.headers), 'replace')\n                    fields.append((current_part.name, value))\n                else:\n                    container = t.cast(t.IO[bytes], container)\n                    container.seek(0)\n                    files.append((current_part.name, FileStorage(container, current_part.filename, current_part.name, headers=current_part.headers)))\n        event = parser.next_event()",
  "return (self.cls(fields), self.cls(files))"] := by
  exact ⟨rfl, rfl, rfl, rfl, rfl, rfl, rfl, rfl, rfl, rfl, rfl, rfl, rfl, rfl, rfl, rfl⟩

/-- the read size of the multipart parser at the request level is `MultiPartParser`'s default
`buffer_size` (regenerated from its signature), which `_parse_multipart` does not override
(`request_glue_as_modelled`) -/
theorem parser_buffer_size_as_modelled : Gen.Multipart.parserBufferSize = FormReq.bufferSize := rfl

/-- **history_parser_limits.** For every request configuration, every body and **every access history**
on one `Request` object (`get_data` with any flags, `.data`, `.stream.read()`, `.form`, `.files`,
`.values`, `get_json`, in any order and number): every run of a parse function — whether it reads
the input stream or the bytes cached by an earlier `get_data()` — is given exactly the request's
`max_form_memory_size`, `max_form_parts` and declared content length. -/
theorem history_parser_limits (c : FormReq.Cfg) (body : Bytes) (ops : List FormReq.Op) :
    ∀ k ∈ (FormReq.run c (FormReq.fresh body) ops).2.calls,
      k.mm = c.mm ∧ k.mp = c.mp ∧ k.contentLength = c.declared :=
  FormReq.run_calls ops (w := FormReq.fresh body) (by intro k hk; simp [FormReq.fresh] at hk)

/-- non-vacuity: `get_data()` first, then `.form`: one parser run, from the cache, with the limits; a
50-byte field is refused under `max_form_memory_size = 20` on that path exactly as on the direct one -/
example :
    let c : FormReq.Cfg := ⟨none, some 20, some 1000, .multipart (str "b"), some 108, false⟩
    let body := str "--b\r\nContent-Disposition: form-data; name=\"a\"\r\n\r\nvvvvvvvvvvvvvvvvvvvvvvvvvvvvvvvvvvvvvvvvvvvvvvvvvv\r\n--b--\r\n"
    body.length = 108 ∧
    (FormReq.run c (FormReq.fresh body) [.getData true false, .form]).2.calls = [⟨some 20, some 1000, some 108, true⟩] ∧
    (FormReq.run c (FormReq.fresh body) [.getData true false, .form]).1 = [.bytes body, .exc "RequestEntityTooLarge"] ∧
    (FormReq.run c (FormReq.fresh body) [.form]).1 = [.exc "RequestEntityTooLarge"] := by
  decide +kernel

/-- **request_never_overreads.** With `max_content_length = m` configured, **no access history** takes
more than `m` bytes from `wsgi.input` — whether the length is declared, understated, overstated or
absent, on a server-terminated stream or not, whatever the other limits, the content type and the
body are. (Not terminated: at most the declared length, which is at most `m`, or nothing at all;
terminated: `LimitedStream(…, m, is_max=True)`.) -/
theorem request_never_overreads (c : FormReq.Cfg) (body : Bytes) (ops : List FormReq.Op) {m : Nat}
    (h : c.mcl = some m) : FormReq.taken body (FormReq.run c (FormReq.fresh body) ops).2 ≤ m := by
  rcases FormReq.mcl_cap h with ⟨l, hl, hlm⟩
  have hb := (FormReq.inv_base (FormReq.run_inv ops (FormReq.fresh_inv c body))).2 l hl
  unfold FormReq.taken
  omega

/-- **request_declared_too_large.** A declared length above `max_content_length` makes **every** access
of every history answer RequestEntityTooLarge, and not a single byte is read (the request object stays
as it was created). -/
theorem request_declared_too_large (c : FormReq.Cfg) (body : Bytes) (ops : List FormReq.Op) {n m : Nat}
    (hd : c.declared = some n) (hm : c.mcl = some m) (h : n > m) :
    (FormReq.run c (FormReq.fresh body) ops).1 = ops.map (fun _ => FormReq.Obs.exc "RequestEntityTooLarge") ∧
    FormReq.taken body (FormReq.run c (FormReq.fresh body) ops).2 = 0 := by
  have hc : FormReq.chooseStream c = none := by simp [FormReq.chooseStream, hd, hm, h]
  rw [FormReq.run_tooLarge ops hc ⟨rfl, rfl, rfl, rfl, rfl⟩]
  simp [FormReq.taken, FormReq.fresh]

/-- non-vacuity: 108-byte body declared truthfully, `max_content_length = 100`: five different
accesses, all 413; and the border of the streaming maximum: a server-terminated body of exactly
`max_content_length` bytes is read completely by `get_data()` but refused by the multipart parser (its
read after the last byte finds the stream at the maximum), one byte more room and it parses -/
example :
    let body := str "--b\r\nContent-Disposition: form-data; name=\"a\"\r\n\r\nvvvvvvvvvvvvvvvvvvvvvvvvvvvvvvvvvvvvvvvvvvvvvvvvvv\r\n--b--\r\n"
    (FormReq.run ⟨some 100, none, none, .multipart (str "b"), some 108, false⟩ (FormReq.fresh body)
      [.form, .getData true false, .streamRead, .data, .json true]).1 =
      [.exc "RequestEntityTooLarge", .exc "RequestEntityTooLarge", .exc "RequestEntityTooLarge",
       .exc "RequestEntityTooLarge", .exc "RequestEntityTooLarge"] ∧
    (FormReq.run ⟨some 108, none, none, .multipart (str "b"), none, true⟩ (FormReq.fresh body) [.form]).1 =
      [.exc "RequestEntityTooLarge"] ∧
    (FormReq.run ⟨some 108, none, none, .multipart (str "b"), none, true⟩ (FormReq.fresh body)
      [.getData false false]).1 = [.bytes body] ∧
    (FormReq.run ⟨some 109, none, none, .multipart (str "b"), none, true⟩ (FormReq.fresh body) [.form]).1 =
      [.fields [(some ['a'], List.replicate 50 'v')]] := by
  decide +kernel

/-- **history_form_source.** After **any** access history, a form access (`.form`, `.files`, `.values`)
shows one of exactly three things: the form that an earlier access already loaded; or the parse — by
the parser built from the request's limits — of the bytes an earlier `get_data()` cached (when
`_cached_data` is set `wsgi.input` is not touched again); or the parse of what the request's stream can
still deliver at that moment: the whole body if nothing read it before, what is left (usually nothing,
hence an empty form) if `get_data(cache=False)` or `.stream.read()` consumed it. There is no fourth
source and no other limits. -/
theorem history_form_source (c : FormReq.Cfg) (body : Bytes) (ops : List FormReq.Op) {op : FormReq.Op}
    (h : op.isFormAccess = true) (hm : c.mime ≠ .absent) :
    let w := (FormReq.run c (FormReq.fresh body) ops).2
    (FormReq.stepOp c w op).1 =
      match w.form, w.cached with
      | some r, _ => FormReq.obsOf op (.ok r)
      | none, some d => FormReq.obsOf op (FormReq.parseFrom c (.bio d) w.input).1
      | none, none =>
        match FormReq.getStream c w with
        | .error e => .exc e
        | .ok (s, w1) => FormReq.obsOf op (FormReq.parseFrom c s w1.input).1 := by
  intro w
  cases hf : w.form with
  | some r => exact FormReq.formAccess_loaded c hf h
  | none =>
    cases hcd : w.cached with
    | some d => exact FormReq.formAccess_cached c hcd hf hm h
    | none => exact FormReq.formAccess_stream c hcd hf hm h

/-- the stream was consumed without caching: the form is empty, not an error and not a second parse
of the body -/
example :
    let body := str "--b\r\nContent-Disposition: form-data; name=a\r\n\r\n1\r\n--b--\r\n"
    (FormReq.run ⟨none, some 100, some 5, .multipart (str "b"), some 57, false⟩ (FormReq.fresh body)
      [.getData false false, .form, .getData true false]).1 = [.bytes body, .fields [], .bytes []] ∧
    (FormReq.run ⟨none, some 100, some 5, .multipart (str "b"), some 57, false⟩ (FormReq.fresh body)
      [.data, .form, .streamRead]).1 = [.bytes [], .fields [(some ['a'], ['1'])], .bytes []] := by
  decide +kernel

/-- **form_after_get_data.** Reading the body with `get_data()` (cache=True, any number of times) before
asking for `.form`, `.files` or `.values` changes nothing: for every configuration — **every combination
of the three limits** — whose input stream ends cleanly (`endErr = none`: a declared length that the
body reaches, or a server-terminated body strictly shorter than `max_content_length`, or no maximum),
every content type and every body, the form access shows exactly what it shows on a request that is
asked for the form directly: the same fields / files, or the same RequestEntityTooLarge. In
particular the limits are enforced on the cached bytes exactly as on the stream. -/
theorem form_after_get_data (c : FormReq.Cfg) (body : Bytes) {s0 : FormReq.Strm}
    (hc : FormReq.chooseStream c = some s0) (he : FormReq.endErr s0 body = none) (k : Nat)
    {op : FormReq.Op} (h : op.isFormAccess = true) :
    (FormReq.run c (FormReq.fresh body) (List.replicate (k + 1) (.getData true false) ++ [op])).1 =
      List.replicate (k + 1) (.bytes (FormReq.avail s0 body)) ++ (FormReq.run c (FormReq.fresh body) [op]).1 :=
  FormReq.form_after_get_data_lemma c body hc he k h

/-- the hypothesis is needed: a server-terminated body of exactly `max_content_length` bytes is handed
out by `get_data()` and then parses from the cache, while the direct form access is refused (the
parser's read after the last byte finds the stream at its maximum) -/
theorem form_after_get_data_needs_clean_end :
    ¬ (∀ (c : FormReq.Cfg) (body : Bytes) (s0 : FormReq.Strm), FormReq.chooseStream c = some s0 →
        (FormReq.run c (FormReq.fresh body) [.getData true false, .form]).1 =
          [.bytes (FormReq.avail s0 body)] ++ (FormReq.run c (FormReq.fresh body) [.form]).1) := by
  intro h
  have := h ⟨some 57, none, none, .multipart (str "b"), none, true⟩
    (str "--b\r\nContent-Disposition: form-data; name=a\r\n\r\n1\r\n--b--\r\n") (.limited 57 0 true) (by decide)
  revert this
  decide +kernel

example :
    FormReq.chooseStream ⟨none, some 20, some 1000, .urlencoded, some 5, false⟩ = some (.limited 5 0 false) ∧
    FormReq.endErr (.limited 5 0 false) (str "a=b&c") = none ∧
    FormReq.endErr (.limited 60 0 true) (str "a=b&c") = none ∧
    FormReq.endErr .raw (str "a=b&c") = none ∧
    FormReq.Op.isFormAccess .files = true := by
  decide +kernel

/-- **request_multipart_form.** The first form access on a fresh request with content type
`multipart/form-data; boundary=bnd` whose stream ends cleanly shows `MultiPartParser.parse` — the
parser model of C01 / C10, run with **the request's** `max_form_memory_size` and `max_form_parts` and
64 KiB reads over the bytes the stream delivers — with `silent=True` applied (a ValueError gives the
empty form, RequestEntityTooLarge escapes). All decoder- and parser-level theorems above
(`buffer_bounded`, `parts_bounded`, `field_bounded`, `field_too_large_raises`, `limits_pure_guard_form`)
therefore speak about `Request.form` / `Request.files`. -/
theorem request_multipart_form (c : FormReq.Cfg) (body bnd : Bytes) {s0 : FormReq.Strm}
    (hm : c.mime = .multipart bnd) (hb : bnd ≠ []) (hc : FormReq.chooseStream c = some s0)
    (he : FormReq.endErr s0 body = none) {op : FormReq.Op} (h : op.isFormAccess = true) :
    (FormReq.run c (FormReq.fresh body) [op]).1 =
      [FormReq.obsOf op (FormReq.silence
        (formParse bnd c.mm c.mp FormReq.bufferSize [] (FormReq.avail s0 body)))] := by
  have hne : c.mime ≠ .absent := by rw [hm]; simp
  simp only [FormReq.run]
  rw [FormReq.formAccess_fresh c body hc hne h]
  unfold FormReq.parseFrom
  rw [hm, FormReq.parseDispatch_multipart_fst hb, FormReq.parseMultipartS_clean bnd c.mm c.mp he]

/-- **request_urlencoded_form.** … and with `application/x-www-form-urlencoded` it shows
`_parse_urlencoded` of C10 (`parseUrlencoded`: declared-length check against `max_form_memory_size`,
bounded read, `parse_qsl`) with the request's limit and declared length; `urlencoded_read_bounded`,
`urlencoded_accepts_iff` and `limits_pure_guard_urlencoded` therefore speak about `Request.form`. -/
theorem request_urlencoded_form (c : FormReq.Cfg) (body : Bytes) {s0 : FormReq.Strm}
    (hm : c.mime = .urlencoded) (hc : FormReq.chooseStream c = some s0)
    (he : FormReq.endErr s0 body = none) {op : FormReq.Op} (h : op.isFormAccess = true) :
    (FormReq.run c (FormReq.fresh body) [op]).1 =
      [FormReq.obsOf op (FormReq.silence (FormReq.urlForm
        (parseUrlencoded c.mm c.declared [] (FormReq.avail s0 body))))] := by
  have hne : c.mime ≠ .absent := by rw [hm]; simp
  simp only [FormReq.run]
  rw [FormReq.formAccess_fresh c body hc hne h]
  unfold FormReq.parseFrom
  rw [hm, FormReq.parseDispatch_urlencoded_fst, FormReq.parseUrlencodedS_clean c.mm c.declared he]

/-- **request_limits_pure_guard.** Pure guard at the request level, for either parse function: if the
parser succeeds under the request's limits, then `.form` / `.files` / `.values` show the same result on
the request with the limits and on the same request with all three limits removed (`max_content_length`
included: without it the stream is the same or, on a terminated input, the raw stream). Stated for
streams that end cleanly under the limits; the case excluded by that hypothesis on a server-terminated
input — a body at or above `max_content_length` — is the border of F09b / F10b. -/
theorem request_limits_pure_guard (c : FormReq.Cfg) (body bnd : Bytes) {s0 s1 : FormReq.Strm}
    (hm : c.mime = .multipart bnd) (hb : bnd ≠ [])
    (hc : FormReq.chooseStream c = some s0) (he : FormReq.endErr s0 body = none)
    (hc1 : FormReq.chooseStream { c with mcl := none, mm := none, mp := none } = some s1)
    (he1 : FormReq.endErr s1 body = none) (ha : FormReq.avail s1 body = FormReq.avail s0 body)
    {r : FormReq.FormRes}
    (hok : formParse bnd c.mm c.mp FormReq.bufferSize [] (FormReq.avail s0 body) = .ok r)
    {op : FormReq.Op} (h : op.isFormAccess = true) :
    (FormReq.run c (FormReq.fresh body) [op]).1 = [FormReq.obsOf op (.ok r)] ∧
    (FormReq.run { c with mcl := none, mm := none, mp := none } (FormReq.fresh body) [op]).1 =
      [FormReq.obsOf op (.ok r)] := by
  constructor
  · rw [request_multipart_form c body bnd hm hb hc he h, hok]; rfl
  · rw [request_multipart_form _ body bnd (by simpa using hm) hb hc1 he1 h, ha]
    simp only
    rw [limits_pure_guard_form bnd c.mm c.mp _ _ _ hok]; rfl

/-- non-vacuity of `request_limits_pure_guard`: a 57-byte multipart body on a server-terminated input,
all three limits set and not exceeded; without limits the stream is the raw input, which delivers the
same bytes and ends cleanly -/
example :
    let c : FormReq.Cfg := ⟨some 200, some 100, some 5, .multipart (str "b"), none, true⟩
    let body := str "--b\r\nContent-Disposition: form-data; name=a\r\n\r\n1\r\n--b--\r\n"
    FormReq.chooseStream c = some (.limited 200 0 true) ∧ FormReq.endErr (.limited 200 0 true) body = none ∧
    FormReq.chooseStream { c with mcl := none, mm := none, mp := none } = some .raw ∧
    FormReq.endErr .raw body = none ∧ FormReq.avail .raw body = FormReq.avail (.limited 200 0 true) body ∧
    (formParse (str "b") c.mm c.mp FormReq.bufferSize [] (FormReq.avail (.limited 200 0 true) body)).toOption =
      some ([(some ['a'], ['1'])], []) := by
  decide +kernel

/-- **history_limits_pure_guard.** Limits are pure guards over **every access history**: for every
request configuration — all three limits, any content type, declared length present, absent,
understated or overstated, terminated or not —, every body that on a server-terminated input stays
strictly below `max_content_length` (`Fits`) and every history of accesses on one `Request` object: up
to the first access that answers RequestEntityTooLarge, every access shows exactly what the same access
shows on the same request with all three limits removed — the same bytes, the same fields, the same
files, the same exception. (The proof is a simulation between the two requests in which a run of a
parse function under limits either raises 413 or agrees with the run without limits event for event
and *error for error*, so that `silent=True` cannot turn a difference into an empty form.) -/
theorem history_limits_pure_guard (c : FormReq.Cfg) (body : Bytes) (hf : FormReq.Fits c body)
    (ops : List FormReq.Op) (k : Nat)
    (hno : ∀ o ∈ (FormReq.run c (FormReq.fresh body) ops).1.take k, o ≠ .exc "RequestEntityTooLarge") :
    (FormReq.run c (FormReq.fresh body) ops).1.take k =
      (FormReq.run (FormReq.free c) (FormReq.fresh body) ops).1.take k := by
  rw [← FormReq.run_take, ← FormReq.run_take]
  apply FormReq.run_sim hf (ops.take k) (FormReq.fresh_wsim body)
  rw [FormReq.run_take]
  exact hno

/-- the request without limits really has none, and everything else unchanged -/
theorem free_request (c : FormReq.Cfg) :
    (FormReq.free c).mcl = none ∧ (FormReq.free c).mm = none ∧ (FormReq.free c).mp = none ∧
    (FormReq.free c).mime = c.mime ∧ (FormReq.free c).declared = c.declared ∧
    (FormReq.free c).terminated = c.terminated := ⟨rfl, rfl, rfl, rfl, rfl, rfl⟩

/-- `Fits` is needed, and what it excludes is the known finding (F09b / F10b): on a server-terminated
input a body longer than `max_content_length` is handed out truncated by `get_data()` — no exception,
different bytes than without the limit -/
theorem history_limits_pure_guard_needs_fits :
    ¬ (∀ (c : FormReq.Cfg) (body : Bytes) (ops : List FormReq.Op),
        (∀ o ∈ (FormReq.run c (FormReq.fresh body) ops).1, o ≠ .exc "RequestEntityTooLarge") →
        (FormReq.run c (FormReq.fresh body) ops).1 = (FormReq.run (FormReq.free c) (FormReq.fresh body) ops).1) := by
  intro h
  have := h ⟨some 4, none, none, .other, none, true⟩ (str "abcdefgh") [.getData true false] (by decide +kernel)
  revert this
  decide +kernel

/-- non-vacuity: `Fits` holds for a 57-byte body under a streaming maximum of 60 and whenever the input
is not server-terminated; a five-access history without a 413 -/
example :
    let body := str "--b\r\nContent-Disposition: form-data; name=a\r\n\r\n1\r\n--b--\r\n"
    let c : FormReq.Cfg := ⟨some 60, some 100, some 5, .multipart (str "b"), none, true⟩
    (FormReq.run c (FormReq.fresh body) [.getData true false, .form, .files, .data, .streamRead]).1 =
      [.bytes body, .fields [(some ['a'], ['1'])], .files [], .bytes body, .bytes []] := by
  decide +kernel

example (c : FormReq.Cfg) (body : Bytes) (h : c.terminated = false) : FormReq.Fits c body := by
  intro ht; rw [h] at ht; cases ht

example : FormReq.Fits ⟨some 60, some 100, some 5, .multipart (str "b"), none, true⟩ (List.replicate 57 0) := by
  intro _ m hm
  simp at hm
  subst hm
  decide

end Wz.Props.C10
