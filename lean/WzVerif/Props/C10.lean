/-
C10 — configured form limits are enforced and are pure guards.
Property theorems only (helper lemmas live in Lemmas/FormLimits.lean).

Model: the decoder / parser of Model/Multipart.lean with `max_form_memory_size` (`maxMem`) and
`max_parts` (`maxParts`) as parameters, and `_parse_urlencoded` of Model/Urlencode.lean.
`Reach d0 d evs` = `d` is obtained from `d0` by any sequence of non-raising `receive_data` /
`next_event` calls (the two public mutators), `evs` the events delivered on the way.
Declared-length decisions (Content-Length vs max_content_length) belong to C09's model and are covered
here by the stream oracle only.
-/
import WzVerif.Lemmas.FormLimits
namespace Wz.Props.C10
open Wz Wz.Multipart Wz.Urlencode

/-! ### buffer -/

/-- `receive_data` either raises or leaves at most `max_form_memory_size` bytes in the buffer. -/
theorem receive_respects_limit {d d' : Decoder} {c : Bytes} {m : Nat} (hm : d.maxMem = some m)
    (h : receive d (some c) = .ok d') : d'.buffer.length ≤ m ∧ d'.maxMem = some m := by
  simp only [receive, hm] at h
  split at h
  · simp at h
  · rename_i hle
    simp at h; subst h
    simp only [gt_iff_lt, Nat.not_lt, List.length_append] at hle ⊢
    exact And.intro hle trivial

/-- ... and it raises `RequestEntityTooLarge` exactly when the chunk does not fit. -/
theorem receive_raises_iff {d : Decoder} {c : Bytes} {m : Nat} (hm : d.maxMem = some m) :
    receive d (some c) = .error "RequestEntityTooLarge" ↔ d.buffer.length + c.length > m := by
  simp only [receive, hm]
  split <;> simp_all

/-- `next_event` never grows the buffer (and never touches the limits). -/
theorem nextEvent_never_grows {d d' : Decoder} {ev : Event} (h : nextEvent d = .ok (ev, d')) :
    d'.buffer.length ≤ d.buffer.length ∧ d'.maxMem = d.maxMem ∧ d'.maxParts = d.maxParts := by
  rcases step_ok (nextEvent_ok h) with ⟨⟨_, h2, h3⟩, hb, _⟩
  exact ⟨hb, h2, h3⟩

/-- **buffer_bounded.** For every sequence of `receive_data` / `next_event` calls on a decoder
created with `max_form_memory_size = m`, the buffer never holds more than `m` bytes. -/
theorem buffer_bounded {bnd : Bytes} {m : Nat} {mp : Option Nat} {d : Decoder} {evs : List Event}
    (h : Reach (mkDecoder bnd (some m) mp) d evs) : d.buffer.length ≤ m :=
  (reach_invariant h).2.1 m rfl (by simp [mkDecoder])

/-- the chunk loop of the model (`decodeChunks`: every chunk list) only visits reachable
configurations, so the bound holds in particular after every chunk list -/
theorem buffer_bounded_decodeChunks (bnd : Bytes) (m : Nat) (mp : Option Nat) (chunks : List Bytes) :
    (decodeChunks bnd (some m) mp chunks).dec.buffer.length ≤ m := by
  rcases reach_feedAll chunks _ [] (Reach.init (d0 := mkDecoder bnd (some m) mp)) with ⟨evs, h, _⟩
  exact buffer_bounded h

example : (receive (mkDecoder [98] (some 3) none) (some [1, 2, 3])).toOption.isSome = true ∧
    (receive (mkDecoder [98] (some 3) none) (some [1, 2, 3, 4])).toOption.isSome = false := by
  decide +kernel

/-! ### parts -/

/-- **parts_bounded.** For every operation sequence on a decoder created with `max_parts = k`, at
most `k` Field/File events are ever delivered (the counter equals the number of such events). -/
theorem parts_bounded {bnd : Bytes} {mm : Option Nat} {k : Nat} {d : Decoder} {evs : List Event}
    (h : Reach (mkDecoder bnd mm (some k)) d evs) :
    countParts evs = d.partsDecoded ∧ countParts evs ≤ k := by
  rcases reach_invariant h with ⟨_, _, hp, hq⟩
  have h0 : (mkDecoder bnd mm (some k)).partsDecoded = 0 := rfl
  rw [h0] at hp hq
  have := hq k rfl (Nat.zero_le _)
  omega

/-- for every chunk list: the run reports at most `k` parts -/
theorem parts_bounded_decodeChunks (bnd : Bytes) (mm : Option Nat) (k : Nat) (chunks : List Bytes) :
    countParts (decodeChunks bnd mm (some k) chunks).events ≤ k := by
  rcases reach_feedAll chunks _ [] (Reach.init (d0 := mkDecoder bnd mm (some k))) with ⟨evs, h, hc⟩
  have := (parts_bounded h).2
  simp [countParts] at hc
  simp only [decodeChunks]
  simp only [countParts] at this ⊢
  omega

/-- non-vacuity: two parts with `max_parts = 1` raise, with `max_parts = 2` they are delivered -/
example :
    (decodeChunks (str "b") none (some 1)
      [str "--b\r\nContent-Disposition: form-data; name=\"a\"\r\n\r\n1\r\n--b\r\nContent-Disposition: form-data; name=\"c\"\r\n\r\n2\r\n--b--\r\n"]).err
      = some "RequestEntityTooLarge" ∧
    countParts (decodeChunks (str "b") none (some 2)
      [str "--b\r\nContent-Disposition: form-data; name=\"a\"\r\n\r\n1\r\n--b\r\nContent-Disposition: form-data; name=\"c\"\r\n\r\n2\r\n--b--\r\n"]).events
      = 2 := by
  decide +kernel

/-! ### accumulated field size -/

/-- **field_bounded (invariant).** While `MultiPartParser.parse` processes events under
`max_form_memory_size = m`, the payload accumulated for the current non-file part equals the running
`field_size` and is at most `m`; every field value is therefore built from at most `m` bytes. -/
theorem field_bounded {m : Nat} (evs : List Event) {st st' : FormState}
    (h : formEvents (some m) st evs = .ok st') (hok : st.FieldOk m) : st'.FieldOk m := by
  induction evs generalizing st with
  | nil => simp [formEvents] at h; subst h; exact hok
  | cons ev t ih =>
    simp only [formEvents] at h
    cases he : formEvent (some m) st ev with
    | error e => rw [he] at h; simp at h
    | ok st2 => rw [he] at h; exact ih h (formEvent_fieldOk he hok)

/-- the initial parser state satisfies the invariant -/
theorem field_bounded_init (m : Nat) : ({} : FormState).FieldOk m := by
  intro p hp; simp at hp

/-- **field_bounded (guard).** A Data event that would take a non-file field above the limit raises
`RequestEntityTooLarge` (413), however the field was spread over earlier Data events. -/
theorem field_too_large_raises {m : Nat} {st : FormState} {p : Part} {x : Bytes} {more : Bool}
    (hok : st.FieldOk m) (hcur : st.cur = some p) (hf : p.isFile = false)
    (hbig : (p.payload ++ x).length > m) :
    formEvent (some m) st (.data x more) = .error "RequestEntityTooLarge" := by
  rcases hok p hcur hf with ⟨hsz, _⟩
  simp only [formEvent, fieldSizeStep, hsz]
  have : p.payload.length + x.length > m := by simpa using hbig
  simp [this]

example :
    (match formEvents (some 3) {} [.field (some ['a']) [], .data [1, 2] true, .data [3, 4] false] with
      | .error e => e == "RequestEntityTooLarge" | .ok _ => false) = true ∧
    (match formEvents (some 4) {} [.field (some ['a']) [], .data [1, 2] true, .data [3, 4] false] with
      | .error _ => false | .ok st => st.fields.length == 1) = true := by
  decide +kernel

/-! ### limits are pure guards -/

/-- **limits_pure_guard (decoder).** For every chunk sequence: if decoding with limits does not
raise, decoding without limits delivers exactly the same events (and does not raise either). -/
theorem limits_pure_guard (bnd : Bytes) (mm mp : Option Nat) (chunks : List Bytes)
    (h : (decodeChunks bnd mm mp chunks).err = none) :
    (decodeChunks bnd none none chunks).events = (decodeChunks bnd mm mp chunks).events ∧
    (decodeChunks bnd none none chunks).err = none := by
  have hu : unl (mkDecoder bnd mm mp) = mkDecoder bnd none none := rfl
  have := feedAll_unl chunks (mkDecoder bnd mm mp) h
  rw [hu] at this
  simp only [decodeChunks]
  rw [this]
  exact ⟨rfl, h⟩

/-- **limits_pure_guard (parser).** For every body, buffer size and read schedule: if
`MultiPartParser.parse` succeeds under limits, it returns the same fields and files without limits. -/
theorem limits_pure_guard_form (bnd : Bytes) (mm mp : Option Nat) (bufSize : Nat) (sched : List Nat)
    (body : Bytes) {r : List (Option Multipart.Str × Multipart.Str) × List FileItem}
    (h : formParse bnd mm mp bufSize sched body = .ok r) :
    formParse bnd none none bufSize sched body = .ok r := by
  unfold formParse at h ⊢
  simp only at h ⊢
  cases hl : formLoop mm (mkDecoder bnd mm mp) {} ((readChunks bufSize body.length sched body).map some ++ [none]) with
  | error e => rw [hl] at h; simp at h
  | ok st =>
    rw [hl] at h
    simp at h; subst h
    rcases formLoop_unl _ hl (st' := {}) ⟨rfl, rfl, rfl⟩ with ⟨st', hl', _, hf, hg⟩
    have hu : unl (mkDecoder bnd mm mp) = mkDecoder bnd none none := rfl
    rw [hu] at hl'
    rw [hl']
    simp [hf, hg]

example :
    (decodeChunks (str "b") (some 70) (some 1)
      [str "--b\r\nContent-Disposition: form-data; name=\"a\"\r\n\r\n1\r\n--b--\r\n"]).err = none := by
  decide +kernel

/-! ### url-encoded bodies: bounded read (as repaired by ad90b07) -/

/-- **urlencoded_read_bounded.** With `max_form_memory_size = m`, `_parse_urlencoded` takes at most
`m + 1` bytes from the stream, for every body and every short-read schedule. -/
theorem urlencoded_read_bounded (m : Nat) (cl : Option Nat) (sched : List Nat) (body : Bytes) :
    (urlencodedRead (some m) cl sched body).2 ≤ m + 1 := by
  simp only [urlencodedRead]
  cases declaredTooLarge m cl with
  | true => simp
  | false =>
    have := boundedLoop_taken (m + 2) (m + 1) sched body []
    simpa using this

/-- **urlencoded_accepts_iff.** Unless the declared length already exceeds the limit, the body is
accepted iff its actual length is at most `m` (whatever was or was not declared), and what is
accepted is the whole body. -/
theorem urlencoded_accepts_iff (m : Nat) (cl : Option Nat) (sched : List Nat) (body : Bytes)
    (hcl : ∀ n, cl = some n → n ≤ m) :
    (urlencodedRead (some m) cl sched body).1 =
      if body.length ≤ m then .ok body else .error "RequestEntityTooLarge" := by
  have hc : declaredTooLarge m cl = false := by
    cases cl with
    | none => rfl
    | some n => have := hcl n rfl; simp [declaredTooLarge]; omega
  simp only [urlencodedRead, hc, Bool.false_eq_true, if_false]
  rw [boundedLoop_result (m + 2) (m + 1) sched body [] (by omega)]
  by_cases h : body.length ≤ m
  · rw [if_pos (by omega), if_pos h]; simp
  · rw [if_neg (by omega), if_neg h]

/-- a declared length above the limit is refused before anything is read -/
theorem urlencoded_declared_too_large (m n : Nat) (sched : List Nat) (body : Bytes) (h : n > m) :
    urlencodedRead (some m) (some n) sched body = (.error "RequestEntityTooLarge", 0) := by
  simp [urlencodedRead, declaredTooLarge, h]

/-- F10 regression: 5002 bytes of body, no declared length, limit 100: refused after 101 bytes -/
example : (urlencodedRead (some 100) none [] (List.replicate 5002 97)).1.toOption = none ∧
    (urlencodedRead (some 100) none [] (List.replicate 5002 97)).2 = 101 ∧
    (urlencodedRead (some 100) none [] (List.replicate 100 97)).1.toOption = some (List.replicate 100 97) := by
  decide +kernel

/-- **limits_pure_guard (url-encoded).** If parsing under the limit succeeds, parsing without limit
gives the same items. -/
theorem limits_pure_guard_urlencoded (m : Nat) (cl : Option Nat) (sched : List Nat) (body : Bytes)
    {r : List (Urlencode.Str × Urlencode.Str)}
    (h : parseUrlencoded (some m) cl sched body = .ok r) :
    parseUrlencoded none cl sched body = .ok r := by
  unfold parseUrlencoded at h ⊢
  cases hr : (urlencodedRead (some m) cl sched body).1 with
  | error e => rw [hr] at h; simp at h
  | ok data =>
    rw [hr] at h
    have hdata : data = body := by
      simp only [urlencodedRead] at hr
      cases hd : declaredTooLarge m cl with
      | true => rw [hd] at hr; simp at hr
      | false =>
        rw [hd] at hr
        simp only [Bool.false_eq_true, if_false] at hr
        rw [boundedLoop_result (m + 2) (m + 1) sched body [] (by omega)] at hr
        split at hr
        · simp at hr; exact hr.symm
        · simp at hr
    subst hdata
    simpa [urlencodedRead] using h

end Wz.Props.C10
