/- C10 property theorems (not written yet) -/
namespace Wz.Props.C10
end Wz.Props.C10
